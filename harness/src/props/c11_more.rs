//! C11, continued — bgzipped FASTA through gzi (query sessions), `BufReader`s of any capacity over
//! any refill schedule, and the FASTQ indexer on arbitrary files.
//!
//! Correspondence (suite `c11`, request words `fabgz`, `fabuf`, `fqindexu`; Lean side:
//! `lean/Noodles/Fasta/SeqReader.lean`, `FqIndex.lean`, `DriverC11More.lean`):
//!   fabgz     `fasta::io::IndexedReader<bgzf::io::IndexedReader<Cursor>>`: a session of region
//!             queries on ONE reader over a BGZF layout of the text (members cut by the real
//!             writer at random flushes, at / around line ends, between CR and LF, before a `>`,
//!             one byte per member, empty members anywhere, with / without EOF marker), with the
//!             layout's gzi index (or a thinned / truncated one: correspondence only). Compared per
//!             query: bases / error class and the BGZF reader's virtual position afterwards. (The
//!             numbers of `fill_buf` / `Interrupted` / `consume` calls the sequence reader makes are
//!             counted by a `BufRead` wrapper for the histogram only: they are not observable
//!             through the API, and a refactoring that changes them is not a defect.)
//!   fabuf     `fasta::io::Reader<BufReader<SchedReader>>` with capacity 1..8192 and the delivery
//!             schedules of `adversary::schedule` (one byte, short reads, `Interrupted`, splits at /
//!             around line ends). Compared: bases / error class, stream position afterwards.
//!   fqindexu  `fastq::io::Indexer` on hand-written and generated files: CRLF, no final newline,
//!             empty sequence, long lines, `@` / `+` first in the qualities, `+name` lines,
//!             multi-line records, ragged records, truncation, blank lines, non-UTF-8 names,
//!             trailing whitespace, junk.
//!
//! Oracle (real code only):
//!   bgzf-gzi-session    every answer of a session = slice of the naive parse (start inside the
//!                       sequence), an error or nothing for a start beyond the end
//!   any-buffer          the same through every capacity / schedule
//!   fastq-index-naive   the FASTQ index = the harness's own four-raw-lines-at-a-time parse
//!                       (`split_inclusive` + `chunks(4)`; shares nothing with noodles or the model)
//!   fastq-index-reader  files the FASTQ reader accepts (UTF-8 names): the indexer accepts them, one
//!                       record per record, offsets address the reader's sequence / quality bytes
//!   panic               any panic in the above
use super::c01::{make_member, raw_inflate, split_members, stored_member, EOF};
use super::c11::{fai_regions, gen_file, gen_fq_recs, naive_parse, write_fastq, FqRec, NaiveRec, Reg};
use crate::adversary::{schedule, Delivery, SchedReader};
use crate::common::*;
use noodles_bgzf as bgzf;
use noodles_core::{region::Interval, Position, Region};
use noodles_fasta as fasta;
use noodles_fastq as fastq;
use std::io::{self, BufRead, BufReader, Cursor, Read, Seek, SeekFrom, Write};

// ------------------------------------------------------------------------------------------------
// small helpers (same canonical forms as c11.rs)

fn region(r: &Reg) -> Region {
    let p = |x: u64| Position::try_from(x as usize).unwrap();
    let iv: Interval = match (r.1, r.2) {
        (Some(s), Some(e)) => (p(s)..=p(e)).into(),
        (Some(s), None) => (p(s)..).into(),
        (None, Some(e)) => (..=p(e)).into(),
        (None, None) => (..).into(),
    };
    Region::new(r.0.clone(), iv)
}

fn index_plain(file: &[u8]) -> io::Result<Vec<fasta::fai::Record>> {
    let mut ix = fasta::io::Indexer::new(file);
    let mut out = vec![];
    while let Some(rec) = ix.index_record().map_err(io::Error::from)? {
        out.push(rec);
    }
    Ok(out)
}

fn fmt_index(ix: &[fasta::fai::Record]) -> String {
    if ix.is_empty() {
        return "-".into();
    }
    ix.iter()
        .map(|r| format!("{}:{}:{}:{}:{}", hex(r.name().as_ref()), r.length(), r.position(), r.line_base_count(), r.line_width()))
        .collect::<Vec<_>>()
        .join(",")
}

fn fmt_reg(r: &Reg) -> String {
    let o = |x: Option<u64>| x.map(|v| v.to_string()).unwrap_or("-".into());
    format!("{}:{}:{}", hex(&r.0), o(r.1), o(r.2))
}

fn show_reg(r: &Reg) -> String {
    let o = |x: Option<u64>| x.map(|v| v.to_string()).unwrap_or("".into());
    format!("{}:{}-{}", String::from_utf8_lossy(&r.0), o(r.1), o(r.2))
}

fn show(b: &[u8]) -> String {
    let s: String = b.iter().take(80).map(|&c| if (32..127).contains(&c) && c != b'\\' { (c as char).to_string() } else { format!("\\x{c:02x}") }).collect();
    if b.len() > 80 { format!("\"{s}…\"({} bytes)", b.len()) } else { format!("\"{s}\"") }
}

fn clean(bases: &[u8]) -> bool {
    !bases.iter().any(|&b| b == b'\r' || b == b'>')
}

type QRes = Result<Vec<u8>, String>;

fn fmt_res(r: &QRes) -> String {
    match r {
        Ok(b) => hex(b),
        Err(c) if c.starts_with("panic") => "panic".into(),
        Err(c) => c.clone(),
    }
}

fn to_qres(r: Result<io::Result<fasta::Record>, String>) -> QRes {
    match r {
        Ok(Ok(rec)) => Ok(rec.sequence().as_ref().to_vec()),
        Ok(Err(e)) => Err(errclass(&e).to_string()),
        Err(p) => Err(format!("panic: {p}")),
    }
}

// ------------------------------------------------------------------------------------------------
// a `BufRead + Seek` wrapper that counts what the sequence reader does with its inner reader

#[derive(Default, Clone, Debug)]
struct Calls {
    fills: u64,
    interrupted: u64,
    consumes: u64,
    bytes: u64,
    // branch counters (histogram only)
    win_empty: u64,
    win_gt: u64,
    win_cr_first: u64,
    win_lf_first: u64,
    win_ends_cr_no_lf: u64,
    win_has_lf: u64,
    win_one_byte: u64,
    consume_partial: u64,
}

struct Counting<R> {
    inner: R,
    calls: Calls,
    last_len: usize,
}

impl<R> Counting<R> {
    fn new(inner: R) -> Self {
        Self { inner, calls: Calls::default(), last_len: 0 }
    }
}

impl<R: Read> Read for Counting<R> {
    fn read(&mut self, buf: &mut [u8]) -> io::Result<usize> {
        self.inner.read(buf)
    }
}

impl<R: BufRead> BufRead for Counting<R> {
    fn fill_buf(&mut self) -> io::Result<&[u8]> {
        self.calls.fills += 1;
        match self.inner.fill_buf() {
            Ok(w) => {
                let c = &mut self.calls;
                self.last_len = w.len();
                match w.first() {
                    None => c.win_empty += 1,
                    Some(b'>') => c.win_gt += 1,
                    Some(b'\r') => c.win_cr_first += 1,
                    Some(b'\n') => c.win_lf_first += 1,
                    _ => {}
                }
                if w.len() == 1 {
                    c.win_one_byte += 1;
                }
                if w.contains(&b'\n') {
                    c.win_has_lf += 1;
                } else if w.len() > 1 && w.last() == Some(&b'\r') {
                    c.win_ends_cr_no_lf += 1;
                }
                Ok(w)
            }
            Err(e) => {
                if e.kind() == io::ErrorKind::Interrupted {
                    self.calls.interrupted += 1;
                }
                Err(e)
            }
        }
    }
    fn consume(&mut self, amt: usize) {
        self.calls.consumes += 1;
        self.calls.bytes += amt as u64;
        if amt > 1 && amt < self.last_len {
            self.calls.consume_partial += 1;
        }
        self.inner.consume(amt)
    }
}

impl<R: Seek> Seek for Counting<R> {
    fn seek(&mut self, pos: SeekFrom) -> io::Result<u64> {
        self.inner.seek(pos)
    }
}

fn bump_calls(ctx: &mut Ctx, pfx: &str, c: &Calls) {
    for (k, v) in [
        ("fill_buf", c.fills),
        ("fill_buf_interrupted", c.interrupted),
        ("consume", c.consumes),
        ("window_empty_eof", c.win_empty),
        ("window_starts_gt", c.win_gt),
        ("window_starts_cr", c.win_cr_first),
        ("window_starts_lf", c.win_lf_first),
        ("window_ends_cr_without_lf", c.win_ends_cr_no_lf),
        ("window_has_lf", c.win_has_lf),
        ("window_one_byte", c.win_one_byte),
        ("consume_part_of_window", c.consume_partial),
    ] {
        if v > 0 {
            ctx.bump_by(&format!("{pfx}_{k}"), v);
        }
    }
}

// ------------------------------------------------------------------------------------------------
// BGZF layouts of a text

fn compressed_member(data: &[u8], level: u32) -> Vec<u8> {
    let mut c = flate2::Compress::new(flate2::Compression::new(level), false);
    let mut cd = Vec::with_capacity(data.len() + 1024);
    c.compress_vec(data, &mut cd, flate2::FlushCompress::Finish).unwrap();
    make_member(&cd, crc32(data), data.len() as u32)
}

/// (file, members as (csize, data length)); the data lengths add up to `text.len()`
fn layout_from_cuts(rng: &mut Rng, text: &[u8], cuts: &[usize], empties: u64, eof: bool) -> (Vec<u8>, Vec<(usize, usize)>) {
    let mut gz = vec![];
    let mut lay = vec![];
    let mut at = 0usize;
    let mut ends: Vec<usize> = cuts.iter().copied().filter(|&c| c > 0 && c < text.len()).collect();
    ends.sort();
    ends.dedup();
    ends.push(text.len());
    if empties > 0 && rng.chance(1, 4) {
        gz.extend_from_slice(&EOF);
        lay.push((EOF.len(), 0));
    }
    for e in ends {
        if e > at {
            let d = &text[at..e];
            let m = if rng.chance(1, 2) { stored_member(d) } else { compressed_member(d, 1 + rng.below(9) as u32) };
            lay.push((m.len(), d.len()));
            gz.extend_from_slice(&m);
            at = e;
        }
        if empties > 0 && rng.chance(1, empties) {
            gz.extend_from_slice(&EOF);
            lay.push((EOF.len(), 0));
        }
    }
    if eof {
        gz.extend_from_slice(&EOF);
        lay.push((EOF.len(), 0));
    }
    (gz, lay)
}

/// cut positions of interest: between CR and LF, after a line end (= before the next line / `>`),
/// after a `>`, before a line end
fn structural_cuts(text: &[u8]) -> Vec<usize> {
    let mut v = vec![];
    for (i, &b) in text.iter().enumerate() {
        match b {
            b'\n' => {
                v.push(i); // before the LF (between CR and LF in a CRLF file)
                v.push(i + 1);
                if i > 0 && text[i - 1] == b'\r' {
                    v.push(i - 1);
                }
            }
            b'>' => v.push(i + 1),
            _ => {}
        }
    }
    v
}

fn gen_layout(rng: &mut Rng, text: &[u8]) -> (Vec<u8>, Vec<(usize, usize)>, &'static str) {
    match rng.below(7) {
        0 | 1 => {
            // the real writer, flushed at random places
            let mut w = bgzf::io::Writer::new(Vec::new());
            let maxc = *rng.pick(&[2u64, 5, 17, 60, 500]);
            let mut pos = 0;
            while pos < text.len() {
                let n = (1 + rng.below(maxc) as usize).min(text.len() - pos);
                w.write_all(&text[pos..pos + n]).unwrap();
                pos += n;
                if rng.chance(1, 2) {
                    w.flush().unwrap();
                }
            }
            let gz = w.finish().unwrap();
            let lay = split_members(&gz).unwrap().iter().map(|m| (m.whole.len(), m.isize as usize)).collect();
            (gz, lay, "real-writer-random-flushes")
        }
        2 => {
            let all = structural_cuts(text);
            let cuts: Vec<usize> = all.into_iter().filter(|_| rng.chance(2, 3)).collect();
            let eof = !rng.chance(1, 5);
            let (gz, lay) = layout_from_cuts(rng, text, &cuts, 6, eof);
            (gz, lay, "cuts-at-line-structure")
        }
        3 => {
            let mut cuts: Vec<usize> = structural_cuts(text).into_iter().filter(|_| rng.chance(1, 3)).collect();
            for _ in 0..rng.below(8) {
                cuts.push(rng.below(text.len() as u64 + 1) as usize);
            }
            let eof = !rng.chance(1, 5);
            let (gz, lay) = layout_from_cuts(rng, text, &cuts, 5, eof);
            (gz, lay, "cuts-structure+random")
        }
        4 if text.len() <= 400 => {
            let cuts: Vec<usize> = (1..text.len()).collect();
            let emp = if rng.chance(1, 2) { 9 } else { 0 };
            let (gz, lay) = layout_from_cuts(rng, text, &cuts, emp, true);
            (gz, lay, "one-byte-members")
        }
        5 => {
            let eof = !rng.chance(1, 5);
            let (gz, lay) = layout_from_cuts(rng, text, &[], 0, eof);
            (gz, lay, "single-member")
        }
        _ => {
            let maxc = *rng.pick(&[3u64, 7, 16, 50, 400]);
            let mut cuts = vec![];
            let mut pos = 0usize;
            while pos < text.len() {
                pos += 1 + rng.below(maxc) as usize;
                cuts.push(pos);
            }
            let (gz, lay) = layout_from_cuts(rng, text, &cuts, 9, true);
            (gz, lay, "random-cuts")
        }
    }
}

fn gzi_of(lay: &[(usize, usize)]) -> Vec<(u64, u64)> {
    let mut v = vec![];
    let (mut c, mut u) = (0u64, 0u64);
    for (k, (cs, n)) in lay.iter().enumerate() {
        if k > 0 {
            v.push((c, u));
        }
        c += *cs as u64;
        u += *n as u64;
    }
    v
}

fn layout_traits(ctx: &mut Ctx, text: &[u8], lay: &[(usize, usize)]) {
    let mut u = 0usize;
    let n = lay.len();
    for (k, (_, len)) in lay.iter().enumerate() {
        if k > 0 && u > 0 && u < text.len() {
            if text[u] == b'\n' && text[u - 1] == b'\r' {
                ctx.bump("bgz_member_cut_between_cr_and_lf");
            }
            if text[u] == b'>' {
                ctx.bump("bgz_member_cut_before_gt");
            }
            if text[u - 1] == b'\n' && text[u] != b'>' {
                ctx.bump("bgz_member_cut_at_line_start");
            }
            if text[u - 1] != b'\n' && text[u] != b'\n' && text[u] != b'\r' {
                ctx.bump("bgz_member_cut_inside_line");
            }
        }
        if *len == 0 && k + 1 < n {
            ctx.bump("bgz_empty_member_not_last");
        }
        u += len;
    }
    if lay.last().map(|l| l.1 != 0).unwrap_or(true) {
        ctx.bump("bgz_no_eof_marker");
    }
    ctx.bump(&format!("bgz_members_{}", match n { 0..=1 => "1", 2..=4 => "2-4", 5..=16 => "5-16", 17..=64 => "17-64", _ => "65+" }));
}

// ------------------------------------------------------------------------------------------------
// the oracle on one answer

fn judge(ctx: &mut Ctx, class: &str, what: &str, text: &[u8], naive: &[NaiveRec], r: &Reg, got: &QRes, case: &str) {
    if let Err(c) = got {
        if c.starts_with("panic") {
            ctx.eval(None);
            ctx.fail("panic", format!("query {} on {} {what} panicked: {c}", show_reg(r), show(text)), case.into());
            return;
        }
    }
    let Some(nv) = naive.iter().find(|n| n.name == r.0) else {
        ctx.eval(None);
        if !matches!(got, Err(c) if c.starts_with("err")) {
            ctx.fail(class, format!("region {} names no sequence of {} but the query {what} answered {}", show_reg(r), show(text), fmt_res(got)), case.into());
        }
        return;
    };
    if !clean(&nv.bases) {
        return; // outside the alphabet hypothesis: correspondence only
    }
    let len = nv.bases.len() as u64;
    let s = r.1.unwrap_or(1);
    let e = r.2.unwrap_or(u64::MAX);
    ctx.eval(if len > 1 { Some(fnv(format!("{case} {} {what}", fmt_reg(r)).as_bytes())) } else { None });
    if s <= len {
        let want = &nv.bases[(s - 1) as usize..e.min(len) as usize];
        if got.as_deref() != Ok(want) {
            ctx.fail(class, format!("query {} on {} {what} returned {}, the naive parse says {}", show_reg(r), show(text), match got { Ok(b) => show(b), Err(c) => c.clone() }, show(want)), case.into());
        }
    } else {
        match got {
            Err(_) => {}
            Ok(b) if b.is_empty() => {}
            Ok(b) => ctx.fail(class, format!("query {} on {} {what} (sequence length {len}) returned {} — bytes that are not bases of that sequence", show_reg(r), show(text), show(b)), case.into()),
        }
    }
}

// ------------------------------------------------------------------------------------------------
// fabgz: one session on a bgzipped indexed reader

fn shuffle<T>(rng: &mut Rng, v: &mut Vec<T>) {
    for i in (1..v.len()).rev() {
        let j = rng.below(i as u64 + 1) as usize;
        v.swap(i, j);
    }
}

fn bgz_session(ctx: &mut Ctx, text: &[u8], gz: &[u8], lay: &[(usize, usize)], gzi: &[(u64, u64)], gzi_exact: bool, regs: &[Reg], case: &str, emit_corr: bool) {
    let naive = naive_parse(text);
    let req = format!(
        "c11 fabgz {} {} {} {}",
        hex(text),
        if lay.is_empty() { "-".to_string() } else { lay.iter().map(|(c, n)| format!("{c}:{n}")).collect::<Vec<_>>().join(",") },
        if gzi.is_empty() { "-".to_string() } else { gzi.iter().map(|(c, u)| format!("{c}:{u}")).collect::<Vec<_>>().join(",") },
        if regs.is_empty() { "-".to_string() } else { regs.iter().map(fmt_reg).collect::<Vec<_>>().join(",") }
    );
    let recs = match guarded(|| index_plain(text)) {
        Err(p) => {
            ctx.eval(None);
            ctx.fail("panic", format!("Indexer panicked on {}: {p}", show(text)), case.into());
            return;
        }
        Ok(Err(e)) => {
            ctx.bump(&format!("bgz_index_rejected_{}", errclass(&e)));
            if emit_corr {
                ctx.corr(req, errclass(&e).into());
            }
            return;
        }
        Ok(Ok(r)) => r,
    };
    let index = fasta::fai::Index::from(recs.clone());
    let inner = Counting::new(bgzf::io::IndexedReader::new(Cursor::new(gz.to_vec()), bgzf::gzi::Index::from(gzi.to_vec())));
    let mut rd = fasta::io::IndexedReader::new(inner, index);
    let mut answers = vec![fmt_index(&recs)];
    let mut total = Calls::default();
    for r in regs {
        rd.get_mut().calls = Calls::default();
        let got = to_qres(guarded(|| rd.query(&region(r))));
        let vp = rd.get_ref().inner.virtual_position();
        let calls = rd.get_ref().calls.clone();
        answers.push(format!("{}@{}/{}", fmt_res(&got), vp.compressed(), vp.uncompressed()));
        macro_rules! add { ($($f:ident),*) => { $( total.$f += calls.$f; )* } }
        add!(fills, interrupted, consumes, bytes, win_empty, win_gt, win_cr_first, win_lf_first, win_ends_cr_no_lf, win_has_lf, win_one_byte, consume_partial);
        ctx.bump(&format!("bgz_answer_{}", match &got { Ok(b) if b.is_empty() => "empty".to_string(), Ok(_) => "bases".to_string(), Err(c) => c.split(':').next_back().unwrap_or("?").to_string() }));
        if gzi_exact {
            judge(ctx, "bgzf-gzi-session", "through bgzf + gzi", text, &naive, r, &got, case);
        }
    }
    bump_calls(ctx, "bgz", &total);
    if emit_corr {
        ctx.corr(req, answers.join(" "));
    }
}

fn bgz_generated(ctx: &mut Ctx, sub: u64, emit_corr: bool) {
    let mut rng = Rng::new(sub ^ 0xC11B_6F);
    let (text, _) = gen_file(&mut rng);
    let (gz, lay, lkind) = gen_layout(&mut rng, &text);
    // the layout really is one of the text
    debug_assert_eq!(lay.iter().map(|l| l.1).sum::<usize>(), text.len());
    debug_assert!(split_members(&gz).map(|ms| ms.iter().flat_map(|m| raw_inflate(m.cdata, m.isize as usize).unwrap()).collect::<Vec<u8>>() == text).unwrap_or(false));
    let full = gzi_of(&lay);
    let (gzi, gkind): (Vec<(u64, u64)>, &str) = match rng.below(10) {
        0 => (full.iter().copied().filter(|_| rng.chance(2, 3)).collect(), "thinned"),
        1 => (full[..rng.below(full.len() as u64 + 1) as usize].to_vec(), "truncated"),
        _ => (full.clone(), "exact"),
    };
    let exact = gzi == full;
    let mut regs: Vec<Reg> = fai_regions(&mut rng, &text).into_iter().map(|x| x.0).collect();
    shuffle(&mut rng, &mut regs);
    regs.truncate(14);
    if regs.len() >= 2 && rng.chance(1, 2) {
        // the same query twice in a row, and the first one again at the end
        regs.insert(1, regs[0].clone());
        regs.push(regs[0].clone());
    }
    if emit_corr {
        ctx.bump(&format!("bgz_layout_{lkind}"));
        ctx.bump(&format!("bgz_gzi_{}", if exact { "exact" } else { gkind }));
        layout_traits(ctx, &text, &lay);
    }
    bgz_session(ctx, &text, &gz, &lay, &gzi, exact, &regs, &format!("xbgz {sub}"), emit_corr);
}

/// hand-written layouts: (text, member data lengths (0 = empty member), EOF marker?, queries)
const BGZ_CORPUS: &[(&[u8], &[usize], bool, &[(&[u8], u64, u64)])] = &[
    // CRLF text cut between CR and LF, inside a line, with empty members, one before the `>`
    (b">a\r\nACGT\r\nACGT\r\n\r\n>b x\r\nTT", &[3, 3, 0, 3, 8, 1, 0, 8], true, &[(b"a", 3, 7), (b"a", 1, 8), (b"b", 1, 5), (b"a", 9, 9), (b"a", 8, 100), (b"a", 4, 5), (b"b", 2, 2)]),
    // every byte its own member
    (b">a\nACGT\nAC\n>b\nG\n", &[1, 1, 1, 1, 1, 1, 1, 1, 1, 1, 1, 1, 1, 1, 1, 1], true, &[(b"a", 4, 6), (b"a", 6, 6), (b"b", 1, 1), (b"a", 1, 1), (b"a", 5, 9)]),
    // no EOF marker, last line without newline, member boundary right after the last full line
    (b">a\nACGT\nAC", &[8, 2], false, &[(b"a", 4, 6), (b"a", 5, 5), (b"a", 6, 9), (b"a", 7, 7)]),
    // lone CR at the end in a member of its own; blank trailing line split over two members
    (b">a\nACGT\nAC\r", &[3, 4, 3, 1], true, &[(b"a", 6, 6), (b"a", 4, 9)]),
    (b">a\nACGT\n\r\n>b\nTT\n", &[8, 1, 1, 6], true, &[(b"a", 4, 4), (b"a", 1, 100), (b"b", 1, 2)]),
    // a `>` as the first byte of a member; empty members first
    (b">sq0\nACGT\nAC\n>q1 desc\nTTTTG\n", &[0, 0, 13, 15], true, &[(b"sq0", 5, 20), (b"sq0", 9, 20), (b"q1", 5, 5), (b"sq0", 1, 6), (b"q1", 1, 9)]),
    // single member, whole file
    (b">a\nACGT\nACGT\n>b\nGG\n", &[19], true, &[(b"a", 8, 8), (b"a", 9, 9), (b"a", 4, 5), (b"b", 1, 2)]),
];

fn bgz_corpus(ctx: &mut Ctx, k: usize, emit_corr: bool) {
    let (text, lens, eof, qs) = BGZ_CORPUS[k];
    let mut gz = vec![];
    let mut lay = vec![];
    let mut at = 0;
    for (i, &n) in lens.iter().enumerate() {
        let d = &text[at..at + n];
        let m = if n == 0 { EOF.to_vec() } else if i % 2 == 0 { stored_member(d) } else { compressed_member(d, 6) };
        lay.push((m.len(), n));
        gz.extend_from_slice(&m);
        at += n;
    }
    assert_eq!(at, text.len());
    if eof {
        gz.extend_from_slice(&EOF);
        lay.push((EOF.len(), 0));
    }
    let mut regs: Vec<Reg> = qs.iter().map(|(n, s, e)| (n.to_vec(), Some(*s), Some(*e))).collect();
    for nv in naive_parse(text) {
        regs.push((nv.name.clone(), None, None));
        regs.push((nv.name.clone(), Some(2), None));
    }
    regs.push((b"zz".to_vec(), None, None));
    let gzi = gzi_of(&lay);
    if emit_corr {
        layout_traits(ctx, text, &lay);
    }
    bgz_session(ctx, text, &gz, &lay, &gzi, true, &regs, &format!("xbgzc {k}"), emit_corr);
    // every base on its own, backwards (seeks to earlier members from later ones)
    let mut single: Vec<Reg> = vec![];
    for nv in naive_parse(text) {
        for s in (1..=nv.bases.len() as u64).rev() {
            single.push((nv.name.clone(), Some(s), Some(s)));
        }
    }
    bgz_session(ctx, text, &gz, &lay, &gzi, true, &single, &format!("xbgzc {k}"), emit_corr);
}

// ------------------------------------------------------------------------------------------------
// fabuf: BufReader of any capacity over any schedule

fn fmt_sched(sched: &[Delivery], fallback: usize, len: usize) -> String {
    let mut toks: Vec<String> = vec![];
    let mut i = 0;
    while i < sched.len() {
        let mut j = i;
        while j < sched.len() && sched[j] == sched[i] {
            j += 1;
        }
        let t = match sched[i] {
            Delivery::Chunk(n) => format!("c{}", n.max(1)),
            Delivery::Interrupted => "i".to_string(),
        };
        toks.push(if j - i > 1 { format!("{t}*{}", j - i) } else { t });
        i = j;
    }
    if fallback != usize::MAX {
        toks.push(format!("c{}*{}", fallback, 3 * len + 64));
    }
    if toks.is_empty() { "-".into() } else { toks.join(",") }
}

fn buf_case(ctx: &mut Ctx, text: &[u8], cap: usize, sched: &[Delivery], fallback: usize, regs: &[Reg], case: &str, emit_corr: bool) {
    let naive = naive_parse(text);
    let req = format!(
        "c11 fabuf {} {cap} {} {}",
        hex(text),
        fmt_sched(sched, fallback, text.len()),
        if regs.is_empty() { "-".to_string() } else { regs.iter().map(fmt_reg).collect::<Vec<_>>().join(",") }
    );
    let recs = match guarded(|| index_plain(text)) {
        Err(p) => {
            ctx.eval(None);
            ctx.fail("panic", format!("Indexer panicked on {}: {p}", show(text)), case.into());
            return;
        }
        Ok(Err(e)) => {
            if emit_corr {
                ctx.corr(req, errclass(&e).into());
            }
            return;
        }
        Ok(Ok(r)) => r,
    };
    let index = fasta::fai::Index::from(recs.clone());
    let mut answers = vec![fmt_index(&recs)];
    let mut total = Calls::default();
    for r in regs {
        let inner = Counting::new(BufReader::with_capacity(cap, SchedReader::new(text.to_vec(), sched.to_vec(), fallback)));
        let mut rd = fasta::io::Reader::new(inner);
        let got = to_qres(guarded(|| rd.query(&index, &region(r))));
        let pos = rd.get_mut().inner.stream_position().unwrap_or(u64::MAX);
        let calls = rd.get_ref().calls.clone();
        answers.push(format!("{}@{}", fmt_res(&got), pos));
        macro_rules! add { ($($f:ident),*) => { $( total.$f += calls.$f; )* } }
        add!(fills, interrupted, consumes, bytes, win_empty, win_gt, win_cr_first, win_lf_first, win_ends_cr_no_lf, win_has_lf, win_one_byte, consume_partial);
        judge(ctx, "any-buffer", &format!("through BufReader::with_capacity({cap}, ..) [{}]", case), text, &naive, r, &got, case);
    }
    bump_calls(ctx, "buf", &total);
    if emit_corr {
        ctx.corr(req, answers.join(" "));
    }
}

fn buf_generated(ctx: &mut Ctx, sub: u64, emit_corr: bool) {
    let mut rng = Rng::new(sub ^ 0xC11B_0F);
    let (text, _) = gen_file(&mut rng);
    let cap = *rng.pick(&[1usize, 1, 1, 2, 3, 5, 7, 16, 64, 8192]);
    let boundaries: Vec<usize> = text.iter().enumerate().filter(|x| *x.1 == b'\n').map(|(i, _)| i + 1).collect();
    let kind = rng.below(7) as usize;
    let (sched, fallback, sname) = schedule(&mut rng, kind, text.len(), &boundaries);
    let mut regs: Vec<Reg> = fai_regions(&mut rng, &text).into_iter().map(|x| x.0).collect();
    shuffle(&mut rng, &mut regs);
    regs.truncate(10);
    if emit_corr {
        ctx.bump(&format!("buf_capacity_{cap}"));
        ctx.bump(&format!("buf_schedule_{sname}"));
    }
    buf_case(ctx, &text, cap, &sched, fallback, &regs, &format!("xbuf {sub}"), emit_corr);
}

fn buf_corpus(ctx: &mut Ctx, k: usize, emit_corr: bool) {
    // the hand-written texts of the bgzf corpus, through capacities 1, 2, 3 and an interrupted schedule
    let (text, _, _, qs) = BGZ_CORPUS[k];
    let mut regs: Vec<Reg> = qs.iter().map(|(n, s, e)| (n.to_vec(), Some(*s), Some(*e))).collect();
    for nv in naive_parse(text) {
        regs.push((nv.name.clone(), None, None));
    }
    regs.push((b"zz".to_vec(), Some(1), Some(2)));
    let case = format!("xbufc {k}");
    buf_case(ctx, text, 1, &[], usize::MAX, &regs, &case, emit_corr);
    buf_case(ctx, text, 2, &[], 1, &regs, &case, emit_corr);
    buf_case(ctx, text, 3, &[Delivery::Interrupted, Delivery::Chunk(2), Delivery::Interrupted, Delivery::Interrupted, Delivery::Chunk(1), Delivery::Chunk(3), Delivery::Interrupted], 2, &regs, &case, emit_corr);
    buf_case(ctx, text, 8192, &[], usize::MAX, &regs, &case, emit_corr);
    // interruptions at the end of the stream: the third `fill_buf` of `sequence::Reader::fill_buf`
    // (after `consume_empty_lines` saw two empty windows) and the second one of `consume_empty_lines`
    // can only be interrupted there, where every `fill_buf` is a `read` of the inner reader
    use Delivery::{Chunk as C, Interrupted as I};
    buf_case(ctx, text, 8192, &[C(8192), C(1), C(1), I, C(1), I, I, C(1), C(1), C(1), I], usize::MAX, &regs, &case, emit_corr);
    buf_case(ctx, text, 4, &[C(4), C(4), C(4), C(4), C(4), C(4), C(4), I, C(1), I, C(1), C(1), I, I], usize::MAX, &regs, &case, emit_corr);
}

// ------------------------------------------------------------------------------------------------
// FASTQ indexer

type FqIx = (Vec<u8>, u64, u64, u64, u64, u64);

/// The naive reading: raw lines (with their terminators) four at a time. `None` = not acceptable
/// (a first-of-four line without `@`, or a name that is not UTF-8).
fn fq_naive_index(file: &[u8]) -> Option<Vec<FqIx>> {
    let lines: Vec<&[u8]> = file.split_inclusive(|&b| b == b'\n').collect();
    let mut out = vec![];
    let mut off = 0u64;
    for g in lines.chunks(4) {
        let l = |i: usize| -> &[u8] { g.get(i).copied().unwrap_or(&[]) };
        let l0 = l(0);
        if l0.first() != Some(&b'@') {
            return None;
        }
        let body = &l0[1..];
        let name: &[u8] = match body.iter().position(|&b| b == b' ' || b == b'\t' || b == b'\n') {
            None => body,
            Some(i) if body[i] == b'\n' => body[..i].strip_suffix(b"\r").unwrap_or(&body[..i]),
            Some(i) => &body[..i],
        };
        std::str::from_utf8(name).ok()?;
        let bases = l(1).trim_ascii_end().len() as u64;
        let so = off + l0.len() as u64;
        let qo = so + l(1).len() as u64 + l(2).len() as u64;
        out.push((name.to_vec(), bases, so, bases, l(1).len() as u64, qo));
        off = qo + l(3).len() as u64;
    }
    Some(out)
}

/// the same through a `BufReader` of a small capacity: a name, a sequence or a quality line spans
/// several buffer fills
fn fq_index_real_cap(file: &[u8], cap: usize) -> Result<Result<Vec<FqIx>, String>, String> {
    guarded(|| {
        let mut ix = fastq::io::Indexer::new(io::BufReader::with_capacity(cap, file));
        let mut out = vec![];
        loop {
            match ix.index_record() {
                Ok(Some(r)) => out.push((r.name().as_bytes().to_vec(), r.length(), r.sequence_offset(), r.line_bases(), r.line_width(), r.quality_scores_offset())),
                Ok(None) => return Ok(out),
                Err(e) => return Err(errclass(&e).to_string()),
            }
        }
    })
}

fn fq_index_real(file: &[u8]) -> Result<Result<Vec<FqIx>, String>, String> {
    guarded(|| {
        let mut ix = fastq::io::Indexer::new(file);
        let mut out = vec![];
        loop {
            match ix.index_record() {
                Ok(Some(r)) => out.push((r.name().as_bytes().to_vec(), r.length(), r.sequence_offset(), r.line_bases(), r.line_width(), r.quality_scores_offset())),
                Ok(None) => return Ok(out),
                Err(e) => return Err(errclass(&e).to_string()),
            }
        }
    })
}

fn fmt_fqix(v: &[FqIx]) -> String {
    if v.is_empty() {
        return "-".into();
    }
    v.iter().map(|r| format!("{}:{}:{}:{}:{}:{}", hex(&r.0), r.1, r.2, r.3, r.4, r.5)).collect::<Vec<_>>().join(",")
}

fn fq_case(ctx: &mut Ctx, file: &[u8], kind: &str, case: &str, emit_corr: bool) {
    let real = fq_index_real(file);
    let ans = match &real {
        Ok(Ok(v)) => fmt_fqix(v),
        Ok(Err(c)) => c.clone(),
        Err(_) => "panic".into(),
    };
    if emit_corr {
        ctx.bump(&format!("fq_file_{kind}"));
        ctx.bump(&format!("fq_index_{}", match &real { Ok(Ok(v)) => format!("accepted_{}", v.len().min(4)), Ok(Err(c)) => c.clone(), Err(_) => "panic".into() }));
        ctx.corr(format!("c11 fqindexu {}", hex(file)), ans.clone());
    }
    ctx.eval(if file.len() > 8 { Some(fnv(file)) } else { None });
    let real = match real {
        Err(p) => {
            ctx.fail("panic", format!("fastq Indexer panicked on {}: {p}", show(file)), case.into());
            return;
        }
        Ok(r) => r,
    };
    // (1) the index is the naive four-line reading; every rejection is InvalidData
    let naive = fq_naive_index(file);
    let same = match (&real, &naive) {
        (Ok(v), Some(n)) => v == n,
        (Err(c), None) => c == "err:invalid-data",
        _ => false,
    };
    if !same {
        ctx.fail("fastq-index-naive", format!("fastq Indexer on {} answered {ans}; four raw lines at a time give {}", show(file), naive.as_ref().map(|n| fmt_fqix(n)).unwrap_or("a rejection (InvalidData)".into())), case.into());
        return;
    }
    // (1b) the index does not depend on the buffer size of the source
    for cap in [1usize, 2, 3, 7, 16] {
        ctx.eval(None);
        let small = fq_index_real_cap(file, cap);
        if small != Ok(real.clone()) {
            ctx.fail(
                "fastq-index-buffer-dependent",
                format!("fastq Indexer on {} through a BufReader of capacity {cap} answered {}, on the slice {ans}", show(file), match &small { Ok(Ok(v)) => fmt_fqix(v), Ok(Err(c)) => c.clone(), Err(p) => format!("panic {p}") }),
                case.into(),
            );
            return;
        }
    }
    // (2) against the FASTQ reader
    let rd = guarded(|| fastq::io::Reader::new(file).records().collect::<io::Result<Vec<_>>>());
    ctx.eval(None);
    match rd {
        Err(p) => ctx.fail("panic", format!("fastq Reader panicked on {}: {p}", show(file)), case.into()),
        Ok(Err(e)) => {
            if emit_corr {
                ctx.bump(&format!("fq_reader_{}", errclass(&e)));
            }
        }
        Ok(Ok(rs)) => {
            if emit_corr {
                ctx.bump("fq_reader_accepts");
            }
            if rs.iter().any(|r| std::str::from_utf8(r.name()).is_err()) {
                return;
            }
            let Ok(ix) = &real else {
                ctx.fail("fastq-index-reader", format!("the FASTQ reader accepts {} ({} records, UTF-8 names) but the indexer answers {ans}", show(file), rs.len()), case.into());
                return;
            };
            if ix.len() != rs.len() {
                ctx.fail("fastq-index-reader", format!("the FASTQ reader finds {} records in {}, the index has {}", rs.len(), show(file), ix.len()), case.into());
                return;
            }
            for (r, x) in rs.iter().zip(ix) {
                let (so, qo) = (x.2 as usize, x.5 as usize);
                let sq = r.sequence();
                let ql = r.quality_scores();
                let no_trailing_ws = sq.last().map(|b| !b.is_ascii_whitespace()).unwrap_or(true);
                let ok = x.0 == r.name().to_vec()
                    && file.get(so..so + sq.len()) == Some(sq)
                    && file.get(qo..qo + ql.len()) == Some(ql)
                    && x.3 == x.1
                    && (!no_trailing_ws || x.1 as usize == sq.len())
                    && sq.len() <= x.4 as usize
                    && x.4 as usize <= sq.len() + 2;
                if !ok {
                    ctx.fail("fastq-index-reader", format!("index record {x:?} does not address the reader's record name={} seq={} qual={} in {}", show(r.name()), show(sq), show(ql), show(file)), case.into());
                    break;
                }
            }
        }
    }
}

const FQ_CORPUS: &[&[u8]] = &[
    b"@r0\nACGT\n+\nNDLS\n",
    b"@r0\nACGT\n+\nNDLS\n@r1 LN:4\nNNNNNNNNNN\n+\nNDLSNDLSND\n",
    // CRLF; the `+` line repeats the name; qualities start with `@` / `+`; no final newline
    b"@r0 LN:4\r\nACGT\r\n+r0\r\n@+I+\r\n@r1\nAC\n+\n+@",
    b"@r0\r\nACGT\r\n+\r\nIIII\r\n",
    b"@r0\nACGT\n+\nIIII",
    b"@r0\nACGT\n+\nIIII\r",
    // empty sequence and qualities; empty name; name only; tab separator
    b"@r0\n\n+\n\n@r1\nA\n+\nI\n",
    b"@\nA\n+\nI\n",
    b"@r0",
    b"@r0\r",
    b"@r0\r\n",
    b"@r0\tLN:4 x\nACGT\n+\nIIII\n",
    b"@r0 \nACGT\n+\nIIII\n",
    // trailing whitespace on the sequence line (right-trimmed by the indexer, kept by the reader)
    b"@r0\nACGT \t\n+\nIIII\n",
    b"@r0\nAC GT\x0c\r\n+\nIIII\n",
    b"@r0\n \n+\nI\n",
    // multi-line FASTQ: rejected (fifth raw line is not a definition) / mis-indexed (it starts with `@`)
    b"@r\nAC\nGT\n+\nII\nII\n",
    b"@r\nAC\nGT\n+\n@I\nII\n",
    // ragged: qualities shorter / longer than the sequence; no `+`; the file ends inside a record
    b"@r\nACGT\n+\nII\n@s\nA\n+\nI\n",
    b"@r\nAC\n+\nIIIII\n",
    b"@r\nACGT\n-\nIIII\n",
    b"@r\nAC",
    b"@r\nAC\n",
    b"@r\nAC\n+",
    b"@r\nAC\n+\n",
    // blank lines, leading junk, a FASTA file, nothing
    b"@r\nAC\n+\nII\n\n",
    b"\n@r\nAC\n+\nII\n",
    b"@r\nAC\n+\nII\n\n@s\nA\n+\nI\n",
    b">r\nAC\n",
    b"",
    b"\n",
    b"@",
    // names that are not UTF-8 (lone lead byte, overlong, surrogate, beyond U+10FFFF, truncated) and some that are
    b"@\xc3(\nA\n+\nI\n",
    b"@r\xff\nA\n+\nI\n",
    b"@\xc0\x80\nA\n+\nI\n",
    b"@\xe0\x80\x80\nA\n+\nI\n",
    b"@\xed\xa0\x80\nA\n+\nI\n",
    b"@\xf4\x90\x80\x80\nA\n+\nI\n",
    b"@\xf5\x80\x80\x80\nA\n+\nI\n",
    b"@r\xe2\x82\nA\n+\nI\n",
    b"@r\xe2\x82 d\nA\n+\nI\n",
    b"@\xc3\xa9\nA\n+\nI\n",
    b"@\xe2\x82\xac\xf0\x9f\x98\x80\xed\x9f\xbf\xee\x80\x80\xf4\x8f\xbf\xbf x\nA\n+\nI\n",
    b"@ok\nA\n+\nI\n@\x80\nA\n+\nI\n",
    // a description that is not UTF-8 is fine (only the name is checked)
    b"@r \xff\xfe\nA\n+\nI\n",
];

fn fq_text(rs: &[FqRec], rng: &mut Rng) -> (Vec<u8>, &'static str) {
    // own serializer with the variations the writer cannot produce
    let kind = rng.below(14);
    let crlf_all = kind == 0;
    let crlf_some = kind == 1;
    let wrap = if kind == 2 { Some(1 + rng.below(12) as usize) } else { None };
    let plus_name = kind == 3;
    let trailing_ws = kind == 4;
    let mut f = vec![];
    for (k, (name, desc, seq, qual)) in rs.iter().enumerate() {
        let mut tm = |rng: &mut Rng| -> &'static [u8] { if crlf_all || (crlf_some && rng.chance(1, 2)) { b"\r\n" } else { b"\n" } };
        f.push(b'@');
        f.extend_from_slice(name);
        if !desc.is_empty() {
            f.push(if rng.chance(1, 4) { b'\t' } else { b' ' });
            f.extend_from_slice(desc);
        }
        f.extend_from_slice(tm(rng));
        let put = |f: &mut Vec<u8>, s: &[u8], rng: &mut Rng, tm: &mut dyn FnMut(&mut Rng) -> &'static [u8]| match wrap {
            Some(w) if s.len() > w => {
                for c in s.chunks(w) {
                    f.extend_from_slice(c);
                    f.extend_from_slice(tm(rng));
                }
            }
            _ => {
                f.extend_from_slice(s);
                f.extend_from_slice(tm(rng));
            }
        };
        if trailing_ws && rng.chance(1, 2) {
            let mut s = seq.clone();
            s.extend_from_slice(*rng.pick(&[&b" "[..], b"\t", b"  ", b"\x0c", b" \t "]));
            put(&mut f, &s, rng, &mut tm);
        } else {
            put(&mut f, seq, rng, &mut tm);
        }
        f.push(b'+');
        if plus_name || rng.chance(1, 12) {
            f.extend_from_slice(name);
        }
        f.extend_from_slice(tm(rng));
        put(&mut f, qual, rng, &mut tm);
        if kind == 5 && k + 1 < rs.len() && rng.chance(1, 2) {
            f.extend_from_slice(tm(rng)); // blank line between records
        }
    }
    let label = match kind {
        0 => "crlf",
        1 => "crlf-mixed",
        2 => "multi-line",
        3 => "plus-line-repeats-name",
        4 => "trailing-whitespace",
        5 => "blank-line-between-records",
        6 => {
            f.pop();
            if f.last() == Some(&b'\r') {
                f.pop();
            }
            "no-final-newline"
        }
        7 => {
            f.truncate(rng.below(f.len() as u64 + 1) as usize);
            "truncated"
        }
        8 => {
            // bytes that are / are not UTF-8 inside the first name (right after the `@`)
            let ins: &[u8] = *rng.pick(&[&b"\xc3\xa9"[..], b"\xe2\x82\xac", b"\xf0\x9f\x98\x80", b"\xc3", b"\xff", b"\xc0\xaf", b"\xed\xa0\x80", b"\xe2\x82", b"\xf4\x90\x80\x80", b"\x80"]);
            let at = 1 + rng.below(2) as usize;
            let at = at.min(f.len());
            f.splice(at..at, ins.iter().copied());
            "name-bytes-beyond-ascii"
        }
        9 => {
            if let Some(p) = f.iter().position(|&b| b == b'+') {
                f[p] = b'-';
            }
            "plus-replaced"
        }
        10 => {
            let p = rng.below(f.len() as u64 + 1) as usize;
            if p < f.len() {
                f[p] = *rng.pick(b"@+\n\r >\t");
            }
            "one-byte-replaced"
        }
        11 => {
            f.extend_from_slice(*rng.pick(&[&b"\n"[..], b"\r\n", b"\r", b"@", b"@x", b"@x\nA"]));
            "tail-appended"
        }
        _ => "as-written",
    };
    (f, label)
}

fn fq_generated(ctx: &mut Ctx, sub: u64, emit_corr: bool) {
    let mut rng = Rng::new(sub ^ 0xC11F_0A);
    let mut rs = gen_fq_recs(&mut rng);
    if rng.chance(1, 12) {
        // long lines
        let n = 1000 + rng.below(4000) as usize;
        rs[0].2 = (0..n).map(|_| *rng.pick(b"ACGTN")).collect();
        rs[0].3 = (0..n).map(|_| *rng.pick(b"!#$%&@+IJ")).collect();
    }
    let (file, kind) = if rng.chance(1, 6) {
        // the real writer's output
        match write_fastq(&rs, if rng.chance(1, 3) { b'\t' } else { b' ' }) {
            Ok(f) => (f, "real-writer"),
            Err(_) => return,
        }
    } else if rng.chance(1, 25) {
        let n = rng.below(40) as usize;
        (rng.bytes(n), "random-bytes")
    } else {
        fq_text(&rs, &mut rng)
    };
    fq_case(ctx, &file, kind, &format!("xfq {sub}"), emit_corr);
}

// ------------------------------------------------------------------------------------------------

pub fn replay(ctx: &mut Ctx, case: &[String]) -> bool {
    let sub: u64 = case.get(1).and_then(|s| s.parse().ok()).unwrap_or(0);
    match case.first().map(|s| s.as_str()) {
        Some("xbgz") => bgz_generated(ctx, sub, false),
        Some("xbgzc") if (sub as usize) < BGZ_CORPUS.len() => bgz_corpus(ctx, sub as usize, false),
        Some("xbuf") => buf_generated(ctx, sub, false),
        Some("xbufc") if (sub as usize) < BGZ_CORPUS.len() => buf_corpus(ctx, sub as usize, false),
        Some("xfq") => fq_generated(ctx, sub, false),
        Some("xfqc") if (sub as usize) < FQ_CORPUS.len() => fq_case(ctx, FQ_CORPUS[sub as usize], "corpus", &format!("xfqc {sub}"), false),
        Some("xbgzc") | Some("xbufc") | Some("xfqc") => {}
        _ => return false,
    }
    true
}

pub fn run(ctx: &mut Ctx) {
    for k in 0..BGZ_CORPUS.len() {
        bgz_corpus(ctx, k, true);
        buf_corpus(ctx, k, true);
    }
    for k in 0..FQ_CORPUS.len() {
        fq_case(ctx, FQ_CORPUS[k], "corpus", &format!("xfqc {k}"), true);
    }
    let n = ctx.n(260, 12_000);
    for it in 0..n {
        let sub = ctx.seed.wrapping_mul(11_100_043).wrapping_add(it);
        bgz_generated(ctx, sub, true);
    }
    let n = ctx.n(260, 12_000);
    for it in 0..n {
        let sub = ctx.seed.wrapping_mul(11_100_071).wrapping_add(it);
        buf_generated(ctx, sub, true);
    }
    let n = ctx.n(500, 30_000);
    for it in 0..n {
        let sub = ctx.seed.wrapping_mul(11_100_101).wrapping_add(it);
        fq_generated(ctx, sub, true);
    }
}
