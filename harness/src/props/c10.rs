//! C10 — BCF typed encoding round-trips every value; BCF ≡ VCF.
//!
//! One *case* is a header (dictionary with arbitrary IDX assignments, `Number`/`Type` of every
//! INFO / FORMAT key, sample count, file format 4.3 / 4.4) plus one record in a structured form
//! (`Rec`). The record is turned into a `vcf::variant::RecordBuf`, written by the real
//! `bcf::io::Writer` (uncompressed sink), and read back by `read_record_buf` (eager) and by
//! `read_record` + the lazy `bcf::Record` accessors.
//!
//!  * correspondence (`c10 rec …`): the writer's record bytes and the canonical rendering of what
//!    the eager and the lazy reader return, against the Lean model (`Noodles/Bcf/*.lean`);
//!    `c10 dec …`: hand-framed record bytes through both readers;
//!  * oracle: (a) eager and lazy values equal the written values up to the normal form that the
//!    VCF text cannot distinguish, computed by this file's own code; (b) the VCF text of the
//!    original `RecordBuf`, of the eager `RecordBuf` and of the lazy `bcf::Record` (all rendered by
//!    the real VCF writer) are equal; (c) the reader's string maps equal the writer's; (d) an
//!    integer that BCF cannot represent is a writer error; no panic anywhere.
use crate::common::*;
use noodles_bcf as bcf;
use noodles_core::Position;
use noodles_vcf as vcf;
use std::fmt::Write as _;
use vcf::variant::io::Write as _;

// ------------------------------------------------------------------------------------ case data

#[derive(Clone, Debug, PartialEq)]
pub enum Val {
    None,
    Flag,
    Int(i32),
    Float(u32),
    Char(u8),
    Str(Vec<u8>),
    Ints(Vec<Option<i32>>),
    Floats(Vec<Option<u32>>),
    Chars(Vec<Option<u8>>),
    Strs(Vec<Option<Vec<u8>>>),
    Gt(Vec<(Option<usize>, bool)>),
}

#[derive(Clone, Debug, PartialEq)]
pub struct Def {
    kind: char, // C contig, I info, F filter, G format
    name: String,
    idx: Option<usize>,
    num: &'static str, // VCF Number text: 0 1 2 3 A R G .
    ty: char,          // i f b c s
}

#[derive(Clone, Debug, PartialEq)]
pub struct Hdr {
    v44: bool,
    samples: usize,
    defs: Vec<Def>,
}

#[derive(Clone, Debug, PartialEq)]
pub struct Rec {
    chrom: String,
    pos: usize, // 0 = missing (telomere)
    qual: Option<u32>,
    ids: Vec<String>,
    refb: String,
    alts: Vec<String>,
    filters: Vec<String>,
    info: Vec<(String, Val)>,
    keys: Vec<String>,
    rows: Vec<Vec<Val>>,
}

fn num_class(n: &str) -> &'static str {
    match n {
        "0" => "0",
        "1" => "1",
        _ => "n",
    }
}

// ------------------------------------------------------------------------------------ wire text

fn fmt_elems<T>(xs: &[Option<T>], f: impl Fn(&T) -> String) -> String {
    format!("[{}]", xs.iter().map(|x| x.as_ref().map(&f).unwrap_or_else(|| ".".into())).collect::<Vec<_>>().join(","))
}

fn hexs(b: &[u8]) -> String {
    if b.is_empty() { String::new() } else { hex(b) }
}

fn fmt_val(v: &Val) -> String {
    match v {
        Val::None => "~".into(),
        Val::Flag => "!".into(),
        Val::Int(n) => format!("i{n}"),
        Val::Float(b) => format!("f{b:08x}"),
        Val::Char(c) => format!("c{c:02x}"),
        Val::Str(s) => format!("s{}", hexs(s)),
        Val::Ints(xs) => format!("I{}", fmt_elems(xs, |n| n.to_string())),
        Val::Floats(xs) => format!("F{}", fmt_elems(xs, |b| format!("{b:08x}"))),
        Val::Chars(xs) => format!("C{}", fmt_elems(xs, |c| format!("{c:02x}"))),
        Val::Strs(xs) => format!("S{}", fmt_elems(xs, |s| hexs(s))),
        Val::Gt(g) => {
            let mut s = String::from("G");
            for (p, ph) in g {
                s.push(if *ph { 'p' } else { 'u' });
                match p {
                    Some(p) => {
                        let _ = write!(s, "{p}");
                    }
                    None => s.push('x'),
                }
            }
            s
        }
    }
}

fn dash_join(sep: &str, xs: &[String]) -> String {
    if xs.is_empty() { "-".into() } else { xs.join(sep) }
}

fn fmt_rec(r: &Rec) -> String {
    let info = dash_join(";", &r.info.iter().map(|(k, v)| format!("{k}={}", fmt_val(v))).collect::<Vec<_>>());
    let fmt = if r.keys.is_empty() && r.rows.iter().all(|x| x.is_empty()) {
        "-".to_string()
    } else {
        let mut parts = vec![r.keys.join(":")];
        for row in &r.rows {
            parts.push(row.iter().map(fmt_val).collect::<Vec<_>>().join(":"));
        }
        parts.join("/")
    };
    format!(
        "{} {} {} {} {} {} {} {} {}",
        r.chrom,
        r.pos,
        r.qual.map(|q| format!("{q:08x}")).unwrap_or_else(|| "-".into()),
        hex(r.ids.join(";").as_bytes()),
        hex(r.refb.as_bytes()),
        dash_join(",", &r.alts.iter().map(|a| hex(a.as_bytes())).collect::<Vec<_>>()),
        dash_join(";", &r.filters),
        info,
        fmt
    )
}

fn fmt_dict(h: &Hdr) -> String {
    let ents: Vec<String> = ['C', 'I', 'F', 'G']
        .iter()
        .flat_map(|k| h.defs.iter().filter(move |d| d.kind == *k))
        .map(|d| {
            let idx = d.idx.map(|i| i.to_string()).unwrap_or_else(|| "-".into());
            match d.kind {
                'C' | 'F' => format!("{}/{}/{}", d.kind, d.name, idx),
                _ => format!("{}/{}/{}/{}/{}", d.kind, d.name, idx, num_class(d.num), d.ty),
            }
        })
        .collect();
    dash_join(",", &ents)
}

fn fmt_hdr_words(h: &Hdr) -> String {
    format!("{} {} {}", if h.v44 { 44 } else { 43 }, h.samples, fmt_dict(h))
}

// ------------------------------------------------------------------------------------ to noodles

fn header_text(h: &Hdr) -> String {
    let mut s = format!("##fileformat=VCFv4.{}\n", if h.v44 { 4 } else { 3 });
    for k in ['I', 'F', 'G', 'C'] {
        for d in h.defs.iter().filter(|d| d.kind == k) {
            let idx = d.idx.map(|i| format!(",IDX={i}")).unwrap_or_default();
            let ty = match d.ty {
                'i' => "Integer",
                'f' => "Float",
                'b' => "Flag",
                'c' => "Character",
                _ => "String",
            };
            match k {
                'I' => {
                    let _ = writeln!(s, "##INFO=<ID={},Number={},Type={},Description=\"d\"{}>", d.name, d.num, ty, idx);
                }
                'G' => {
                    let _ = writeln!(s, "##FORMAT=<ID={},Number={},Type={},Description=\"d\"{}>", d.name, d.num, ty, idx);
                }
                'F' => {
                    let _ = writeln!(s, "##FILTER=<ID={},Description=\"d\"{}>", d.name, idx);
                }
                _ => {
                    let _ = writeln!(s, "##contig=<ID={},length=2147483647{}>", d.name, idx);
                }
            }
        }
    }
    s.push_str("#CHROM\tPOS\tID\tREF\tALT\tQUAL\tFILTER\tINFO");
    if h.samples > 0 {
        s.push_str("\tFORMAT");
        for i in 0..h.samples {
            let _ = write!(s, "\ts{i}");
        }
    }
    s.push('\n');
    s
}

fn parse_header(h: &Hdr) -> Result<vcf::Header, String> {
    let text = header_text(h);
    let mut r = vcf::io::Reader::new(text.as_bytes());
    r.read_header().map_err(|e| format!("header: {e}"))
}

fn sv(b: &[u8]) -> String {
    String::from_utf8_lossy(b).into_owned()
}

fn info_value(v: &Val) -> Option<vcf::variant::record_buf::info::field::Value> {
    use vcf::variant::record_buf::info::field::Value as V;
    Some(match v {
        Val::None => return None,
        Val::Flag => V::Flag,
        Val::Int(n) => V::from(*n),
        Val::Float(b) => V::from(f32::from_bits(*b)),
        Val::Char(c) => V::from(*c as char),
        Val::Str(s) => V::from(sv(s)),
        Val::Ints(xs) => V::from(xs.clone()),
        Val::Floats(xs) => V::from(xs.iter().map(|x| x.map(f32::from_bits)).collect::<Vec<_>>()),
        Val::Chars(xs) => V::from(xs.iter().map(|x| x.map(|c| c as char)).collect::<Vec<_>>()),
        Val::Strs(xs) => V::from(xs.iter().map(|x| x.as_ref().map(|s| sv(s))).collect::<Vec<_>>()),
        Val::Gt(_) => return None,
    })
}

fn sample_value(v: &Val) -> Option<vcf::variant::record_buf::samples::sample::Value> {
    use vcf::variant::record::samples::series::value::genotype::Phasing;
    use vcf::variant::record_buf::samples::sample::{value::genotype::Allele, value::Genotype, Value as V};
    Some(match v {
        Val::None | Val::Flag => return None,
        Val::Int(n) => V::from(*n),
        Val::Float(b) => V::from(f32::from_bits(*b)),
        Val::Char(c) => V::from(*c as char),
        Val::Str(s) => V::from(sv(s)),
        Val::Ints(xs) => V::from(xs.clone()),
        Val::Floats(xs) => V::from(xs.iter().map(|x| x.map(f32::from_bits)).collect::<Vec<_>>()),
        Val::Chars(xs) => V::from(xs.iter().map(|x| x.map(|c| c as char)).collect::<Vec<_>>()),
        Val::Strs(xs) => V::from(xs.iter().map(|x| x.as_ref().map(|s| sv(s))).collect::<Vec<_>>()),
        Val::Gt(g) => V::Genotype(
            g.iter().map(|(p, ph)| Allele::new(*p, if *ph { Phasing::Phased } else { Phasing::Unphased })).collect::<Genotype>(),
        ),
    })
}

fn to_record_buf(r: &Rec) -> vcf::variant::RecordBuf {
    use vcf::variant::record_buf::{AlternateBases, Samples};
    let mut b = vcf::variant::RecordBuf::builder()
        .set_reference_sequence_name(r.chrom.clone())
        .set_ids(r.ids.iter().cloned().collect())
        .set_reference_bases(r.refb.clone())
        .set_alternate_bases(AlternateBases::from(r.alts.clone()))
        .set_filters(r.filters.iter().cloned().collect())
        .set_info(r.info.iter().map(|(k, v)| (k.clone(), info_value(v))).collect())
        .set_samples(Samples::new(r.keys.iter().cloned().collect(), r.rows.iter().map(|row| row.iter().map(sample_value).collect()).collect()));
    if r.pos > 0 {
        b = b.set_variant_start(Position::new(r.pos).unwrap());
    }
    if let Some(q) = r.qual {
        b = b.set_quality_score(f32::from_bits(q));
    }
    let mut rb = b.build();
    if r.pos == 0 {
        // the builder's default is position 1
        *rb.variant_start_mut() = None;
    }
    rb
}

// ------------------------------------------------------------------------------------ from noodles

fn from_info_buf(v: Option<&vcf::variant::record_buf::info::field::Value>) -> Val {
    use vcf::variant::record_buf::info::field::{value::Array as A, Value as V};
    match v {
        None => Val::None,
        Some(V::Integer(n)) => Val::Int(*n),
        Some(V::Float(f)) => Val::Float(f.to_bits()),
        Some(V::Flag) => Val::Flag,
        Some(V::Character(c)) => Val::Char(*c as u8),
        Some(V::String(s)) => Val::Str(s.as_bytes().to_vec()),
        Some(V::Array(A::Integer(xs))) => Val::Ints(xs.clone()),
        Some(V::Array(A::Float(xs))) => Val::Floats(xs.iter().map(|x| x.map(f32::to_bits)).collect()),
        Some(V::Array(A::Character(xs))) => Val::Chars(xs.iter().map(|x| x.map(|c| c as u8)).collect()),
        Some(V::Array(A::String(xs))) => Val::Strs(xs.iter().map(|x| x.as_ref().map(|s| s.as_bytes().to_vec())).collect()),
    }
}

fn from_sample_buf(v: Option<&vcf::variant::record_buf::samples::sample::Value>) -> Val {
    use vcf::variant::record::samples::series::value::genotype::Phasing;
    use vcf::variant::record_buf::samples::sample::{value::Array as A, Value as V};
    match v {
        None => Val::None,
        Some(V::Integer(n)) => Val::Int(*n),
        Some(V::Float(f)) => Val::Float(f.to_bits()),
        Some(V::Character(c)) => Val::Char(*c as u8),
        Some(V::String(s)) => Val::Str(s.as_bytes().to_vec()),
        Some(V::Genotype(g)) => Val::Gt(g.as_ref().iter().map(|a| (a.position(), a.phasing() == Phasing::Phased)).collect()),
        Some(V::Array(A::Integer(xs))) => Val::Ints(xs.clone()),
        Some(V::Array(A::Float(xs))) => Val::Floats(xs.iter().map(|x| x.map(f32::to_bits)).collect()),
        Some(V::Array(A::Character(xs))) => Val::Chars(xs.iter().map(|x| x.map(|c| c as u8)).collect()),
        Some(V::Array(A::String(xs))) => Val::Strs(xs.iter().map(|x| x.as_ref().map(|s| s.as_bytes().to_vec())).collect()),
    }
}

fn from_record_buf(rb: &vcf::variant::RecordBuf) -> Rec {
    Rec {
        chrom: rb.reference_sequence_name().to_string(),
        pos: rb.variant_start().map(usize::from).unwrap_or(0),
        qual: rb.quality_score().map(f32::to_bits),
        ids: rb.ids().as_ref().iter().cloned().collect(),
        refb: rb.reference_bases().to_string(),
        alts: rb.alternate_bases().as_ref().to_vec(),
        filters: rb.filters().as_ref().iter().cloned().collect(),
        info: rb.info().as_ref().iter().map(|(k, v)| (k.clone(), from_info_buf(v.as_ref()))).collect(),
        keys: rb.samples().keys().as_ref().iter().cloned().collect(),
        rows: rb.samples().values().map(|s| s.values().iter().map(|v| from_sample_buf(v.as_ref())).collect()).collect(),
    }
}

type R<T> = Result<T, String>;
fn es<E: std::fmt::Display>(e: E) -> String {
    e.to_string()
}

fn from_lazy_info(v: Option<vcf::variant::record::info::field::Value<'_>>) -> R<Val> {
    use vcf::variant::record::info::field::{value::Array as A, Value as V};
    Ok(match v {
        None => Val::None,
        Some(V::Integer(n)) => Val::Int(n),
        Some(V::Float(f)) => Val::Float(f.to_bits()),
        Some(V::Flag) => Val::Flag,
        Some(V::Character(c)) => Val::Char(c as u8),
        Some(V::String(s)) => Val::Str(s.as_bytes().to_vec()),
        Some(V::Array(A::Integer(xs))) => Val::Ints(xs.iter().collect::<std::io::Result<_>>().map_err(es)?),
        Some(V::Array(A::Float(xs))) => Val::Floats(xs.iter().map(|x| x.map(|o| o.map(f32::to_bits))).collect::<std::io::Result<_>>().map_err(es)?),
        Some(V::Array(A::Character(xs))) => Val::Chars(xs.iter().map(|x| x.map(|o| o.map(|c| c as u8))).collect::<std::io::Result<_>>().map_err(es)?),
        Some(V::Array(A::String(xs))) => Val::Strs(xs.iter().map(|x| x.map(|o| o.map(|s| s.as_bytes().to_vec()))).collect::<std::io::Result<_>>().map_err(es)?),
    })
}

fn from_lazy_sample(v: Option<vcf::variant::record::samples::series::Value<'_>>) -> R<Val> {
    use vcf::variant::record::samples::series::value::genotype::Phasing;
    use vcf::variant::record::samples::series::{value::Array as A, Value as V};
    Ok(match v {
        None => Val::None,
        Some(V::Integer(n)) => Val::Int(n),
        Some(V::Float(f)) => Val::Float(f.to_bits()),
        Some(V::Character(c)) => Val::Char(c as u8),
        Some(V::String(s)) => Val::Str(s.as_bytes().to_vec()),
        Some(V::Genotype(g)) => Val::Gt(g.iter().map(|x| x.map(|(p, ph)| (p, ph == Phasing::Phased))).collect::<std::io::Result<_>>().map_err(es)?),
        Some(V::Array(A::Integer(xs))) => Val::Ints(xs.iter().collect::<std::io::Result<_>>().map_err(es)?),
        Some(V::Array(A::Float(xs))) => Val::Floats(xs.iter().map(|x| x.map(|o| o.map(f32::to_bits))).collect::<std::io::Result<_>>().map_err(es)?),
        Some(V::Array(A::Character(xs))) => Val::Chars(xs.iter().map(|x| x.map(|o| o.map(|c| c as u8))).collect::<std::io::Result<_>>().map_err(es)?),
        Some(V::Array(A::String(xs))) => Val::Strs(xs.iter().map(|x| x.map(|o| o.map(|s| s.as_bytes().to_vec()))).collect::<std::io::Result<_>>().map_err(es)?),
    })
}

/// walk every lazy accessor of a `bcf::Record`
fn from_lazy(rec: &bcf::Record, header: &vcf::Header) -> R<Rec> {
    use vcf::variant::record::{AlternateBases as _, Filters as _, Ids as _, Info as _, ReferenceBases as _};
    let chrom = rec.reference_sequence_name(header.string_maps()).map_err(es)?.to_string();
    let pos = match rec.variant_start() {
        None => 0,
        Some(p) => usize::from(p.map_err(es)?),
    };
    let qual = rec.quality_score().map_err(es)?.map(f32::to_bits);
    let ids: Vec<String> = rec.ids().iter().map(String::from).collect();
    let refb = String::from_utf8(rec.reference_bases().iter().collect::<std::io::Result<Vec<u8>>>().map_err(es)?).map_err(es)?;
    let alts = rec.alternate_bases().iter().map(|a| a.map(String::from)).collect::<std::io::Result<Vec<_>>>().map_err(es)?;
    let filters = rec.filters().iter(header).map(|f| f.map(String::from)).collect::<std::io::Result<Vec<_>>>().map_err(es)?;
    let mut info = vec![];
    let inf = rec.info();
    for x in inf.iter(header) {
        let (k, v) = x.map_err(es)?;
        info.push((k.to_string(), from_lazy_info(v)?));
    }
    let samples = rec.samples().map_err(es)?;
    let n = header.sample_names().len();
    let mut keys = vec![];
    let mut rows: Vec<Vec<Val>> = vec![vec![]; n];
    for s in samples.series() {
        let s = s.map_err(es)?;
        keys.push(s.name(header).map_err(es)?.to_string());
        for (i, row) in rows.iter_mut().enumerate() {
            match s.get(header, i) {
                None => return Err("series.get out of range".into()),
                Some(None) => row.push(Val::None),
                Some(Some(v)) => row.push(from_lazy_sample(Some(v.map_err(es)?))?),
            }
        }
    }
    Ok(Rec { chrom, pos, qual, ids, refb, alts, filters, info, keys, rows })
}

// ------------------------------------------------------------------------------------ normal form

/// implicit first-allele phasing of VCF < 4.4: phased iff every following allele is phased
fn norm_gt(g: &[(Option<usize>, bool)], v44: bool) -> Vec<(Option<usize>, bool)> {
    let mut g = g.to_vec();
    if !v44 && !g.is_empty() {
        g[0].1 = g[1..].iter().all(|a| a.1);
    }
    g
}

/// what the VCF text cannot distinguish: a vector that is exactly `[missing]` = a missing value;
/// an empty genotype = a missing value; first-allele phasing before 4.4.
fn norm_val(v: &Val, v44: bool) -> Val {
    match v {
        Val::Ints(xs) if xs.len() == 1 && xs[0].is_none() => Val::None,
        Val::Floats(xs) if xs.len() == 1 && xs[0].is_none() => Val::None,
        Val::Chars(xs) if xs.len() == 1 && xs[0].is_none() => Val::None,
        Val::Strs(xs) if xs.len() == 1 && xs[0].is_none() => Val::None,
        Val::Gt(g) if g.is_empty() => Val::None,
        Val::Gt(g) => Val::Gt(norm_gt(g, v44)),
        v => v.clone(),
    }
}

fn norm(r: &Rec, v44: bool) -> Rec {
    let mut r = r.clone();
    for (_, v) in r.info.iter_mut() {
        *v = norm_val(v, v44);
    }
    let nk = r.keys.len();
    if nk == 0 {
        // no FORMAT keys: `n` empty sample rows and no rows at all are the same record
        r.rows.clear();
    }
    for row in r.rows.iter_mut() {
        for v in row.iter_mut() {
            *v = norm_val(v, v44);
        }
        while row.len() < nk {
            row.push(Val::None);
        }
    }
    r
}

// ------------------------------------------------------------------------------------ running one case

struct Written {
    header_len: usize,
    stream: Vec<u8>,
}

fn write_bcf(header: &vcf::Header, rb: &vcf::variant::RecordBuf) -> Result<Result<Written, std::io::Error>, String> {
    guarded(|| {
        let mut w = bcf::io::Writer::from(Vec::new());
        w.write_header(header)?;
        let header_len = w.get_ref().len();
        w.write_variant_record(header, rb)?;
        Ok(Written { header_len, stream: w.into_inner() })
    })
}

fn vcf_text(header: &vcf::Header, rec: &dyn vcf::variant::Record) -> Result<String, String> {
    match guarded(|| {
        let mut w = vcf::io::Writer::new(Vec::new());
        w.write_variant_record(header, rec).map(|_| String::from_utf8_lossy(w.get_ref()).trim_end_matches('\n').to_string())
    }) {
        Ok(Ok(s)) => Ok(s),
        Ok(Err(e)) => Err(format!("err: {e}")),
        Err(p) => Err(format!("panic: {p}")),
    }
}

/// shapes of the known defects of the unchanged tree, recognised on the *input* (all that apply)
fn defect_shapes(h: &Hdr, r: &Rec) -> Vec<&'static str> {
    let mut out = vec![];
    // INFO field with a missing value → `todo!()` in the writer
    if r.info.iter().any(|(_, v)| *v == Val::None) {
        out.push("info-missing-value");
    }
    for (ki, k) in r.keys.iter().enumerate() {
        let col: Vec<&Val> = r.rows.iter().map(|row| row.get(ki).unwrap_or(&Val::None)).collect();
        if k == "GT" {
            let lens: Vec<usize> = col.iter().filter_map(|v| if let Val::Gt(g) = v { Some(g.len()) } else { None }).collect();
            let mx = lens.iter().copied().max().unwrap_or(0);
            // padding is written once per allele: right for one allele, wrong for 0 or >= 2
            if lens.iter().any(|&l| l != 1 && l < mx) {
                out.push("gt-ragged-padding");
            }
            // a phased missing allele (`0|.`): the writer drops the phase bit. (For the first
            // allele before VCF 4.4 only the bytes differ, the text does not.)
            let lost = |g: &Vec<(Option<usize>, bool)>| g.iter().any(|a| a.0.is_none() && a.1);
            if col.iter().any(|v| matches!(v, Val::Gt(g) if lost(g))) {
                out.push("gt-missing-allele-phase");
            }
            continue;
        }
        let d = h.defs.iter().find(|d| d.kind == 'G' && d.name == *k);
        if let Some(d) = d {
            if d.ty == 'i' && num_class(d.num) == "n" && !col.is_empty() && col.iter().all(|v| **v == Val::None) {
                out.push("F14-int-array-all-missing");
            }
        }
    }
    // (a string-array value containing `%XX` used to be tagged here: F31, the lazy accessors
    // percent-decoded it; repaired in 4fedf9b, such values are ordinary now)
    out
}

fn unrepresentable(r: &Rec) -> bool {
    let bad = |n: i32| n < i32::MIN + 8;
    let badv = |v: &Val| match v {
        Val::Int(n) => bad(*n),
        Val::Ints(xs) => xs.iter().flatten().any(|n| bad(*n)),
        _ => false,
    };
    r.info.iter().any(|(_, v)| badv(v)) || r.rows.iter().flatten().any(badv)
}

fn nontrivial(r: &Rec) -> bool {
    r.info.iter().any(|(_, v)| matches!(v, Val::Ints(_) | Val::Floats(_) | Val::Int(_))) || !r.keys.is_empty()
}

/// Probes of the defects for which the Lean model describes the *fixed* behaviour: a case of that
/// shape is compared with the model only on a tree where the probe shows the fix. (On a tree
/// without the fix the shape is reported by the oracle — corpus cases guarantee that — and the
/// bytes are known to differ.)
fn shape_is_fixed(shape: &str) -> bool {
    use std::sync::OnceLock;
    static PROBES: OnceLock<Vec<(&'static str, bool)>> = OnceLock::new();
    let probes = PROBES.get_or_init(|| {
        let bytes_of = |h: &Hdr, r: &Rec| -> Option<Vec<u8>> {
            let header = parse_header(h).ok()?;
            match write_bcf(&header, &to_record_buf(r)) {
                Ok(Ok(w)) => Some(w.stream[w.header_len..].to_vec()),
                _ => None,
            }
        };
        let tail = |b: Option<Vec<u8>>, t: &[u8]| b.map(|b| b.ends_with(t)).unwrap_or(false);
        let mut out = vec![];
        // `0|.` → 0x02 0x01
        let mut r = basic_rec();
        r.keys = vec!["GT".into()];
        r.rows = vec![vec![Val::Gt(vec![(Some(0), false), (None, true)])]];
        out.push(("gt-missing-allele-phase", tail(bytes_of(&basic_hdr(1, true), &r), &[0x21, 0x02, 0x01])));
        // `0/1/1`, `0/1` → 0x31 02 04 04 02 04 81
        r.rows = vec![vec![Val::Gt(vec![(Some(0), false), (Some(1), false), (Some(1), false)])], vec![Val::Gt(vec![(Some(0), false), (Some(1), false)])]];
        out.push(("gt-ragged-padding", tail(bytes_of(&basic_hdr(2, true), &r), &[0x31, 0x02, 0x04, 0x04, 0x02, 0x04, 0x81])));
        // AD all missing → 0x11 0x80 0x80
        r.keys = vec!["AD".into()];
        r.rows = vec![vec![Val::None], vec![Val::None]];
        out.push(("F14-int-array-all-missing", tail(bytes_of(&basic_hdr(2, true), &r), &[0x11, 0x80, 0x80])));
        // DP=. → typed MISSING
        let mut r = basic_rec();
        r.info = vec![("DP".into(), Val::None)];
        out.push(("info-missing-value", tail(bytes_of(&basic_hdr(0, true), &r), &[0x11, 0x01, 0x00])));
        out
    });
    probes.iter().any(|(s, ok)| *s == shape && *ok)
}

/// returns the correspondence answer when the case went through cleanly
fn run_case(ctx: &mut Ctx, h: &Hdr, r: &Rec, case: &str, emit: bool) {
    let req = format!("c10 rec {} {}", fmt_hdr_words(h), fmt_rec(r));
    let key = if nontrivial(r) { Some(fnv(req.as_bytes())) } else { None };
    ctx.eval(key);
    let header = match parse_header(h) {
        Ok(x) => x,
        Err(e) => {
            // headers are generated conforming; a rejected header is a harness bug, reported loudly
            ctx.fail("harness-header", format!("generated header rejected: {e}"), case.into());
            return;
        }
    };
    // explicit IDX values that the serialised header does not carry: every index in the records is
    // then resolved against a different dictionary by any reader
    let idx_lost = h.defs.iter().any(|d| d.idx.is_some()) && {
        let text = guarded(|| {
            let mut w = vcf::io::Writer::new(Vec::new());
            w.write_header(&header).map(|_| String::from_utf8_lossy(w.get_ref()).into_owned())
        });
        match (text, vcf::header::StringMaps::try_from(&header)) {
            (Ok(Ok(t)), Ok(sm)) => t.parse::<vcf::header::StringMaps>().map(|p| p != sm).unwrap_or(true),
            _ => true,
        }
    };
    // a defect shape names the failure class (and keeps the case out of the correspondence) only on
    // a tree where the probe shows that defect; on a fixed tree the case is an ordinary case
    let shape = if idx_lost { Some("header-idx-not-written") } else { defect_shapes(h, r).into_iter().find(|s| !shape_is_fixed(s)) };
    let cls = |generic: &str| shape.map(String::from).unwrap_or_else(|| generic.to_string());
    let emit = emit && shape.is_none();
    let rb = to_record_buf(r);
    let written = match write_bcf(&header, &rb) {
        Err(p) => {
            ctx.fail(&cls("writer-panic"), format!("BCF writer panicked ({p}) on {}", fmt_rec(r)), case.into());
            return;
        }
        Ok(Err(e)) => {
            ctx.bump("writer_error");
            let msg: String = e.to_string().chars().take_while(|c| !c.is_ascii_digit() && *c != ':').collect();
            ctx.bump(&format!("writer_error[{}]", msg.trim()));
            if emit {
                ctx.corr(req, errclass(&e).to_string());
            }
            return;
        }
        Ok(Ok(w)) => w,
    };
    ctx.bump("writer_ok");
    if unrepresentable(r) {
        ctx.fail("unrepresentable-accepted", format!("an integer below -2^31+8 was accepted by the BCF writer: {}", fmt_rec(r)), case.into());
        return;
    }
    let rec_bytes = written.stream[written.header_len..].to_vec();
    // ---- eager
    let eager = guarded(|| -> std::io::Result<(vcf::Header, vcf::variant::RecordBuf)> {
        let mut rd = bcf::io::Reader::from(&written.stream[..]);
        let h2 = rd.read_header()?;
        let mut out = vcf::variant::RecordBuf::default();
        let n = rd.read_record_buf(&h2, &mut out)?;
        if n == 0 {
            return Err(std::io::Error::other("no record"));
        }
        Ok((h2, out))
    });
    let (h2, rb2) = match eager {
        Err(p) => {
            ctx.fail(&cls("reader-panic"), format!("read_record_buf panicked ({p}) on the writer's own output for {}", fmt_rec(r)), case.into());
            return;
        }
        Ok(Err(e)) => {
            ctx.fail(&cls("eager-read-error"), format!("read_record_buf rejects the writer's own output ({e}) for {} bytes {}", fmt_rec(r), hex(&rec_bytes)), case.into());
            return;
        }
        Ok(Ok(x)) => x,
    };
    // (c) string maps of the reader = string maps of the writer
    match vcf::header::StringMaps::try_from(&header) {
        Ok(sm) if sm == *h2.string_maps() => {}
        other => {
            ctx.fail(&cls("string-maps"), format!("reader string maps differ from the writer's ({:?}) for dict {}", other.map(|_| ()).map_err(|e| e.to_string()), fmt_dict(h)), case.into());
            return;
        }
    }
    let e_rec = from_record_buf(&rb2);
    let want = norm(r, h.v44);
    if norm(&e_rec, h.v44) != want {
        ctx.fail(&cls("eager-roundtrip"), format!("read_record_buf returns a different record: wrote {} read {} bytes {}", fmt_rec(r), fmt_rec(&e_rec), hex(&rec_bytes)), case.into());
        return;
    }
    // ---- lazy
    let lazy = guarded(|| -> Result<(bcf::Record, Rec), String> {
        let mut rd = bcf::io::Reader::from(&written.stream[..]);
        let h3 = rd.read_header().map_err(es)?;
        let mut rec = bcf::Record::default();
        rd.read_record(&mut rec).map_err(es)?;
        let l = from_lazy(&rec, &h3)?;
        Ok((rec, l))
    });
    let (lrec, l_rec) = match lazy {
        Err(p) => {
            ctx.fail(&cls("lazy-panic"), format!("lazy bcf::Record accessors panicked ({p}) for {}", fmt_rec(r)), case.into());
            return;
        }
        Ok(Err(e)) => {
            ctx.fail(&cls("lazy-read-error"), format!("lazy bcf::Record accessors fail ({e}) on the writer's own output for {}", fmt_rec(r)), case.into());
            return;
        }
        Ok(Ok(x)) => x,
    };
    if norm(&l_rec, h.v44) != want {
        ctx.fail(&cls("lazy-roundtrip"), format!("lazy bcf::Record returns a different record: wrote {} lazy {}", fmt_rec(r), fmt_rec(&l_rec)), case.into());
        return;
    }
    // ---- (b) BCF ≡ VCF: text of the three views
    let t0 = vcf_text(&header, &rb);
    if let Ok(t0) = &t0 {
        let t1 = vcf_text(&h2, &rb2);
        let t2 = vcf_text(&h2, &lrec);
        let t0n = pad_text(t0, r);
        if t1.as_deref() != Ok(t0n.as_str()) {
            ctx.fail(&cls("vcf-text-eager"), format!("VCF text differs: original `{t0n}` after BCF (eager) `{t1:?}`"), case.into());
            return;
        }
        if t2.as_deref() != Ok(t0n.as_str()) {
            ctx.fail(&cls("vcf-text-lazy"), format!("VCF text differs: original `{t0n}` after BCF (lazy) `{t2:?}`"), case.into());
            return;
        }
        ctx.bump("vcf_text_compared");
    } else {
        ctx.bump("vcf_text_original_unrenderable");
    }
    if emit {
        ctx.corr(req, format!("{} E {} L {}", hex(&rec_bytes), fmt_rec(&e_rec), fmt_rec(&l_rec)));
    }
}

// ------------------------------------------------------------------------------------ sessions
//
// Several records of ONE header in one BCF stream, read back with every reader entry point that
// reuses a buffer between records (read_record_buf into one RecordBuf, read_record into one lazy
// bcf::Record, the records() / record_bufs() iterators), and the lazy records written once more
// through the BCF writer (BCF -> BCF pass-through of a `bcf::Record`, which the writer accepts like
// any other `vcf::variant::Record`). The property is per record; a reader that leaves state of the
// previous record in a reused buffer (no INFO after INFO, no samples after samples), or a lazy view
// whose lengths disagree with its iterators, breaks it only in such a sequence.

fn session_of(sub: u64) -> (Hdr, Vec<Rec>) {
    let mut rng = Rng::new(sub ^ 0x5e55_1010);
    let h = gen_header(&mut rng);
    let k = 2 + rng.below(5) as usize;
    let mut recs = vec![];
    for _ in 0..k {
        let mut r = gen_record(&mut rng, &h);
        match rng.below(7) {
            0 => r.info.clear(),
            1 => {
                r.keys.clear();
                r.rows.clear();
            }
            2 => {
                r.info.clear();
                r.keys.clear();
                r.rows.clear();
                r.filters.clear();
                r.ids.clear();
            }
            _ => {}
        }
        recs.push(r);
    }
    (h, recs)
}

fn run_session(ctx: &mut Ctx, sub: u64) {
    let case = format!("session {sub}");
    let (h, cands) = session_of(sub);
    let Ok(header) = parse_header(&h) else { return };
    if h.defs.iter().any(|d| d.idx.is_some()) {
        // explicit IDX: the header round trip is run_case's subject; sessions use plain dictionaries
        ctx.bump("session_skipped_idx");
        return;
    }
    // keep the records that round-trip on their own (anything else is run_case's finding, not a
    // session effect)
    let mut recs: Vec<Rec> = vec![];
    for r in cands {
        if unrepresentable(&r) || defect_shapes(&h, &r).into_iter().any(|s| !shape_is_fixed(s)) {
            ctx.bump("session_record_dropped");
            continue;
        }
        let alone = guarded(|| -> Option<Rec> {
            let w = write_bcf(&header, &to_record_buf(&r)).ok()?.ok()?;
            let mut rd = bcf::io::Reader::from(&w.stream[..]);
            let h2 = rd.read_header().ok()?;
            let mut out = vcf::variant::RecordBuf::default();
            (rd.read_record_buf(&h2, &mut out).ok()? > 0).then(|| from_record_buf(&out))
        });
        match alone {
            Ok(Some(e)) if norm(&e, h.v44) == norm(&r, h.v44) => recs.push(r),
            _ => ctx.bump("session_record_dropped"),
        }
    }
    if recs.len() < 2 {
        ctx.bump("session_too_short");
        return;
    }
    ctx.eval(Some(fnv(case.as_bytes())));
    ctx.bump(&format!("session_len[{}]", recs.len()));
    if recs.windows(2).any(|w| !w[0].info.is_empty() && w[1].info.is_empty()) {
        ctx.bump("session_no_info_after_info");
    }
    if recs.windows(2).any(|w| !w[0].keys.is_empty() && w[1].keys.is_empty()) {
        ctx.bump("session_no_samples_after_samples");
    }
    let want: Vec<Rec> = recs.iter().map(|r| norm(r, h.v44)).collect();
    let stream = match guarded(|| -> std::io::Result<Vec<u8>> {
        let mut w = bcf::io::Writer::from(Vec::new());
        w.write_header(&header)?;
        for r in &recs {
            w.write_variant_record(&header, &to_record_buf(r))?;
        }
        Ok(w.into_inner())
    }) {
        Ok(Ok(s)) => s,
        other => {
            ctx.fail("session-write", format!("records that are written alone are refused in sequence: {:?}", other.map(|r| r.map(|_| ()).map_err(|e| e.to_string()))), case);
            return;
        }
    };
    let v44 = h.v44;
    let mut judge = |ctx: &mut Ctx, class: &str, how: &str, got: Result<Result<Vec<Rec>, String>, String>| {
        match got {
            Err(p) => ctx.fail(class, format!("{how}: panic {p}"), case.clone()),
            Ok(Err(e)) => ctx.fail(class, format!("{how}: error {e} on a stream of {} records that read back one by one", want.len()), case.clone()),
            Ok(Ok(got)) => {
                let got: Vec<Rec> = got.iter().map(|r| norm(r, v44)).collect();
                if got.len() != want.len() {
                    ctx.fail(class, format!("{how}: {} records read, {} written", got.len(), want.len()), case.clone());
                } else if let Some(i) = (0..want.len()).find(|&i| got[i] != want[i]) {
                    ctx.fail(class, format!("{how}: record {i} of {} differs: wrote {} read {}", want.len(), fmt_rec(&want[i]), fmt_rec(&got[i])), case.clone());
                } else {
                    ctx.bump(&format!("session_ok[{class}]"));
                }
            }
        }
    };
    // A: one reused RecordBuf
    let a = guarded(|| -> Result<Vec<Rec>, String> {
        let mut rd = bcf::io::Reader::from(&stream[..]);
        let h2 = rd.read_header().map_err(es)?;
        let mut out = vcf::variant::RecordBuf::default();
        let mut v = vec![];
        while rd.read_record_buf(&h2, &mut out).map_err(es)? > 0 {
            v.push(from_record_buf(&out));
        }
        Ok(v)
    });
    judge(ctx, "session-reused-record-buf", "read_record_buf into one reused RecordBuf", a);
    // B: the record_bufs() iterator
    let b = guarded(|| -> Result<Vec<Rec>, String> {
        let mut rd = bcf::io::Reader::from(&stream[..]);
        let h2 = rd.read_header().map_err(es)?;
        let mut v = vec![];
        for r in rd.record_bufs(&h2) {
            v.push(from_record_buf(&r.map_err(es)?));
        }
        Ok(v)
    });
    judge(ctx, "session-record-bufs-iter", "record_bufs()", b);
    // C: one reused lazy record
    let c = guarded(|| -> Result<Vec<Rec>, String> {
        let mut rd = bcf::io::Reader::from(&stream[..]);
        let h2 = rd.read_header().map_err(es)?;
        let mut rec = bcf::Record::default();
        let mut v = vec![];
        while rd.read_record(&mut rec).map_err(es)? > 0 {
            v.push(from_lazy(&rec, &h2)?);
        }
        Ok(v)
    });
    judge(ctx, "session-reused-lazy-record", "read_record into one reused bcf::Record", c);
    // D: the records() iterator
    let d = guarded(|| -> Result<Vec<Rec>, String> {
        let mut rd = bcf::io::Reader::from(&stream[..]);
        let h2 = rd.read_header().map_err(es)?;
        let mut v = vec![];
        for r in rd.records() {
            v.push(from_lazy(&r.map_err(es)?, &h2)?);
        }
        Ok(v)
    });
    judge(ctx, "session-records-iter", "records()", d);
    // E: BCF -> BCF pass-through of the lazy records, then an eager read with fresh buffers
    let e = guarded(|| -> Result<Vec<Rec>, String> {
        let mut rd = bcf::io::Reader::from(&stream[..]);
        let h2 = rd.read_header().map_err(es)?;
        let mut w = bcf::io::Writer::from(Vec::new());
        w.write_header(&h2).map_err(es)?;
        let mut rec = bcf::Record::default();
        while rd.read_record(&mut rec).map_err(es)? > 0 {
            w.write_variant_record(&h2, &rec).map_err(|e| format!("writer refuses the lazy record: {e}"))?;
        }
        let copy = w.into_inner();
        let mut rd = bcf::io::Reader::from(&copy[..]);
        let h3 = rd.read_header().map_err(es)?;
        let mut v = vec![];
        loop {
            let mut out = vcf::variant::RecordBuf::default();
            if rd.read_record_buf(&h3, &mut out).map_err(|e| format!("the copy does not read back: {e}"))? == 0 {
                break;
            }
            v.push(from_record_buf(&out));
        }
        Ok(v)
    });
    judge(ctx, "session-lazy-rewrite", "lazy bcf::Record written again through the BCF writer and read back", e);
}

/// the original record's text, with the representation differences the text itself erases: none
/// needed beyond identity, because rows are generated full-width.
fn pad_text(t: &str, _r: &Rec) -> String {
    t.to_string()
}

// ------------------------------------------------------------------------------------ generators

const INTS: [i32; 30] = [
    -121, -120, -119, -1, 0, 1, 2, 126, 127, 128, 129, 255, 256, -128, -127, -32761, -32760, -32759, 32766, 32767, 32768, 32769, -32768, 65535, 65536,
    i32::MIN + 8, i32::MIN + 9, i32::MAX, i32::MAX - 1, 1_000_000,
];
const FLOATS: [u32; 16] = [
    0x0000_0000, 0x8000_0000, 0x3f80_0000, 0x41f0_cccd, 0x7fc0_0000, 0x7f80_0000, 0xff80_0000, 0x7f80_0008, 0x7fff_ffff, 0x0000_0001, 0x7f7f_ffff, 0xffc0_0000,
    0x3dcc_cccd, 0x7fc0_0001, 0x7f80_0000 - 1, 0xc2c8_0000,
];

fn gen_int(rng: &mut Rng) -> i32 {
    if rng.chance(1, 150) {
        // not representable in BCF: must be refused by the writer
        return i32::MIN + rng.below(8) as i32;
    }
    match rng.below(10) {
        0..=6 => *rng.pick(&INTS),
        7 => rng.below(300) as i32 - 150,
        8 => rng.below(70_000) as i32 - 35_000,
        _ => (rng.next() as i32).max(i32::MIN + 8),
    }
}
fn gen_float(rng: &mut Rng) -> u32 {
    if rng.chance(3, 4) {
        *rng.pick(&FLOATS)
    } else {
        let b = rng.next() as u32;
        if (0x7f80_0001..=0x7f80_0007).contains(&b) { 0x3f80_0000 } else { b }
    }
}
fn gen_word(rng: &mut Rng, max: usize) -> Vec<u8> {
    let n = 1 + rng.below(max as u64) as usize;
    (0..n).map(|_| *rng.pick(b"ABCDEFGHIJKLMNOPQRSTUVWXYZabcdefghijklmnopqrstuvwxyz0123456789_")).collect()
}
fn gen_len(rng: &mut Rng) -> usize {
    match rng.below(40) {
        0 => 15,
        1 => 16,
        2 => 14,
        3 => 17,
        4 => 127 + rng.below(3) as usize,
        _ => 1 + rng.below(5) as usize,
    }
}
fn gen_opt<T>(rng: &mut Rng, miss: u64, f: impl FnOnce(&mut Rng) -> T) -> Option<T> {
    if rng.below(100) < miss { None } else { Some(f(rng)) }
}

fn gen_value(rng: &mut Rng, num: &str, ty: char, narrow: bool) -> Val {
    // `narrow`: keep integers of one vector in a single width class more often, so that the
    // boundary values decide the width
    let miss = *rng.pick(&[0u64, 0, 10, 40, 100]);
    let base = *rng.pick(&INTS);
    let mut int = |rng: &mut Rng| if narrow && rng.chance(2, 3) { base.saturating_add(rng.below(3) as i32 - 1).max(i32::MIN + 8) } else { gen_int(rng) };
    match (num_class(num), ty) {
        ("0", _) => Val::Flag,
        ("1", 'i') => Val::Int(int(rng)),
        ("1", 'f') => Val::Float(gen_float(rng)),
        ("1", 'c') => Val::Char(gen_word(rng, 1)[0]),
        ("1", _) => {
            let m = if rng.chance(1, 12) { 40 } else { 6 };
            Val::Str(gen_word(rng, m))
        }
        (_, 'i') => {
            let n = gen_len(rng);
            Val::Ints((0..n).map(|_| gen_opt(rng, miss, |r| int(r))).collect())
        }
        (_, 'f') => {
            let n = gen_len(rng);
            Val::Floats((0..n).map(|_| gen_opt(rng, miss, gen_float)).collect())
        }
        (_, 'c') => {
            let n = 1 + rng.below(4) as usize;
            Val::Chars((0..n).map(|_| gen_opt(rng, miss, |r| gen_word(r, 1)[0])).collect())
        }
        _ => {
            let n = 1 + rng.below(4) as usize;
            let mut xs: Vec<Option<Vec<u8>>> = (0..n).map(|_| gen_opt(rng, miss, |r| gen_word(r, 5))).collect();
            if rng.chance(1, 100) {
                // a literal "%41" (VCF text `%2541`): the lazy string-array accessors percent-decode
                // the raw BCF string a second time (known defect, class below)
                xs[0] = Some(b"a%41".to_vec());
            }
            Val::Strs(xs)
        }
    }
}

fn gen_gt(rng: &mut Rng, ploidy: usize, v44: bool) -> Val {
    let mut g: Vec<(Option<usize>, bool)> = (0..ploidy)
        .map(|_| {
            let p = match rng.below(10) {
                0 | 1 => None,
                2 => Some(*rng.pick(&[61usize, 62, 10, 30])),
                _ => Some(rng.below(4) as usize),
            };
            (p, rng.chance(1, 2))
        })
        .collect();
    if !v44 {
        g = norm_gt(&g, false);
    }
    Val::Gt(g)
}

const INFO_POOL: [(&str, &str, char); 16] = [
    ("I1", "1", 'i'), ("IA", "A", 'i'), ("IR", "R", 'i'), ("IG", "G", 'i'), ("ID", ".", 'i'), ("I3", "3", 'i'), ("F1", "1", 'f'), ("FA", "A", 'f'), ("FD", ".", 'f'),
    ("B0", "0", 'b'), ("C1", "1", 'c'), ("CD", ".", 'c'), ("S1", "1", 's'), ("SD", ".", 's'), ("DP", "1", 'i'), ("AD", "R", 'i'),
];
const FMT_POOL: [(&str, &str, char); 14] = [
    ("J1", "1", 'i'), ("JA", "A", 'i'), ("JR", "R", 'i'), ("JG", "G", 'i'), ("JD", ".", 'i'), ("K1", "1", 'f'), ("KD", ".", 'f'), ("K2", "2", 'f'), ("L1", "1", 'c'),
    ("LD", ".", 'c'), ("M1", "1", 's'), ("MD", ".", 's'), ("DP", "1", 'i'), ("AD", "R", 'i'),
];

fn gen_header(rng: &mut Rng) -> Hdr {
    let v44 = rng.chance(1, 4);
    let samples = *rng.pick(&[0usize, 1, 1, 2, 3, 3, 4, 5]);
    let mut defs = vec![];
    let nc = 1 + rng.below(3);
    for i in 0..nc {
        defs.push(Def { kind: 'C', name: format!("sq{i}"), idx: None, num: "", ty: ' ' });
    }
    for (n, num, ty) in INFO_POOL {
        if rng.chance(3, 5) {
            defs.push(Def { kind: 'I', name: n.into(), idx: None, num, ty });
        }
    }
    if rng.chance(1, 4) {
        defs.push(Def { kind: 'F', name: "PASS".into(), idx: None, num: "", ty: ' ' });
    }
    for f in ["q10", "s50", "lowq"] {
        if rng.chance(2, 3) {
            defs.push(Def { kind: 'F', name: f.into(), idx: None, num: "", ty: ' ' });
        }
    }
    if samples > 0 {
        if rng.chance(4, 5) {
            defs.push(Def { kind: 'G', name: "GT".into(), idx: None, num: "1", ty: 's' });
        }
        for (n, num, ty) in FMT_POOL {
            if rng.chance(1, 2) {
                defs.push(Def { kind: 'G', name: n.into(), idx: None, num, ty });
            }
        }
    }
    // IDX assignment: none / explicit. Explicit: an injective map name → index (a name shared by
    // INFO and FORMAT keeps one index), PASS = 0, with gaps and sometimes beyond 127 / 32767.
    match rng.below(3) {
        0 | 1 => {}
        _ => {
            let mut names: Vec<String> = vec![];
            for d in defs.iter().filter(|d| d.kind != 'C') {
                if d.name != "PASS" && !names.contains(&d.name) {
                    names.push(d.name.clone());
                }
            }
            let spread = *rng.pick(&[1usize, 1, 2, 5, 40, 20_000]);
            let mut pool: Vec<usize> = vec![];
            let mut next = 1;
            for _ in 0..names.len() {
                next += rng.below(spread as u64) as usize;
                pool.push(next);
                next += 1;
            }
            // shuffle
            for i in (1..pool.len()).rev() {
                let j = rng.below(i as u64 + 1) as usize;
                pool.swap(i, j);
            }
            for d in defs.iter_mut().filter(|d| d.kind != 'C') {
                d.idx = Some(if d.name == "PASS" { 0 } else { pool[names.iter().position(|n| *n == d.name).unwrap()] });
            }
            // contigs: shuffled explicit indices
            let mut cidx: Vec<usize> = (0..nc as usize).map(|i| i * (1 + rng.below(3) as usize)).collect();
            cidx.dedup();
            if cidx.len() == nc as usize {
                for i in (1..cidx.len()).rev() {
                    let j = rng.below(i as u64 + 1) as usize;
                    cidx.swap(i, j);
                }
                for (d, i) in defs.iter_mut().filter(|d| d.kind == 'C').zip(cidx) {
                    d.idx = Some(i);
                }
            }
        }
    }
    Hdr { v44, samples, defs }
}

fn gen_record(rng: &mut Rng, h: &Hdr) -> Rec {
    let contigs: Vec<&Def> = h.defs.iter().filter(|d| d.kind == 'C').collect();
    let chrom = rng.pick(&contigs).name.clone();
    let pos = match rng.below(12) {
        0 => 1,
        1 => i32::MAX as usize,
        2 => 0,
        _ => 1 + rng.below(1_000_000) as usize,
    };
    let qual = if rng.chance(1, 3) { None } else { Some(gen_float(rng)) };
    let mut ids: Vec<String> = vec![];
    for _ in 0..*rng.pick(&[0u64, 0, 1, 2]) {
        let w = sv(&gen_word(rng, 8));
        if !ids.contains(&w) {
            ids.push(w); // `Ids` is a set
        }
    }
    let bases = |rng: &mut Rng, n: usize| -> String { (0..n).map(|_| *rng.pick(b"ACGT") as char).collect() };
    let rl = match rng.below(30) {
        0 => 15,
        1 => 16,
        2 => 130,
        3 => 14,
        _ => 1 + rng.below(3) as usize,
    };
    let refb = bases(rng, rl);
    let alts: Vec<String> = (0..*rng.pick(&[0u64, 1, 1, 1, 2, 3]))
        .map(|_| match rng.below(8) {
            0 => "<DEL>".to_string(),
            1 => "*".to_string(),
            _ => {
                let n = 1 + rng.below(3) as usize;
                bases(rng, n)
            }
        })
        .collect();
    let fdefs: Vec<&Def> = h.defs.iter().filter(|d| d.kind == 'F').collect();
    let mut filters: Vec<String> = vec![];
    match rng.below(4) {
        0 => {}
        1 => filters.push("PASS".into()),
        _ => {
            for d in &fdefs {
                if d.name != "PASS" && rng.chance(1, 2) {
                    filters.push(d.name.clone());
                }
            }
        }
    }
    let mut info = vec![];
    for d in h.defs.iter().filter(|d| d.kind == 'I') {
        if rng.chance(2, 5) {
            let narrow = rng.chance(1, 2);
            // `KEY=.` (not for flags: a flag has no value to be missing)
            let v = if d.ty != 'b' && rng.chance(1, 60) { Val::None } else { gen_value(rng, d.num, d.ty, narrow) };
            info.push((d.name.clone(), v));
        }
    }
    // shuffle INFO order
    for i in (1..info.len()).rev() {
        let j = rng.below(i as u64 + 1) as usize;
        info.swap(i, j);
    }
    let mut keys: Vec<String> = vec![];
    let mut rows: Vec<Vec<Val>> = vec![];
    if h.samples > 0 && rng.chance(9, 10) {
        let gdefs: Vec<&Def> = h.defs.iter().filter(|d| d.kind == 'G').collect();
        let mut cols: Vec<Vec<Val>> = vec![];
        for d in &gdefs {
            if !(d.name == "GT" && rng.chance(9, 10) || rng.chance(2, 5)) {
                continue;
            }
            keys.push(d.name.clone());
            let mut col = vec![];
            if d.name == "GT" {
                let base = *rng.pick(&[1usize, 2, 2, 2, 3, 4]);
                let ragged = rng.chance(1, 4);
                for _ in 0..h.samples {
                    let p = if ragged { *rng.pick(&[0usize, 1, 2, 3, 4]) } else { base };
                    col.push(gen_gt(rng, p, h.v44));
                }
                // an all-empty genotype column is not representable in VCF text; not generated
                if col.iter().all(|v| matches!(v, Val::Gt(g) if g.is_empty())) {
                    col[0] = gen_gt(rng, 2, h.v44);
                }
            } else {
                let missing_rate = *rng.pick(&[0u64, 0, 20, 50, 100]);
                let narrow = rng.chance(1, 2);
                // one width class per column more often than not
                let seed_rng = rng.next();
                for s in 0..h.samples {
                    if rng.below(100) < missing_rate {
                        col.push(Val::None);
                    } else {
                        let mut sub = if narrow { Rng::new(seed_rng ^ (s as u64 % 2)) } else { Rng::new(rng.next()) };
                        col.push(gen_value(&mut sub, d.num, d.ty, narrow));
                    }
                }
                // the writer refuses a float-vector / character / string column in which every
                // sample is missing ("missing float array values", "missing String values"); keep
                // a few of those, give the others one value
                let refused = !(d.ty == 'i' || d.ty == 'f' && d.num == "1" || d.ty == 's' && d.num != "1");
                if refused && col.iter().all(|v| *v == Val::None) && rng.chance(9, 10) {
                    let s = rng.below(h.samples as u64) as usize;
                    col[s] = gen_value(rng, d.num, d.ty, narrow);
                }
            }
            cols.push(col);
        }
        if !keys.is_empty() {
            for s in 0..h.samples {
                rows.push(cols.iter().map(|c| c[s].clone()).collect());
            }
        }
    }
    Rec { chrom, pos, qual, ids, refb, alts, filters, info, keys, rows }
}

fn case_of(sub: u64) -> (Hdr, Rec) {
    let mut rng = Rng::new(sub);
    let h = gen_header(&mut rng);
    let r = gen_record(&mut rng, &h);
    (h, r)
}

// ------------------------------------------------------------------------------------ corpus

fn d(kind: char, name: &str, idx: Option<usize>, num: &'static str, ty: char) -> Def {
    Def { kind, name: name.into(), idx, num, ty }
}

fn basic_hdr(samples: usize, v44: bool) -> Hdr {
    Hdr {
        v44,
        samples,
        defs: vec![
            d('C', "sq0", None, "", ' '),
            d('I', "DP", None, "1", 'i'),
            d('I', "AC", None, "A", 'i'),
            d('I', "AF", None, "A", 'f'),
            d('I', "DB", None, "0", 'b'),
            d('I', "SS", None, ".", 's'),
            d('F', "q10", None, "", ' '),
            d('G', "GT", None, "1", 's'),
            d('G', "AD", None, "R", 'i'),
            d('G', "DP", None, "1", 'i'),
            d('G', "GL", None, "G", 'f'),
            d('G', "ST", None, ".", 's'),
        ],
    }
}

fn basic_rec() -> Rec {
    Rec { chrom: "sq0".into(), pos: 1, qual: None, ids: vec![], refb: "A".into(), alts: vec!["C".into()], filters: vec![], info: vec![], keys: vec![], rows: vec![] }
}

fn gt(s: &str) -> Val {
    // "0/1", "0|1", ".", "0/1/2"
    let mut g = vec![];
    let mut ph = false;
    let mut cur = String::new();
    let mut first = true;
    for c in s.chars().chain(std::iter::once('\0')) {
        if c == '/' || c == '|' || c == '\0' {
            g.push((if cur == "." { None } else { Some(cur.parse().unwrap()) }, if first { false } else { ph }));
            first = false;
            ph = c == '|';
            cur.clear();
        } else {
            cur.push(c);
        }
    }
    Val::Gt(norm_gt(&g, false))
}

fn corpus_cases() -> Vec<(String, Hdr, Rec)> {
    let mut out = vec![];
    let mut add = |name: &str, h: Hdr, r: Rec| out.push((format!("corpus {name}"), h, r));
    // the six width outcomes × scalar / vector, at every boundary
    for (i, n) in [-121, -120, 127, 128, -32761, -32760, 32767, 32768, i32::MIN + 8, i32::MAX, i32::MIN + 7, i32::MIN].iter().enumerate() {
        let mut r = basic_rec();
        r.info = vec![("DP".into(), Val::Int(*n)), ("AC".into(), Val::Ints(vec![Some(*n), None, Some(0)]))];
        r.keys = vec!["DP".into(), "AD".into()];
        r.rows = vec![vec![Val::Int(*n), Val::Ints(vec![Some(*n)])], vec![Val::None, Val::Ints(vec![Some(1), None, Some(*n)])]];
        if *n < i32::MIN + 8 {
            // one field at a time so that each writer path is seen to refuse
            let mut a = basic_rec();
            a.info = vec![("DP".into(), Val::Int(*n))];
            add(&format!("unrep-info-scalar-{i}"), basic_hdr(2, false), a);
            let mut a = basic_rec();
            a.info = vec![("AC".into(), Val::Ints(vec![Some(*n), Some(1)]))];
            add(&format!("unrep-info-vector-{i}"), basic_hdr(2, false), a);
            let mut a = basic_rec();
            a.keys = vec!["DP".into()];
            a.rows = vec![vec![Val::Int(*n)], vec![Val::Int(1)]];
            add(&format!("unrep-fmt-scalar-{i}"), basic_hdr(2, false), a);
            let mut a = basic_rec();
            a.keys = vec!["AD".into()];
            a.rows = vec![vec![Val::Ints(vec![Some(*n)])], vec![Val::Ints(vec![Some(1), Some(2)])]];
            add(&format!("unrep-fmt-vector-{i}"), basic_hdr(2, false), a);
        } else {
            add(&format!("width-{i}"), basic_hdr(2, false), r);
        }
    }
    // F14: every sample missing in an integer vector column
    let mut r = basic_rec();
    r.keys = vec!["GT".into(), "AD".into()];
    r.rows = vec![vec![gt("0/1"), Val::None], vec![gt("./."), Val::None], vec![gt("0/0"), Val::None]];
    add("F14", basic_hdr(3, false), r);
    // ragged vectors + missing sample
    let mut r = basic_rec();
    r.keys = vec!["GT".into(), "AD".into(), "GL".into(), "ST".into()];
    r.rows = vec![
        vec![gt("0/1"), Val::Ints(vec![Some(1), Some(2)]), Val::Floats(vec![Some(0x3f000000), None]), Val::Strs(vec![Some(b"a".to_vec()), Some(b"bc".to_vec())])],
        vec![gt("./."), Val::None, Val::None, Val::None],
        vec![gt("0|0"), Val::Ints(vec![Some(3)]), Val::Floats(vec![Some(0x3f800000), Some(0x40000000), Some(0x40400000)]), Val::Strs(vec![None])],
    ];
    add("ragged", basic_hdr(3, false), r);
    // genotypes: ploidy 1..4 uniform, mixed ploidy (padding), missing alleles, phasing, 4.4
    for (i, gs) in [vec!["0", "1", "."], vec!["0/1", "1|1", "./."], vec!["0/1/1", "0/1", "0"], vec!["0|1|1|0", "0/1/1", "0|1"], vec!["0/1/2/3", "1|2|3|0", "././1/."], vec!["0/1", "0", "1"]].iter().enumerate() {
        for v44 in [false, true] {
            let mut r = basic_rec();
            r.keys = vec!["GT".into()];
            r.rows = gs.iter().map(|s| vec![gt(s)]).collect();
            add(&format!("gt-{i}-{}", if v44 { 44 } else { 43 }), basic_hdr(3, v44), r);
        }
    }
    // INFO: flag, missing value, one-element vectors, strings with missing entries, long vectors
    let mut r = basic_rec();
    r.info = vec![("DB".into(), Val::Flag), ("AC".into(), Val::Ints(vec![Some(300)])), ("AF".into(), Val::Floats(vec![None, Some(0x3f000000)])), ("SS".into(), Val::Strs(vec![Some(b"a".to_vec()), None, Some(b"b".to_vec())]))];
    r.filters = vec!["q10".into(), "PASS".into()];
    r.ids = vec!["rs1".into(), "rs2".into()];
    r.qual = Some(0x41f0cccd);
    add("info-mix", basic_hdr(0, false), r);
    let mut r = basic_rec();
    r.info = vec![("DP".into(), Val::None)];
    add("info-missing-value", basic_hdr(0, false), r);
    let mut r = basic_rec();
    r.info = vec![("AC".into(), Val::Ints(vec![None])), ("AF".into(), Val::Floats(vec![None]))];
    add("info-one-missing", basic_hdr(0, false), r);
    for n in [14usize, 15, 16, 127, 128, 300] {
        let mut r = basic_rec();
        r.info = vec![("AC".into(), Val::Ints((0..n).map(|i| if i % 7 == 3 { None } else { Some(i as i32 - 5) }).collect())), ("SS".into(), Val::Strs(vec![Some(vec![b'x'; n])]))];
        r.refb = "ACGT".repeat(n / 4 + 1)[..n].to_string();
        add(&format!("len-{n}"), basic_hdr(0, false), r);
    }
    // shuffled IDX with gaps, key index beyond 127
    let mut h = basic_hdr(2, false);
    for (dd, i) in h.defs.iter_mut().filter(|d| d.kind != 'C').zip([7usize, 3, 200, 5, 40000, 9, 130, 2, 7, 11, 12]) {
        dd.idx = Some(i);
    }
    let mut r = basic_rec();
    r.info = vec![("AF".into(), Val::Floats(vec![Some(0x3f000000)])), ("SS".into(), Val::Strs(vec![Some(b"zz".to_vec())])), ("DP".into(), Val::Int(7))];
    r.filters = vec!["q10".into()];
    r.keys = vec!["GT".into(), "DP".into(), "AD".into()];
    r.rows = vec![vec![gt("0/1"), Val::Int(5), Val::Ints(vec![Some(1), Some(2)])], vec![gt("1/1"), Val::None, Val::Ints(vec![Some(300), None])]];
    add("idx-shuffled", h, r);
    out
}

/// hand-framed record bytes through both readers (`c10 dec …`); kept to shapes whose outcome is an
/// ordinary value or an ordinary error on the unchanged tree
fn dec_corpus(ctx: &mut Ctx) {
    let h = basic_hdr(2, false);
    let header = parse_header(&h).unwrap();
    let site = |info: &[u8], n_info: u8, n_fmt: u8| -> Vec<u8> {
        let mut s = vec![0, 0, 0, 0, 0, 0, 0, 0, 1, 0, 0, 0, 1, 0, 0x80, 0x7f, n_info, 0, 1, 0, 2, 0, 0, n_fmt, 0x07, 0x17, b'A', 0x00];
        s.extend_from_slice(info);
        s
    };
    let frame = |site: Vec<u8>, smp: Vec<u8>| -> Vec<u8> {
        let mut v = (site.len() as u32).to_le_bytes().to_vec();
        v.extend_from_slice(&(smp.len() as u32).to_le_bytes());
        v.extend(site);
        v.extend(smp);
        v
    };
    let mut cases: Vec<(&str, Vec<u8>)> = vec![];
    // AC (index 2): overflow length given as Int16 / Int32 typed integers
    let mut info = vec![0x11, 0x02, 0xf1, 0x12, 0x10, 0x00];
    info.extend((0..16).map(|i| i as u8));
    cases.push(("len-int16", frame(site(&info, 1, 0), vec![])));
    let mut info = vec![0x11, 0x02, 0xf1, 0x13, 0x10, 0x00, 0x00, 0x00];
    info.extend((0..16).map(|i| i as u8));
    cases.push(("len-int32", frame(site(&info, 1, 0), vec![])));
    // length that is not an integer scalar / negative / missing
    cases.push(("len-neg", frame(site(&[0x11, 0x02, 0xf1, 0x11, 0xff], 1, 0), vec![])));
    cases.push(("len-missing", frame(site(&[0x11, 0x02, 0xf1, 0x11, 0x80], 1, 0), vec![])));
    cases.push(("len-float", frame(site(&[0x11, 0x02, 0xf1, 0x15, 0, 0, 0, 0], 1, 0), vec![])));
    // DP (index 1) as Int16 scalar holding a small value, AC as Int32 vector
    cases.push(("wide-small", frame(site(&[0x11, 0x01, 0x12, 0x05, 0x00, 0x11, 0x02, 0x23, 1, 0, 0, 0, 0, 0, 0, 0x80], 2, 0), vec![])));
    // htslib style: DP=. as int8 missing; AF=. as float missing
    cases.push(("htslib-missing", frame(site(&[0x11, 0x01, 0x11, 0x80, 0x11, 0x03, 0x15, 0x01, 0x00, 0x80, 0x7f], 2, 0), vec![])));
    // typed MISSING for an integer INFO field
    cases.push(("typed-missing", frame(site(&[0x11, 0x01, 0x00], 1, 0), vec![])));
    // flag as 0x11 0x01
    cases.push(("flag-int", frame(site(&[0x11, 0x04, 0x11, 0x01], 1, 0), vec![])));
    // FORMAT DP (index 1) written wide; AD (index 8) as Int16 vectors with padding
    cases.push(("fmt-wide", frame(site(&[], 0, 2), vec![0x11, 0x01, 0x12, 0x05, 0x00, 0x00, 0x80, 0x11, 0x08, 0x22, 0x01, 0x00, 0x01, 0x80, 0x00, 0x80, 0x01, 0x80])));
    // GT (index 7), first-allele phase bit set / clear
    cases.push(("gt-phase", frame(site(&[], 0, 1), vec![0x11, 0x07, 0x21, 0x03, 0x05, 0x02, 0x05])));
    let hdr_stream = {
        let mut w = bcf::io::Writer::from(Vec::new());
        w.write_header(&header).unwrap();
        w.into_inner()
    };
    for (name, bytes) in cases {
        let mut stream = hdr_stream.clone();
        stream.extend_from_slice(&bytes);
        let case = format!("dec {name}");
        ctx.eval(Some(fnv(case.as_bytes())));
        let e = guarded(|| -> std::io::Result<Rec> {
            let mut rd = bcf::io::Reader::from(&stream[..]);
            let h2 = rd.read_header()?;
            let mut out = vcf::variant::RecordBuf::default();
            rd.read_record_buf(&h2, &mut out)?;
            Ok(from_record_buf(&out))
        });
        let l = guarded(|| -> Result<Rec, String> {
            let mut rd = bcf::io::Reader::from(&stream[..]);
            let h2 = rd.read_header().map_err(es)?;
            let mut rec = bcf::Record::default();
            rd.read_record(&mut rec).map_err(es)?;
            from_lazy(&rec, &h2)
        });
        let (e, l) = match (e, l) {
            (Ok(e), Ok(l)) => (e, l),
            (e, l) => {
                ctx.fail("reader-panic", format!("reader panicked on hand-framed record {name}: eager {:?} lazy {:?}", e.err(), l.err()), case);
                continue;
            }
        };
        let f = |x: Result<Rec, String>| x.map(|r| fmt_rec(&r)).unwrap_or_else(|_| "err".into());
        ctx.corr(format!("c10 dec {} {}", fmt_hdr_words(&h), hex(&bytes)), format!("E {} L {}", f(e.map_err(|e| e.to_string())), f(l)));
        ctx.bump("dec_corpus");
    }
}

fn histogram(ctx: &mut Ctx, h: &Hdr, r: &Rec) {
    ctx.bump(&format!("samples_{}", h.samples));
    ctx.bump(if h.v44 { "fileformat_4.4" } else { "fileformat_4.3" });
    ctx.bump(if h.defs.iter().any(|d| d.idx.is_some()) { "header_idx_explicit" } else { "header_idx_implicit" });
    let width = |n: i32| if (-120..=127).contains(&n) { 8 } else if (-32760..=32767).contains(&n) { 16 } else { 32 };
    let mut visit = |v: &Val, place: &str| match v {
        Val::Int(n) => ctx.bump(&format!("{place}_int_scalar_w{}", width(*n))),
        Val::Ints(xs) => {
            let w = xs.iter().flatten().map(|n| width(*n)).max().unwrap_or(8);
            ctx.bump(&format!("{place}_int_vector_w{w}"));
            if xs.iter().any(|x| x.is_none()) {
                ctx.bump(&format!("{place}_int_vector_has_missing"));
            }
            if xs.len() >= 15 {
                ctx.bump(&format!("{place}_vector_len_ge_15"));
            }
        }
        Val::Floats(_) => ctx.bump(&format!("{place}_float_vector")),
        Val::Float(_) => ctx.bump(&format!("{place}_float_scalar")),
        Val::Gt(g) => ctx.bump(&format!("gt_ploidy_{}", g.len())),
        Val::None => ctx.bump(&format!("{place}_missing_value")),
        _ => ctx.bump(&format!("{place}_other")),
    };
    for (_, v) in &r.info {
        visit(v, "info");
    }
    for v in r.rows.iter().flatten() {
        visit(v, "fmt");
    }
    for (ki, _) in r.keys.iter().enumerate() {
        let lens: Vec<usize> = r.rows.iter().filter_map(|row| match &row[ki] {
            Val::Ints(x) => Some(x.len()),
            Val::Floats(x) => Some(x.len()),
            Val::Gt(x) => Some(x.len()),
            _ => None,
        }).collect();
        if lens.iter().min() != lens.iter().max() {
            ctx.bump("column_ragged_needs_end_of_vector");
        }
    }
}

pub fn run(ctx: &mut Ctx) {
    if let Some(case) = ctx.replay_only.clone() {
        match case.first().map(|s| s.as_str()) {
            Some("case") => {
                let sub: u64 = case.get(1).and_then(|s| s.parse().ok()).unwrap_or(0);
                let (h, r) = case_of(sub);
                run_case(ctx, &h, &r, &format!("case {sub}"), false);
            }
            Some("corpus") => {
                let name = format!("corpus {}", case.get(1).cloned().unwrap_or_default());
                for (n, h, r) in corpus_cases() {
                    if n == name {
                        run_case(ctx, &h, &r, &n, false);
                    }
                }
            }
            Some("dec") => dec_corpus(ctx),
            Some("session") => run_session(ctx, case.get(1).and_then(|s| s.parse().ok()).unwrap_or(0)),
            _ => { super::c10_record::replay(ctx, &case); }
        }
        return;
    }
    for (n, h, r) in corpus_cases() {
        run_case(ctx, &h, &r, &n, true);
        ctx.bump("corpus_cases");
    }
    dec_corpus(ctx);
    let n = ctx.n(2_500, 60_000);
    for it in 0..n {
        let sub = ctx.seed.wrapping_mul(10_000_019).wrapping_add(it);
        let (h, r) = case_of(sub);
        histogram(ctx, &h, &r);
        run_case(ctx, &h, &r, &format!("case {sub}"), true);
    }
    super::c10_record::run(ctx);
    for it in 0..ctx.n(600, 12_000) {
        run_session(ctx, ctx.seed.wrapping_mul(7_000_003).wrapping_add(it));
    }
    let (h, r) = case_of(ctx.seed.wrapping_mul(10_000_019));
    ctx.sample(|| format!("c10 rec {} {}", fmt_hdr_words(&h), fmt_rec(&r)));
}
