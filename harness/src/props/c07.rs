//! C07 — CRAM file round trip and container conformance.
//!
//! ORACLE (on the real code): SAM records over a generated reference → real CRAM writer under
//! every option / encoder / layout combination → (a) real CRAM reader, compared field by field on
//! the SAM rendering up to the normal form `≈` of DESIGN.md §4 C07, (b) an independent container
//! walker (`c07/walker.rs`) over the written bytes.
//! CORRESPONDENCE (vs the Lean model `Noodles.Cram.*`): per record the feature list, rebuilt CIGAR
//! and rebuilt bases of the real reader; per slice the mate links written by `set_mates` and the
//! mate fields produced by `resolve_mates`; per container the header bookkeeping.
use crate::common::*;
use noodles_cram as cram;
use noodles_fasta as fasta;
use noodles_sam as sam;
use sam::alignment::io::Write as _;
use std::collections::BTreeMap;

#[path = "c07/cases.rs"]
mod cases;
#[path = "c07/walker.rs"]
mod walker;
use cases::*;
use walker::*;

// ------------------------------------------------------------------------------ real writer/reader

fn repository(refs: &[(String, Vec<u8>)]) -> fasta::Repository {
    let recs: Vec<fasta::Record> = refs
        .iter()
        .map(|(n, s)| fasta::Record::new(fasta::record::Definition::new(n.as_bytes(), None), fasta::record::Sequence::from(s.clone())))
        .collect();
    fasta::Repository::new(recs)
}

fn to_encoder(e: &Enc) -> Option<cram::codecs::Encoder> {
    use cram::codecs::{aac, rans_4x8, rans_nx16, Encoder};
    match e {
        Enc::Raw => None,
        Enc::Gzip(l) => Some(Encoder::Gzip(flate2::Compression::new(*l))),
        Enc::Bzip2(l) => Some(Encoder::Bzip2(bzip2::Compression::new(*l))),
        Enc::Lzma(l) => Some(Encoder::Lzma(*l)),
        Enc::R4x8(0) => Some(Encoder::Rans4x8(rans_4x8::Order::Zero)),
        Enc::R4x8(_) => Some(Encoder::Rans4x8(rans_4x8::Order::One)),
        Enc::Nx16(f) => Some(Encoder::RansNx16(rans_nx16::Flags::from_bits_retain(*f))),
        Enc::Aac(f) => Some(Encoder::AdaptiveArithmeticCoding(aac::Flags::from_bits_retain(*f))),
        Enc::Tok => Some(Encoder::NameTokenizer),
        Enc::Fqz => Some(Encoder::Fqzcomp),
    }
}

fn data_series(i: usize) -> cram::container::compression_header::data_series_encodings::DataSeries {
    use cram::container::compression_header::data_series_encodings::DataSeries as D;
    [
        D::BamFlags,
        D::CramFlags,
        D::ReferenceSequenceIds,
        D::ReadLengths,
        D::AlignmentStarts,
        D::ReadGroupIds,
        D::Names,
        D::MateFlags,
        D::MateReferenceSequenceIds,
        D::MateAlignmentStarts,
        D::TemplateLengths,
        D::MateDistances,
        D::TagSetIds,
        D::FeatureCounts,
        D::FeatureCodes,
        D::FeaturePositionDeltas,
        D::DeletionLengths,
        D::StretchesOfBases,
        D::StretchesOfQualityScores,
        D::BaseSubstitutionCodes,
        D::InsertionBases,
        D::ReferenceSkipLengths,
        D::PaddingLengths,
        D::HardClipLengths,
        D::SoftClipBases,
        D::MappingQualities,
        D::Bases,
        D::QualityScores,
    ][i]
}

pub enum WriteOut {
    Ok(Vec<u8>),
    Rejected(String),
    /// message and source location (`noodles-cram/src/…:line`) of the panic
    Panic(String, String),
}

/// location of the most recent panic, recorded by a hook chained in front of the one `main` installed
static PANIC_AT: std::sync::Mutex<String> = std::sync::Mutex::new(String::new());

fn install_panic_location_hook() {
    static ONCE: std::sync::Once = std::sync::Once::new();
    ONCE.call_once(|| {
        let prev = std::panic::take_hook();
        std::panic::set_hook(Box::new(move |info| {
            if let (Some(l), Ok(mut at)) = (info.location(), PANIC_AT.lock()) {
                let f = l.file();
                let f = f.find("noodles-").map(|k| &f[k..]).unwrap_or(f);
                *at = format!("{f}:{}", l.line());
            }
            prev(info);
        }));
    });
}

fn last_panic_location() -> String {
    PANIC_AT.lock().map(|s| s.clone()).unwrap_or_default()
}

struct Parsed {
    header: sam::Header,
    bufs: Vec<sam::alignment::RecordBuf>,
    lazy: Vec<sam::Record>,
    /// the input records rendered by noodles' own SAM writer (used for the tag columns only)
    lines: Vec<String>,
}

fn parse_sam(text: &str) -> std::io::Result<Parsed> {
    let mut rd = sam::io::Reader::new(text.as_bytes());
    let header = rd.read_header()?;
    let bufs: Vec<sam::alignment::RecordBuf> = rd.record_bufs(&header).collect::<std::io::Result<_>>()?;
    let mut rd = sam::io::Reader::new(text.as_bytes());
    rd.read_header()?;
    let lazy: Vec<sam::Record> = rd.records().collect::<std::io::Result<_>>()?;
    let mut lines = vec![];
    for b in &bufs {
        let mut w = sam::io::Writer::new(Vec::new());
        w.write_alignment_record(&header, b)?;
        lines.push(String::from_utf8_lossy(w.get_ref()).trim_end().to_string());
    }
    Ok(Parsed { header, bufs, lazy, lines })
}

/// the (tag, type) keys of the stream in first-appearance order
fn tag_keys(bufs: &[sam::alignment::RecordBuf]) -> Vec<cram::container::compression_header::preservation_map::tag_sets::Key> {
    use cram::container::compression_header::preservation_map::tag_sets::Key;
    let mut keys: Vec<Key> = vec![];
    for b in bufs {
        for (tag, value) in b.data().iter() {
            let k = Key::new(tag, value.ty());
            if !keys.contains(&k) {
                keys.push(k);
            }
        }
    }
    keys
}

fn write_cram(case: &Case, p: &Parsed) -> WriteOut {
    let o = &case.opts;
    let r = guarded(|| -> std::io::Result<Vec<u8>> {
        let mut b = cram::io::writer::Builder::default()
            .set_reference_sequence_repository(repository(&case.refs))
            .preserve_read_names(o.preserve_names)
            .encode_alignment_start_positions_as_deltas(o.deltas);
        if let Some(plan) = &o.plan {
            let mut mb = cram::container::BlockContentEncoderMap::builder().set_core_data_encoder(to_encoder(&plan.core)).set_default_encoder(to_encoder(&plan.dflt));
            for (i, e) in plan.series.iter().enumerate() {
                mb = mb.set_data_series_encoder(data_series(i), to_encoder(e));
            }
            if !plan.tags.is_empty() {
                for (k, key) in tag_keys(&p.bufs).into_iter().enumerate() {
                    mb = mb.set_tag_values_encoder(key, to_encoder(&plan.tags[k % plan.tags.len()]));
                }
            }
            b = b.set_block_content_encoder_map(mb.build());
        }
        let mut w = if o.rps == 0 { b.build_from_writer(Vec::new()) } else { b.verif_build_from_writer_with_layout(Vec::new(), o.rps, o.spc.max(1)) };
        w.write_header(&p.header)?;
        if o.lazy {
            for r in &p.lazy {
                w.write_alignment_record(&p.header, r)?;
            }
        } else {
            for r in &p.bufs {
                w.write_alignment_record(&p.header, r)?;
            }
        }
        w.try_finish(&p.header)?;
        Ok(w.get_ref().clone())
    });
    match r {
        Ok(Ok(v)) => WriteOut::Ok(v),
        Ok(Err(e)) => WriteOut::Rejected(format!("{}: {e}", errclass(&e))),
        Err(p) => WriteOut::Panic(p, last_panic_location()),
    }
}

/// real reader → (header text, SAM lines)
fn read_cram(bytes: &[u8], refs: &[(String, Vec<u8>)]) -> Result<(String, Vec<String>), String> {
    let r = guarded(|| -> std::io::Result<(String, Vec<String>)> {
        let mut rd = cram::io::reader::Builder::default().set_reference_sequence_repository(repository(refs)).build_from_reader(bytes);
        let header = rd.read_header()?;
        let mut hw = sam::io::Writer::new(Vec::new());
        hw.write_header(&header)?;
        let htext = String::from_utf8_lossy(hw.get_ref()).into_owned();
        let mut lines = vec![];
        for rec in rd.records(&header) {
            let rec = rec?;
            let mut w = sam::io::Writer::new(Vec::new());
            w.write_alignment_record(&header, &rec)?;
            lines.push(String::from_utf8_lossy(w.get_ref()).trim_end().to_string());
        }
        Ok((htext, lines))
    });
    match r {
        Ok(Ok(v)) => Ok(v),
        Ok(Err(e)) => Err(format!("{}: {e}", errclass(&e))),
        Err(p) => Err(format!("panic: {p}")),
    }
}

// ------------------------------------------------------------------------------ the normal form ≈

/// `=`/`X` → `M`, adjacent operations of one kind merged
pub fn norm_cigar(c: &[(u8, usize)]) -> String {
    let mut out: Vec<(u8, usize)> = vec![];
    for (k, n) in c {
        let k = if matches!(k, b'=' | b'X') { b'M' } else { *k };
        match out.last_mut() {
            Some((pk, pn)) if *pk == k => *pn += n,
            _ => out.push((k, *n)),
        }
    }
    if out.is_empty() { "*".into() } else { out.iter().map(|(k, n)| format!("{n}{}", *k as char)).collect() }
}

/// a difference between an input record and what was read back: (column, expected, got)
type Diff = (&'static str, String, String);

fn compare_record(r: &Rec, refs: &[(String, Vec<u8>)], in_line: &str, out_line: &str, preserve_names: bool) -> Vec<Diff> {
    let mut d: Vec<Diff> = vec![];
    let f: Vec<&str> = out_line.split('\t').collect();
    if f.len() < 11 {
        d.push(("line", "11+ columns".into(), out_line.into()));
        return d;
    }
    let want = r.sam_line(refs);
    let w: Vec<&str> = want.split('\t').collect();
    if preserve_names && f[0] != w[0] {
        d.push(("QNAME", w[0].into(), f[0].into()));
    }
    for (i, col) in [(1, "FLAG"), (2, "RNAME"), (3, "POS")] {
        if f[i] != w[i] {
            d.push((col, w[i].into(), f[i].into()));
        }
    }
    let mapq = if r.unmapped() { "255".to_string() } else { w[4].to_string() };
    if f[4] != mapq {
        d.push(("MAPQ", mapq, f[4].into()));
    }
    let cig = if r.unmapped() { "*".to_string() } else { norm_cigar(&r.cigar) };
    if f[5] != cig {
        d.push(("CIGAR", cig, f[5].into()));
    }
    for (i, col) in [(6, "RNEXT"), (7, "PNEXT"), (8, "TLEN")] {
        if f[i] != w[i] {
            d.push((col, w[i].into(), f[i].into()));
        }
    }
    if !f[9].eq_ignore_ascii_case(w[9]) {
        d.push(("SEQ", w[9].into(), f[9].into()));
    }
    if f[10] != w[10] {
        d.push(("QUAL", w[10].into(), f[10].into()));
    }
    // tags: as rendered by noodles' SAM writer from the input record
    let tin: Vec<&str> = in_line.split('\t').skip(11).collect();
    let tout: Vec<&str> = f[11..].to_vec();
    if tin != tout {
        d.push(("TAGS", tin.join(" "), tout.join(" ")));
    }
    d
}

/// names under preserve_read_names(false): every name is the original or a generated decimal number; two
/// records of different templates never come back with one name; two records of one template that both
/// received generated names received the same one
fn compare_names_lossy(recs: &[Rec], out: &[String]) -> Option<String> {
    let names: Vec<&str> = out.iter().map(|l| l.split('\t').next().unwrap_or("")).collect();
    let generated = |s: &str| !s.is_empty() && s.bytes().all(|b| b.is_ascii_digit());
    for i in 0..recs.len() {
        let orig = String::from_utf8_lossy(&recs[i].name).into_owned();
        if names[i] != orig && !generated(names[i]) {
            return Some(format!("record {i}: name {:?} is neither the original {:?} nor a generated number", names[i], orig));
        }
        for j in 0..i {
            let same_in = recs[i].name == recs[j].name && recs[i].name != b"*";
            let same_out = names[i] == names[j];
            if (!same_in && same_out) || (same_in && !same_out && generated(names[i]) && generated(names[j])) {
                return Some(format!("records {j} and {i}: names {:?}/{:?} read back as {:?}/{:?}", String::from_utf8_lossy(&recs[j].name), orig, names[j], names[i]));
            }
        }
    }
    None
}

// ----------------------------------------------------------------------------------- classification

/// the stable class of a round-trip mismatch, from the columns that differ and the input's shape
fn classify(case: &Case, i: usize, diffs: &[Diff]) -> String {
    let r = &case.recs[i];
    let cols: Vec<&str> = diffs.iter().map(|d| d.0).collect();
    let mate_only = cols.iter().all(|c| matches!(*c, "RNEXT" | "PNEXT" | "TLEN" | "FLAG"));
    if mate_only && r.flag & 1 != 0 {
        if r.has_supp {
            return "mate-chain-supplementary".into();
        }
        if cols == ["TLEN"] {
            if r.rid.is_some() && r.rnext.is_some() && r.rid != r.rnext {
                return "mate-tlen-cross-reference".into();
            }
            if r.flag & 0xc != 0 {
                return "mate-tlen-unmapped-end".into();
            }
            return "mate-tlen".into();
        }
        return "mate-fields".into();
    }
    if cols.contains(&"QNAME") && r.name == b"*" {
        return "name-missing".into();
    }
    format!("roundtrip-{}", cols.join("+").to_lowercase())
}

fn expect_of(case: &Case) -> Expect {
    Expect {
        recs: case
            .recs
            .iter()
            .map(|r| {
                let placed = r.rid.is_some() && r.pos > 0;
                ExpRec {
                    rid: r.rid.map(|x| x as i32).unwrap_or(-1),
                    start: r.pos,
                    end: if placed { if r.unmapped() { r.pos } else { r.end() } } else { 0 },
                    read_len: r.seq.len(),
                    exact: placed && !r.unmapped() && r.ref_span() > 0 && !r.seq.is_empty(),
                }
            })
            .collect(),
        refs: case.refs.iter().map(|r| r.1.clone()).collect(),
        preserve_names: case.opts.preserve_names,
        deltas: case.opts.deltas,
    }
}

/// raw content of every data block of a file, in file order: (container, slice, content type, content id, bytes)
fn block_contents(w: &Walk) -> Vec<(usize, usize, u8, i32, Vec<u8>)> {
    let mut v = vec![];
    for (ci, c) in w.containers.iter().enumerate() {
        for (si, s) in c.slices.iter().enumerate() {
            for k in &s.blocks {
                let b = &c.blocks[*k];
                if let Some(raw) = &b.raw {
                    v.push((ci, si, b.ctype, b.cid, raw.clone()));
                }
            }
        }
    }
    v
}

/// outcome of running one codec over one block content in isolation
enum Rt {
    Same,
    /// the ENCODER returned an error: it refuses the input (e.g. rANS 4x8 order 1 on fewer than 4 bytes). The
    /// writer then returns that error: "rejected", never a violation, and never a self-round-trip failure.
    Refused(String),
    /// panic, or the decoder fails on / mis-decodes the encoder's own output
    Broken(String),
}

fn codec_roundtrip(e: &Enc, src: &[u8], lens: &[usize]) -> Rt {
    use cram::verif as v;
    let enc = guarded(|| -> std::io::Result<Vec<u8>> {
        match e {
            Enc::R4x8(o) => v::rans_4x8_encode(if *o == 0 { cram::codecs::rans_4x8::Order::Zero } else { cram::codecs::rans_4x8::Order::One }, src),
            Enc::Nx16(f) => v::rans_nx16_encode(cram::codecs::rans_nx16::Flags::from_bits_retain(*f), src),
            Enc::Aac(f) => v::aac_encode(cram::codecs::aac::Flags::from_bits_retain(*f), src),
            Enc::Tok => v::name_tokenizer_encode(src),
            Enc::Fqz => v::fqzcomp_encode(lens, src),
            _ => Ok(src.to_vec()),
        }
    });
    let data = match enc {
        Ok(Ok(d)) => d,
        Ok(Err(e)) => return Rt::Refused(format!("encoder error: {e}")),
        Err(p) => return Rt::Broken(format!("encoder panic at {}: {p}", last_panic_location())),
    };
    let dec = guarded(|| -> std::io::Result<Vec<u8>> {
        match e {
            Enc::R4x8(_) => v::rans_4x8_decode(&data),
            Enc::Nx16(_) => v::rans_nx16_decode(&data, src.len()),
            Enc::Aac(_) => v::aac_decode(&data, src.len()),
            Enc::Tok => v::name_tokenizer_decode(&data),
            Enc::Fqz => v::fqzcomp_decode(&data),
            _ => Ok(data.clone()),
        }
    });
    match dec {
        Ok(Ok(out)) if out == src => Rt::Same,
        Ok(Ok(out)) => Rt::Broken(format!("decode(encode(x)) has {} bytes and differs from x ({} bytes)", out.len(), src.len())),
        Ok(Err(e)) => Rt::Broken(format!("decoder error on the encoder's own output: {e}")),
        Err(p) => Rt::Broken(format!("decoder panic at {} on the encoder's own output: {p}", last_panic_location())),
    }
}

/// When a case with CRAM-specific codecs fails: write the same stream with raw blocks, take every block's
/// content, and run the failing plan's codec over it in isolation. A block whose codec does not
/// self-round-trip makes the failure a codec failure (C08's territory): class `codec-<codec>`.
fn codec_attribution(case: &Case, p: &Parsed) -> Option<(String, String)> {
    let plan = case.opts.plan.as_ref()?;
    if !plan.all().iter().any(|e| matches!(e, Enc::R4x8(_) | Enc::Nx16(_) | Enc::Aac(_) | Enc::Tok | Enc::Fqz)) {
        return None;
    }
    let mut twin = case.clone();
    twin.opts.plan = Some(EncPlan::uniform(Enc::Raw));
    twin.opts.spc = 1; // the same slices, one per container: never rejected for mixed slice contexts
    // records the writer cannot take at all (F25: mapped, CIGAR but no bases) must not stop the twin
    twin.recs.retain(|r| !(r.rid.is_some() && r.pos > 0 && r.seq.is_empty() && !r.cigar.is_empty()));
    let reparsed;
    let p = if twin.recs.len() != case.recs.len() {
        reparsed = parse_sam(&twin.sam_text()).ok()?;
        &reparsed
    } else {
        p
    };
    let case = &twin;
    let WriteOut::Ok(bytes) = write_cram(&twin, p) else {
        return None;
    };
    let w = walk(&bytes, &expect_of(&twin));
    let key_order: Vec<i32> = tag_keys(&p.bufs)
        .into_iter()
        .map(|k| {
            let t: [u8; 2] = k.tag().into();
            let ty = match k.ty() {
                sam::alignment::record::data::field::Type::Character => b'A',
                sam::alignment::record::data::field::Type::Int8 => b'c',
                sam::alignment::record::data::field::Type::UInt8 => b'C',
                sam::alignment::record::data::field::Type::Int16 => b's',
                sam::alignment::record::data::field::Type::UInt16 => b'S',
                sam::alignment::record::data::field::Type::Int32 => b'i',
                sam::alignment::record::data::field::Type::UInt32 => b'I',
                sam::alignment::record::data::field::Type::Float => b'f',
                sam::alignment::record::data::field::Type::String => b'Z',
                sam::alignment::record::data::field::Type::Hex => b'H',
                sam::alignment::record::data::field::Type::Array => b'B',
            };
            ((t[0] as i32) << 16) | ((t[1] as i32) << 8) | ty as i32
        })
        .collect();
    // record lengths per slice, for fqzcomp
    let mut recno = 0usize;
    let mut slice_lens: BTreeMap<(usize, usize), Vec<usize>> = BTreeMap::new();
    for (ci, c) in w.containers.iter().enumerate() {
        for (si, s) in c.slices.iter().enumerate() {
            let n = s.nrec.max(0) as usize;
            slice_lens.insert((ci, si), case.recs[recno.min(case.recs.len())..(recno + n).min(case.recs.len())].iter().map(|r| r.seq.len()).collect());
            recno += n;
        }
    }
    for (ci, si, ctype, cid, raw) in block_contents(&w) {
        let e = if ctype == 5 {
            &plan.core
        } else if (1..=28).contains(&cid) {
            &plan.series[cid as usize - 1]
        } else if let (Some(k), false) = (key_order.iter().position(|x| *x == cid), plan.tags.is_empty()) {
            &plan.tags[k % plan.tags.len()]
        } else {
            &plan.dflt
        };
        // as in `encode_block`: fqzcomp is given the non-empty records' lengths and is used only for a block that
        // is exactly one array per record; any other block goes to the default encoder
        let lens: Vec<usize> = slice_lens.get(&(ci, si)).cloned().unwrap_or_default().into_iter().filter(|n| *n > 0).collect();
        let e = if *e == Enc::Fqz && lens.iter().sum::<usize>() != raw.len() { &plan.dflt } else { e };
        if let Rt::Broken(msg) = codec_roundtrip(e, &raw, &lens) {
            let shown = if raw.len() <= 64 { hex(&raw) } else { format!("{}… ({} bytes)", hex(&raw[..64]), raw.len()) };
            return Some((format!("codec-{}", e.family()), format!("{} does not self-round-trip on the content of block {cid} (container {ci} slice {si}): {msg}; input {shown}", e.label())));
        }
    }
    None
}

// --------------------------------------------------------------------------------------- one case

pub struct Outcome {
    pub written: Option<Vec<u8>>,
    pub walk: Option<Walk>,
    pub failed: bool,
}

fn run_case(ctx: &mut Ctx, case: &Case) -> Outcome {
    let mut out = Outcome { written: None, walk: None, failed: false };
    let text = case.sam_text();
    let p = match guarded(|| parse_sam(&text)) {
        Ok(Ok(p)) => p,
        Ok(Err(e)) => {
            // the generator produced text noodles-sam does not accept: a harness problem, not a CRAM one
            ctx.bump("generator_sam_rejected");
            if std::env::var("NVH_SHOW").is_ok() {
                for l in text.lines().filter(|l| !l.starts_with('@')) {
                    let one = format!("{}{l}\n", case.header_text);
                    if let Err(e1) = parse_sam(&one) {
                        eprintln!("SAM parser rejected ({e} / {e1}): {l}");
                    }
                }
            }
            ctx.sample(|| format!("SAM parser rejected generated input ({e}): {}", text.lines().last().unwrap_or("")));
            return out;
        }
        Err(pn) => {
            ctx.bump("generator_sam_panic");
            ctx.sample(|| format!("SAM parser panicked on generated input: {pn}"));
            return out;
        }
    };
    let nontrivial = case.recs.len() >= 2 && case.recs.iter().any(|r| !r.unmapped());
    ctx.eval(if nontrivial { Some(fnv(text.as_bytes()) ^ fnv(format!("{:?}", case.opts).as_bytes())) } else { None });
    histogram(ctx, case);
    let bytes = match write_cram(case, &p) {
        WriteOut::Ok(b) => b,
        WriteOut::Rejected(e) => {
            // an error is the writer not accepting the stream: outside the property
            ctx.bump(&format!("writer_rejected:{}", e.split(':').next().unwrap_or("")));
            ctx.sample(|| format!("writer rejected {}: {e}", case.label));
            return out;
        }
        WriteOut::Panic(pn, at) => {
            // a panic is not "accepts" either, but it is never the intended way to refuse an input.
            // The class comes from WHERE the writer panicked: inside a codec -> that codec; elsewhere -> the
            // writer itself (by the shape of the input that triggers it).
            let (cls, why) = match codec_of_location(&at) {
                Some("fqzcomp") if pn.contains("subtract with overflow") => ("codec-fqzcomp".to_string(), "fqzcomp was given a zero-length record (a record without bases in the slice)".to_string()),
                Some("fqzcomp") if pn.contains("index out of bounds") && at.contains("fqzcomp/encode.rs") => (
                    "writer-panic-fqzcomp-lens".to_string(),
                    format!("the quality block holds more bytes than the sum of the record lengths fqzcomp was given: the stream has {} ReadBase feature(s), each appends its score to the same series", read_base_features(case)),
                ),
                Some(fam) => (format!("codec-{fam}"), match codec_attribution(case, &p) {
                    Some((c, t)) if c == format!("codec-{fam}") => t,
                    _ => "the encoder panicked inside the writer".to_string(),
                }),
                None => (panic_class(case, &pn, &at), String::new()),
            };
            ctx.fail(&cls, format!("writer panicked at {at}: {pn}{}{why}", if why.is_empty() { "" } else { "; " }), case.label.clone());
            out.failed = true;
            return out;
        }
    };
    ctx.bump("files_written");
    ctx.bump_by("bytes_written", bytes.len() as u64);
    out.written = Some(bytes.clone());
    // ---- (b) the container walker
    let w = walk(&bytes, &expect_of(case));
    let mut seen_cls: Vec<String> = vec![];
    for (cls, t) in &w.problems {
        if seen_cls.contains(cls) {
            continue;
        }
        seen_cls.push(cls.clone());
        let codec_block = t.contains("(method 4,") || t.contains("(method 5,") || t.contains("(method 6,") || t.contains("(method 7,") || t.contains("(method 8,");
        let cls2 = if cls.starts_with("block-undecodable") || (cls == "raw-size" && codec_block) {
            match codec_attribution(case, &p) {
                Some((c, t2)) => {
                    ctx.fail(&c, format!("{t}; {t2}"), case.label.clone());
                    out.failed = true;
                    continue;
                }
                None => format!("container-{cls}"),
            }
        } else {
            format!("container-{cls}")
        };
        ctx.fail(&cls2, t.clone(), case.label.clone());
        out.failed = true;
    }
    for m in &w.methods_seen {
        ctx.bump(&format!("block_method_{m}"));
    }
    ctx.bump(&format!("version_3.{}", w.minor));
    ctx.bump(&format!("containers_{}", w.containers.len().min(6)));
    if w.containers.iter().any(|c| c.slices.len() > 1) {
        ctx.bump("file_with_multi_slice_container");
    }
    if w.containers.iter().any(|c| c.slices.iter().any(|s| s.ref_id == -2)) {
        ctx.bump("file_with_multi_reference_slice");
    }
    // ---- (a) the real reader
    match read_cram(&bytes, &case.refs) {
        Err(e) => {
            if let Some((cls, t)) = codec_attribution(case, &p) {
                ctx.fail(&cls, format!("reader failed ({e}); {t}"), case.label.clone());
            } else {
                let cls = if case.recs.iter().any(|r| !r.seq.is_empty() && r.qual.is_empty()) && (e.contains("missing external block: 28") || e.contains("err:eof")) {
                    "read-error-qual-missing".to_string()
                } else if e.contains("missing external block: 27") && case.recs.iter().any(|r| r.unmapped() && r.seq.is_empty()) {
                    // a slice in which no record has bases, read through the BA series with length 0
                    "read-error-bases-missing".to_string()
                } else if case.recs.iter().any(|r| r.name == b"*") && !e.starts_with("panic") {
                    "name-missing".to_string()
                } else if e.starts_with("panic") {
                    "reader-panic".to_string()
                } else {
                    "read-error".to_string()
                };
                ctx.fail(&cls, format!("the writer accepted the stream, the reader fails: {e}"), case.label.clone());
            }
            out.failed = true;
        }
        Ok((htext, lines)) => {
            let want_h = case.expected_header_text();
            if htext != want_h {
                ctx.fail("header-roundtrip", format!("header read back differs: expected {:?}, got {:?}", want_h, htext), case.label.clone());
                out.failed = true;
            }
            if lines.len() != case.recs.len() {
                match codec_attribution(case, &p) {
                    Some((c, t2)) => ctx.fail(&c, format!("{} records written, {} read back; {t2}", case.recs.len(), lines.len()), case.label.clone()),
                    None => ctx.fail("record-count", format!("{} records written, {} read back", case.recs.len(), lines.len()), case.label.clone()),
                }
                out.failed = true;
            } else {
                let mut reported: Vec<String> = vec![];
                let mut attribution: Option<Option<(String, String)>> = None;
                for i in 0..lines.len() {
                    let d = compare_record(&case.recs[i], &case.refs, &p.lines[i], &lines[i], case.opts.preserve_names);
                    if d.is_empty() {
                        continue;
                    }
                    out.failed = true;
                    let a = attribution.get_or_insert_with(|| codec_attribution(case, &p));
                    let (cls, extra) = match a {
                        Some((c, t)) => (c.clone(), format!("; {t}")),
                        None => (classify(case, i, &d), String::new()),
                    };
                    if reported.contains(&cls) {
                        continue;
                    }
                    reported.push(cls.clone());
                    let cols: Vec<String> = d.iter().map(|(c, w, g)| format!("{c}: wrote {w:?} read {g:?}")).collect();
                    ctx.fail(&cls, format!("record {i} ({}) {}{extra}", case.recs[i].sam_line(&case.refs).replace('\t', " "), cols.join("; ")), case.label.clone());
                }
                if !case.opts.preserve_names {
                    if let Some(t) = compare_names_lossy(&case.recs, &lines) {
                        match attribution.get_or_insert_with(|| codec_attribution(case, &p)) {
                            Some((c, t2)) => ctx.fail(&c.clone(), format!("{t}; {t2}"), case.label.clone()),
                            None => ctx.fail("names-lossy", t, case.label.clone()),
                        }
                        out.failed = true;
                    }
                }
            }
        }
    }
    if !out.failed {
        emit_corr(ctx, case, &bytes, &w);
    }
    out.walk = Some(w);
    out
}

/// number of ReadBase features `cigar_to_features` produces for the stream: aligned bases that differ from the
/// reference where either base is outside ACGTN (each appends one byte to the QS series besides the arrays)
fn read_base_features(case: &Case) -> usize {
    let acgtn = |b: u8| matches!(b.to_ascii_uppercase(), b'A' | b'C' | b'G' | b'T' | b'N');
    let mut n = 0;
    for r in &case.recs {
        let (Some(rid), false) = (r.rid, r.seq.is_empty()) else { continue };
        if r.pos == 0 || r.read_len_cigar() != r.seq.len() {
            continue;
        }
        let rf = &case.refs[rid].1;
        let (mut rp, mut qp) = (r.pos - 1, 0usize);
        for (k, len) in &r.cigar {
            match k {
                b'M' | b'=' | b'X' => {
                    for i in 0..*len {
                        if let (Some(a), Some(b)) = (rf.get(rp + i), r.seq.get(qp + i)) {
                            if !a.eq_ignore_ascii_case(b) && !(acgtn(*a) && acgtn(*b)) {
                                n += 1;
                            }
                        }
                    }
                    rp += len;
                    qp += len;
                }
                b'I' | b'S' => qp += len,
                b'D' | b'N' => rp += len,
                _ => {}
            }
        }
    }
    n
}

/// the codec a panic location lies in (`noodles-cram/src/codecs/<codec>/…`)
fn codec_of_location(at: &str) -> Option<&'static str> {
    let k = at.find("/codecs/")?;
    let rest = &at[k + 8..];
    Some(if rest.starts_with("fqzcomp") {
        "fqzcomp"
    } else if rest.starts_with("rans_4x8") {
        "rans4x8"
    } else if rest.starts_with("rans_nx16") {
        "ransnx16"
    } else if rest.starts_with("aac") {
        "aac"
    } else if rest.starts_with("name_tokenizer") {
        "tok"
    } else {
        return None;
    })
}

fn panic_class(case: &Case, msg: &str, at: &str) -> String {
    // F25: `cigar_to_features` indexes the (empty) sequence of a mapped record that has a CIGAR
    if case.recs.iter().any(|r| !r.unmapped() && r.seq.is_empty() && !r.cigar.is_empty()) && at.contains("position/sequence_index.rs") && (msg.contains("out of range") || msg.contains("index out of bounds")) {
        return "writer-panic-seq-missing".into();
    }
    if case.recs.iter().any(|r| !r.unmapped() && !r.seq.is_empty() && r.qual.is_empty()) && msg.contains("index out of bounds") {
        return "writer-panic-qual-missing".into();
    }
    if msg.contains("out of range for slice of length") && case.recs.iter().any(|r| r.unmapped() && r.rid.is_some() && r.pos > 0 && r.pos + r.seq.len() > case.refs[r.rid.unwrap()].1.len() + 1) {
        // an unmapped read placed at its mate, overhanging the reference end: the slice extent is computed
        // from the read length and the reference MD5 is taken over it
        return "writer-panic-unmapped-overhang".into();
    }
    if msg.contains("subtract with overflow") && case.recs.iter().any(|r| r.rid.is_some() && r.pos > 0 && cram_span(r) == 0) {
        // a placed record that covers no reference base: alignment_end = start - 1
        return "writer-panic-zero-span".into();
    }
    if msg.contains("not implemented") {
        return "writer-panic-unimplemented".into();
    }
    "writer-panic".into()
}

fn histogram(ctx: &mut Ctx, case: &Case) {
    let o = &case.opts;
    ctx.bump(&format!("opt_preserve_names_{}", o.preserve_names));
    ctx.bump(&format!("opt_deltas_{}", o.deltas));
    ctx.bump(if o.rps == 0 { "layout_default" } else if o.rps == 1 { "layout_1_record_per_slice" } else { "layout_custom" });
    if o.spc > 1 {
        ctx.bump("layout_multi_slice_containers_requested");
    }
    match &o.plan {
        None => ctx.bump("enc_library_default"),
        Some(p) => {
            let mut fams: Vec<&str> = p.all().iter().map(|e| e.family()).collect();
            fams.sort();
            fams.dedup();
            for f in fams {
                ctx.bump(&format!("enc_{f}"));
            }
        }
    }
    ctx.bump(if o.lazy { "input_lazy_sam_record" } else { "input_record_buf" });
    ctx.bump(&format!("records_{}", match case.recs.len() { 0..=1 => "1", 2..=5 => "2-5", 6..=15 => "6-15", _ => "16+" }));
    for r in &case.recs {
        if r.unmapped() {
            ctx.bump(if r.rid.is_some() { "rec_unmapped_placed" } else { "rec_unmapped" });
        } else {
            ctx.bump("rec_mapped");
            for (k, _) in &r.cigar {
                ctx.bump(&format!("cigar_op_{}", *k as char));
            }
            if r.qual.is_empty() && !r.seq.is_empty() {
                ctx.bump("rec_mapped_qual_missing");
            }
            if r.seq.is_empty() {
                ctx.bump("rec_mapped_seq_missing");
            }
        }
        if r.flag & 1 != 0 {
            ctx.bump("rec_paired");
        }
        if r.flag & 0x800 != 0 {
            ctx.bump("rec_supplementary");
        }
        if r.flag & 0x100 != 0 {
            ctx.bump("rec_secondary");
        }
        if r.name == b"*" {
            ctx.bump("rec_name_missing");
        }
        if !r.tags.is_empty() {
            ctx.bump("rec_with_tags");
        }
    }
}


// ----------------------------------------------------------------------------------- correspondence

/// what the real reader holds for one record after `Slice::records` (features, CRAM flags and the mate
/// distance come from the `Debug` rendering of `cram::Record`: its fields are crate-private)
struct RawRec {
    features: String,
    cigar: String,
    seq: Vec<u8>,
    qual: Vec<u8>,
    detached: bool,
    downstream: bool,
    mate_dist: Option<usize>,
    flags: u16,
    mrid: Option<usize>,
    mpos: Option<usize>,
    tlen: i32,
    matrix: String,
}

fn num_after(body: &str, key: &str) -> Option<u64> {
    let k = body.find(key)? + key.len();
    let d: String = body[k..].chars().take_while(|c| c.is_ascii_digit()).collect();
    d.parse().ok()
}

fn list_after(body: &str, key: &str) -> Option<Vec<u8>> {
    let k = body.find(key)? + key.len();
    let e = body[k..].find(']')? + k;
    let inner = &body[k..e];
    if inner.trim().is_empty() {
        return Some(vec![]);
    }
    inner.split(',').map(|x| x.trim().parse::<u8>().ok()).collect()
}

/// `[SoftClip { position: Position(1), bases: [84, 71] }, …]` → the driver's canonical feature list
fn parse_features_debug(d: &str) -> Option<String> {
    let a = d.rfind(", features: [")? + ", features: [".len();
    let b = d.rfind("], mapping_quality:")?;
    if b < a {
        return None;
    }
    let mut rest = &d[a..b];
    let mut out: Vec<String> = vec![];
    while !rest.trim().is_empty() {
        let open = rest.find(" { ")?;
        let name = rest[..open].trim().trim_start_matches(',').trim();
        let close = rest.find(" }")?;
        let body = &rest[open + 3..close];
        let p = num_after(body, "position: Position(")?;
        let item = match name {
            "Bases" => format!("b{p}:{}", hex(&list_after(body, "bases: [")?)),
            "Scores" => format!("q{p}:{}", hex(&list_after(body, "quality_scores: [")?)),
            "ReadBase" => format!("B{p}:{}:{}", num_after(body, "base: ")?, num_after(body, "quality_score: ")?),
            "Substitution" => format!("X{p}:{}", num_after(body, "code: ")?),
            "Insertion" => format!("I{p}:{}", hex(&list_after(body, "bases: [")?)),
            "Deletion" => format!("D{p}:{}", num_after(body, "len: ")?),
            "InsertBase" => format!("i{p}:{}", num_after(body, "base: ")?),
            "QualityScore" => format!("Q{p}:{}", num_after(body, "quality_score: ")?),
            "ReferenceSkip" => format!("N{p}:{}", num_after(body, "len: ")?),
            "SoftClip" => format!("S{p}:{}", hex(&list_after(body, "bases: [")?)),
            "Padding" => format!("P{p}:{}", num_after(body, "len: ")?),
            "HardClip" => format!("H{p}:{}", num_after(body, "len: ")?),
            _ => return None,
        };
        out.push(item);
        rest = &rest[close + 2..];
    }
    Some(if out.is_empty() { "-".into() } else { out.join(",") })
}

fn field<'a>(d: &'a str, key: &str, next: &str) -> Option<&'a str> {
    let from = d.find(", substitution_matrix: ")?;
    let a = d[from..].find(key)? + from + key.len();
    let b = d[a..].find(next)? + a;
    Some(&d[a..b])
}

/// the real reader at the container / slice level: records per slice, in file order
fn read_slices(bytes: &[u8], refs: &[(String, Vec<u8>)]) -> Result<Vec<Vec<RawRec>>, String> {
    use sam::alignment::Record as _;
    let r = guarded(|| -> std::io::Result<Vec<Vec<RawRec>>> {
        let bad = |m: &str| std::io::Error::new(std::io::ErrorKind::Other, m.to_string());
        let mut rd = cram::io::reader::Builder::default().set_reference_sequence_repository(repository(refs)).build_from_reader(bytes);
        let header = rd.read_header()?;
        let mut container = cram::io::reader::Container::default();
        let mut out = vec![];
        while rd.read_container(&mut container)? != 0 {
            let ch = container.compression_header()?;
            for slice in container.slices() {
                let slice = slice?;
                let (core, ext) = slice.decode_blocks()?;
                let recs = slice.records(repository(refs), &header, &ch, &core, &ext)?;
                let mut v = vec![];
                for r in &recs {
                    let d = format!("{r:?}");
                    let features = parse_features_debug(&d).ok_or_else(|| bad("cannot parse the Debug rendering of the features"))?;
                    let cf = field(&d, ", cram_flags: Flags(", ")").ok_or_else(|| bad("no cram_flags in Debug"))?;
                    let md = field(&d, ", mate_distance: ", ", data: ").ok_or_else(|| bad("no mate_distance in Debug"))?;
                    let mate_dist = if md == "None" { None } else { md.trim_start_matches("Some(").trim_end_matches(')').parse().ok() };
                    let sm = field(&d, ", substitution_matrix: SubstitutionMatrix(", "), bam_flags").ok_or_else(|| bad("no substitution_matrix in Debug"))?;
                    let matrix: String = sm.chars().filter(|c| "ACGTN".contains(*c)).collect();
                    let cigar = {
                        let ops: Vec<String> = r
                            .cigar()
                            .iter()
                            .map(|o| {
                                o.map(|o| {
                                    use sam::alignment::record::cigar::op::Kind as K;
                                    let c = match o.kind() {
                                        K::Match => 'M',
                                        K::Insertion => 'I',
                                        K::Deletion => 'D',
                                        K::Skip => 'N',
                                        K::SoftClip => 'S',
                                        K::HardClip => 'H',
                                        K::Pad => 'P',
                                        K::SequenceMatch => '=',
                                        K::SequenceMismatch => 'X',
                                    };
                                    format!("{}{c}", o.len())
                                })
                            })
                            .collect::<std::io::Result<_>>()?;
                        if ops.is_empty() { "*".to_string() } else { ops.concat() }
                    };
                    v.push(RawRec {
                        features,
                        cigar,
                        seq: r.sequence().iter().collect(),
                        qual: r.quality_scores().iter().collect::<std::io::Result<_>>()?,
                        detached: cf.contains("IS_DETACHED"),
                        downstream: cf.contains("MATE_IS_DOWNSTREAM"),
                        mate_dist,
                        flags: u16::from(r.flags()?),
                        mrid: r.mate_reference_sequence_id(&header).transpose()?,
                        mpos: r.mate_alignment_start().transpose()?.map(usize::from),
                        tlen: r.template_length()?,
                        matrix,
                    });
                }
                out.push(v);
            }
        }
        Ok(out)
    });
    match r {
        Ok(Ok(v)) => Ok(v),
        Ok(Err(e)) => Err(format!("{}: {e}", errclass(&e))),
        Err(p) => Err(format!("panic: {p}")),
    }
}

fn opt(x: Option<usize>) -> String {
    x.map(|v| v.to_string()).unwrap_or_else(|| "-".into())
}

/// `calculate_alignment_span(read_length, features)` from the input record
fn cram_span(r: &Rec) -> usize {
    let plus: usize = r.cigar.iter().filter(|(k, _)| matches!(k, b'D' | b'N')).map(|(_, n)| *n).sum();
    let minus: usize = r.cigar.iter().filter(|(k, _)| matches!(k, b'I' | b'S')).map(|(_, n)| *n).sum();
    (r.seq.len() + plus).saturating_sub(minus)
}

fn matrix_string(m: &[[u8; 4]; 5]) -> String {
    m.iter().flat_map(|row| row.iter().map(|b| *b as char)).collect()
}

fn emit_corr(ctx: &mut Ctx, case: &Case, bytes: &[u8], w: &Walk) {
    let slices = match read_slices(bytes, &case.refs) {
        Ok(s) => s,
        Err(e) => {
            ctx.fail("read-error", format!("container-level read of an accepted file failed: {e}"), case.label.clone());
            return;
        }
    };
    let n: usize = slices.iter().map(|s| s.len()).sum();
    if n != case.recs.len() {
        return;
    }
    // names as identifiers
    let mut names: Vec<&[u8]> = vec![];
    let ids: Vec<String> = case
        .recs
        .iter()
        .map(|r| {
            if r.name == b"*" {
                "-".to_string()
            } else {
                match names.iter().position(|x| *x == &r.name[..]) {
                    Some(k) => k.to_string(),
                    None => {
                        names.push(&r.name);
                        (names.len() - 1).to_string()
                    }
                }
            }
        })
        .collect();
    // the matrix of the container each slice belongs to, from the walker's own parse
    let mut slice_matrix: Vec<Option<String>> = vec![];
    for c in &w.containers {
        for _ in &c.slices {
            slice_matrix.push(c.ch.sm.as_ref().map(matrix_string));
        }
    }
    let mut i = 0usize;
    for (si, sl) in slices.iter().enumerate() {
        // ---- mates: one request per slice
        let inp: Vec<String> = (0..sl.len())
            .map(|k| {
                let r = &case.recs[i + k];
                format!("{},{},{},{},{},{},{},{}", r.flag, ids[i + k], opt(r.rid), if r.pos > 0 { r.pos.to_string() } else { "-".into() }, cram_span(r), opt(r.rnext), if r.pnext > 0 { r.pnext.to_string() } else { "-".into() }, r.tlen)
            })
            .collect();
        let ans: Vec<String> = sl.iter().map(|x| format!("d{}s{}n{}|{},{},{},{}", x.detached as u8, x.downstream as u8, opt(x.mate_dist), x.flags, opt(x.mrid), opt(x.mpos), x.tlen)).collect();
        ctx.corr(format!("c07 mates {}", inp.join(";")), ans.join(";"));
        if sl.iter().any(|x| x.downstream) {
            ctx.bump("corr_slice_with_attached_mates");
        }
        // ---- features: one request per mapped record with bases
        for (k, x) in sl.iter().enumerate() {
            let r = &case.recs[i + k];
            let Some(rid) = r.rid else { continue };
            if r.unmapped() || r.seq.is_empty() || r.pos == 0 || case.refs[rid].1.len() > 1000 || r.read_len_cigar() != r.seq.len() {
                continue;
            }
            let Some(Some(m)) = slice_matrix.get(si) else { continue };
            if *m != x.matrix {
                ctx.fail("container-compression-header", format!("substitution matrix parsed from the compression header ({m}) differs from the reader's ({})", x.matrix), case.label.clone());
                continue;
            }
            ctx.corr(
                format!("c07 feat {} {} {} {} {} {}", hex(&case.refs[rid].1), r.pos, r.cigar_str(), hex(&r.seq), hex(&r.qual), m),
                format!("{} {} {} {}", x.features, x.cigar, hex(&x.seq), hex(&x.qual)),
            );
            if x.features.contains('X') {
                ctx.bump("corr_record_with_substitution");
            }
            if x.features.contains('B') {
                ctx.bump("corr_record_with_read_base");
            }
        }
        i += sl.len();
    }
    // ---- container bookkeeping
    let blk = |b: &WBlock| format!("{}:{}:{}", b.cid, b.csize, b.rsize);
    for c in &w.containers {
        if c.blocks.is_empty() || c.slices.is_empty() {
            continue;
        }
        let sl: Vec<String> = c
            .slices
            .iter()
            .map(|s| {
                let hdr_idx = s.blocks.first().map(|k| k - 1).unwrap_or(0);
                let mut v = vec![blk(&c.blocks[hdr_idx])];
                v.extend(s.blocks.iter().map(|k| blk(&c.blocks[*k])));
                v.join(",")
            })
            .collect();
        ctx.corr(
            format!("c07 layout {} {}", blk(&c.blocks[0]), sl.join(";")),
            format!("{} {} {}", c.length, c.landmarks.iter().map(|x| x.to_string()).collect::<Vec<_>>().join(","), c.nblocks),
        );
    }
    let (rps, spc) = if case.opts.rps == 0 { (10240, 1) } else { (case.opts.rps, case.opts.spc.max(1)) };
    let lens: Vec<String> = case.recs.iter().map(|r| r.seq.len().to_string()).collect();
    let infos: Vec<String> = w
        .containers
        .iter()
        .map(|c| format!("{}:{}:{}:{}", c.counter, c.nrec, c.bases, c.slices.iter().map(|s| format!("{}+{}", s.counter, s.nrec)).collect::<Vec<_>>().join("/")))
        .collect();
    ctx.corr(format!("c07 counters {rps} {spc} {}", if lens.is_empty() { "-".into() } else { lens.join(",") }), infos.join(";"));
}

/// `Block::size()` (what `build_container` sums into the container length and the landmarks)
/// against the bytes `write_block` writes for the same block.
fn block_size_case(ctx: &mut Ctx, content_id: i32, len: usize) {
    let case = format!("blocksize {content_id} {len}");
    ctx.eval(Some(fnv(case.as_bytes())));
    let data: Vec<u8> = (0..len).map(|i| (i * 31 + 7) as u8).collect();
    match guarded(|| cram::verif::block_size_and_bytes(content_id, &data)) {
        Ok(Ok((size, bytes))) => {
            if size != bytes.len() {
                ctx.fail("block-size-accounting", format!("external block id {content_id} with {len} data bytes: the writer accounts {size} bytes in the container length / landmarks, write_block writes {}", bytes.len()), case);
            }
        }
        Ok(Err(e)) => ctx.fail("block-size-accounting", format!("external block id {content_id} with {len} data bytes: error {e}"), case),
        Err(p) => ctx.fail("block-size-accounting", format!("external block id {content_id} with {len} data bytes: panic {p}"), case),
    }
}

fn corr_fixed(ctx: &mut Ctx) {
    // ITF8 writer at the length-class boundaries, and the EOF container of an empty file
    for n in [0i32, 1, 127, 128, 16383, 16384, 2097151, 2097152, 268435455, 268435456, i32::MAX, -1, -2, i32::MIN, 4542278, 5130345] {
        let mut buf = vec![];
        let a = match cram::verif::write_itf8(&mut buf, n) {
            Ok(()) => hex(&buf),
            Err(e) => errclass(&e).to_string(),
        };
        ctx.corr(format!("c07 itf8 {n}"), a);
    }
    // the size the container writer accounts for an ITF8 integer (`itf8_size_of`, which feeds the
    // container length and the landmarks), at and around every length-class boundary
    let mut ns: Vec<i32> = vec![0, 1, -1, -2, i32::MAX, i32::MIN, i32::MIN + 1, 4542278, 5130345];
    for k in [7u32, 14, 21, 28, 31] {
        let b = 1i64 << k;
        for d in -3i64..=3 {
            for v in [b + d, -(b + d)] {
                if let Ok(v) = i32::try_from(v) {
                    ns.push(v);
                }
            }
        }
    }
    let mut rng = Rng::new(ctx.seed ^ 0x17f8);
    for _ in 0..ctx.n(200, 5_000) {
        let bits = 1 + rng.below(32) as u32;
        ns.push((rng.next() & ((1u64 << bits) - 1)) as u32 as i32);
    }
    for n in ns {
        ctx.corr(format!("c07 itf8size {n}"), cram::verif::itf8_size_of(n).to_string());
        block_size_case(ctx, n, 0);
    }
    // a block's accounted size is the number of bytes written for it, at and around the data
    // lengths where the ITF8 size fields change length
    for len in [0usize, 1, 126, 127, 128, 129, 16382, 16383, 16384, 16385, 2097151, 2097152, 2097153] {
        block_size_case(ctx, 7, len);
    }
    let r = guarded(|| -> std::io::Result<Vec<u8>> {
        let header = sam::Header::default();
        let mut w = cram::io::Writer::new(Vec::new());
        w.write_header(&header)?;
        w.try_finish(&header)?;
        Ok(w.get_ref().clone())
    });
    if let Ok(Ok(b)) = r {
        if b.len() >= 38 {
            ctx.corr("c07 eof".into(), hex(&b[b.len() - 38..]));
        }
    }
}

// ------------------------------------------------------------------------------------------- run

/// `<--dir>/pyref`: files for the independent Python walker (pyref/C07.py)
fn pyref_dir() -> String {
    let args: Vec<String> = std::env::args().collect();
    let dir = args.iter().position(|a| a == "--dir").and_then(|i| args.get(i + 1)).cloned().unwrap_or_else(|| "/verif/work/C07".into());
    format!("{dir}/pyref")
}

fn dump_for_pyref(dir: &str, k: usize, case: &Case, bytes: &[u8]) {
    let ex = expect_of(case);
    let mut meta = format!("case {}\nopts {} {}\n", case.label, case.opts.preserve_names as u8, case.opts.deltas as u8);
    for (_, s) in &case.refs {
        meta.push_str(&format!("ref {}\n", hexs(s)));
    }
    for r in &ex.recs {
        meta.push_str(&format!("rec {} {} {} {} {}\n", r.rid, r.start, r.end, r.read_len, r.exact as u8));
    }
    let _ = std::fs::write(format!("{dir}/{k:03}.cram"), bytes);
    let _ = std::fs::write(format!("{dir}/{k:03}.meta"), meta);
}

pub fn run(ctx: &mut Ctx) {
    install_panic_location_hook();
    if let Some(case) = ctx.replay_only.clone() {
        if super::c07_enc::replay(ctx, &case) { return; }
        if super::c07_sam::replay(ctx, &case) { return; }
        if super::c07_chunk::replay(ctx, &case) { return; }
        match case.first().map(|s| s.as_str()) {
            Some("rt") => {
                let sub: u64 = case.get(1).and_then(|s| s.parse().ok()).unwrap_or(0);
                let c = gen_case(sub, ctx.tier_thorough);
                if std::env::var("NVH_SHOW").is_ok() {
                    eprintln!("{}\n{:?}", c.sam_text(), c.opts);
                }
                run_case(ctx, &c);
            }
            Some("attr") => {
                // debugging aid: which block's codec fails in isolation
                let sub: u64 = case.get(1).and_then(|s| s.parse().ok()).unwrap_or(0);
                let c = gen_case(sub, ctx.tier_thorough);
                if let Ok(p) = parse_sam(&c.sam_text()) {
                    eprintln!("{:?}", codec_attribution(&c, &p));
                }
            }
            Some("blocksize") => {
                let id: i32 = case.get(1).and_then(|s| s.parse().ok()).unwrap_or(0);
                let len: usize = case.get(2).and_then(|s| s.parse().ok()).unwrap_or(0);
                block_size_case(ctx, id, len);
            }
            Some("corpus") => {
                let k: usize = case.get(1).and_then(|s| s.parse().ok()).unwrap_or(0);
                if let Some(c) = corpus().get(k) {
                    run_case(ctx, c);
                }
            }
            _ => {}
        }
        return;
    }
    corr_fixed(ctx);
    super::c07_enc::run(ctx);
    super::c07_sam::run(ctx);
    super::c07_chunk::run(ctx);
    let pdir = pyref_dir();
    std::fs::create_dir_all(&pdir).ok();
    for f in std::fs::read_dir(&pdir).into_iter().flatten().flatten() {
        let _ = std::fs::remove_file(f.path());
    }
    let mut dumped = 0usize;
    let dump_max = ctx.n(60, 400) as usize;
    for c in corpus() {
        let o = run_case(ctx, &c);
        if let (Some(b), Some(w)) = (&o.written, &o.walk) {
            if w.problems.is_empty() {
                dump_for_pyref(&pdir, dumped, &c, b);
                dumped += 1;
            }
        }
    }
    let n = ctx.n(600, 8_000);
    for it in 0..n {
        let sub = ctx.seed.wrapping_mul(1_000_003).wrapping_add(it);
        let c = gen_case(sub, ctx.tier_thorough);
        let o = run_case(ctx, &c);
        if let (Some(b), Some(w)) = (&o.written, &o.walk) {
            if w.problems.is_empty() && dumped < dump_max && it % 4 == 0 {
                dump_for_pyref(&pdir, dumped, &c, b);
                dumped += 1;
            }
        }
    }
    ctx.sample(|| "c07 feat <reference hex> <start> <CIGAR> <bases hex> <qualities hex> <substitution matrix> / c07 mates <flags,name,ref,pos,span,mref,mpos,tlen;…> / c07 layout … / c07 counters …".into());
}
