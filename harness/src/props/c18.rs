//! C18 — GFF3 / GTF / BED lines round-trip, including escaping of reserved characters.
//!
//! correspondence: real writer text / real lazy accessors / real owned conversion vs the Lean
//! model (`Noodles/Gff/{Model,Gtf,Bed}.lean`), request by request.
//! oracle: owned record -> writer -> reader -> owned record is the identity; lazy accessors agree
//! with the owned record built from them; the float law assumed by the model.
use crate::common::*;
use bstr::{BStr, BString};
use noodles_bed as bed;
use noodles_core::Position;
use noodles_gff as gff;
use noodles_gtf as gtf;
use std::ops::Deref;

use gff::feature::record::{Phase, Strand};
use gff::feature::record_buf::attributes::field::Value as AttrValue;
use gff::feature::RecordBuf;

// ------------------------------------------------------------------------------------ data

#[derive(Clone, Debug, PartialEq)]
pub enum Val {
    S(Vec<u8>),
    A(Vec<Vec<u8>>),
}

#[derive(Clone, Debug)]
pub struct Rec {
    pub seqid: Vec<u8>,
    pub source: Vec<u8>,
    pub ty: Vec<u8>,
    pub start: usize,
    pub end: usize,
    pub score: Option<f32>,
    pub strand: char,
    pub phase: char,
    pub attrs: Vec<(Vec<u8>, Val)>,
}

/// bytes of a `&BStr` or a `Cow<BStr>` (the lazy gff accessors return one or the other,
/// depending on whether the F19 fix is in the tree)
fn bs<T: Deref<Target = BStr>>(x: T) -> Vec<u8> {
    let b: &BStr = x.deref();
    let s: &[u8] = b.as_ref();
    s.to_vec()
}

fn pos(n: usize) -> Position {
    Position::try_from(n.max(1)).unwrap()
}

fn strand_of(c: char) -> Strand {
    match c {
        '+' => Strand::Forward,
        '-' => Strand::Reverse,
        '?' => Strand::Unknown,
        _ => Strand::None,
    }
}
fn strand_ch(s: Strand) -> char {
    match s {
        Strand::None => '.',
        Strand::Forward => '+',
        Strand::Reverse => '-',
        Strand::Unknown => '?',
    }
}
fn phase_of(c: char) -> Option<Phase> {
    match c {
        '0' => Some(Phase::Zero),
        '1' => Some(Phase::One),
        '2' => Some(Phase::Two),
        _ => None,
    }
}
fn phase_ch(p: Option<Phase>) -> char {
    match p {
        None => '.',
        Some(Phase::Zero) => '0',
        Some(Phase::One) => '1',
        Some(Phase::Two) => '2',
    }
}

fn to_buf(r: &Rec) -> RecordBuf {
    let mut b = RecordBuf::builder()
        .set_reference_sequence_name(r.seqid.clone())
        .set_source(r.source.clone())
        .set_type(r.ty.clone())
        .set_start(pos(r.start))
        .set_end(pos(r.end))
        .set_strand(strand_of(r.strand));
    if let Some(s) = r.score {
        b = b.set_score(s);
    }
    if let Some(p) = phase_of(r.phase) {
        b = b.set_phase(p);
    }
    let attrs = r
        .attrs
        .iter()
        .map(|(t, v)| {
            let v = match v {
                Val::S(s) => AttrValue::String(BString::from(s.clone())),
                Val::A(vs) => AttrValue::Array(vs.iter().map(|x| BString::from(x.clone())).collect()),
            };
            (BString::from(t.clone()), v)
        })
        .collect();
    b.set_attributes(attrs).build()
}

fn from_buf(b: &RecordBuf) -> Rec {
    Rec {
        seqid: bs(b.reference_sequence_name()),
        source: bs(b.source()),
        ty: bs(b.ty()),
        start: usize::from(b.start()),
        end: usize::from(b.end()),
        score: b.score(),
        strand: strand_ch(b.strand()),
        phase: phase_ch(b.phase()),
        attrs: b
            .attributes()
            .as_ref()
            .iter()
            .map(|(t, v)| {
                let v = match v {
                    AttrValue::String(s) => Val::S(s.to_vec()),
                    AttrValue::Array(vs) => Val::A(vs.iter().map(|x| x.to_vec()).collect()),
                };
                (t.to_vec(), v)
            })
            .collect(),
    }
}

// ------------------------------------------------------------------------------------ canonical text

fn fmt_val(v: &Val) -> String {
    match v {
        Val::S(s) => format!("S:{}", hex(s)),
        Val::A(vs) => format!("A:{}", vs.iter().map(|x| hex(x)).collect::<Vec<_>>().join(",")),
    }
}
fn fmt_attrs(a: &[(Vec<u8>, Val)]) -> String {
    if a.is_empty() {
        return "-".into();
    }
    a.iter().map(|(t, v)| format!("{}={}", hex(t), fmt_val(v))).collect::<Vec<_>>().join(";")
}
fn fmt_score(s: Option<f32>) -> String {
    match s {
        None => "~".into(),
        Some(x) => x.to_bits().to_string(),
    }
}
fn fmt_rec(r: &Rec) -> String {
    format!(
        "{} {} {} {} {} {} {} {} {}",
        hex(&r.seqid),
        hex(&r.source),
        hex(&r.ty),
        r.start,
        r.end,
        fmt_score(r.score),
        r.strand,
        r.phase,
        fmt_attrs(&r.attrs)
    )
}
/// the request words of a record for `gff-write` / `gtf-write` (score as a formatting table entry)
fn req_rec(r: &Rec) -> String {
    let score = match r.score {
        None => "~".to_string(),
        Some(x) => format!("{}:{}", x.to_bits(), hex(format!("{x}").as_bytes())),
    };
    format!(
        "{} {} {} {} {} {} {} {} {}",
        hex(&r.seqid),
        hex(&r.source),
        hex(&r.ty),
        r.start,
        r.end,
        score,
        r.strand,
        r.phase,
        fmt_attrs(&r.attrs)
    )
}

fn res_class<T>(r: &std::io::Result<T>) -> Option<&'static str> {
    r.as_ref().err().map(errclass)
}

// ------------------------------------------------------------------------------------ real code: GFF

fn gff_write(r: &Rec) -> Result<Vec<u8>, String> {
    let buf = to_buf(r);
    match guarded(|| {
        let mut w = gff::io::Writer::new(Vec::new());
        w.write_record(&buf).map(|_| w.into_inner())
    }) {
        Ok(Ok(mut text)) => {
            // `write_record` appends the newline; the model's record text is without it
            if text.last() == Some(&b'\n') {
                text.pop();
            }
            Ok(text)
        }
        Ok(Err(e)) => Err(errclass(&e).to_string()),
        Err(_) => Err("panic".into()),
    }
}

/// parse `text` with the real `f32` parser behind the gff / gtf score accessor
fn real_parse_score(text: &[u8], gtf_fmt: bool) -> Option<Result<f32, ()>> {
    let mut line = b"x\t.\t.\t1\t1\t".to_vec();
    line.extend_from_slice(text);
    line.extend_from_slice(b"\t.\t.\t\n");
    if gtf_fmt {
        let mut rd = gtf::io::Reader::new(&line[..]);
        let mut l = gtf::Line::default();
        rd.read_line(&mut l).ok()?;
        let rec = l.as_record()?.ok()?;
        rec.score().map(|r| r.map_err(|_| ()))
    } else {
        let mut rd = gff::io::Reader::new(&line[..]);
        let mut l = gff::Line::default();
        rd.read_line(&mut l).ok()?;
        let rec = l.as_record()?.ok()?;
        rec.score().map(|r| r.map_err(|_| ()))
    }
}

/// the harness's own view of "the score column of the first line": used only to build the parse
/// table handed to the model (if the model's bounds differ, its lookup misses and the answers differ)
fn score_table(file: &[u8], gtf_fmt: bool) -> String {
    for (i, part) in file.split(|b| *b == b'\n').enumerate() {
        let terminated = i + 1 < file.split(|b| *b == b'\n').count();
        let mut l = part.to_vec();
        if terminated && l.last() == Some(&b'\r') {
            l.pop();
        }
        if !terminated && l.is_empty() {
            break;
        }
        if !gtf_fmt && l.iter().all(|b| b.is_ascii_whitespace()) {
            continue;
        }
        let cols: Vec<&[u8]> = l.split(|b| *b == b'\t').collect();
        if cols.len() < 6 || cols[5] == b"." || cols[5].contains(&b'\n') {
            return "~".into();
        }
        return match real_parse_score(cols[5], gtf_fmt) {
            Some(Ok(x)) => format!("{}:{}", hex(cols[5]), x.to_bits()),
            Some(Err(())) => format!("{}:err", hex(cols[5])),
            None => "~".into(),
        };
    }
    "~".into()
}

fn fmt_res<T>(r: std::io::Result<T>, f: impl FnOnce(T) -> String) -> String {
    match r {
        Ok(v) => f(v),
        Err(e) => errclass(&e).to_string(),
    }
}
fn fmt_opt_res<T>(r: Option<std::io::Result<T>>, f: impl FnOnce(T) -> String) -> String {
    match r {
        None => "~".into(),
        Some(r) => fmt_res(r, f),
    }
}

/// lazy gff attributes, collected until the first error (the iterator never ends after one)
fn gff_lazy_attrs(rec: &gff::Record<'_>) -> std::io::Result<Vec<(Vec<u8>, Val)>> {
    use gff::record::attributes::field::Value;
    let attrs = rec.attributes();
    let mut out = vec![];
    for item in attrs.iter() {
        let (t, v) = item?;
        let v = match v {
            Value::String(s) => Val::S(bs(s)),
            Value::Array(a) => Val::A(a.iter().map(bs).collect()),
        };
        out.push((bs(t), v));
        if out.len() > 100_000 {
            break;
        }
    }
    Ok(out)
}

/// `gff-readline`: first delivered line of `file` through the real reader: kind, lazy accessors,
/// owned conversion.
fn gff_readline(file: &[u8]) -> String {
    let r = guarded(|| {
        let mut rd = gff::io::Reader::new(file);
        let mut line = gff::Line::default();
        match rd.read_line(&mut line) {
            Ok(0) => return "eof".to_string(),
            Ok(_) => {}
            Err(e) => return errclass(&e).to_string(),
        }
        match line.kind() {
            gff::line::Kind::Comment => format!("kind=C {}", hex(line.as_comment().unwrap())),
            gff::line::Kind::Directive => {
                let d = line.as_directive().unwrap();
                let v = match d.value() {
                    None => "~".to_string(),
                    Some(v) => hex(v),
                };
                format!("kind=D key={} value={}", hex(d.key()), v)
            }
            gff::line::Kind::Record => match line.as_record().unwrap() {
                Err(e) => format!("kind=R {}", errclass(&e)),
                Ok(rec) => {
                    let lazy = format!(
                        "seqid={} source={} type={} start={} end={} score={} strand={} phase={} attrs={}",
                        hex(&bs(rec.reference_sequence_name())),
                        hex(&bs(rec.source())),
                        hex(&bs(rec.ty())),
                        fmt_res(rec.start(), |p| usize::from(p).to_string()),
                        fmt_res(rec.end(), |p| usize::from(p).to_string()),
                        fmt_opt_res(rec.score(), |x| x.to_bits().to_string()),
                        fmt_res(rec.strand(), |s| strand_ch(s).to_string()),
                        fmt_opt_res(rec.phase(), |p| phase_ch(Some(p)).to_string()),
                        fmt_res(gff_lazy_attrs(&rec), |a| fmt_attrs(&a)),
                    );
                    let owned = match guarded(|| RecordBuf::try_from_feature_record(&rec)) {
                        Ok(r) => fmt_res(r, |b| fmt_rec(&from_buf(&b))),
                        Err(_) => "panic".into(),
                    };
                    format!("kind=R {lazy} owned={owned}")
                }
            },
        }
    });
    r.unwrap_or_else(|_| "panic".into())
}

/// `lines gff|gtf`: kinds and raw text of every delivered line
fn real_lines(file: &[u8], gtf_fmt: bool) -> String {
    let r = guarded(|| {
        let mut out = vec![];
        if gtf_fmt {
            let mut rd = gtf::io::Reader::new(file);
            for l in rd.lines() {
                match l {
                    Ok(l) => {
                        let k = match l.kind() {
                            gtf::line::Kind::Comment => "C",
                            gtf::line::Kind::Record => "R",
                        };
                        let b: &BStr = l.as_ref();
                        out.push(format!("{k}:{}", hex(b)));
                    }
                    Err(e) => {
                        out.push(errclass(&e).to_string());
                        break;
                    }
                }
            }
        } else {
            let mut rd = gff::io::Reader::new(file);
            for l in rd.lines() {
                match l {
                    Ok(l) => {
                        let k = match l.kind() {
                            gff::line::Kind::Comment => "C",
                            gff::line::Kind::Directive => "D",
                            gff::line::Kind::Record => "R",
                        };
                        let b: &BStr = l.as_ref();
                        out.push(format!("{k}:{}", hex(b)));
                    }
                    Err(e) => {
                        out.push(errclass(&e).to_string());
                        break;
                    }
                }
            }
        }
        if out.is_empty() { "-".to_string() } else { out.join(" ") }
    });
    r.unwrap_or_else(|_| "panic".into())
}

// ------------------------------------------------------------------------------------ real code: GFF directives

#[derive(Clone, Debug, PartialEq)]
pub enum DVal {
    S(Vec<u8>),
    V(u32, Option<u32>, Option<u32>),
    R(Vec<u8>, usize, usize),
    B(Vec<u8>, Vec<u8>),
}

fn fmt_optn(n: Option<u32>) -> String {
    n.map(|x| x.to_string()).unwrap_or_else(|| "~".into())
}
fn fmt_dval(v: &DVal) -> String {
    match v {
        DVal::S(s) => format!("S:{}", hex(s)),
        DVal::V(a, b, c) => format!("V:{a}:{}:{}", fmt_optn(*b), fmt_optn(*c)),
        DVal::R(n, a, b) => format!("R:{}:{a}:{b}", hex(n)),
        DVal::B(a, b) => format!("B:{}:{}", hex(a), hex(b)),
    }
}

fn version_text(a: u32, b: Option<u32>, c: Option<u32>) -> String {
    let mut s = a.to_string();
    if let Some(b) = b {
        s += &format!(".{b}");
        if let Some(c) = c {
            s += &format!(".{c}");
        }
    }
    s
}

/// typed values need valid UTF-8 names (they are rendered with `Display`)
fn to_dvalue(v: &DVal) -> Option<gff::directive_buf::Value> {
    use gff::directive_buf::value::{GenomeBuild, GffVersion, SequenceRegion};
    use gff::directive_buf::Value;
    Some(match v {
        DVal::S(s) => Value::String(BString::from(s.clone())),
        // a `GffVersion` can only be obtained by parsing
        DVal::V(a, b, c) => Value::GffVersion(version_text(*a, *b, *c).parse::<GffVersion>().ok()?),
        DVal::R(n, a, b) => Value::SequenceRegion(SequenceRegion::new(n.clone(), pos(*a), pos(*b))),
        DVal::B(a, b) => Value::GenomeBuild(GenomeBuild::new(a.clone(), b.clone())),
    })
}

fn gff_directive_write(key: &[u8], v: &Option<DVal>) -> Result<Vec<u8>, String> {
    let value = match v {
        None => None,
        Some(v) => Some(to_dvalue(v).ok_or_else(|| "unbuildable".to_string())?),
    };
    let d = gff::DirectiveBuf::new(key.to_vec(), value);
    match guarded(|| {
        let mut w = gff::io::Writer::new(Vec::new());
        w.write_directive(&d).map(|_| w.into_inner())
    }) {
        Ok(Ok(mut t)) => {
            if t.last() == Some(&b'\n') {
                t.pop();
            }
            Ok(t)
        }
        Ok(Err(e)) => Err(errclass(&e).to_string()),
        Err(_) => Err("panic".into()),
    }
}

/// the typed `FromStr` of a directive value
fn gff_directive_parse(kind: char, text: &str) -> Option<DVal> {
    use gff::directive_buf::value::{GenomeBuild, GffVersion, SequenceRegion};
    match kind {
        'V' => text.parse::<GffVersion>().ok().map(|v| DVal::V(v.major(), v.minor(), v.patch())),
        'R' => text
            .parse::<SequenceRegion>()
            .ok()
            .map(|v| DVal::R(bs(v.reference_sequence_name()), usize::from(v.start()), usize::from(v.end()))),
        _ => text.parse::<GenomeBuild>().ok().map(|v| DVal::B(bs(v.source()), bs(v.name()))),
    }
}

// ------------------------------------------------------------------------------------ real code: GTF

fn gtf_write(r: &Rec) -> Result<Vec<u8>, String> {
    let buf = to_buf(r);
    match guarded(|| {
        let mut w = gtf::io::Writer::new(Vec::new());
        w.write_record(&buf).map(|_| w.into_inner())
    }) {
        Ok(Ok(mut text)) => {
            if text.last() == Some(&b'\n') {
                text.pop();
            }
            Ok(text)
        }
        Ok(Err(e)) => Err(errclass(&e).to_string()),
        Err(_) => Err("panic".into()),
    }
}

fn gtf_lazy_attrs(rec: &gtf::Record<'_>) -> std::io::Result<Vec<(Vec<u8>, Val)>> {
    use gtf::record::attributes::field::Value;
    let attrs = rec.attributes()?;
    let mut out = vec![];
    for item in attrs.iter() {
        let (k, v) = item?;
        let v = match v {
            Value::String(s) => Val::S(bs(s.clone())),
            Value::Array(a) => Val::A(a.iter().map(|x| bs(x.clone())).collect()),
        };
        let kb: &[u8] = k.as_ref();
        out.push((kb.to_vec(), v));
    }
    Ok(out)
}

fn gtf_readline(file: &[u8]) -> String {
    let r = guarded(|| {
        let mut rd = gtf::io::Reader::new(file);
        let mut line = gtf::Line::default();
        match rd.read_line(&mut line) {
            Ok(0) => return "eof".to_string(),
            Ok(_) => {}
            Err(e) => return errclass(&e).to_string(),
        }
        match line.kind() {
            gtf::line::Kind::Comment => format!("kind=C {}", hex(line.as_comment().unwrap())),
            gtf::line::Kind::Record => match line.as_record().unwrap() {
                Err(e) => format!("kind=R {}", errclass(&e)),
                Ok(rec) => {
                    let lazy = format!(
                        "seqid={} source={} type={} start={} end={} score={} strand={} phase={} attrs={}",
                        hex(&bs(rec.reference_sequence_name())),
                        hex(&bs(rec.source())),
                        hex(&bs(rec.ty())),
                        fmt_res(rec.start(), |p| usize::from(p).to_string()),
                        fmt_res(rec.end(), |p| usize::from(p).to_string()),
                        fmt_opt_res(rec.score(), |x| x.to_bits().to_string()),
                        fmt_res(rec.strand(), |s| strand_ch(s).to_string()),
                        fmt_opt_res(rec.phase(), |p| phase_ch(Some(p)).to_string()),
                        fmt_res(gtf_lazy_attrs(&rec), |a| fmt_attrs(&a)),
                    );
                    let owned = match guarded(|| RecordBuf::try_from_feature_record(&rec)) {
                        Ok(r) => fmt_res(r, |b| fmt_rec(&from_buf(&b))),
                        Err(_) => "panic".into(),
                    };
                    format!("kind=R {lazy} owned={owned}")
                }
            },
        }
    });
    r.unwrap_or_else(|_| "panic".into())
}

// ------------------------------------------------------------------------------------ real code: BED

#[derive(Clone, Debug, PartialEq)]
pub enum OVal {
    S(Vec<u8>),
    C(u8),
    U(u64),
    I(i64),
}

#[derive(Clone, Debug, PartialEq)]
pub struct BedRec {
    pub n: usize,
    pub seqid: Vec<u8>,
    pub start: usize,
    pub end: Option<usize>,
    pub name: Option<Vec<u8>>,
    pub score: u16,
    pub strand: char,
    pub other: Vec<OVal>,
}

fn fmt_oval(v: &OVal) -> String {
    match v {
        OVal::S(s) => format!("S:{}", hex(s)),
        OVal::C(c) => format!("C:{c}"),
        OVal::U(n) => format!("U:{n}"),
        OVal::I(n) => format!("I:{n}"),
    }
}
fn fmt_opt_hex(x: &Option<Vec<u8>>) -> String {
    match x {
        None => "~".into(),
        Some(b) => hex(b),
    }
}
fn fmt_bed(r: &BedRec) -> String {
    let oth = if r.other.is_empty() { "-".to_string() } else { r.other.iter().map(fmt_oval).collect::<Vec<_>>().join(",") };
    format!(
        "{} {} {} {} {} {} {} {}",
        r.n,
        hex(&r.seqid),
        r.start,
        r.end.map(|e| e.to_string()).unwrap_or_else(|| "~".into()),
        fmt_opt_hex(&r.name),
        r.score,
        r.strand,
        oth
    )
}

fn bed_strand_ch(s: Option<bed::feature::record::Strand>) -> char {
    match s {
        None => '.',
        Some(bed::feature::record::Strand::Forward) => '+',
        Some(bed::feature::record::Strand::Reverse) => '-',
    }
}

fn bed_others(r: &BedRec) -> bed::feature::record_buf::OtherFields {
    use bed::feature::record_buf::other_fields::Value;
    let vs: Vec<Value> = r
        .other
        .iter()
        .map(|v| match v {
            OVal::S(s) => Value::String(BString::from(s.clone())),
            OVal::C(c) => Value::Character(*c),
            OVal::U(n) => Value::UInt64(*n),
            OVal::I(n) => Value::Int64(*n),
        })
        .collect();
    bed::feature::record_buf::OtherFields::from(vs)
}

fn bed_others_back(o: &bed::feature::record_buf::OtherFields) -> Vec<OVal> {
    use bed::feature::record_buf::other_fields::Value;
    o.as_ref()
        .iter()
        .map(|v| match v {
            Value::String(s) => OVal::S(s.to_vec()),
            Value::Character(c) => OVal::C(*c),
            Value::UInt64(n) => OVal::U(*n),
            Value::Int64(n) => OVal::I(*n),
            Value::Float64(x) => OVal::S(format!("f64:{}", x.to_bits()).into_bytes()),
        })
        .collect()
}

/// per standard-field count N: build the owned record, write it, read a file back
macro_rules! bed_n {
    ($n:literal, $build:ident, $back:ident, $write:ident, $read:ident, [$($nm:ident)?], [$($sc:ident)?], [$($st:ident)?]) => {
        fn $build(r: &BedRec) -> bed::feature::RecordBuf<$n> {
            let mut b = bed::feature::RecordBuf::<$n>::builder()
                .set_reference_sequence_name(r.seqid.clone())
                .set_feature_start(pos(r.start))
                .set_other_fields(bed_others(r));
            if let Some(e) = r.end {
                b = b.set_feature_end(pos(e));
            }
            $( let $nm = (); let _ = $nm; if let Some(nm) = &r.name { b = b.set_name(nm.clone()); } )?
            $( let $sc = (); let _ = $sc; b = b.set_score(r.score); )?
            $( let $st = (); let _ = $st;
               match r.strand {
                   '+' => b = b.set_strand(bed::feature::record::Strand::Forward),
                   '-' => b = b.set_strand(bed::feature::record::Strand::Reverse),
                   _ => {}
               } )?
            b.build()
        }
        #[allow(unused_mut, unused_assignments)]
        fn $back(b: &bed::feature::RecordBuf<$n>) -> BedRec {
            let mut name = None;
            let mut score = 0u16;
            let mut strand = '.';
            $( let $nm = (); let _ = $nm; name = b.name().map(|x| bs(x)); )?
            $( let $sc = (); let _ = $sc; score = b.score(); )?
            $( let $st = (); let _ = $st; strand = bed_strand_ch(b.strand()); )?
            BedRec {
                n: $n,
                seqid: bs(b.reference_sequence_name()),
                start: usize::from(b.feature_start()),
                end: b.feature_end().map(usize::from),
                name,
                score,
                strand,
                other: bed_others_back(b.other_fields()),
            }
        }
        fn $write(r: &BedRec) -> Result<Vec<u8>, String> {
            let buf = $build(r);
            match guarded(|| {
                let mut w = bed::io::Writer::<$n, _>::new(Vec::new());
                w.write_feature_record(&buf).map(|_| w.into_inner())
            }) {
                Ok(Ok(t)) => Ok(t),
                Ok(Err(e)) => Err(errclass(&e).to_string()),
                Err(_) => Err("panic".into()),
            }
        }
        /// every record of `file`: returned length, lazy accessors, owned conversion; also the owned records
        #[allow(unused_mut)]
        fn $read(file: &[u8]) -> (String, Vec<BedRec>) {
            let mut out = vec![];
            let mut recs = vec![];
            let mut rd = bed::io::Reader::<$n, _>::new(file);
            let mut rec = bed::Record::<$n>::default();
            for _ in 0..16 {
                let n = match guarded(|| rd.read_record(&mut rec)) {
                    Ok(Ok(0)) => {
                        out.push("eof".to_string());
                        break;
                    }
                    Ok(Ok(n)) => n,
                    Ok(Err(e)) => {
                        out.push(errclass(&e).to_string());
                        break;
                    }
                    Err(_) => {
                        out.push("panic".to_string());
                        break;
                    }
                };
                let g = |f: &mut dyn FnMut() -> String| guarded(|| f()).unwrap_or_else(|_| "panic".into());
                let mut lazy = format!(
                    "seqid={} start={} end={}",
                    g(&mut || hex(&bs(rec.reference_sequence_name()))),
                    g(&mut || fmt_res(rec.feature_start(), |p| usize::from(p).to_string())),
                    g(&mut || fmt_opt_res(rec.feature_end(), |p| usize::from(p).to_string())),
                );
                $( let $nm = (); let _ = $nm; lazy += &format!(" name={}", g(&mut || fmt_opt_hex(&rec.name().map(|x| bs(x))))); )?
                $( let $sc = (); let _ = $sc; lazy += &format!(" score={}", g(&mut || fmt_res(rec.score(), |x| x.to_string()))); )?
                $( let $st = (); let _ = $st; lazy += &format!(" strand={}", g(&mut || fmt_res(rec.strand(), |s| bed_strand_ch(s).to_string()))); )?
                lazy += &format!(
                    " others={}",
                    g(&mut || {
                        let v: Vec<String> = rec.other_fields().iter().map(|x| hex(&bs(x))).collect();
                        if v.is_empty() { "-".to_string() } else { v.join(",") }
                    })
                );
                let owned = match guarded(|| bed::feature::RecordBuf::<$n>::try_from_feature_record(&rec)) {
                    Ok(Ok(b)) => {
                        let r = $back(&b);
                        let s = fmt_bed(&r);
                        recs.push(r);
                        s
                    }
                    Ok(Err(e)) => errclass(&e).to_string(),
                    Err(_) => "panic".into(),
                };
                out.push(format!("len={n} {lazy} owned={owned}"));
            }
            (out.join(" | "), recs)
        }
    };
}
bed_n!(3, bed_build3, bed_back3, bed_write3, bed_read3, [], [], []);
bed_n!(4, bed_build4, bed_back4, bed_write4, bed_read4, [nm], [], []);
bed_n!(5, bed_build5, bed_back5, bed_write5, bed_read5, [nm], [sc], []);
bed_n!(6, bed_build6, bed_back6, bed_write6, bed_read6, [nm], [sc], [st]);

fn bed_write(r: &BedRec) -> Result<Vec<u8>, String> {
    match r.n {
        3 => bed_write3(r),
        4 => bed_write4(r),
        5 => bed_write5(r),
        _ => bed_write6(r),
    }
}
fn bed_read(n: usize, file: &[u8]) -> (String, Vec<BedRec>) {
    match n {
        3 => bed_read3(file),
        4 => bed_read4(file),
        5 => bed_read5(file),
        _ => bed_read6(file),
    }
}

// ------------------------------------------------------------------------------------ generators

const RESERVED: &[u8] = b"\t\n\r;=&,% \"\\>#.:|/()[]~+-_?!@$^*'\x01\x1f\x7f";
const PLAIN: &[u8] = b"abcXYZ0189_";
const UTF8: &[&str] = &["é", "ß", "日", "本", "😀", "\u{a0}", "Ω", "\u{2028}"];
const PCT: &[&str] = &["%", "%41", "%4a", "%4A", "%zz", "%2", "%25", "%09", "%0A", "%3B", "%%"];

/// free text: `ctl` allows TAB / LF / CR and other reserved characters
fn gen_text(rng: &mut Rng, max: usize, ctl: bool) -> Vec<u8> {
    let n = match rng.below(8) {
        0 => 0,
        1 => 1,
        _ => 1 + rng.below(max as u64) as usize,
    };
    let mut out = vec![];
    let mode = rng.below(5);
    if mode == 4 && n > 0 && ctl {
        out.push(*rng.pick(b">#"));
    }
    for _ in 0..n {
        match (mode, rng.below(6)) {
            (0, _) | (_, 0) | (_, 1) => out.push(*rng.pick(PLAIN)),
            (1, _) | (4, _) => {
                let c = *rng.pick(RESERVED);
                if ctl || !(c == b'\t' || c == b'\n' || c == b'\r') {
                    out.push(c)
                } else {
                    out.push(b' ')
                }
            }
            (2, _) => out.extend_from_slice(rng.pick(UTF8).as_bytes()),
            _ => out.extend_from_slice(rng.pick(PCT).as_bytes()),
        }
    }
    out
}

fn gen_plain(rng: &mut Rng, min: usize, max: usize) -> Vec<u8> {
    let n = min + rng.below((max - min + 1) as u64) as usize;
    (0..n).map(|_| *rng.pick(PLAIN)).collect()
}

const SCORES: &[f32] = &[0.0, -0.0, 1.0, -1.5, 0.1, 1e30, 1e-30, f32::MAX, f32::MIN_POSITIVE, 1e-45, 16777216.0, 0.3, 100.0, 999.999, f32::INFINITY, f32::NEG_INFINITY, 3.4028235e38, 1.0e-7, 123456.79];

fn gen_score(rng: &mut Rng) -> Option<f32> {
    match rng.below(4) {
        0 => None,
        1 => Some(*rng.pick(SCORES)),
        2 => Some((rng.below(2000) as f32) / 10.0),
        _ => {
            let x = f32::from_bits(rng.next() as u32);
            if x.is_nan() { Some(0.5) } else { Some(x) }
        }
    }
}

fn gen_pos(rng: &mut Rng) -> usize {
    match rng.below(8) {
        0 => 1,
        1 => usize::MAX,
        2 => 9 + rng.below(3) as usize,
        3 => 1 << rng.below(63),
        _ => 1 + rng.below(1_000_000) as usize,
    }
}

/// attributes with distinct tags; `canonical`: one value = String, several = Array
fn gen_attrs(rng: &mut Rng, canonical: bool, mut text: impl FnMut(&mut Rng) -> Vec<u8>, mut tag: impl FnMut(&mut Rng) -> Vec<u8>) -> Vec<(Vec<u8>, Val)> {
    let n = match rng.below(6) {
        0 => 0,
        1 | 2 => 1,
        _ => 1 + rng.below(4) as usize,
    };
    let mut out: Vec<(Vec<u8>, Val)> = vec![];
    for _ in 0..n {
        let t = tag(rng);
        if out.iter().any(|(x, _)| *x == t) {
            continue;
        }
        let k = match rng.below(5) {
            0 | 1 | 2 => 1,
            3 => 2,
            _ => 2 + rng.below(3) as usize,
        };
        let v = if k == 1 && (canonical || rng.chance(3, 4)) {
            Val::S(text(rng))
        } else if !canonical && rng.chance(1, 6) {
            Val::A(vec![])
        } else {
            Val::A((0..k).map(|_| text(rng)).collect())
        };
        out.push((t, v));
    }
    out
}

fn gen_gff_rec(rng: &mut Rng, canonical: bool) -> Rec {
    let ty = if rng.chance(1, 6) { b"CDS".to_vec() } else if rng.chance(1, 3) { b"gene".to_vec() } else { gen_text(rng, 8, true) };
    let phase = if ty == b"CDS" && rng.chance(5, 6) { *rng.pick(&['0', '1', '2']) } else { *rng.pick(&['.', '.', '0', '1', '2']) };
    Rec {
        seqid: if rng.chance(1, 3) { gen_plain(rng, 1, 6) } else { gen_text(rng, 10, true) },
        source: if rng.chance(1, 3) { b".".to_vec() } else { gen_text(rng, 8, true) },
        ty,
        start: gen_pos(rng),
        end: gen_pos(rng),
        score: gen_score(rng),
        strand: *rng.pick(&['.', '+', '-', '?']),
        phase,
        attrs: gen_attrs(rng, canonical, |r| gen_text(r, 10, true), |r| if r.chance(1, 2) { gen_plain(r, 1, 5) } else { gen_text(r, 6, true) }),
    }
}

/// GTF: plain columns without TAB/LF/CR and no leading '#'; keys without whitespace; values with
/// quotes and backslashes (`ctl_values`: also TAB/CR, for the correspondence only)
fn gen_gtf_value(rng: &mut Rng, ctl: bool) -> Vec<u8> {
    let mut v = gen_text(rng, 10, false);
    for _ in 0..rng.below(4) {
        let i = rng.below(v.len() as u64 + 1) as usize;
        v.insert(i, *rng.pick(b"\"\\\"; "));
    }
    if ctl && rng.chance(1, 3) {
        let i = rng.below(v.len() as u64 + 1) as usize;
        v.insert(i, *rng.pick(b"\t\r"));
    }
    v
}
fn gen_gtf_plain_col(rng: &mut Rng) -> Vec<u8> {
    let mut v = if rng.chance(1, 2) { gen_plain(rng, 0, 6) } else { gen_text(rng, 8, false) };
    if v.first() == Some(&b'#') {
        v[0] = b'x';
    }
    v
}
fn gen_gtf_rec(rng: &mut Rng, canonical: bool, ctl_values: bool) -> Rec {
    Rec {
        seqid: gen_gtf_plain_col(rng),
        source: gen_gtf_plain_col(rng),
        ty: if rng.chance(1, 3) { b"CDS".to_vec() } else { gen_gtf_plain_col(rng) },
        start: gen_pos(rng),
        end: gen_pos(rng),
        score: gen_score(rng),
        strand: *rng.pick(&['.', '+', '-', '+', '-', '?']),
        phase: *rng.pick(&['.', '0', '1', '2']),
        attrs: gen_attrs(
            rng,
            canonical,
            |r| gen_gtf_value(r, ctl_values),
            |r| {
                let mut k = gen_text(r, 6, false);
                k.retain(|b| !b.is_ascii_whitespace());
                if k.is_empty() || r.chance(1, 2) { gen_plain(r, 1, 6) } else { k }
            },
        ),
    }
}

fn gen_printable(rng: &mut Rng, min: usize, max: usize) -> Vec<u8> {
    let n = min + rng.below((max - min + 1) as u64) as usize;
    (0..n).map(|_| if rng.chance(1, 3) { *rng.pick(b" ~!#.;,\"\\%") } else { *rng.pick(PLAIN) }).collect()
}

fn gen_bed_rec(rng: &mut Rng, valid: bool) -> BedRec {
    let n = 3 + rng.below(4) as usize;
    let mut seqid = gen_plain(rng, 1, 8);
    let mut name = match rng.below(4) {
        0 => None,
        _ => Some(gen_printable(rng, 1, 10)),
    };
    if name.as_deref() == Some(b".") {
        name = Some(b"x".to_vec());
    }
    let k = match rng.below(4) {
        0 => 0,
        1 => 6, // BED12 = BED6 + 6
        _ => rng.below(5) as usize,
    };
    let mut other: Vec<OVal> = (0..k)
        .map(|_| match rng.below(8) {
            0 => OVal::U(rng.next() >> rng.below(64)),
            1 => OVal::I(((rng.next() >> rng.below(64)) as i64).wrapping_mul(if rng.chance(1, 2) { -1 } else { 1 })),
            2 => OVal::C(b' ' + rng.below(95) as u8),
            3 => OVal::S(vec![]),
            _ => OVal::S(gen_printable(rng, 0, 8)),
        })
        .collect();
    if !valid {
        match rng.below(5) {
            0 => seqid = vec![],
            1 => seqid.push(*rng.pick(b" -.\t\xc3")),
            2 => name = Some(if rng.chance(1, 2) { vec![] } else { b"a\tb".to_vec() }),
            3 => other.push(OVal::S(b"a\nb".to_vec())),
            _ => other.push(OVal::C(rng.below(32) as u8)),
        }
    }
    let start = match rng.below(6) {
        0 => 1,
        1 => usize::MAX,
        _ => 1 + rng.below(1_000_000) as usize,
    };
    BedRec {
        n,
        seqid,
        start,
        end: if rng.chance(1, 5) { None } else { Some(gen_pos(rng)) },
        name: if n >= 4 { name } else { None },
        score: if n >= 5 { *rng.pick(&[0u16, 1, 500, 1000, 65535, 42]) } else { 0 },
        strand: if n >= 6 { *rng.pick(&['.', '+', '-']) } else { '.' },
        other,
    }
}

/// small mutations of a valid line: the read-direction inputs stay "mostly valid"
fn mutate(rng: &mut Rng, line: &[u8]) -> Vec<u8> {
    let mut l = line.to_vec();
    for _ in 0..1 + rng.below(2) {
        let i = rng.below(l.len() as u64 + 1) as usize;
        match rng.below(10) {
            0 if !l.is_empty() => {
                let i = i.min(l.len() - 1);
                l[i] = *rng.pick(RESERVED);
            }
            1 if !l.is_empty() => {
                l.remove(i.min(l.len() - 1));
            }
            2 => {
                for (k, b) in rng.pick(PCT).as_bytes().iter().enumerate() {
                    l.insert((i + k).min(l.len()), *b);
                }
            }
            3 => l.push(b'\r'),
            4 => l.extend_from_slice(*rng.pick(&[&b";a=1"[..], b";a=1;a=2,3", b";", b";;x=y", b";novalue", b" g \"1\"; g \"2\";", b" k v", b" k", b" g \"a\\\"b", b" \\"])),
            5 => {
                // drop the last column
                if let Some(p) = l.iter().rposition(|b| *b == b'\t') {
                    l.truncate(p);
                }
            }
            6 => l.insert(i, b'\t'),
            7 => l.insert(i, *rng.pick(b"+-.?0123 x")),
            _ => {}
        }
    }
    l
}

fn wrap_file(rng: &mut Rng, line: &[u8]) -> Vec<u8> {
    let mut f = vec![];
    match rng.below(8) {
        0 => f.extend_from_slice(b"\n"),
        1 => f.extend_from_slice(b" \t\r\n\n"),
        _ => {}
    }
    f.extend_from_slice(line);
    match rng.below(6) {
        0 => {}
        1 => f.extend_from_slice(b"\r\n"),
        2 => f.extend_from_slice(b"\nnext\tline\n"),
        _ => f.push(b'\n'),
    }
    f
}

// ------------------------------------------------------------------------------------ cases

fn same_rec(a: &Rec, b: &Rec) -> bool {
    a.seqid == b.seqid
        && a.source == b.source
        && a.ty == b.ty
        && a.start == b.start
        && a.end == b.end
        && a.score.map(f32::to_bits) == b.score.map(f32::to_bits)
        && a.strand == b.strand
        && a.phase == b.phase
        && a.attrs == b.attrs
}

fn show(b: &[u8]) -> String {
    format!("{:?}", BStr::new(b))
}

/// the float law the model assumes (`FloatFmt.Lawful`), on the real formatter and parser
fn float_law(ctx: &mut Ctx, x: f32) {
    if x.is_nan() {
        return;
    }
    ctx.eval(Some(fnv(format!("float {}", x.to_bits()).as_bytes())));
    let text = format!("{x}");
    let clean = text != "." && !text.bytes().any(|b| b == b'\t' || b == b'\n' || b == b'\r');
    for gtf_fmt in [false, true] {
        let back = real_parse_score(text.as_bytes(), gtf_fmt);
        let ok = matches!(back, Some(Ok(y)) if y.to_bits() == x.to_bits());
        if !ok || !clean {
            ctx.fail("float-law", format!("f32 bits {} formats as {text:?} and parses back as {:?}", x.to_bits(), back.map(|r| r.map(f32::to_bits))), format!("float {}", x.to_bits()));
            return;
        }
    }
}

/// GFF3: owned -> writer -> reader -> owned; emits the write and read correspondence lines
fn gff_rt_case(ctx: &mut Ctx, r: &Rec, case: &str, emit: bool) {
    let written = gff_write(r);
    if emit {
        ctx.corr(format!("c18 gff-write {}", req_rec(r)), match &written {
            Ok(t) => format!("ok {}", hex(t)),
            Err(c) => c.clone(),
        });
    }
    if let Some(x) = r.score {
        float_law(ctx, x);
    }
    let text = match written {
        Ok(t) => t,
        Err(c) => {
            // a rejection is not a violation ("any record the writer accepts"); which records are
            // rejected is compared with the model by the correspondence
            let _ = c;
            ctx.bump("gff_writer_rejects");
            ctx.eval(None);
            return;
        }
    };
    let mut file = text.clone();
    file.push(b'\n');
    if emit {
        ctx.corr(format!("c18 gff-readline {} {}", hex(&file), score_table(&file, false)), gff_readline(&file));
    }
    let nontrivial = !r.attrs.is_empty() || r.seqid.iter().any(|b| !b.is_ascii_alphanumeric());
    ctx.eval(if nontrivial { Some(fnv(fmt_rec(r).as_bytes())) } else { None });
    let back = guarded(|| {
        let mut rd = gff::io::Reader::new(&file[..]);
        rd.record_bufs().collect::<std::io::Result<Vec<_>>>()
    });
    let ok = match &back {
        Ok(Ok(v)) => v.len() == 1 && same_rec(&from_buf(&v[0]), r) && v[0] == to_buf(r),
        _ => false,
    };
    if !ok {
        // known finding F19, two narrow predicates; every other failure keeps the class gff-roundtrip.
        // F19b: source or type holds a byte that breaks the line AND the written text shows it raw
        // (attributes and seqid are encoded, so a sound line has exactly 8 TABs and no LF)
        let breaks = |s: &[u8]| s.iter().any(|b| *b == b'\t' || *b == b'\n' || *b == b'\r');
        let raw_delims = text.iter().filter(|b| **b == b'\t').count() != 8 || text.contains(&b'\n');
        // F19a: the seqid holds a byte the writer percent-encodes (the harness's own statement of the
        // set: non-ASCII, or ASCII outside [a-zA-Z0-9.:^*$@!+_?-|]) AND the only difference of the
        // record read back is that its seqid is the written (encoded) column
        let encoded = |b: &u8| !b.is_ascii() || !(b.is_ascii_alphanumeric() || b".:^*$@!+_?-|".contains(b));
        let written_seqid = text.split(|b| *b == b'\t').next().unwrap_or(&[]).to_vec();
        let seqid_only = match &back {
            Ok(Ok(v)) if v.len() == 1 => {
                let mut b = from_buf(&v[0]);
                let differs = b.seqid != r.seqid && b.seqid == written_seqid;
                b.seqid = r.seqid.clone();
                differs && same_rec(&b, r) && r.seqid.iter().any(encoded)
            }
            _ => false,
        };
        let class = if (breaks(&r.source) || breaks(&r.ty)) && raw_delims {
            "gff-source-type-not-encoded"
        } else if seqid_only {
            "gff-seqid-not-decoded"
        } else {
            "gff-roundtrip"
        };
        let got = match &back {
            Ok(Ok(v)) => v.iter().map(|b| fmt_rec(&from_buf(b))).collect::<Vec<_>>().join(" / "),
            Ok(Err(e)) => format!("error: {e}"),
            Err(p) => format!("panic: {p}"),
        };
        ctx.fail(class, format!("GFF3 record [{}] is written as {} and read back as [{}]", fmt_rec(r), show(&text), got), case.into());
    }
}

/// lazy accessors vs the owned record built from them, on any line (gff)
fn gff_lazy_case(ctx: &mut Ctx, file: &[u8], case: &str) {
    ctx.eval(Some(fnv(file)));
    let res = guarded(|| -> Option<String> {
        let mut rd = gff::io::Reader::new(file);
        let mut line = gff::Line::default();
        if rd.read_line(&mut line).ok()? == 0 {
            return None;
        }
        let rec = line.as_record()?.ok()?;
        let attrs = gff_lazy_attrs(&rec);
        let all_ok = rec.start().is_ok() && rec.end().is_ok() && !matches!(rec.score(), Some(Err(_))) && rec.strand().is_ok() && !matches!(rec.phase(), Some(Err(_))) && attrs.is_ok();
        let owned = RecordBuf::try_from_feature_record(&rec);
        if !all_ok {
            return if owned.is_ok() { Some("a lazy accessor fails but the owned conversion succeeds".into()) } else { None };
        }
        let owned = match owned {
            Ok(o) => from_buf(&o),
            Err(e) => return Some(format!("every lazy accessor succeeds but the owned conversion fails: {e}")),
        };
        let attrs = attrs.unwrap();
        let dup = (0..attrs.len()).any(|i| attrs[..i].iter().any(|(t, _)| *t == attrs[i].0));
        let lazy = Rec {
            seqid: bs(rec.reference_sequence_name()),
            source: bs(rec.source()),
            ty: bs(rec.ty()),
            start: usize::from(rec.start().unwrap()),
            end: usize::from(rec.end().unwrap()),
            score: rec.score().map(|r| r.unwrap()),
            strand: strand_ch(rec.strand().unwrap()),
            phase: phase_ch(rec.phase().map(|r| r.unwrap())),
            attrs: if dup { owned.attrs.clone() } else { attrs },
        };
        let nan = lazy.score.map(|x| x.is_nan()).unwrap_or(false);
        if !nan && !same_rec(&lazy, &owned) {
            return Some(format!("lazy view [{}] differs from the owned record [{}]", fmt_rec(&lazy), fmt_rec(&owned)));
        }
        None
    });
    match res {
        Ok(None) => {}
        Ok(Some(t)) => ctx.fail("gff-lazy-owned", format!("line {}: {t}", show(file)), case.into()),
        Err(p) => ctx.fail("gff-lazy-owned", format!("line {}: panic {p}", show(file)), case.into()),
    }
}

fn gtf_rt_case(ctx: &mut Ctx, r: &Rec, case: &str, emit: bool, oracle: bool) {
    let written = gtf_write(r);
    if emit {
        ctx.corr(format!("c18 gtf-write {}", req_rec(r)), match &written {
            Ok(t) => format!("ok {}", hex(t)),
            Err(c) => c.clone(),
        });
    }
    let text = match written {
        Ok(t) => t,
        Err(c) => {
            let _ = c;
            ctx.bump("gtf_writer_rejects");
            ctx.eval(None);
            return;
        }
    };
    let mut file = text.clone();
    file.push(b'\n');
    if emit {
        ctx.corr(format!("c18 gtf-readline {} {}", hex(&file), score_table(&file, true)), gtf_readline(&file));
    }
    if !oracle {
        return;
    }
    let nontrivial = !r.attrs.is_empty();
    ctx.eval(if nontrivial { Some(fnv(fmt_rec(r).as_bytes())) } else { None });
    let back = guarded(|| {
        let mut rd = gtf::io::Reader::new(&file[..]);
        rd.record_bufs().collect::<std::io::Result<Vec<_>>>()
    });
    let ok = match &back {
        Ok(Ok(v)) => v.len() == 1 && same_rec(&from_buf(&v[0]), r),
        _ => false,
    };
    if !ok {
        let quoted = r.attrs.iter().any(|(_, v)| match v {
            Val::S(s) => s.contains(&b'"'),
            Val::A(vs) => vs.iter().any(|s| s.contains(&b'"')),
        });
        let class = if quoted { "gtf-escaped-quote" } else { "gtf-roundtrip" };
        let got = match &back {
            Ok(Ok(v)) => v.iter().map(|b| fmt_rec(&from_buf(b))).collect::<Vec<_>>().join(" / "),
            Ok(Err(e)) => format!("error: {e}"),
            Err(p) => format!("panic: {p}"),
        };
        ctx.fail(class, format!("GTF record [{}] is written as {} and read back as [{}]", fmt_rec(r), show(&text), got), case.into());
    }
}

fn gtf_lazy_case(ctx: &mut Ctx, file: &[u8], case: &str) {
    ctx.eval(Some(fnv(file)));
    let res = guarded(|| -> Option<String> {
        let mut rd = gtf::io::Reader::new(file);
        let mut line = gtf::Line::default();
        if rd.read_line(&mut line).ok()? == 0 {
            return None;
        }
        let rec = line.as_record()?.ok()?;
        let attrs = gtf_lazy_attrs(&rec).ok()?; // a malformed column panics in the conversion: C15's business
        let all_ok = rec.start().is_ok() && rec.end().is_ok() && !matches!(rec.score(), Some(Err(_))) && rec.strand().is_ok() && !matches!(rec.phase(), Some(Err(_)));
        let owned = RecordBuf::try_from_feature_record(&rec);
        if !all_ok {
            return if owned.is_ok() { Some("a lazy accessor fails but the owned conversion succeeds".into()) } else { None };
        }
        let owned = match owned {
            Ok(o) => from_buf(&o),
            Err(e) => return Some(format!("every lazy accessor succeeds but the owned conversion fails: {e}")),
        };
        let lazy = Rec {
            seqid: bs(rec.reference_sequence_name()),
            source: bs(rec.source()),
            ty: bs(rec.ty()),
            start: usize::from(rec.start().unwrap()),
            end: usize::from(rec.end().unwrap()),
            score: rec.score().map(|r| r.unwrap()),
            strand: strand_ch(rec.strand().unwrap()),
            phase: phase_ch(rec.phase().map(|r| r.unwrap())),
            attrs,
        };
        let nan = lazy.score.map(|x| x.is_nan()).unwrap_or(false);
        if !nan && !same_rec(&lazy, &owned) {
            return Some(format!("lazy view [{}] differs from the owned record [{}]", fmt_rec(&lazy), fmt_rec(&owned)));
        }
        None
    });
    match res {
        Ok(None) => {}
        Ok(Some(t)) => ctx.fail("gtf-lazy-owned", format!("line {}: {t}", show(file)), case.into()),
        Err(p) => ctx.fail("gtf-lazy-owned", format!("line {}: panic {p}", show(file)), case.into()),
    }
}

fn bed_req(r: &BedRec) -> String {
    format!("c18 bed-write {}", fmt_bed(r))
}

fn bed_rt_case(ctx: &mut Ctx, r: &BedRec, case: &str, emit: bool, expect_accept: bool) {
    let written = bed_write(r);
    if emit {
        ctx.corr(bed_req(r), match &written {
            Ok(t) => format!("ok {}", hex(t)),
            Err(c) => c.clone(),
        });
    }
    let file = match written {
        Ok(t) => t,
        Err(c) => {
            let _ = (c, expect_accept);
            ctx.bump("bed_writer_rejects");
            ctx.eval(None);
            return;
        }
    };
    let (ans, recs) = bed_read(r.n, &file);
    if emit {
        ctx.corr(format!("c18 bed-read {} {}", r.n, hex(&file)), ans);
    }
    ctx.eval(if !r.other.is_empty() || r.n > 3 { Some(fnv(fmt_bed(r).as_bytes())) } else { None });
    // typed optional columns come back as the strings they were written as
    let mut want = r.clone();
    want.other = r
        .other
        .iter()
        .map(|v| match v {
            OVal::S(s) => OVal::S(s.clone()),
            OVal::C(c) => OVal::S(vec![*c]),
            OVal::U(n) => OVal::S(n.to_string().into_bytes()),
            OVal::I(n) => OVal::S(n.to_string().into_bytes()),
        })
        .collect();
    if recs.len() != 1 || recs[0] != want {
        ctx.fail(
            "bed-roundtrip",
            format!("BED{} record [{}] is written as {} and read back as [{}]", r.n, fmt_bed(r), show(&file), recs.iter().map(fmt_bed).collect::<Vec<_>>().join(" / ")),
            case.into(),
        );
    }
}

fn gen_directive(rng: &mut Rng, lawful: bool) -> (Vec<u8>, Option<DVal>) {
    use gff::directive_buf::key;
    let kind = rng.below(8);
    let name = |rng: &mut Rng| if lawful { gen_plain(rng, 1, 8) } else if rng.chance(1, 2) { gen_plain(rng, 0, 8) } else { let mut v = gen_plain(rng, 1, 4); v.push(b' '); v.extend(gen_plain(rng, 0, 3)); v };
    match kind {
        0 => {
            let a = *rng.pick(&[3u32, 0, 1, 4294967295, 12]);
            let b = if rng.chance(1, 2) { Some(*rng.pick(&[0u32, 1, 2, 99])) } else { None };
            let c = if b.is_some() && rng.chance(1, 2) { Some(*rng.pick(&[0u32, 6, 26])) } else { None };
            (if lawful || rng.chance(3, 4) { key::GFF_VERSION.to_vec() } else { b"version".to_vec() }, Some(DVal::V(a, b, c)))
        }
        1 => (if lawful || rng.chance(3, 4) { key::SEQUENCE_REGION.to_vec() } else { key::GENOME_BUILD.to_vec() }, Some(DVal::R(name(rng), gen_pos(rng), gen_pos(rng)))),
        2 => (if lawful || rng.chance(3, 4) { key::GENOME_BUILD.to_vec() } else { b"build".to_vec() }, Some(DVal::B(name(rng), name(rng)))),
        3 => (if rng.chance(1, 2) { gen_plain(rng, 0, 8) } else { b"#".to_vec() }, None),
        _ => {
            let key = match rng.below(4) {
                0 => key::SPECIES.to_vec(),
                1 => key::GFF_VERSION.to_vec(),
                2 if !lawful => {
                    let mut k = gen_plain(rng, 1, 3);
                    k.push(*rng.pick(b" \t"));
                    k.extend(gen_plain(rng, 1, 3));
                    k
                }
                _ => {
                    let mut k = gen_text(rng, 6, false);
                    k.retain(|b| !b.is_ascii_whitespace());
                    k
                }
            };
            let mut v = gen_text(rng, 12, !lawful);
            if lawful {
                v.retain(|b| *b != b'\t');
            }
            (key, Some(DVal::S(v)))
        }
    }
}

fn dir_case(ctx: &mut Ctx, key: &[u8], v: &Option<DVal>, case: &str, emit: bool, oracle: bool) {
    let vtok = v.as_ref().map(fmt_dval).unwrap_or_else(|| "~".into());
    let written = gff_directive_write(key, v);
    if let Err(c) = &written {
        if c == "unbuildable" {
            return;
        }
    }
    if emit {
        ctx.corr(format!("c18 gff-directive-write {} {}", hex(key), vtok), match &written {
            Ok(t) => format!("ok {}", hex(t)),
            Err(c) => c.clone(),
        });
    }
    let Ok(text) = written else {
        ctx.bump("directive_writer_rejects");
        return;
    };
    let mut file = text.clone();
    file.push(b'\n');
    if emit {
        ctx.corr(format!("c18 gff-readline {} ~", hex(&file)), gff_readline(&file));
    }
    // the typed FromStr of what was written
    let typed = v.as_ref().and_then(|v| match v {
        DVal::V(..) => Some('V'),
        DVal::R(..) => Some('R'),
        DVal::B(..) => Some('B'),
        DVal::S(_) => None,
    });
    let value_text: Vec<u8> = text[2 + key.len()..].iter().skip(1).copied().collect();
    if let (Some(k), Ok(vt)) = (typed, std::str::from_utf8(&value_text)) {
        if emit {
            ctx.corr(format!("c18 gff-directive-parse {k} {}", hex(vt.as_bytes())), match gff_directive_parse(k, vt) {
                Some(v) => format!("ok {}", fmt_dval(&v)),
                None => "err".into(),
            });
        }
    }
    if !oracle {
        return;
    }
    ctx.eval(Some(fnv(format!("{} {vtok}", hex(key)).as_bytes())));
    let back = guarded(|| {
        let mut rd = gff::io::Reader::new(&file[..]);
        rd.line_bufs().collect::<std::io::Result<Vec<_>>>()
    });
    let ok = match &back {
        Ok(Ok(ls)) if ls.len() == 1 => match &ls[0] {
            gff::LineBuf::Directive(d) => {
                let k2: &[u8] = d.key().as_ref();
                k2 == key
                    && match (v, d.value()) {
                        (None, None) => true,
                        (Some(DVal::S(s)), Some(gff::directive_buf::Value::String(t))) => t.to_vec() == *s,
                        (Some(tv), Some(gff::directive_buf::Value::String(t))) => {
                            let k = typed.unwrap();
                            std::str::from_utf8(t).ok().and_then(|t| gff_directive_parse(k, t)).as_ref() == Some(tv)
                        }
                        _ => false,
                    }
            }
            _ => false,
        },
        _ => false,
    };
    if !ok {
        ctx.fail("gff-directive-roundtrip", format!("directive key {} value {vtok} is written as {} and read back as {:?}", show(key), show(&text), back.map(|r| r.map_err(|e| e.to_string()))), case.into());
    }
}

// ------------------------------------------------------------------------------------ corpus

fn rec0() -> Rec {
    Rec { seqid: b"sq0".to_vec(), source: b"NOODLES".to_vec(), ty: b"gene".to_vec(), start: 8, end: 13, score: None, strand: '+', phase: '.', attrs: vec![] }
}
fn s(x: &str) -> Vec<u8> {
    x.as_bytes().to_vec()
}

fn gff_corpus() -> Vec<Rec> {
    let mut v = vec![rec0()];
    for seqid in ["sq 0", "%3Esq0", ">sq0", "#sq0", "##sq0", "", ".", "sq0.:^*$@!+_?-|", "sq%200", "日本", "a\tb", "a\nb\r", "%"] {
        v.push(Rec { seqid: s(seqid), ..rec0() });
    }
    for src in ["a\tb", "x\ny", "100%", "%41", ".", "", "a b;c=d,e&f", "é\u{1}\u{7f}", "cr\r"] {
        v.push(Rec { source: s(src), ..rec0() });
        v.push(Rec { ty: s(src), ..rec0() });
    }
    let a = |t: &str, x: &str| (s(t), Val::S(s(x)));
    v.push(Rec { attrs: vec![a("ID", "gene0"), a("Name", "n")], ..rec0() });
    v.push(Rec { attrs: vec![a("a=b;c", "x=y;z,w&v%"), a("", ""), a("%41", "%2C")], ..rec0() });
    v.push(Rec { attrs: vec![(s("Parent"), Val::A(vec![s("a,b"), s("c"), s("")])), (s("k"), Val::A(vec![s(""), s("")]))], ..rec0() });
    v.push(Rec { attrs: vec![a("t\tab", "new\nline\r")], ..rec0() });
    v.push(Rec { attrs: vec![a("日本;=é", "😀,\u{2028}")], ..rec0() });
    v.push(Rec { ty: s("CDS"), phase: '.', ..rec0() });
    v.push(Rec { ty: s("CDS"), phase: '0', ..rec0() });
    v.push(Rec { ty: s("cds"), phase: '2', strand: '?', ..rec0() });
    for x in [0.0f32, -0.0, f32::INFINITY, 1e-45, 0.1, 3.4028235e38] {
        v.push(Rec { score: Some(x), strand: '-', ..rec0() });
    }
    v.push(Rec { start: usize::MAX, end: 1, strand: '.', ..rec0() });
    v
}

/// non-canonical values (correspondence only: a 0/1-element array is written like a string)
fn gff_noncanonical() -> Vec<Rec> {
    vec![
        Rec { attrs: vec![(s("k"), Val::A(vec![]))], ..rec0() },
        Rec { attrs: vec![(s("k"), Val::A(vec![s("one")]))], ..rec0() },
        Rec { attrs: vec![(s("k"), Val::A(vec![])), (s("l"), Val::A(vec![s("a"), s("b")]))], ..rec0() },
    ]
}

const GFF_LINES: &[&[u8]] = &[
    b"sq0\tNOODLES\tgene\t8\t13\t.\t+\t.\tgene_id=ndls0;gene_name=gene0\n",
    b"sq\t.\t.\t1\t1\t.\t.\t.\ta=b;c=d,e;;f=g;h\n",
    b"sq\t.\t.\t1\t1\t.\t.\t.\ta=b;a=c;b=1;a=d,e\n",
    b"sq\t.\t.\t1\t1\t.\t.\t.\t\n",
    b"sq\t.\t.\t1\t1\t.\t.\t.\n",
    b"sq\t.\t.\t1\t1\t.\t.\t.\t.\n",
    b"sq\t.\t.\t1\t1\t.\t.\t.\ta=1\tb=2\r\n",
    b"sq\t.\t.\t1\t1\t.\t.\t.\ta=1\r\r\n",
    b"sq\t.\t.\t1\t1\t.\t.\t.\ta=%41%4a%4A%zz%4\n",
    b"sq\t.\t.\t1\t1\t.\t.\t.\ta=b;\n",
    b"sq\t.\t.\t1\t1\t.\t.\t.\t=\n",
    b"sq\t.\t.\t1\t1\t.\t.\t.\ta\n",
    b"sq\t.\t.\t1\t1\t.\t.\t.\ta=,\n",
    b"sq\t.\t.\t1\t1\t.\t.\t.\ta==b=c;d=%2C,%3B\n",
    b"sq%200\tND%09LS\t100%25\t8\t13\t.\t.\t.\t.\n",
    b"sq\t.\t.\t+5\t05\t.\t.\t.\t.\n",
    b"sq\t.\t.\t0\t1\t.\t.\t.\t.\n",
    b"sq\t.\t.\t1\t18446744073709551615\t.\t.\t.\t.\n",
    b"sq\t.\t.\t1\t18446744073709551616\t.\t.\t.\t.\n",
    b"sq\t.\t.\t-1\t\t.\t.\t.\t.\n",
    b"sq\t.\t.\t+\t1x\t.\t.\t.\t.\n",
    b"sq\t.\t.\t1\t1\t1e3\t?\t2\t.\n",
    b"sq\t.\t.\t1\t1\tnan\t.\t.\t.\n",
    b"sq\t.\t.\t1\t1\tx\t.\t.\t.\n",
    b"sq\t.\t.\t1\t1\t\t.\t.\t.\n",
    b"sq\t.\t.\t1\t1\t.\t*\t.\t.\n",
    b"sq\t.\t.\t1\t1\t.\t\t3\t.\n",
    b"sq\t.\t.\t1\t1\t.\t+-\t00\t.\n",
    b"\tx\t\t1\t1\t.\t.\t.\t.\n",
    b"  \t \n#c\n",
    b"\n\r\nsq\t.\t.\t1\t1\t.\t.\t.\t.",
    b"#comment\n",
    b"#\n",
    b"##gff-version 3\n",
    b"##gff-version\t3.1.26\n",
    b"##sequence-region sq0 1 100\n",
    b"##\n",
    b"## x\n",
    b"###\n",
    b"##FASTA\n",
    b"##key \n",
    b"##key  two  spaces \r\n",
    b"",
    b"\n",
    b"\r\n\r\n",
    b"x",
];

fn gtf_corpus() -> Vec<Rec> {
    let base = Rec { attrs: vec![], ..rec0() };
    let a = |t: &str, x: &str| (s(t), Val::S(s(x)));
    let mut v = vec![base.clone()];
    for val in ["g\"0", "a\\b", "a\\", "\\\"", "\"", "\\", ";", "a; b \"c\"", "", " ", "日本\"é", "g0"] {
        v.push(Rec { attrs: vec![a("gene_id", val), a("transcript_id", "t0")], ..base.clone() });
    }
    v.push(Rec { attrs: vec![(s("tag"), Val::A(vec![s("a"), s("b\"c"), s("")])), a("z", "1")], ..base.clone() });
    v.push(Rec { attrs: vec![a("k;x\"y", "v")], ..base.clone() });
    v.push(Rec { strand: '?', ..base.clone() });
    v.push(Rec { ty: s("CDS"), phase: '.', strand: '.', ..base.clone() });
    v.push(Rec { seqid: s("chr 1"), source: s("a;b"), ty: s("%41"), score: Some(0.5), ..base.clone() });
    v
}

const GTF_LINES: &[&[u8]] = &[
    b"sq0\t.\tgene\t8\t13\t.\t+\t.\tgene_id \"g\\\"0\"; note \"a\\\\b\";\n",
    b"sq0\t.\tgene\t8\t13\t.\t+\t.\tid 0; name \"ndls\";\n",
    b"sq0\t.\tgene\t8\t13\t.\t+\t.\tid 0;name \"n\";  \n",
    b"sq0\t.\tgene\t8\t13\t.\t+\t.\tid \"0;1\";\n",
    b"sq0\t.\tgene\t8\t13\t.\t+\t.\tid \"0\n",
    b"sq0\t.\tgene\t8\t13\t.\t+\t.\tid \"a\\x\";\n",
    b"sq0\t.\tgene\t8\t13\t.\t+\t.\tid \"a\\\n",
    b"sq0\t.\tgene\t8\t13\t.\t+\t.\tid\n",
    b"sq0\t.\tgene\t8\t13\t.\t+\t.\t\n",
    b"sq0\t.\tgene\t8\t13\t.\t+\t.\t \n",
    b"sq0\t.\tgene\t8\t13\t.\t+\t.\tid 0\n",
    b"sq0\t.\tgene\t8\t13\t.\t+\t.\tid a\\\\b; id \"c\"; x y z;\n",
    b"sq0\t.\tgene\t8\t13\t.\t+\t.\tid \"1\" ; \t id \"2\";;k \"v\"\r\n",
    b"sq0\t.\tgene\t8\t13\t.\t?\t.\tid \"1\";\n",
    b"sq0\t.\tgene\t8\t13\t1.5\t-\t2\tid \"1\";\n",
    b"sq0\t.\tgene\t8\t13\t.\t+\t.\n",
    b"#comment\n",
    b"##gff-version 3\n",
    b"\n",
    b"",
    b" \n",
];

fn bed_corpus() -> Vec<BedRec> {
    let b = BedRec { n: 3, seqid: s("sq0"), start: 8, end: Some(13), name: None, score: 0, strand: '.', other: vec![] };
    let mut v = vec![b.clone()];
    v.push(BedRec { start: 1, end: None, ..b.clone() });
    v.push(BedRec { other: vec![OVal::S(s("a")), OVal::S(vec![]), OVal::S(s("b"))], ..b.clone() });
    v.push(BedRec { other: vec![OVal::S(s("a")), OVal::S(vec![])], ..b.clone() });
    v.push(BedRec { other: vec![OVal::S(vec![])], ..b.clone() });
    v.push(BedRec { n: 4, name: Some(s("ndls")), ..b.clone() });
    v.push(BedRec { n: 4, name: None, ..b.clone() });
    v.push(BedRec { n: 4, name: Some(s("a b ~")), other: vec![OVal::U(u64::MAX), OVal::I(i64::MIN), OVal::C(b'x')], ..b.clone() });
    v.push(BedRec { n: 5, name: Some(s("n")), score: 65535, ..b.clone() });
    v.push(BedRec { n: 6, name: Some(s("n")), score: 1000, strand: '-', ..b.clone() });
    v.push(BedRec {
        n: 6,
        name: Some(s("bed12")),
        score: 0,
        strand: '+',
        other: ["8", "13", "255,0,0", "2", "2,3,", "0,3,"].iter().map(|x| OVal::S(s(x))).collect(),
        ..b.clone()
    });
    v.push(BedRec { seqid: vec![b'a'; 255], start: usize::MAX, end: Some(usize::MAX), ..b.clone() });
    v
}

/// rejected or ambiguous inputs: correspondence only (`.` as a name is the missing marker)
fn bed_corpus_reject() -> Vec<BedRec> {
    let b = BedRec { n: 4, seqid: s("sq0"), start: 8, end: Some(13), name: Some(s("n")), score: 0, strand: '.', other: vec![] };
    vec![
        BedRec { seqid: vec![b'a'; 256], ..b.clone() },
        BedRec { seqid: vec![], ..b.clone() },
        BedRec { seqid: s("sq 0"), ..b.clone() },
        BedRec { name: Some(vec![]), ..b.clone() },
        BedRec { name: Some(vec![b'n'; 256]), ..b.clone() },
        BedRec { name: Some(s("a\tb")), ..b.clone() },
        BedRec { name: Some(s(".")), ..b.clone() },
        BedRec { other: vec![OVal::S(s("a\tb"))], ..b.clone() },
        BedRec { other: vec![OVal::C(9)], ..b.clone() },
        BedRec { other: vec![OVal::S(s("é"))], ..b.clone() },
    ]
}

const BED_FILES: &[(usize, &[u8])] = &[
    (3, b"sq0\t7\t13\n"),
    (3, b"sq0\t7\t13\r\n"),
    (3, b"sq0\t7\t13"),
    (3, b"#c1\n#c2\nsq0\t7\t13\n#c3\nsq1\t0\t0\tx\n"),
    (3, b"#only a comment"),
    (3, b"sq0\t0\t5\ta\r\t\n"),
    (3, b"sq0\t0\r\t\n"),
    (3, b"sq0\t"),
    (3, b"sq0\n"),
    (3, b"\n"),
    (3, b""),
    (3, b"sq0\t18446744073709551615\t5\n"),
    (3, b"sq0\t18446744073709551614\t18446744073709551615\n"),
    (3, b"sq0\t+7\t013\t\t\n"),
    (3, b"sq0\tx\t-1\n"),
    (4, b"sq0\t7\t13\t.\n"),
    (4, b"sq0\t7\t13\t\n"),
    (4, b"sq0\t7\t13\n"),
    (4, b"sq0\t7\t13\tname\textra\r\n"),
    (5, b"sq0\t7\t13\tn\t65535\nsq0\t7\t13\tn\t65536\nsq0\t7\t13\tn\t\n"),
    (6, b"sq0\t7\t13\tn\t0\t+\nsq0\t7\t13\tn\t0\t.\nsq0\t7\t13\tn\t0\t?\n"),
    (6, b"sq0\t7\t13\tn\t0\t-\t8\t13\t255,0,0\t2\t2,3,\t0,3,\n"),
    (6, b"sq0\t7\t13\tn\t0\n"),
];

// ------------------------------------------------------------------------------------ run

fn sub_of(seed: u64, stream: u64, it: u64) -> u64 {
    seed.wrapping_mul(1_000_003).wrapping_add(stream.wrapping_mul(0x9E37_79B9)).wrapping_add(it)
}

fn gff_lazy_file(sub: u64) -> Vec<u8> {
    let mut rng = Rng::new(sub);
    let canonical = !rng.chance(1, 4);
    let r = gen_gff_rec(&mut rng, canonical);
    let line = gff_write(&r).unwrap_or_else(|_| b"sq\t.\tCDS\t1\t1\t.\t.\t.\t.".to_vec());
    let line = if rng.chance(2, 3) { mutate(&mut rng, &line) } else { line };
    wrap_file(&mut rng, &line)
}

fn gtf_lazy_file(sub: u64) -> Vec<u8> {
    let mut rng = Rng::new(sub);
    let r = gen_gtf_rec(&mut rng, true, true);
    let line = gtf_write(&r).unwrap_or_else(|_| b"sq\t.\tCDS\t1\t1\t.\t.\t.\tid \"1\";".to_vec());
    let line = if rng.chance(2, 3) { mutate(&mut rng, &line) } else { line };
    wrap_file(&mut rng, &line)
}

fn replay(ctx: &mut Ctx, case: &[String]) {
    let arg: u64 = case.get(1).and_then(|s| s.parse().ok()).unwrap_or(0);
    let name = case.first().map(|s| s.as_str()).unwrap_or("");
    let label = format!("{name} {arg}");
    match name {
        "gff-rt" => gff_rt_case(ctx, &gen_gff_rec(&mut Rng::new(arg), true), &label, false),
        "gff-corpus" => {
            if let Some(r) = gff_corpus().get(arg as usize) {
                gff_rt_case(ctx, r, &label, false)
            }
        }
        "gff-byte" => {
            let b = arg as u8;
            let r = Rec { seqid: vec![b], source: vec![b], ty: vec![b], attrs: vec![(vec![b], Val::S(vec![b]))], ..rec0() };
            gff_rt_case(ctx, &r, &label, false)
        }
        "gff-lazy" => gff_lazy_case(ctx, &gff_lazy_file(arg), &label),
        "gff-lazy-corpus" => {
            if let Some(l) = GFF_LINES.get(arg as usize) {
                gff_lazy_case(ctx, l, &label)
            }
        }
        "gtf-rt" => gtf_rt_case(ctx, &gen_gtf_rec(&mut Rng::new(arg), true, false), &label, false, true),
        "gtf-corpus" => {
            if let Some(r) = gtf_corpus().get(arg as usize) {
                gtf_rt_case(ctx, r, &label, false, true)
            }
        }
        "gtf-lazy" => gtf_lazy_case(ctx, &gtf_lazy_file(arg), &label),
        "gtf-lazy-corpus" => {
            if let Some(l) = GTF_LINES.get(arg as usize) {
                gtf_lazy_case(ctx, l, &label)
            }
        }
        "bed-rt" => bed_rt_case(ctx, &gen_bed_rec(&mut Rng::new(arg), true), &label, false, true),
        "bed-corpus" => {
            if let Some(r) = bed_corpus().get(arg as usize) {
                bed_rt_case(ctx, r, &label, false, true)
            }
        }
        "dir-rt" => {
            let (k, v) = gen_directive(&mut Rng::new(arg), true);
            dir_case(ctx, &k, &v, &label, false, true)
        }
        "float" => float_law(ctx, f32::from_bits(arg as u32)),
        _ => {}
    }
}

fn gen_lines_file(rng: &mut Rng) -> Vec<u8> {
    let mut f = vec![];
    let n = rng.below(6);
    for i in 0..n {
        match rng.below(8) {
            0 => {}
            1 => f.extend_from_slice(*rng.pick(&[&b" "[..], b"\t", b" \r", b"\x0c"])),
            2 => {
                f.push(b'#');
                f.extend(gen_text(rng, 6, false));
            }
            3 => {
                f.extend_from_slice(b"##");
                f.extend(gen_plain(rng, 0, 4));
                if rng.chance(2, 3) {
                    f.push(*rng.pick(b" \t"));
                    f.extend(gen_text(rng, 6, false));
                }
            }
            4 => f.extend(gen_text(rng, 8, false)),
            _ => {
                let r = gen_gff_rec(rng, true);
                f.extend(gff_write(&r).unwrap_or_default());
            }
        }
        if i + 1 < n || rng.chance(3, 4) {
            f.extend_from_slice(*rng.pick(&[&b"\n"[..], b"\n", b"\r\n", b"\r\r\n"]));
        }
    }
    f
}

pub fn run(ctx: &mut Ctx) {
    if let Some(case) = ctx.replay_only.clone() {
        replay(ctx, &case);
        return;
    }
    let seed = ctx.seed;

    // ---- corpus first
    for (i, r) in gff_corpus().iter().enumerate() {
        gff_rt_case(ctx, r, &format!("gff-corpus {i}"), true);
        ctx.bump("corpus_gff_records");
    }
    for r in gff_noncanonical() {
        ctx.corr(format!("c18 gff-write {}", req_rec(&r)), match gff_write(&r) {
            Ok(t) => format!("ok {}", hex(&t)),
            Err(c) => c,
        });
    }
    for (i, l) in GFF_LINES.iter().enumerate() {
        ctx.corr(format!("c18 gff-readline {} {}", hex(l), score_table(l, false)), gff_readline(l));
        ctx.corr(format!("c18 lines gff {}", hex(l)), real_lines(l, false));
        gff_lazy_case(ctx, l, &format!("gff-lazy-corpus {i}"));
        ctx.bump("corpus_gff_lines");
    }
    for (i, r) in gtf_corpus().iter().enumerate() {
        gtf_rt_case(ctx, r, &format!("gtf-corpus {i}"), true, true);
        ctx.bump("corpus_gtf_records");
    }
    for (i, l) in GTF_LINES.iter().enumerate() {
        ctx.corr(format!("c18 gtf-readline {} {}", hex(l), score_table(l, true)), gtf_readline(l));
        ctx.corr(format!("c18 lines gtf {}", hex(l)), real_lines(l, true));
        gtf_lazy_case(ctx, l, &format!("gtf-lazy-corpus {i}"));
        ctx.bump("corpus_gtf_lines");
    }
    for (i, r) in bed_corpus().iter().enumerate() {
        bed_rt_case(ctx, r, &format!("bed-corpus {i}"), true, true);
        ctx.bump("corpus_bed_records");
    }
    for r in bed_corpus_reject() {
        ctx.corr(bed_req(&r), match bed_write(&r) {
            Ok(t) => format!("ok {}", hex(&t)),
            Err(c) => c,
        });
    }
    for (n, f) in BED_FILES {
        ctx.corr(format!("c18 bed-read {n} {}", hex(f)), bed_read(*n, f).0);
        ctx.bump("corpus_bed_files");
    }
    for c in [&b"noodles"[..], b"", b"#x", b" a\tb"] {
        let t = guarded(|| {
            let mut w = gff::io::Writer::new(Vec::new());
            w.write_line(&gff::LineBuf::Comment(BString::from(c.to_vec()))).map(|_| w.into_inner())
        });
        if let Ok(Ok(mut t)) = t {
            t.pop();
            ctx.corr(format!("c18 gff-comment-write {}", hex(c)), format!("ok {}", hex(&t)));
        }
    }

    // ---- percent-encoding: every byte in every encoded column; every %XX through the decoders
    for b in 0..=255u8 {
        let r = Rec { seqid: vec![b], source: vec![b], ty: vec![b], attrs: vec![(vec![b], Val::S(vec![b]))], ..rec0() };
        if b < 128 {
            gff_rt_case(ctx, &r, &format!("gff-byte {b}"), true);
        } else {
            ctx.corr(format!("c18 gff-write {}", req_rec(&r)), match gff_write(&r) {
                Ok(t) => format!("ok {}", hex(&t)),
                Err(c) => c,
            });
        }
        let up = format!("%{b:02X}");
        let lo = format!("%{b:02x}");
        let line = format!("{up}\t{lo}\t{up}x\t1\t1\t.\t.\t.\t{up}={lo};k={up},{lo}\n");
        ctx.corr(format!("c18 gff-readline {} ~", hex(line.as_bytes())), gff_readline(line.as_bytes()));
        ctx.bump("pct_bytes_swept");
    }

    // ---- GFF3 records
    let n = ctx.n(2500, 120_000);
    for it in 0..n {
        let sub = sub_of(seed, 1, it);
        let r = gen_gff_rec(&mut Rng::new(sub), true);
        gff_rt_case(ctx, &r, &format!("gff-rt {sub}"), true);
        ctx.bump(&format!("gff_attrs_{}", r.attrs.len().min(4)));
        if r.attrs.iter().any(|(_, v)| matches!(v, Val::A(_))) {
            ctx.bump("gff_multi_valued");
        }
        if [&r.seqid, &r.source, &r.ty].iter().any(|c| c.iter().any(|b| b"\t\n\r".contains(b))) {
            ctx.bump("gff_column_with_tab_or_newline");
        }
        if r.seqid.first().map(|b| *b == b'>' || *b == b'#').unwrap_or(false) {
            ctx.bump("gff_seqid_leading_gt_or_hash");
        }
        if r.score.is_some() {
            ctx.bump("gff_with_score");
        }
    }
    // non-canonical / arbitrary bytes: correspondence only
    let n = ctx.n(400, 10_000);
    for it in 0..n {
        let mut rng = Rng::new(sub_of(seed, 2, it));
        let mut r = gen_gff_rec(&mut rng, false);
        if rng.chance(1, 3) {
            let k = 1 + rng.below(5) as usize;
            r.seqid = rng.bytes(k);
            r.source = rng.bytes(2);
        }
        ctx.corr(format!("c18 gff-write {}", req_rec(&r)), match gff_write(&r) {
            Ok(t) => format!("ok {}", hex(&t)),
            Err(c) => c,
        });
    }
    // read direction: written lines, mutated; lazy = owned
    let n = ctx.n(2500, 120_000);
    for it in 0..n {
        let sub = sub_of(seed, 3, it);
        let f = gff_lazy_file(sub);
        ctx.corr(format!("c18 gff-readline {} {}", hex(&f), score_table(&f, false)), gff_readline(&f));
        gff_lazy_case(ctx, &f, &format!("gff-lazy {sub}"));
    }
    let n = ctx.n(400, 10_000);
    for it in 0..n {
        let mut rng = Rng::new(sub_of(seed, 4, it));
        let f = gen_lines_file(&mut rng);
        ctx.corr(format!("c18 lines gff {}", hex(&f)), real_lines(&f, false));
        ctx.corr(format!("c18 lines gtf {}", hex(&f)), real_lines(&f, true));
    }
    // directives
    let n = ctx.n(600, 20_000);
    for it in 0..n {
        let sub = sub_of(seed, 5, it);
        let (k, v) = gen_directive(&mut Rng::new(sub), true);
        dir_case(ctx, &k, &v, &format!("dir-rt {sub}"), true, true);
        ctx.bump(match v {
            None => "directive_no_value",
            Some(DVal::S(_)) => "directive_string",
            Some(_) => "directive_typed",
        });
        let (k, v) = gen_directive(&mut Rng::new(sub ^ 0x5555), false);
        dir_case(ctx, &k, &v, "-", true, false);
    }

    // ---- GTF
    let n = ctx.n(2500, 120_000);
    for it in 0..n {
        let sub = sub_of(seed, 6, it);
        let r = gen_gtf_rec(&mut Rng::new(sub), true, false);
        gtf_rt_case(ctx, &r, &format!("gtf-rt {sub}"), true, true);
        ctx.bump(&format!("gtf_attrs_{}", r.attrs.len().min(4)));
        if r.attrs.iter().any(|(_, v)| match v {
            Val::S(s) => s.iter().any(|b| *b == b'"' || *b == b'\\'),
            Val::A(vs) => vs.iter().flatten().any(|b| *b == b'"' || *b == b'\\'),
        }) {
            ctx.bump("gtf_value_with_quote_or_backslash");
        }
    }
    let n = ctx.n(400, 10_000);
    for it in 0..n {
        let r = gen_gtf_rec(&mut Rng::new(sub_of(seed, 7, it)), false, true);
        gtf_rt_case(ctx, &r, "-", true, false);
    }
    let n = ctx.n(2000, 100_000);
    for it in 0..n {
        let sub = sub_of(seed, 8, it);
        let f = gtf_lazy_file(sub);
        ctx.corr(format!("c18 gtf-readline {} {}", hex(&f), score_table(&f, true)), gtf_readline(&f));
        gtf_lazy_case(ctx, &f, &format!("gtf-lazy {sub}"));
    }

    // ---- BED
    let n = ctx.n(2500, 120_000);
    for it in 0..n {
        let sub = sub_of(seed, 9, it);
        let r = gen_bed_rec(&mut Rng::new(sub), true);
        bed_rt_case(ctx, &r, &format!("bed-rt {sub}"), true, true);
        ctx.bump(&format!("bed{}_plus_{}", r.n, r.other.len().min(6)));
    }
    let n = ctx.n(300, 10_000);
    for it in 0..n {
        let r = gen_bed_rec(&mut Rng::new(sub_of(seed, 10, it)), false);
        bed_rt_case(ctx, &r, "-", true, false);
    }
    let n = ctx.n(1000, 40_000);
    for it in 0..n {
        let mut rng = Rng::new(sub_of(seed, 11, it));
        let mut f = vec![];
        let nn = 3 + rng.below(4) as usize;
        for _ in 0..1 + rng.below(3) {
            if rng.chance(1, 5) {
                f.extend_from_slice(b"#comment\tline");
                f.extend_from_slice(*rng.pick(&[&b"\n"[..], b"\r\n"]));
            }
            let r = gen_bed_rec(&mut rng, true);
            let line = bed_write(&BedRec { n: nn.min(r.n).max(3), ..r.clone() }).unwrap_or_default();
            let mut line = if line.is_empty() { b"sq0\t1\t2\n".to_vec() } else { line };
            line.pop();
            let line = if rng.chance(1, 2) { mutate(&mut rng, &line) } else { line };
            f.extend_from_slice(&line);
            f.extend_from_slice(*rng.pick(&[&b"\n"[..], b"\n", b"\r\n", b""]));
        }
        ctx.corr(format!("c18 bed-read {nn} {}", hex(&f)), bed_read(nn, &f).0);
    }

    // ---- the float law on its own
    for x in SCORES {
        float_law(ctx, *x);
    }
    let n = ctx.n(2000, 200_000);
    let mut rng = Rng::new(sub_of(seed, 12, 0));
    for _ in 0..n {
        float_law(ctx, f32::from_bits(rng.next() as u32));
    }

    ctx.sample(|| format!("c18 gff-write {}", req_rec(&gff_corpus()[1])));
    ctx.sample(|| format!("c18 gtf-write {}", req_rec(&gtf_corpus()[1])));
    ctx.sample(|| bed_req(&bed_corpus()[10]));
}
