//! C08, order-1 rANS (4x8 order 1, Nx16 with the ORDER flag).
//!
//! Correspondence (`c08 r4enc1 / r4dec1 / r4dec1c / nxenc1 / nxdec1 / nxdec1c` request lines,
//! answered by the real code here and by `lean/Noodles/Cram/DriverC08Order1.lean`):
//!   * encoder output byte for byte (`rans_4x8::encode(Order::One, ·)`, `rans_nx16::encode(flags, ·)`
//!     for flag bytes WITH the ORDER bit, every subset of N32/STRIPE/NO_SIZE/CAT/RLE/PACK),
//!   * the real decoder on the encoder's own output, compared exactly,
//!   * the real decoder on corrupted copies (truncation, bit flips and byte replacements in the
//!     frequency table / states / payload, targeted overflows) and on hand-made streams (tables
//!     with 10 and 12 bits, tables stored compressed, rows stored scaled down): accepted with
//!     these bytes, or `rej` (an `Err` of any kind and a panic are the same answer).
//! Oracle: `decode(encode x) == x` through `c08::oracle_case` (which also runs the harness's
//! independent specification decoders) for R4 order 1 and the Nx16 flag bytes with ORDER.
//!
//! Every case runs in a child process with an address-space cap and a deadline, in batches; a
//! child that dies or hangs is reported as an oracle failure naming the case index.
use super::c08::{self, Bad, Codec};
use crate::common::*;

// ------------------------------------------------------------------------------------------------
// inputs

/// hand-written boundary inputs, always first
fn corpus() -> Vec<(Vec<u8>, &'static str)> {
    let mut v: Vec<(Vec<u8>, &'static str)> = vec![
        (vec![], "len<4"),
        (vec![0], "len<4"),
        (vec![7], "len<4"),
        (vec![1, 2], "len<4"),
        (vec![1, 2, 3], "len<4"),
        (vec![0, 0, 0], "len<4"),
        (vec![5; 4], "len4"),
        (vec![0; 4], "len4"),
        (vec![255; 4], "len4"),
        (vec![1, 2, 3, 4], "len4"),
        (vec![4, 3, 2, 1], "len4"),
        (vec![0, 255, 0, 255], "len4"),
        (vec![1, 2, 3, 4, 5], "len5"),
        (vec![0; 5], "len5"),
        (vec![9, 9, 9, 9, 1], "len5"),
        (vec![1, 2, 3, 4, 5, 6], "len6"),
        (vec![1, 2, 3, 4, 5, 6, 7], "len7"),
        (vec![1, 2, 3, 4, 5, 6, 7, 8], "len8"),
        (vec![0, 0, 0, 0, 0, 0, 0], "nul-only"),
        // symbol 0 as a context shares its row with the NUL start context
        (vec![0, 1, 0, 1, 0, 1, 0, 1, 0], "nul-as-symbol"),
        (vec![1, 0, 0, 2, 0, 0, 3, 0, 0, 4, 0, 0, 5], "nul-as-symbol"),
        (b"noodles".to_vec(), "text"),
        (b"abracadabraabracadabraabracadabraabracadabrad".to_vec(), "text"),
        (b"ACGTACGTNNACGTACGTTTGACA".to_vec(), "text"),
        // every context followed by one fixed successor; the contexts form one run 0..255
        ((0..=255u8).collect(), "all-256-ascending"),
        ((0..=255u8).rev().collect(), "all-256-descending"),
        ((0..1024).map(|i| (i % 256) as u8).collect(), "all-256-ascending"),
        ((0..700).map(|i| (i * 7 % 256) as u8).collect(), "all-256-stride"),
        // contexts reaching symbol 255, runs of contexts of every length
        (vec![253, 254, 255, 253, 254, 255, 253], "run-to-255"),
        (vec![254, 255, 254, 255, 254], "run-to-255"),
        (vec![255, 255, 255, 255, 254], "run-to-255"),
        (vec![1, 3, 5, 7, 9, 1, 3, 5, 7, 9, 1], "context-gaps"),
        (vec![1, 2, 4, 5, 6, 8, 1, 2, 4, 5, 6, 8, 1, 2], "context-gaps"),
        (vec![2, 3, 2, 3, 200, 201, 202, 200, 201, 202, 2, 3], "context-gaps"),
        // a context with a single successor (frequency 4095 / 4096), long
        (vec![b'a'; 33], "single-symbol"),
        (vec![b'a'; 400], "single-symbol"),
        (vec![9; 4095], "single-symbol"),
        (vec![9; 4097], "single-symbol"),
        // a symbol that is never a context: it only occurs as the very last byte
        (vec![1, 2, 1, 2, 1, 2, 1, 2, 1, 7], "context-never-seen"),
        (vec![5, 5, 5, 5, 5, 5, 5, 5, 6], "context-never-seen"),
    ];
    // lengths around the number of states, small alphabet
    for n in [4usize, 5, 7, 8, 9, 31, 32, 33, 34, 63, 64, 65, 127, 128, 129, 130] {
        v.push(((0..n).map(|i| b"ACGTN"[i * 7 % 5]).collect(), "len-around-n"));
        v.push(((0..n).map(|i| (i % 3) as u8).collect(), "len-around-n"));
    }
    // one context (7) followed by many frequent and many rare successors: the row's rounded sum
    // exceeds the total by more than the largest frequency holds
    for (frequent, rare, m) in [(56usize, 190usize, 60usize), (20, 200, 40), (2, 30, 300), (100, 150, 3)] {
        let mut d = vec![];
        for s in 0..frequent {
            for _ in 0..m {
                d.push(7);
                d.push(10 + s as u8);
            }
        }
        for s in 0..rare {
            d.push(7);
            d.push((10 + frequent + s) as u8);
        }
        v.push((d, "row-normalise-excess"));
    }
    v
}

/// order-1 specific shapes, next to the sixteen shapes of `c08::gen_input`
fn gen_o1(sub: u64, cap: usize) -> (Vec<u8>, &'static str) {
    let mut rng = Rng::new(sub ^ 0x01de);
    match rng.below(6) {
        0 => {
            // lengths 0..9
            let n = rng.below(10) as usize;
            let k = 1 + rng.below(4);
            let base = *rng.pick(&[0u64, 1, 100, 252]);
            ((0..n).map(|_| (base + rng.below(k)) as u8).collect(), "o1-len0to9")
        }
        1 => {
            // lengths around 4 and 32 (and their multiples)
            let m = if rng.chance(1, 2) { 4 } else { 32 };
            let n = ((1 + rng.below(6) as usize) * m + rng.below(5) as usize).saturating_sub(2);
            let k = 1 + rng.below(6);
            ((0..n).map(|_| rng.below(k) as u8).collect(), "o1-len-around-n")
        }
        2 => {
            // sparse Markov chain: every symbol has 1..3 possible successors
            let k = *rng.pick(&[2usize, 3, 5, 16, 40, 120, 256]);
            let base = if k == 256 { 0 } else { rng.below((256 - k) as u64 + 1) as usize };
            let fan = 1 + rng.below(3) as usize;
            let succ: Vec<Vec<usize>> = (0..k).map(|_| (0..fan).map(|_| rng.below(k as u64) as usize).collect()).collect();
            let n = c08::gen_len(&mut rng, cap);
            let mut s = rng.below(k as u64) as usize;
            let mut d = Vec::with_capacity(n);
            for _ in 0..n {
                d.push((base + s) as u8);
                s = *rng.pick(&succ[s]);
            }
            (d, "o1-sparse-markov")
        }
        3 => {
            // deterministic cycle: every context has exactly one successor
            let k = 1 + rng.below(*rng.clone().pick(&[3u64, 16, 256])) as usize;
            let step = 1 + rng.below(5) as usize;
            let base = rng.below(256) as usize;
            let n = c08::gen_len(&mut rng, cap.min(3000));
            ((0..n).map(|i| ((base + (i % k) * step) % 256) as u8).collect(), "o1-single-successor")
        }
        4 => {
            // flat: uniform over k symbols (every context has about k successors)
            let k = *rng.pick(&[2u64, 4, 16, 64, 256]);
            let n = c08::gen_len(&mut rng, cap);
            ((0..n).map(|_| rng.below(k) as u8).collect(), "o1-flat")
        }
        _ => {
            // skewed successors: after `c` mostly `c`, sometimes a neighbour, rarely anything
            let k = *rng.pick(&[3u64, 8, 40, 256]);
            let n = c08::gen_len(&mut rng, cap);
            let mut s = rng.below(k);
            let d = (0..n)
                .map(|_| {
                    match rng.below(20) {
                        0 => s = rng.below(k),
                        1 | 2 | 3 => s = (s + 1) % k,
                        _ => {}
                    }
                    s as u8
                })
                .collect();
            (d, "o1-skewed")
        }
    }
}

fn case_input(ctx: &Ctx, idx: u64) -> (Vec<u8>, String) {
    let corpus = corpus();
    if (idx as usize) < corpus.len() {
        let (d, s) = corpus[idx as usize].clone();
        return (d, format!("corpus:{s}"));
    }
    let sub = ctx.seed.wrapping_mul(7_000_003).wrapping_add(idx);
    let cap = if ctx.tier_thorough { 12_000 } else { 6_000 };
    if idx % 2 == 0 {
        let (d, s) = gen_o1(sub, cap);
        (d, s.to_string())
    } else {
        let (d, s) = c08::gen_input(sub, cap);
        (d, s.to_string())
    }
}

// ------------------------------------------------------------------------------------------------
// canonical answers

fn fmt_bytes(b: &[u8]) -> String {
    if b.len() <= 64 { hex(b) } else { format!("{}:{}", b.len(), crc32(b)) }
}

/// exact: bytes, error class, or `panic`
fn exact(r: &Result<Vec<u8>, Bad>) -> String {
    match r {
        Ok(d) => fmt_bytes(d),
        Err(Bad::Err(c, _)) => c.clone(),
        Err(Bad::Panic(_)) => "panic".into(),
    }
}

/// corrupted / hand-made streams: accepted with these bytes, or rejected
fn acc_or_rej(r: &Result<Vec<u8>, Bad>) -> String {
    match r {
        Ok(d) => fmt_bytes(d),
        Err(_) => "rej".into(),
    }
}

/// histogram key for the way a corrupted stream was received
fn outcome(ctx: &mut Ctx, fam: &str, r: &Result<Vec<u8>, Bad>, orig: &[u8]) {
    let k = match r {
        Ok(d) if d == orig => "accepted-same-bytes".to_string(),
        Ok(_) => "accepted-other-bytes".to_string(),
        Err(Bad::Err(c, _)) => format!("rejected-{c}"),
        Err(Bad::Panic(p)) => {
            let p = p.to_lowercase();
            let what = if p.contains("multiply with overflow") {
                "mul-overflow"
            } else if p.contains("add with overflow") {
                "add-overflow"
            } else if p.contains("subtract with overflow") {
                "sub-overflow"
            } else if p.contains("out of bounds") || p.contains("out of range") {
                "index"
            } else if p.contains("capacity overflow") || p.contains("alloc") {
                "alloc"
            } else {
                "other"
            };
            format!("rejected-panic-{what}")
        }
    };
    ctx.bump(&format!("o1_{fam}_hostile:{k}"));
}

// ------------------------------------------------------------------------------------------------
// stream layout (to aim corruptions at the table / the states / the payload)

struct Cur<'a> {
    b: &'a [u8],
    p: usize,
}
impl Cur<'_> {
    fn u8(&mut self) -> Option<u8> {
        let x = *self.b.get(self.p)?;
        self.p += 1;
        Some(x)
    }
    fn itf8(&mut self) -> Option<()> {
        let b0 = self.u8()?;
        let extra = if b0 < 0x80 { 0 } else if b0 < 0xc0 { 1 } else if b0 < 0xe0 { 2 } else if b0 < 0xf0 { 3 } else { 4 };
        for _ in 0..extra {
            self.u8()?;
        }
        Some(())
    }
    fn uint7(&mut self) -> Option<u32> {
        let mut n = 0u32;
        for _ in 0..5 {
            let b = self.u8()?;
            n = (n << 7) | (b & 0x7f) as u32;
            if b & 0x80 == 0 {
                return Some(n);
            }
        }
        None
    }
}

/// the symbol list with run lengths shared by the tables; `entry` consumes one entry
fn walk_runs(c: &mut Cur, entry: &mut dyn FnMut(&mut Cur) -> Option<()>) -> Option<[bool; 256]> {
    let mut present = [false; 256];
    let mut sym = c.u8()? as usize;
    let mut last = sym;
    let mut rle = 0usize;
    loop {
        if sym > 255 {
            return None;
        }
        present[sym] = true;
        entry(c)?;
        if rle > 0 {
            rle -= 1;
            sym += 1;
        } else {
            sym = c.u8()? as usize;
            if sym == last + 1 {
                rle = c.u8()? as usize;
            }
        }
        last = sym;
        if sym == 0 {
            break;
        }
    }
    Some(present)
}

/// offset just behind the order-1 frequency table of a rANS 4x8 stream
fn r4_table_end(enc: &[u8]) -> Option<usize> {
    if enc.len() < 9 || enc[0] != 1 {
        return None;
    }
    let mut c = Cur { b: enc, p: 9 };
    walk_runs(&mut c, &mut |c| walk_runs(c, &mut |c| c.itf8()).map(|_| ()))?;
    Some(c.p)
}

/// offset just behind the (uncompressed) order-1 table of an Nx16 order-1 body
fn nx_table_end(body: &[u8]) -> Option<usize> {
    let mut c = Cur { b: body, p: 0 };
    let b = c.u8()?;
    if b & 1 == 1 {
        c.uint7()?;
        let clen = c.uint7()? as usize;
        return (c.p + clen <= body.len()).then_some(c.p + clen);
    }
    let a = walk_runs(&mut c, &mut |_| Some(()))?;
    let k = a.iter().filter(|x| **x).count();
    for _ in 0..k {
        let mut j = 0;
        while j < k {
            let f = c.uint7()?;
            j += 1;
            if f == 0 {
                j += c.u8()? as usize;
            }
        }
    }
    Some(c.p)
}

// ------------------------------------------------------------------------------------------------
// corruptions

/// (mutated stream, label); positions < `lo` are never touched (header / flag byte)
fn corruptions(rng: &mut Rng, enc: &[u8], lo: usize, table_end: Option<usize>, n_states: usize, count: usize) -> Vec<(Vec<u8>, &'static str)> {
    let mut out = vec![];
    if enc.len() <= lo {
        return out;
    }
    let te = table_end.unwrap_or(lo).clamp(lo, enc.len());
    let se = (te + 4 * n_states).min(enc.len());
    for k in 0..count {
        let mut m = enc.to_vec();
        // the first copy is a truncation or a table bit, the others any of the seven kinds
        let label = match if k == 0 { rng.below(2) as usize } else { rng.below(7) as usize } {
            0 => {
                // truncation anywhere behind the protected prefix
                let cut = lo + rng.below((enc.len() - lo) as u64) as usize;
                m.truncate(cut);
                "truncated"
            }
            1 if te > lo => {
                let p = lo + rng.below((te - lo) as u64) as usize;
                m[p] ^= 1 << rng.below(8);
                "table-bit"
            }
            2 if te > lo => {
                let p = lo + rng.below((te - lo) as u64) as usize;
                m[p] = *rng.pick(&[0u8, 1, 2, 0x7f, 0x80, 0x81, 0x8f, 0xc0, 0xe0, 0xf0, 0xfe, 0xff]);
                "table-byte"
            }
            3 if se > te => {
                let p = te + rng.below((se - te) as u64) as usize;
                m[p] ^= 1 << rng.below(8);
                "state-bit"
            }
            4 if enc.len() > se => {
                let p = se + rng.below((enc.len() - se) as u64) as usize;
                m[p] ^= 1 << rng.below(8);
                "payload-bit"
            }
            5 if te > lo + 1 => {
                // a byte removed from / inserted into the table: everything behind it shifts
                let p = lo + rng.below((te - lo) as u64) as usize;
                if rng.chance(1, 2) {
                    m.remove(p);
                    "table-byte-removed"
                } else {
                    m.insert(p, rng.next() as u8);
                    "table-byte-inserted"
                }
            }
            _ => {
                let p = lo + rng.below((enc.len() - lo) as u64) as usize;
                m[p] = rng.next() as u8;
                "any-byte"
            }
        };
        out.push((m, label));
    }
    out
}

/// hand-written malformed rANS 4x8 order-1 streams: one per refusing branch of the decoder
fn r4_malformed() -> Vec<(Vec<u8>, &'static str)> {
    let hdr = |n: u32| {
        let mut v = vec![1u8, 0, 0, 0, 0];
        v.extend(n.to_le_bytes());
        v
    };
    let with = |n: u32, rest: &[u8]| {
        let mut v = hdr(n);
        v.extend_from_slice(rest);
        v
    };
    let st = [0u8, 0, 0x80, 0, 0, 0, 0x80, 0, 0, 0, 0x80, 0, 0, 0, 0x80, 0];
    let cat = |a: &[u8], b: &[u8]| [a, b].concat();
    vec![
        (vec![], "empty"),
        (vec![1], "header-eof"),
        (vec![1, 0, 0, 0, 0, 4, 0], "header-eof"),
        (vec![2, 0, 0, 0, 0, 4, 0, 0, 0], "order-2"),
        (hdr(0), "size-0"),
        (with(0, &[9, 9, 9]), "size-0"),
        (hdr(4), "table-eof"),
        (with(4, &[0]), "table-eof"),
        (with(4, &[0, b'a']), "table-eof"),
        (with(4, &[0, b'a', 0x8f]), "table-eof"),
        (with(4, &[0, b'a', 0x8f, 0xff]), "table-eof"),
        (with(4, &[0, b'a', 0x8f, 0xff, 0]), "table-eof"),
        // one context (NUL), one successor 'a' with frequency 4095; no states
        (with(4, &[0, b'a', 0x8f, 0xff, 0, 0]), "states-eof"),
        (with(4, &cat(&[0, b'a', 0x8f, 0xff, 0, 0], &st[..15])), "states-eof"),
        // states present; row of context 'a' is missing: frequency 0, the state collapses and the
        // payload runs out
        (with(4, &cat(&[0, b'a', 0x8f, 0xff, 0, 0], &st)), "payload-eof-or-garbage"),
        (with(8, &cat(&[0, b'a', 0x8f, 0xff, 0, 0], &st)), "payload-eof-or-garbage"),
        // frequency that does not fit u16 / negative
        (with(4, &cat(&[0, b'a', 0xe0, 0xff, 0xff, 0xff, 0, 0], &st)), "frequency-above-u16"),
        (with(4, &cat(&[0, b'a', 0xff, 0xff, 0xff, 0xff, 0xff, 0, 0], &st)), "frequency-negative"),
        // frequencies that overflow the u16 running sum: two symbols with 40000 each and a third
        (with(4, &cat(&[0, 1, 0xc0, 0x9c, 0x40, 2, 1, 0xc0, 0x9c, 0x40, 0x01, 0, 0], &st)), "cumulative-overflow"),
        // the same in the row of a context that is never used
        (with(4, &cat(&[0, b'a', 0x8f, 0xff, 0, 9, 1, 0xc0, 0x9c, 0x40, 2, 1, 0xc0, 0x9c, 0x40, 0x01, 0, 0], &st)), "cumulative-overflow-unused-row"),
        // sum 65535 in one symbol: no u16 overflow, but f * (s >> 12) overflows u32 for a large state
        (with(4, &cat(&[0, b'a', 0xc0, 0xff, 0xff, 0, 0], &[0xff, 0xff, 0xff, 0xff, 0xff, 0xff, 0xff, 0xff, 0xff, 0xff, 0xff, 0xff, 0xff, 0xff, 0xff, 0xff])), "state-step-overflow"),
        // total above 4096 without any fixed-width overflow: refused by `validate_frequencies`
        (with(4, &cat(&[0, b'a', 0x93, 0x88, b'b', 0x01, 0x93, 0x88, 0, 0], &st)), "total-above-4096"),
        // a run of contexts past symbol 255
        (with(4, &cat(&[0, b'a', 0x8f, 0xff, 0, 254, b'a', 0x8f, 0xff, 0, 255, 3, b'a', 0x8f, 0xff, 0, b'a', 0x8f, 0xff, 0, 0], &st)), "context-run-past-255"),
        // a run of symbols past 255 inside a row
        (with(4, &cat(&[0, 254, 0x01, 255, 5, 0x01, 0x01, 0x01, 0, 0], &st)), "symbol-run-past-255"),
        // the same context listed twice: the later row replaces the earlier one
        (with(4, &cat(&[0, b'a', 0x8f, 0xff, 0, b'a', b'a', 0x8f, 0xff, 0, b'a', b'b', 0x8f, 0xff, 0, 0], &st)), "context-twice"),
        // context list not ascending
        (with(4, &cat(&[0, b'a', 0x8f, 0xff, 0, b'b', b'a', 0x8f, 0xff, 0, b'a', b'a', 0x8f, 0xff, 0, 0], &st)), "contexts-not-ascending"),
        // an order-0 stream (the test vector of rans_4x8::decode) goes to the order-0 decoder
        (vec![0x00, 0x25, 0x00, 0x00, 0x00, 0x07, 0x00, 0x00, 0x00, 0x64, 0x82, 0x49, 0x65, 0x00, 0x82, 0x49, 0x6c, 0x82, 0x49, 0x6e, 0x82, 0x49, 0x6f, 0x00, 0x84, 0x92, 0x73, 0x82, 0x49, 0x00, 0xe2, 0x06, 0x83, 0x18, 0x74, 0x7b, 0x41, 0x0c, 0x2b, 0xa9, 0x41, 0x0c, 0x25, 0x31, 0x80, 0x03], "order-0-stream"),
    ]
}

// ------------------------------------------------------------------------------------------------
// hand-made Nx16 order-1 streams: an independent little encoder for table layouts noodles never
// writes (10-bit tables, tables stored compressed, rows stored scaled down, a larger alphabet)

fn put_uint7(dst: &mut Vec<u8>, n: u32) {
    let mut tmp = vec![(n & 0x7f) as u8];
    let mut n = n >> 7;
    while n > 0 {
        tmp.push((n & 0x7f) as u8 | 0x80);
        n >>= 7;
    }
    tmp.reverse();
    dst.extend(tmp);
}

fn put_alphabet(dst: &mut Vec<u8>, a: &[bool; 256]) {
    // the specification's rule: a symbol that directly follows the previous one carries the
    // number of further consecutive symbols
    let mut sym = 0usize;
    let mut last: Option<usize> = None;
    while sym < 256 {
        if !a[sym] {
            sym += 1;
            continue;
        }
        dst.push(sym as u8);
        if sym > 0 && last == Some(sym - 1) {
            let mut run = 0;
            while sym + 1 + run < 256 && a[sym + 1 + run] {
                run += 1;
            }
            dst.push(run as u8);
            sym += run;
        }
        last = Some(sym);
        sym += 1;
    }
    dst.push(0);
}

/// body of an Nx16 order-1 stream (everything behind flag byte and size) for `src`, `n` states
fn handmade_nx16_o1(rng: &mut Rng, src: &[u8], n: usize, bits: u32, compress: bool, downscale: bool, extra_symbol: bool) -> Option<Vec<u8>> {
    if src.len() < n {
        return None;
    }
    let total = 1u32 << bits;
    let mut a = [false; 256];
    a[0] = true;
    for &b in src {
        a[b as usize] = true;
    }
    if extra_symbol {
        a[rng.below(256) as usize] = true;
    }
    let q = src.len() / n;
    let mut f = vec![[0u32; 256]; 256];
    for j in 0..n {
        f[0][src[j * q] as usize] += 1;
    }
    for w in src.windows(2) {
        f[w[0] as usize][w[1] as usize] += 1;
    }
    // normalise every used row to `total`
    for row in f.iter_mut() {
        let sum: u64 = row.iter().map(|&x| x as u64).sum();
        if sum == 0 {
            continue;
        }
        if row.iter().filter(|&&x| x > 0).count() as u32 > total {
            return None;
        }
        let mut ns = 0u32;
        for x in row.iter_mut() {
            if *x > 0 {
                *x = ((*x as u64 * total as u64 / sum) as u32).max(1);
                ns += *x;
            }
        }
        while ns != total {
            let (i, _) = row.iter().enumerate().max_by_key(|(_, x)| **x).unwrap();
            if ns > total {
                row[i] -= 1;
                ns -= 1;
            } else {
                row[i] += 1;
                ns += 1;
            }
        }
    }
    let mut c = vec![[0u32; 256]; 256];
    for (fr, cr) in f.iter().zip(c.iter_mut()) {
        for s in 1..256 {
            cr[s] = cr[s - 1] + fr[s - 1];
        }
    }
    // encode: the decoder's steps in reverse order
    let mut steps: Vec<(usize, u8, u8)> = vec![]; // (state, context, symbol) in decoder order
    for i in 0..q {
        for j in 0..n {
            let ctx = if i == 0 { 0 } else { src[j * q + i - 1] };
            steps.push((j, ctx, src[j * q + i]));
        }
    }
    for i in n * q..src.len() {
        steps.push((n - 1, src[i - 1], src[i]));
    }
    let mut st = vec![0x8000u32; n];
    let mut buf: Vec<u8> = vec![];
    for &(j, ctx, s) in steps.iter().rev() {
        let (fr, cu) = (f[ctx as usize][s as usize], c[ctx as usize][s as usize]);
        if fr == 0 {
            return None;
        }
        let mut x = st[j];
        while x as u64 >= (1u64 << (31 - bits)) * fr as u64 {
            buf.push((x >> 8) as u8);
            buf.push(x as u8);
            x >>= 16;
        }
        st[j] = ((x / fr) << bits) + x % fr + cu;
    }
    buf.reverse();
    // table
    let mut table = vec![];
    put_alphabet(&mut table, &a);
    let syms: Vec<usize> = (0..256).filter(|&s| a[s]).collect();
    for &i in &syms {
        let mut row: Vec<u32> = syms.iter().map(|&j| f[i][j]).collect();
        if downscale {
            let tz = row.iter().filter(|&&x| x > 0).map(|x| x.trailing_zeros()).min().unwrap_or(0);
            for x in row.iter_mut() {
                *x >>= tz;
            }
        }
        let mut j = 0;
        while j < row.len() {
            put_uint7(&mut table, row[j]);
            if row[j] == 0 {
                let mut z = 0;
                while j + 1 + z < row.len() && row[j + 1 + z] == 0 {
                    z += 1;
                }
                table.push(z as u8);
                j += z;
            }
            j += 1;
        }
    }
    let mut out = vec![];
    if compress {
        let comp = match c08::encode(Codec::Nx(0x10), &table, &[]) {
            Ok(e) if e.first() == Some(&0x10) => e[1..].to_vec(),
            _ => return None,
        };
        out.push((bits << 4) as u8 | 1);
        put_uint7(&mut out, table.len() as u32);
        put_uint7(&mut out, comp.len() as u32);
        out.extend(comp);
    } else {
        out.push((bits << 4) as u8);
        out.extend(table);
    }
    for x in st {
        out.extend(x.to_le_bytes());
    }
    out.extend(buf);
    Some(out)
}

/// hand-written malformed Nx16 order-1 bodies (4 states), one per refusing branch
fn nx_malformed() -> Vec<(Vec<u8>, usize, &'static str)> {
    let st = [0u8, 0x80, 0, 0, 0, 0x80, 0, 0, 0, 0x80, 0, 0, 0, 0x80, 0, 0];
    let cat = |a: &[u8], b: &[u8]| [a, b].concat();
    vec![
        (vec![], 4, "empty"),
        (vec![0xc0], 4, "alphabet-eof"),
        (vec![0xc0, b'a'], 4, "alphabet-eof"),
        (vec![0xc0, b'a', 0], 4, "row-eof"),
        (vec![0xc0, b'a', 0, 0xa0], 4, "row-eof"),
        // alphabet {a}: one row with one entry 4096
        (vec![0xc0, b'a', 0, 0xa0, 0x00], 4, "states-eof"),
        (cat(&[0xc0, b'a', 0, 0xa0, 0x00], &st[..13]), 4, "states-eof"),
        // decodes "aaaa" from context NUL?  NUL is not in the alphabet, its row is zero
        (cat(&[0xc0, b'a', 0, 0xa0, 0x00], &st), 4, "nul-row-missing"),
        // alphabet {NUL, a}: rows NUL -> a (4096), a -> a (4096)
        (cat(&[0xc0, 0, b'a', 0, 0, 0, 0xa0, 0, 0, 0, 0xa0, 0], &st), 4, "good-aaaa"),
        (cat(&[0xc0, 0, b'a', 0, 0, 0, 0xa0, 0, 0, 0, 0xa0, 0], &st), 9, "good-a9"),
        (cat(&[0xc0, 0, b'a', 0, 0, 0, 0xa0, 0, 0, 0, 0xa0, 0], &st), 0, "good-len0"),
        // zero run longer than the rest of the row
        (cat(&[0xc0, 0, b'a', 0, 0, 0, 0xa0, 0, 0, 200, 0xa0, 0], &st), 4, "zero-run-past-row"),
        // uint7 of six bytes
        (cat(&[0xc0, 0, b'a', 0, 0x80, 0x80, 0x80, 0x80, 0x80, 0, 0xa0, 0, 0, 0, 0xa0, 0], &st), 4, "uint7-too-long"),
        // frequencies whose sum overflows u32
        (cat(&[0xc0, 0, b'a', 0, 0x8f, 0xff, 0xff, 0xff, 0x7f, 0x8f, 0xff, 0xff, 0xff, 0x7f, 0, 0, 0xa0, 0], &st), 4, "row-sum-overflow"),
        // one frequency 2^32 - 1: the sum fits, the state update does not
        (cat(&[0xc0, 0, b'a', 0, 0, 0, 0x8f, 0xff, 0xff, 0xff, 0x7f, 0, 0, 0xa0, 0], &[0xff; 16]), 4, "state-step-overflow"),
        // total above 2^bits, no overflow: refused by `normalize_frequencies`
        (cat(&[0xc0, 0, b'a', 0, 0xa0, 0, 0xa0, 0, 0, 0, 0xa0, 0], &st), 4, "total-above-2^bits"),
        // a row that sums to 3 with 12 bits: not a power-of-two fraction of 4096, refused
        (cat(&[0xc0, 0, b'a', 0, 1, 2, 0, 0, 0xa0, 0], &st), 4, "sum-not-power-of-two"),
        // bit counts other than 10 and 12
        (cat(&[0x00, 0, b'a', 0, 0, 0, 1, 0, 0, 1], &st), 4, "bits-0"),
        (cat(&[0xf0, 0, b'a', 0, 0, 0, 1, 0, 0, 1], &st), 4, "bits-15"),
        (cat(&[0x80, 0, b'a', 0, 0, 0, 0x82, 0, 0, 0, 0x82, 0], &st), 5, "bits-8"),
        // alphabet run past 255
        (cat(&[0xc0, 0, 254, 255, 4, 0], &st), 4, "alphabet-run-past-255"),
        // compressed table: sizes missing / data short
        (vec![0xc1], 4, "compressed-eof"),
        (vec![0xc1, 12], 4, "compressed-eof"),
        (vec![0xc1, 12, 40, 1, 2, 3], 4, "compressed-short"),
        (cat(&[0xc1, 12, 3, 1, 2, 3], &st), 4, "compressed-garbage"),
        (cat(&[0xc1, 0, 0], &st), 4, "compressed-empty"),
    ]
}

// ------------------------------------------------------------------------------------------------
// one case

const NX_BITS: [u8; 6] = [0x04, 0x08, 0x10, 0x20, 0x40, 0x80];

fn features(ctx: &mut Ctx, src: &[u8]) {
    let n = src.len();
    let size = match n {
        0..=3 => "0-3",
        4 => "4",
        5..=8 => "5-8",
        9..=31 => "9-31",
        32..=35 => "32-35",
        36..=127 => "36-127",
        128..=1023 => "128-1023",
        1024..=4095 => "1024-4095",
        _ => "4096+",
    };
    ctx.bump(&format!("o1_len:{size}"));
    ctx.bump(&format!("o1_len_mod4:{}", n % 4));
    ctx.bump(&format!("o1_len_mod32:{}", if n % 32 == 0 { "0" } else { "nonzero" }));
    let mut seen = [false; 256];
    let mut succ = vec![[false; 256]; 256];
    for &b in src {
        seen[b as usize] = true;
    }
    for w in src.windows(2) {
        succ[w[0] as usize][w[1] as usize] = true;
    }
    let k = seen.iter().filter(|x| **x).count();
    let alpha = match k {
        0 => "0",
        1 => "1",
        2..=4 => "2-4",
        5..=16 => "5-16",
        17..=64 => "17-64",
        65..=255 => "65-255",
        _ => "256",
    };
    ctx.bump(&format!("o1_alphabet:{alpha}"));
    let ctxs: Vec<usize> = (0..256).filter(|&c| succ[c].iter().any(|x| *x)).collect();
    if ctxs.iter().any(|&c| succ[c].iter().filter(|x| **x).count() == 1) {
        ctx.bump("o1_feature:context-with-single-successor");
    }
    if ctxs.iter().any(|&c| succ[c].iter().filter(|x| **x).count() >= 17) {
        ctx.bump("o1_feature:context-with-17+-successors");
    }
    if (0..256).any(|s| seen[s] && !ctxs.contains(&s)) {
        ctx.bump("o1_feature:symbol-never-a-context");
    }
    if ctxs.windows(2).any(|w| w[1] == w[0] + 1) {
        ctx.bump("o1_feature:run-of-contexts");
    }
    if ctxs.windows(2).any(|w| w[1] > w[0] + 1) {
        ctx.bump("o1_feature:gap-between-contexts");
    }
    if ctxs.contains(&255) {
        ctx.bump("o1_feature:context-255");
    }
    if seen[0] {
        ctx.bump("o1_feature:symbol-0-in-input");
    }
    if n >= 4 && n % 4 != 0 {
        ctx.bump("o1_feature:remainder-on-last-state");
    }
}

fn one_case(ctx: &mut Ctx, idx: u64) {
    let (src, shape) = case_input(ctx, idx);
    let in_corpus = (idx as usize) < corpus().len();
    ctx.bump(&format!("o1_shape:{shape}"));
    features(ctx, &src);
    let mut rng = Rng::new(ctx.seed.wrapping_mul(0x9e37).wrapping_add(idx) ^ fnv(&src));
    let n_corrupt = if ctx.tier_thorough { 6 } else { 3 };

    // ---- rANS 4x8 order 1
    let enc = c08::encode(Codec::R4(1), &src, &[]);
    ctx.corr(format!("c08 r4enc1 {}", hex(&src)), exact(&enc));
    match &enc {
        Err(Bad::Err(c, _)) => ctx.bump(&format!("o1_r4_encode:refused-{c}")),
        Err(Bad::Panic(_)) => ctx.bump("o1_r4_encode:panic"),
        Ok(_) => ctx.bump("o1_r4_encode:ok"),
    }
    if let Ok(enc) = &enc {
        let d = c08::decode(Codec::R4(1), enc, 0);
        ctx.corr(format!("c08 r4dec1 {}", hex(enc)), exact(&d));
        if enc.len() <= 4000 {
            let te = r4_table_end(enc);
            if te.is_none() {
                ctx.bump("o1_r4_table_layout_not_parsed");
            }
            for (m, label) in corruptions(&mut rng, enc, 9, te, 4, n_corrupt) {
                let d = c08::decode(Codec::R4(1), &m, 0);
                ctx.bump(&format!("o1_r4_corruption:{label}"));
                outcome(ctx, "r4", &d, &src);
                ctx.corr(format!("c08 r4dec1c {}", hex(&m)), acc_or_rej(&d));
            }
            // the uncompressed size in the header changed to a nearby value
            let mut m = enc.clone();
            let n2 = (src.len() as u32).wrapping_add(*rng.pick(&[1u32, 2, 3, 4, 5, u32::MAX, u32::MAX - 1, u32::MAX - 3])) % 70_000;
            m[5..9].copy_from_slice(&n2.to_le_bytes());
            let d = c08::decode(Codec::R4(1), &m, 0);
            ctx.bump("o1_r4_corruption:size-field");
            outcome(ctx, "r4", &d, &src);
            ctx.corr(format!("c08 r4dec1c {}", hex(&m)), acc_or_rej(&d));
        }
    }
    c08::oracle_case(ctx, Codec::R4(1), &src, &[], &format!("o1:{shape}"), true);

    // ---- rANS Nx16 with ORDER
    if src.len() <= 4100 {
        // every subset of the six other flags on a quarter of the small corpus inputs, four subsets elsewhere
        let all = in_corpus && src.len() <= 300 && (idx % 4 == 0 || ctx.tier_thorough);
        let picks: Vec<u64> = if all { (0..64).collect() } else { (0..4).map(|k| if k == 0 { rng.below(2) } else { rng.below(64) }).collect() };
        for (pi, k) in picks.into_iter().enumerate() {
            let mut fl = 0x01 | (0..6).filter(|i| k >> i & 1 == 1).map(|i| NX_BITS[i]).fold(0u8, |a, b| a | b);
            if pi > 0 && rng.chance(1, 10) {
                // the complete model on a flag byte without ORDER (its order-0 branch)
                fl &= !0x01;
                ctx.bump("o1_nx_flag_bytes_without_ORDER_through_the_complete_model");
            }
            let c = Codec::Nx(fl);
            let enc = c08::encode(c, &src, &[]);
            ctx.corr(format!("c08 nxenc1 {fl:02x} {}", hex(&src)), exact(&enc));
            ctx.bump("o1_nx_flag_bytes_with_ORDER");
            let Ok(enc) = enc else {
                ctx.bump("o1_nx_encode:refused-or-panic");
                continue;
            };
            ctx.bump(&format!("o1_nx_final_flags:order={} cat={} n32={}", enc[0] & 1, (enc[0] >> 5) & 1, (enc[0] >> 2) & 1));
            let d = c08::decode(c, &enc, src.len());
            ctx.corr(format!("c08 nxdec1 {} {}", src.len(), hex(&enc)), exact(&d));
            // corrupted copies of the order-1 entropy stage alone
            if fl & !0x04 == 0x01 && enc[0] & 0x21 == 0x01 && enc.len() <= 4000 && (all || pi == 0) {
                let mut c0 = Cur { b: &enc, p: 1 };
                if c0.uint7() == Some(src.len() as u32) {
                    let body = &enc[c0.p..];
                    let ns = if fl & 0x04 != 0 { 32 } else { 4 };
                    let te = nx_table_end(body);
                    if te.is_none() {
                        ctx.bump("o1_nx_table_layout_not_parsed");
                    }
                    for (m, label) in corruptions(&mut rng, body, 0, te, ns, n_corrupt) {
                        nx_body_request(ctx, "nx", fl, &m, src.len(), &src, label);
                    }
                    // a different number of symbols than was encoded
                    let n2 = (src.len() + *rng.pick(&[1usize, 2, 3, 31, 33])).saturating_sub(*rng.pick(&[0usize, 2, 4, 40]));
                    nx_body_request(ctx, "nx", fl, body, n2, &src, "other-length");
                }
            }
        }
        c08::oracle_case(ctx, Codec::Nx(0x01), &src, &[], &format!("o1:{shape}"), true);
        let k = rng.below(64);
        let fl = 0x01 | (0..6).filter(|i| k >> i & 1 == 1).map(|i| NX_BITS[i]).fold(0u8, |a, b| a | b);
        c08::oracle_case(ctx, Codec::Nx(fl), &src, &[], &format!("o1:{shape}"), true);
    }

    // ---- hand-made Nx16 order-1 streams
    if src.len() <= 2500 && src.len() >= 4 {
        let reps = if in_corpus { 4 } else { 1 };
        for _ in 0..reps {
            let n = if src.len() >= 32 && rng.chance(1, 3) { 32 } else { 4 };
            let bits = *rng.pick(&[10u32, 12, 12, 10, 11, 9]);
            let (compress, downscale, extra) = (rng.chance(1, 2), rng.chance(1, 2), rng.chance(1, 4));
            let Some(body) = handmade_nx16_o1(&mut rng, &src, n, bits, compress, downscale, extra) else {
                ctx.bump("o1_handmade:not-encodable");
                continue;
            };
            let fl = if n == 32 { 0x05 } else { 0x01 };
            ctx.bump(&format!("o1_handmade:bits={bits} compressed={compress} downscaled={downscale}"));
            let ok = nx_body_request(ctx, "handmade", fl, &body, src.len(), &src, "intact");
            if !ok {
                ctx.bump("o1_handmade:real-decoder-did-not-return-the-input");
            }
            if body.len() <= 3000 {
                let te = nx_table_end(&body);
                for (m, label) in corruptions(&mut rng, &body, 0, te, n, 2) {
                    nx_body_request(ctx, "handmade", fl, &m, src.len(), &src, label);
                }
            }
        }
    }
}

/// the order-1 entropy stage alone: `ORDER | NO_SIZE [| N32]`, the length given from outside
fn nx_body_request(ctx: &mut Ctx, fam: &str, fl: u8, body: &[u8], len: usize, orig: &[u8], label: &str) -> bool {
    let ns = if fl & 0x04 != 0 { 32 } else { 4 };
    let mut stream = vec![0x11 | (fl & 0x04)];
    stream.extend_from_slice(body);
    let d = c08::decode(Codec::Nx(stream[0]), &stream, len);
    ctx.bump(&format!("o1_{fam}_corruption:{label}"));
    outcome(ctx, fam, &d, orig);
    ctx.corr(format!("c08 nxdec1c {ns} {len} {}", hex(body)), acc_or_rej(&d));
    matches!(&d, Ok(x) if x == orig)
}

fn malformed_cases(ctx: &mut Ctx) {
    for (m, label) in r4_malformed() {
        let d = c08::decode(Codec::R4(1), &m, 0);
        ctx.bump(&format!("o1_r4_malformed:{label}"));
        outcome(ctx, "r4", &d, &[]);
        ctx.corr(format!("c08 r4dec1c {}", hex(&m)), acc_or_rej(&d));
    }
    for (m, len, label) in nx_malformed() {
        nx_body_request(ctx, "nx-malformed", 0x01, &m, len, &[], label);
        if len >= 32 || len == 0 {
            nx_body_request(ctx, "nx-malformed", 0x05, &m, len, &[], label);
        }
    }
}

// ------------------------------------------------------------------------------------------------
// entry points

const BATCH: u64 = 150;
const MEM_CAP_KB: u64 = 3_000_000;

fn total_cases(ctx: &Ctx) -> u64 {
    corpus().len() as u64 + ctx.n(220, 4000)
}

fn run_child(ctx: &Ctx, dir: &str, words: &[String], deadline_s: u64) -> (bool, bool) {
    let _ = std::fs::remove_dir_all(dir);
    let _ = std::fs::create_dir_all(dir);
    let exe = std::env::current_exe().expect("current_exe");
    let mut cmd = std::process::Command::new("sh");
    cmd.arg("-c").arg(format!("ulimit -v {MEM_CAP_KB}; exec \"$0\" \"$@\"")).arg(&exe);
    cmd.args(["replay", "C08", "--seed", &ctx.seed.to_string(), "--tier", if ctx.tier_thorough { "thorough" } else { "quick" }, "--dir", dir]);
    // `child <dir> …` is the in-process worker entry of c08::run
    cmd.args(["child", dir]);
    cmd.args(words);
    cmd.stdout(std::process::Stdio::null()).stderr(std::process::Stdio::null());
    let mut child = cmd.spawn().expect("spawn worker");
    let t0 = std::time::Instant::now();
    loop {
        match child.try_wait() {
            Ok(Some(st)) => return (st.success() && std::path::Path::new(&format!("{dir}/stats.tsv")).exists(), false),
            Ok(None) => {
                // CPU time of the worker decides (a starved worker on a loaded machine is slow, not
                // hung); wall time only as a much later backstop for a blocked worker
                let cpu = proc_cpu_secs(child.id()).unwrap_or(f64::INFINITY);
                if (cpu >= deadline_s as f64 && t0.elapsed().as_secs() >= deadline_s) || t0.elapsed().as_secs() >= 4 * deadline_s {
                    let _ = child.kill();
                    let _ = child.wait();
                    return (false, true);
                }
                std::thread::sleep(std::time::Duration::from_millis(5));
            }
            Err(_) => return (false, false),
        }
    }
}

fn merge(ctx: &mut Ctx, dir: &str) {
    let read = |f: &str| std::fs::read_to_string(format!("{dir}/{f}")).unwrap_or_default();
    let (rq, an) = (read("requests.txt"), read("impl.txt"));
    for (r, a) in rq.lines().zip(an.lines()) {
        ctx.corr(r.to_string(), a.to_string());
    }
    for l in read("oracle.tsv").lines() {
        let mut it = l.splitn(3, '\t');
        let (c, t, k) = (it.next().unwrap_or(""), it.next().unwrap_or(""), it.next().unwrap_or(""));
        let same = ctx.failures.iter().filter(|f| f.0 == c).count();
        if same < 8 && ctx.failures.len() < 200 {
            ctx.failures.push((c.into(), t.into(), k.into()));
        }
    }
    for x in read("keys.txt").split(',').filter_map(|x| u64::from_str_radix(x.trim(), 16).ok()) {
        if ctx.nontrivial.len() < 2_000_000 {
            ctx.nontrivial.insert(x);
        }
    }
    for l in read("stats.tsv").lines() {
        let Some((k, v)) = l.split_once('\t') else { continue };
        if let Some(h) = k.strip_prefix("hist:") {
            ctx.bump_by(h, v.parse().unwrap_or(0));
        } else if k == "oracle_evals" {
            ctx.oracle_evals += v.parse::<u64>().unwrap_or(0);
        }
    }
}

/// all order-1 cases of this run, in capped child processes
pub fn run(ctx: &mut Ctx) {
    let total = total_cases(ctx);
    let dir = format!("{}/c08-order1-worker", ctx.dir);
    let deadline = if ctx.tier_thorough { 900 } else { 240 };
    // `from == total`: the hand-written malformed streams
    let mut from = 0;
    let mut width = BATCH;
    let mut dead = 0;
    while from <= total {
        if dead >= 6 {
            // every further case would cost a deadline or a memory-cap abort: six witnesses are enough
            ctx.bump("o1_suite_stopped_after_six_dead_workers");
            break;
        }
        let to = if from == total { total + 1 } else { (from + width).min(total) };
        let words: Vec<String> = vec!["o1batch".into(), from.to_string(), to.to_string()];
        let (ok, timed_out) = run_child(ctx, &dir, &words, deadline);
        if ok {
            merge(ctx, &dir);
            from = to;
            width = BATCH;
        } else if to - from > 1 {
            // narrow down to the case that kills the worker
            ctx.bump("o1_worker_died");
            width = ((to - from) / 2).max(1);
        } else {
            let (src, shape) = case_input(ctx, from);
            let kind = if timed_out { "hang" } else { "abort" };
            ctx.fail(
                &format!("rans-o1-{kind}"),
                format!("order-1 case {from} (shape {shape}, {} bytes): the worker process {}", src.len(), if timed_out { "did not finish within the deadline" } else { "died (address-space cap or abort)" }),
                format!("o1case {from}"),
            );
            ctx.eval(None);
            dead += 1;
            from = to;
            width = BATCH;
        }
    }
    let _ = std::fs::remove_dir_all(&dir);
    ctx.sample(|| "c08 r4enc1 6e6f6f646c6573".into());
    ctx.sample(|| "c08 nxenc1 01 6e6f6f646c6573".into());
}

/// worker / replay entry: `o1batch <from> <to>`, `o1case <idx>`, `o1run`
pub fn replay(ctx: &mut Ctx, case: &[String]) -> bool {
    match case.first().map(|s| s.as_str()) {
        Some("o1batch") if case.len() >= 3 => {
            let (from, to): (u64, u64) = (case[1].parse().unwrap_or(0), case[2].parse().unwrap_or(0));
            let total = total_cases(ctx);
            for idx in from..to {
                if idx == total {
                    malformed_cases(ctx);
                } else {
                    one_case(ctx, idx);
                }
            }
            let keys: Vec<String> = ctx.nontrivial.iter().map(|k| format!("{k:x}")).collect();
            let _ = std::fs::write(format!("{}/keys.txt", ctx.dir), keys.join(","));
            true
        }
        // the whole order-1 suite on its own (as `run`, with its worker processes)
        Some("o1run") => {
            run(ctx);
            true
        }
        Some("o1case") if case.len() >= 2 => {
            one_case(ctx, case[1].parse().unwrap_or(0));
            true
        }
        _ => false,
    }
}
