//! C05 extension — the BAM writer's fast paths for a lazy `bam::Record`: which raw bytes are
//! copied, when the writer accepts, and that the result reads back the same (model:
//! `lean/Noodles/Bam/{Reenc,Fast}.lean`, theorems: `Props/C05Fast.lean`).
//!
//! Correspondence (suite `c05 fast`):
//!   c05 fast refs <hex body>        real: Reader::read_record → bam::Record, then the four hidden trait
//!                                   methods cigar_ref / sequence_ref / quality_scores_ref / data_ref:
//!                                   `cig=<hex> seq=<l_seq>/<hex> qual=<hex> data=e<hex>|g`
//!                                   (theorem fast_path_selection)
//!   c05 fast acc <nref> <hex body>  real: Writer::write_alignment_record(&header, &bam::Record):
//!                                   `<ok body | error class | panic> dec=<ok|err> fits=<t|f|-> ident=<t|f|->`
//!                                   dec: the eager decoder (read_record_buf) accepts the body;
//!                                   fits: the REAL writer's verdict when dec=ok — the model prints
//!                                   `fastFits`, the right-hand side of fast_accepts_iff_fits, there;
//!                                   ident: the body written is the body read
//!   `eof` / `unreadable` when the reader does not deliver the record.
//! Oracle (on the real code only; class = first word):
//!   fast-roundtrip   ANY body that read_record accepts (eagerly decodable or not) and the writer
//!                    accepts: the written body is read again by read_record and all twelve lazy
//!                    accessors return what they returned on the original
//!   fast-identity    a body the BAM writer itself produced (RecordBuf → bytes), read lazily and
//!                    written back against the same dictionary, is refused or comes out different
//!                    (any number of CIGAR ops, incl. > 65535 via CG)
//!   reject-hygiene   a rejected record reached the sink / block_size does not describe the body
//!   panic            the writer or a *_ref method panicked on a record that read_record accepted
use crate::common::*;
use super::c05;
use super::c05_reenc as re;
use noodles_bam as bam;
use noodles_sam::{
    self as sam,
    alignment::{
        io::Write as _,
        record::{CigarRef, DataRef, QualityScoresRef, SequenceRef},
    },
};

fn fmt_bytes(b: &[u8]) -> String {
    if b.len() <= 1500 { hex(b) } else { format!("#{}:{}", b.len(), crc32(b)) }
}

fn framed(body: &[u8]) -> Vec<u8> {
    let mut v = (body.len() as u32).to_le_bytes().to_vec();
    v.extend_from_slice(body);
    v
}

fn read_lazy(body: &[u8]) -> Result<bam::Record, &'static str> {
    let f = framed(body);
    let mut rd = bam::io::Reader::from(&f[..]);
    let mut rec = bam::Record::default();
    match rd.read_record(&mut rec) {
        Ok(0) => Err("eof"),
        Ok(_) => Ok(rec),
        Err(_) => Err("unreadable"),
    }
}

struct Written {
    answer: String,
    body: Option<Vec<u8>>,
    hygiene: Option<&'static str>,
}

/// one `write_alignment_record(&header, &bam::Record)` on a fresh writer
fn write_lazy(nref: usize, rec: &bam::Record) -> Written {
    let h = c05::header(nref);
    let res = guarded(|| {
        let mut w = bam::io::Writer::from(Vec::new());
        let r = w.write_alignment_record(&h, rec);
        (r.map_err(|e| errclass(&e).to_string()), w.into_inner())
    });
    match res {
        Err(_) => Written { answer: "panic".into(), body: None, hygiene: None },
        Ok((Ok(()), out)) => {
            if out.len() < 4 || u32::from_le_bytes(out[..4].try_into().unwrap()) as usize != out.len() - 4 {
                return Written { answer: "bad-block-size".into(), body: None, hygiene: Some("bad-block-size") };
            }
            Written { answer: format!("ok {}", fmt_bytes(&out[4..])), body: Some(out[4..].to_vec()), hygiene: None }
        }
        Ok((Err(c), out)) => Written { answer: c, body: None, hygiene: if out.is_empty() { None } else { Some("partial-write") } },
    }
}

/// the four `*_ref` answers of `impl sam::alignment::Record for bam::Record`
fn refs_answer(rec: &bam::Record) -> (String, bool, bool) {
    let cig = match sam::alignment::Record::cigar_ref(rec) {
        CigarRef::FourBytePacked(src) => fmt_bytes(src),
        CigarRef::Cigar(_) => "g".into(),
    };
    let seq = match sam::alignment::Record::sequence_ref(rec) {
        SequenceRef::FourBitPacked(p) => format!("{}/{}", p.len(), fmt_bytes(p.as_ref())),
        SequenceRef::Raw(_) => "raw".into(),
        SequenceRef::Sequence(_) => "g".into(),
    };
    let qual = match sam::alignment::Record::quality_scores_ref(rec) {
        QualityScoresRef::Raw(src) => fmt_bytes(src),
        QualityScoresRef::Offset(..) => "offset".into(),
        QualityScoresRef::QualityScores(_) => "g".into(),
    };
    let (data, encoded) = match sam::alignment::Record::data_ref(rec) {
        DataRef::FieldEncoded(src) => (format!("e{}", fmt_bytes(src)), true),
        DataRef::Data(_) => ("g".to_string(), false),
    };
    let all_fast = cig != "g" && seq != "g" && seq != "raw" && qual != "g" && qual != "offset";
    (format!("cig={cig} seq={seq} qual={qual} data={data}"), encoded, all_fast)
}

struct Layout {
    l_name: usize,
    n_ops: usize,
    l_seq: usize,
    cigar: usize,
    seq: usize,
    qual: usize,
    data: usize,
}

fn layout(b: &[u8]) -> Layout {
    let l_name = b[8] as usize;
    let n_ops = u16::from_le_bytes([b[12], b[13]]) as usize;
    let l_seq = u32::from_le_bytes([b[16], b[17], b[18], b[19]]) as usize;
    let cigar = 32 + l_name;
    let seq = cigar + 4 * n_ops;
    let qual = seq + l_seq.div_ceil(2);
    let data = qual + l_seq;
    Layout { l_name, n_ops, l_seq, cigar, seq, qual, data }
}

/// the field types of a data area, for the histogram (walks like encoder/data.rs::validate)
fn bump_data_types(ctx: &mut Ctx, mut d: &[u8]) {
    let mut n = 0;
    while d.len() >= 3 && n < 64 {
        n += 1;
        let ty = d[2];
        let is_cg = &d[..2] == b"CG";
        d = &d[3..];
        let skip = match ty {
            b'A' | b'c' | b'C' => 1,
            b's' | b'S' => 2,
            b'i' | b'I' | b'f' => 4,
            b'Z' | b'H' => match d.iter().position(|&x| x == 0) {
                Some(i) => i + 1,
                None => {
                    ctx.bump("fast_field_no_nul");
                    return;
                }
            },
            b'B' => {
                if d.len() < 5 {
                    ctx.bump("fast_field_array_header_cut");
                    return;
                }
                let size = match d[0] {
                    b'c' | b'C' => 1,
                    b's' | b'S' => 2,
                    b'i' | b'I' | b'f' => 4,
                    _ => {
                        ctx.bump("fast_field_bad_subtype");
                        return;
                    }
                };
                ctx.bump(&format!("fast_field_B{}", d[0] as char));
                5 + size * u32::from_le_bytes([d[1], d[2], d[3], d[4]]) as usize
            }
            _ => {
                ctx.bump("fast_field_bad_type");
                return;
            }
        };
        if (ty as char).is_ascii_alphabetic() && ty != b'B' {
            ctx.bump(&format!("fast_field_{}{}", ty as char, if is_cg { "_tagged_CG" } else { "" }));
        }
        if skip > d.len() {
            ctx.bump("fast_field_cut_short");
            return;
        }
        d = &d[skip..];
    }
    if !d.is_empty() && n < 64 {
        ctx.bump("fast_field_tag_cut");
    }
}

/// one body through the reader and the writer's fast paths
/// `written_with`: Some(nref) when `body` is what the real BAM writer produced against that dictionary
fn body_case(ctx: &mut Ctx, nref: usize, body: &[u8], case: &str, label: &str, written_with: Option<usize>, emit: bool) {
    ctx.bump(label);
    let h = hex(body);
    let rec = match read_lazy(body) {
        Err(why) => {
            ctx.bump(&format!("fast_reader_{why}"));
            if emit {
                ctx.corr(format!("c05 fast refs {h}"), why.into());
                ctx.corr(format!("c05 fast acc {nref} {h}"), why.into());
            }
            return;
        }
        Ok(rec) => rec,
    };
    // ---- which bytes the encoder is handed
    let refs = guarded(|| refs_answer(&rec));
    let encoded = match &refs {
        Ok((ans, encoded, all_fast)) => {
            ctx.bump(if *encoded { "fast_data_FieldEncoded" } else { "fast_data_reencoded_cigar_from_CG" });
            if !all_fast {
                ctx.bump("fast_some_ref_not_fast");
            }
            if emit {
                ctx.corr(format!("c05 fast refs {h}"), ans.clone());
            }
            *encoded
        }
        Err(_) => {
            if emit {
                ctx.corr(format!("c05 fast refs {h}"), "panic".into());
            }
            ctx.fail("panic", format!("a *_ref method of bam::Record panicked on a record that read_record accepted ({} bytes)", body.len()), case.into());
            false
        }
    };
    let l = layout(body);
    ctx.bump(match l.n_ops { 0 => "fast_ops_0", 1 => "fast_ops_1", 2 => "fast_ops_2", 3..=9 => "fast_ops_3_9", 10..=65535 => "fast_ops_10_65535", _ => "fast_ops_more" });
    ctx.bump(match l.l_seq { 0 => "fast_lseq_0", x if x % 2 == 1 => "fast_lseq_odd", _ => "fast_lseq_even" });
    if l.data <= body.len() {
        bump_data_types(ctx, &body[l.data..]);
        let q = &body[l.qual..l.data];
        if !q.is_empty() {
            ctx.bump(if q.iter().all(|&x| x == 0xff) { "fast_qual_all_ff" } else if q.iter().any(|&x| x > 93) { "fast_qual_above_93" } else { "fast_qual_present" });
        }
        if l.l_name > 0 && body[32 + l.l_name - 1] != 0 {
            ctx.bump("fast_name_without_nul");
        }
    }
    // ---- the writer
    let w = write_lazy(nref, &rec);
    let eager = guarded(|| c05::real_decode(body)).unwrap_or(Err("panic".into()));
    let verdict = w.answer.split(' ').next().unwrap().to_string();
    ctx.bump(&format!("fast_writer_{verdict}{}", if encoded { "" } else { "_cg_path" }));
    ctx.bump(if eager.is_ok() { "fast_eager_ok" } else { "fast_eager_refuses" });
    if eager.is_err() && w.body.is_some() {
        ctx.bump("fast_accepted_though_eager_refuses");
    }
    if emit {
        let dec = if eager.is_ok() { "ok" } else { "err" };
        let fits = if eager.is_ok() { if w.body.is_some() { "t" } else { "f" } } else { "-" };
        let ident = match &w.body {
            Some(out) => if out == body { "t" } else { "f" },
            None => "-",
        };
        ctx.corr(format!("c05 fast acc {nref} {h}"), format!("{} dec={dec} fits={fits} ident={ident}", w.answer));
    }
    // ---- oracle
    if w.answer == "panic" {
        ctx.fail("panic", format!("write_alignment_record(bam::Record) panicked on a record that read_record accepted ({} bytes)", body.len()), case.into());
    }
    if let Some(hy) = w.hygiene {
        ctx.fail("reject-hygiene", format!("write_alignment_record(bam::Record): {hy}"), case.into());
    }
    if let Some(out) = &w.body {
        ctx.eval(Some(fnv(body) ^ 0xfa57));
        ctx.bump(if out == body { "fast_out_identical" } else if out.len() == body.len() { "fast_out_same_length" } else if out.len() == body.len() + 1 { "fast_out_one_longer" } else { "fast_out_other_length" });
        match (c05::real_lazy(body), c05::real_lazy(out)) {
            (Ok(a), Ok(b)) => {
                if a != b {
                    let i = a.iter().zip(b.iter()).position(|(x, y)| x != y).unwrap_or(0);
                    const NAMES: [&str; 12] = ["name", "flags", "reference_sequence_id", "alignment_start", "mapping_quality", "cigar", "mate_reference_sequence_id", "mate_alignment_start", "template_length", "sequence", "quality_scores", "data"];
                    let sh = |s: &String| if s.len() > 120 { format!("{}…", &s[..120]) } else { s.clone() };
                    ctx.fail("fast-roundtrip", format!("a lazy bam::Record written back through the fast paths reads back with a different {}: {} became {}", NAMES.get(i).unwrap_or(&"?"), sh(&a[i]), sh(&b[i])), case.into());
                }
            }
            (Ok(_), Err(e)) => ctx.fail("fast-roundtrip", format!("a lazy bam::Record ({} bytes) accepted by the writer is not accepted by read_record again: {e}", body.len()), case.into()),
            (Err(_), _) => {}
        }
    }
    if written_with == Some(nref) {
        ctx.eval(Some(fnv(body) ^ 0x1de7));
        match &w.body {
            Some(out) if out == body => {}
            Some(out) => {
                let i = out.iter().zip(body.iter()).position(|(x, y)| x != y).unwrap_or(out.len().min(body.len()));
                ctx.fail("fast-identity", format!("a body the BAM writer produced ({} bytes, {} CIGAR ops in the slot) is written back differently: first difference at byte {i}, {} bytes now", body.len(), l.n_ops, out.len()), case.into());
            }
            None => ctx.fail("fast-identity", format!("a body the BAM writer produced ({} bytes) is refused when written back as a lazy record: {}", body.len(), w.answer), case.into()),
        }
    }
}

// ------------------------------------------------------------------ mutations aimed at "validated, but not what the eager decoder accepts"

/// `body` is a record the real writer produced (consistent layout)
fn mutate_hostile(rng: &mut Rng, body: &[u8]) -> (Vec<u8>, &'static str) {
    let l = layout(body);
    let mut b = body.to_vec();
    match rng.below(12) {
        0 => {
            // name without its NUL terminator (l_read_name one less)
            if l.l_name >= 2 {
                b.remove(32 + l.l_name - 1);
                b[8] -= 1;
                return (b, "hostile_name_nul_stripped");
            }
            (b, "hostile_unchanged")
        }
        1 => {
            // a CG-tagged string appended, sometimes with a refused character
            b.extend_from_slice(b"CGZ");
            for _ in 0..rng.below(4) {
                b.push(if rng.chance(1, 3) { *rng.pick(&[0x01u8, 0x1f, 0x7f, 0xff]) } else { rng.range(0x20, 0x7e) as u8 });
            }
            b.push(0);
            (b, "hostile_cg_string_appended")
        }
        2 => {
            // a CG-tagged hex value, valid or not
            b.extend_from_slice(b"CGH");
            for _ in 0..rng.below(5) {
                b.push(*rng.pick(b"0123456789ABCDEFabg"));
            }
            b.push(0);
            (b, "hostile_cg_hex_appended")
        }
        3 => {
            // the last field once more: a duplicate tag (the eager decoder refuses it, the validator does not look)
            let d = body[l.data..].to_vec();
            if !d.is_empty() && d.len() <= 64 {
                b.extend_from_slice(&d);
                return (b, "hostile_data_doubled");
            }
            b.extend_from_slice(b"NHC\x01NHC\x02");
            (b, "hostile_duplicate_tag_appended")
        }
        4 => {
            // one typed field of every kind appended
            let f: &[&[u8]] = &[b"XAA!", b"Xcc\x80", b"XCC\xff", b"Xss\x00\x80", b"XSS\xff\xff", b"Xii\x00\x00\x00\x80", b"XII\xff\xff\xff\xff", b"Xff\x00\x00\xc0\x7f", b"XZZ\x00", b"XHH\x00", b"XHH1F\x00", b"XBBc\x01\x00\x00\x00\x80", b"XBBC\x00\x00\x00\x00", b"XBBs\x01\x00\x00\x00\x01\x80", b"XBBS\x01\x00\x00\x00\xff\xff", b"XBBi\x01\x00\x00\x00\x00\x00\x00\x80", b"XBBI\x01\x00\x00\x00\xff\xff\xff\xff", b"XBBf\x01\x00\x00\x00\x01\x00\x80\x7f"];
            for _ in 0..rng.range(1, 4) {
                let x: &[u8] = *rng.pick(f); b.extend_from_slice(x);
            }
            (b, "hostile_typed_fields_appended")
        }
        5 => {
            // a field cut short / of unknown type at the end
            let f: &[&[u8]] = &[b"X", b"XX", b"XXs\x01", b"XXi\x01\x02", b"XXZab", b"XXHab", b"XXB", b"XXBc\x01\x00", b"XXBc\x02\x00\x00\x00\x01", b"XX?\x00", b"XXB?\x00\x00\x00\x00", b"XXBI\xff\xff\xff\xff"];
            let x: &[u8] = *rng.pick(f); b.extend_from_slice(x);
            (b, "hostile_broken_field_appended")
        }
        6 => {
            if l.l_seq % 2 == 1 {
                b[l.qual - 1] |= rng.range(1, 15) as u8;
                return (b, "hostile_padding_nibble");
            }
            (b, "hostile_unchanged")
        }
        7 => {
            for i in l.qual..l.data {
                b[i] = 0xff;
            }
            if l.l_seq > 1 && rng.chance(1, 3) {
                b[l.qual + rng.below(l.l_seq as u64) as usize] = rng.below(100) as u8;
            }
            (b, "hostile_quals_ff")
        }
        8 => {
            // an op kind the decoder refuses / a slot that looks like the placeholder
            if l.n_ops >= 1 {
                let i = l.cigar + 4 * rng.below(l.n_ops as u64) as usize;
                b[i] = (b[i] & 0xf0) | rng.range(9, 15) as u8;
                return (b, "hostile_op_kind");
            }
            (b, "hostile_unchanged")
        }
        9 => {
            b[14..16].copy_from_slice(&(rng.next() as u16).to_le_bytes());
            b[10..12].copy_from_slice(&(rng.next() as u16).to_le_bytes());
            (b, "hostile_flags_and_bin")
        }
        10 => {
            // name bytes the encoder refuses
            if l.l_name >= 2 {
                b[32 + rng.below(l.l_name as u64 - 1) as usize] = *rng.pick(&[b'@', b' ', 0, 0x7f, b'*']);
                return (b, "hostile_name_byte");
            }
            (b, "hostile_unchanged")
        }
        _ => {
            // ids / positions at the i32 edges
            let off = *rng.pick(&[0usize, 4, 20, 24]);
            let v: i32 = *rng.pick(&[-1, -2, i32::MIN, i32::MAX, 0, 1, 2]);
            b[off..off + 4].copy_from_slice(&v.to_le_bytes());
            (b, "hostile_id_or_position")
        }
    }
}

// ------------------------------------------------------------------ hand-written bodies (always first)

fn corpus() -> Vec<(usize, Vec<u8>, &'static str)> {
    let m = |len: u32, k: u32| (len << 4) | k;
    let mut v: Vec<(usize, Vec<u8>, &'static str)> = vec![];
    // the witnesses of Props/C05Fast.lean, byte for byte
    v.push((0, vec![255, 255, 255, 255, 255, 255, 255, 255, 2, 255, 0x48, 0x12, 1, 0, 4, 0, 3, 0, 0, 0, 255, 255, 255, 255, 255, 255, 255, 255, 0, 0, 0, 0, 42, 0, 0x30, 0, 0, 0, 0x12, 0x40, 255, 255, 255, 67, 71, 90, 1, 0], "corpus_bad_cg_z"));
    v.push((0, vec![255, 255, 255, 255, 255, 255, 255, 255, 2, 255, 0x48, 0x12, 0, 0, 4, 0, 0, 0, 0, 0, 255, 255, 255, 255, 255, 255, 255, 255, 0, 0, 0, 0, 97, 98], "corpus_name_no_nul"));
    v.push((2, vec![1, 0, 0, 0, 8, 0, 0, 0, 3, 13, 0, 0, 2, 0, 0x41, 0xf0, 4, 0, 0, 0, 255, 255, 255, 255, 255, 255, 255, 255, 7, 0, 0, 0, 114, 48, 0, 0x30, 0, 0, 0, 0x14, 0, 0, 0, 0x12, 0x48, 45, 35, 43, 50, 78, 72, 67, 1], "corpus_stale_bin_witness"));
    v.push((1, vec![1, 0, 0, 0, 8, 0, 0, 0, 3, 13, 0, 0, 2, 0, 0x41, 0xf0, 4, 0, 0, 0, 255, 255, 255, 255, 255, 255, 255, 255, 7, 0, 0, 0, 114, 48, 0, 0x30, 0, 0, 0, 0x14, 0, 0, 0, 0x12, 0x48, 45, 35, 43, 50, 78, 72, 67, 1], "corpus_stale_bin_witness_outside_dictionary"));
    v.push((2, vec![0, 0, 0, 0, 8, 0, 0, 0, 2, 255, 0x49, 0x12, 2, 0, 0, 0, 3, 0, 0, 0, 255, 255, 255, 255, 255, 255, 255, 255, 7, 0, 0, 0, 114, 0, 0x34, 0, 0, 0, 0x73, 0, 0, 0, 0x12, 0x40, 1, 2, 3, 67, 71, 66, 73, 2, 0, 0, 0, 0x20, 0, 0, 0, 0x14, 0, 0, 0, 78, 72, 67, 1, 88, 66, 66, 115, 1, 0, 0, 0, 255, 255], "corpus_cg_first_witness"));
    v.push((2, vec![1, 0, 0, 0, 8, 0, 0, 0, 3, 13, 0x49, 0x12, 2, 0, 65, 0, 4, 0, 0, 0, 1, 0, 0, 0, 21, 0, 0, 0, 144, 0, 0, 0, 114, 48, 0, 0x30, 0, 0, 0, 0x14, 0, 0, 0, 0x12, 0x48, 45, 35, 43, 50, 78, 72, 67, 1], "corpus_identity_witness"));
    // names at the limits, with and without terminator
    let n254 = vec![b'n'; 254];
    let mut with_nul = n254.clone();
    with_nul.push(0);
    v.push((0, re::mk(-1, -1, 255, 4680, 4, &with_nul, &[], 0, &[], &[], b""), "corpus_name_254_and_nul"));
    v.push((0, re::mk(-1, -1, 255, 4680, 4, &n254, &[], 0, &[], &[], b""), "corpus_name_254_no_nul_grows_to_255"));
    v.push((0, re::mk(-1, -1, 255, 4680, 4, &vec![b'n'; 255], &[], 0, &[], &[], b""), "corpus_name_255_no_nul"));
    v.push((0, re::mk(-1, -1, 255, 4680, 4, b"*", &[], 0, &[], &[], b""), "corpus_name_star_no_nul"));
    v.push((0, re::mk(-1, -1, 255, 4680, 4, b"", &[], 0, &[], &[], b""), "corpus_l_read_name_0"));
    v.push((0, re::mk(-1, -1, 255, 4680, 4, b"a\0\0", &[], 0, &[], &[], b""), "corpus_name_two_nuls"));
    // every field type through the FieldEncoded validator, valid
    v.push((0, re::mk(-1, -1, 255, 4680, 4, b"r\0", &[], 0, &[], &[], b"XAA!XccxXCCxXssxyXSSxyXiiwxyzXIIwxyzXffwxyzXZZ ~\x00XHH09AF\x00XaBc\x02\x00\x00\x00\x01\x80XbBC\x00\x00\x00\x00XcBs\x01\x00\x00\x00\x01\x80XdBS\x01\x00\x00\x00\xff\xffXeBi\x01\x00\x00\x00\x00\x00\x00\x80XfBI\x01\x00\x00\x00\xff\xff\xff\xffXgBf\x01\x00\x00\x00\x01\x00\x80\x7f"), "corpus_every_type"));
    // CG-tagged values the per-field encoder would refuse / accept (slot is not the placeholder)
    v.push((0, re::mk(-1, -1, 255, 4680, 4, b"r\0", &[m(3, 0)], 0, &[], &[], b"CGZ\x7f\x00"), "corpus_cg_z_del"));
    v.push((0, re::mk(-1, -1, 255, 4680, 4, b"r\0", &[m(3, 0)], 0, &[], &[], b"CGZ\x00"), "corpus_cg_z_empty"));
    v.push((0, re::mk(-1, -1, 255, 4680, 4, b"r\0", &[m(3, 0)], 0, &[], &[], b"CGHABC\x00"), "corpus_cg_h_odd"));
    v.push((0, re::mk(-1, -1, 255, 4680, 4, b"r\0", &[m(3, 0)], 0, &[], &[], b"CGHab\x00"), "corpus_cg_h_lowercase"));
    v.push((0, re::mk(-1, -1, 255, 4680, 4, b"r\0", &[m(3, 0)], 0, &[], &[], b"CGH1F\x00NHC\x01"), "corpus_cg_h_valid"));
    v.push((0, re::mk(-1, -1, 255, 4680, 4, b"r\0", &[m(3, 0)], 0, &[], &[], b"NHC\x01NHC\x01"), "corpus_duplicate_tag_identical"));
    // placeholder slot; CG:Z with a refused value BEFORE the CG:B,I field (data re-encoded: CG fields skipped)
    let ph = [m(3, 4), m(7, 3)];
    v.push((2, re::mk(0, 8, 255, 4681, 0, b"r\0", &ph, 3, &[0x12, 0x40], &[1, 2, 3], b"CGZ\x01\x00CGBI\x01\x00\x00\x00\x30\x00\x00\x00"), "corpus_placeholder_cg_z_bad_then_cg_bi"));
    v.push((2, re::mk(0, 8, 255, 4681, 0, b"r\0", &ph, 3, &[0x12, 0x40], &[1, 2, 3], b"CGBI\x01\x00\x00\x00\x30\x00\x00\x00CGZ\x01\x00"), "corpus_placeholder_cg_bi_then_cg_z_bad"));
    v.push((2, re::mk(0, 8, 255, 4681, 0, b"r\0", &ph, 3, &[0x12, 0x4f], &[0xff, 0xff, 0xff], b"CGBI\x01\x00\x00\x00\x30\x00\x00\x00NHC\x01NHC\x02"), "corpus_placeholder_cg_duplicate_tags_padding"));
    v.push((2, re::mk(0, 8, 255, 4681, 0, b"r\0", &ph, 3, &[0x12, 0x40], &[1, 2, 3], b"CGBI\x01\x00\x00\x00\x20\x00\x00\x00"), "corpus_placeholder_cg_read_length_mismatch"));
    // qualities
    v.push((0, re::mk(-1, -1, 255, 4680, 4, b"*\0", &[], 2, &[0x12], &[93, 0], b""), "corpus_qual_93"));
    v.push((0, re::mk(-1, -1, 255, 4680, 4, b"*\0", &[], 2, &[0x12], &[94, 0], b""), "corpus_qual_94_first"));
    v.push((0, re::mk(-1, -1, 255, 4680, 4, b"*\0", &[], 2, &[0x12], &[0xff, 0xff], b""), "corpus_qual_all_ff_even"));
    v
}

fn rec_case(ctx: &mut Ctx, sub: u64, long: bool, emit: bool) {
    let mut rng = Rng::new(sub ^ 0xfa57_0005);
    let (nref, r, _) = if long { c05::gen_long(&mut rng) } else { c05::gen_rec(&mut rng) };
    let case = format!("{} {sub}", if long { "fast-long" } else { "fast-rec" });
    let Ok(body) = c05::real_encode(nref, &r) else {
        ctx.bump("fast_source_record_rejected");
        return;
    };
    // the writer's own output, against the dictionary it was written with: identity
    body_case(ctx, nref, &body, &case, if long { "fast_written_long" } else { "fast_written" }, Some(nref), emit);
    if long {
        let (mb, what) = re::mutate_long(&mut rng, &body);
        body_case(ctx, nref, &mb, &case, what, None, emit);
        return;
    }
    if body.len() > 4096 {
        return;
    }
    let nref2 = if rng.chance(1, 8) { *rng.pick(&[0usize, 1, 2]) } else { nref };
    let (mb, what) = mutate_hostile(&mut rng, &body);
    body_case(ctx, nref2, &mb, &case, what, None, emit);
    if rng.chance(1, 2) {
        // two hostile edits on top of each other (e.g. stripped NUL + duplicate tag)
        let (mb2, _) = mutate_hostile(&mut rng, &mb);
        if mb2.len() >= 32 && read_lazy(&mb2).is_ok() {
            body_case(ctx, nref2, &mb2, &case, "hostile_two_edits", None, emit);
        }
    }
    let (mb, what) = re::mutate(&mut rng, &body);
    if mb.len() >= 32 || rng.chance(1, 4) {
        body_case(ctx, nref2, &mb, &case, what, None, emit);
    }
}

pub fn replay(ctx: &mut Ctx, case: &[String]) -> bool {
    let sub: u64 = case.get(1).and_then(|s| s.parse().ok()).unwrap_or(0);
    match case.first().map(|s| s.as_str()) {
        Some("fast-rec") => rec_case(ctx, sub, false, true),
        Some("fast-long") => rec_case(ctx, sub, true, true),
        Some("fast-corpus") => {
            if let Some((nref, body, label)) = corpus().into_iter().nth(sub as usize) {
                body_case(ctx, nref, &body, &format!("fast-corpus {sub}"), label, None, true);
            }
        }
        Some("fast-recorpus") => {
            if let Some((nref, body, label)) = re::corpus().into_iter().nth(sub as usize) {
                body_case(ctx, nref, &body, &format!("fast-recorpus {sub}"), label, None, true);
            }
        }
        _ => return false,
    }
    true
}

pub fn run(ctx: &mut Ctx) {
    for (i, (nref, body, label)) in corpus().into_iter().enumerate() {
        body_case(ctx, nref, &body, &format!("fast-corpus {i}"), label, None, true);
    }
    for (i, (nref, body, label)) in re::corpus().into_iter().enumerate() {
        body_case(ctx, nref, &body, &format!("fast-recorpus {i}"), label, None, true);
    }
    let n = ctx.n(1500, 120_000);
    for it in 0..n {
        let sub = ctx.seed.wrapping_mul(19_000_013).wrapping_add(it);
        rec_case(ctx, sub, false, !ctx.tier_thorough || it % 20 == 0);
    }
    let n = ctx.n(4, 160);
    for it in 0..n {
        let sub = ctx.seed.wrapping_mul(23_000_009).wrapping_add(it);
        rec_case(ctx, sub, true, !ctx.tier_thorough || it % 16 == 0);
    }
}
