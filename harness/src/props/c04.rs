//! C04 — indexed region queries = linear scan (BAM+BAI/CSI, BCF+CSI, VCF.gz+tabix).
use crate::common::*;
use noodles_bam as bam;
use noodles_bcf as bcf;
use noodles_bgzf as bgzf;
use noodles_core::{Position, Region};
use noodles_csi::{
    self as csi,
    binning_index::{
        index::reference_sequence::{bin::Chunk, index::BinnedIndex, index::LinearIndex, Index as RsIndex},
        BinningIndex, Indexer,
    },
};
use noodles_sam::{
    self as sam,
    alignment::{
        io::Write as _,
        record::{cigar::op::Kind, Flags, MappingQuality},
        record_buf::{Cigar, QualityScores, Sequence},
        RecordBuf,
    },
};
use noodles_vcf as vcf;
use std::io::Write as _;
use std::num::NonZero;


#[derive(Clone, Debug)]
pub struct GRec {
    pub serial: usize,
    pub rid: Option<usize>,
    pub start: usize,
    pub end: usize, // harness's own span computation
    pub unmapped_flag: bool,
    pub cigar: Vec<(Kind, usize)>,
}

fn maxpos(ms: u8, d: u8) -> usize {
    (1usize << (ms as usize + 3 * d as usize)) - 1
}

fn edge_pos(rng: &mut Rng, limit: usize) -> usize {
    let w = *rng.pick(&[1usize << 14, 1 << 17, 1 << 20, 1 << 23, 1 << 26]);
    let k = rng.below((limit / w) as u64 + 1) as usize;
    let p = (k * w) as i64 + rng.below(5) as i64 - 2;
    p.clamp(1, limit as i64) as usize
}

fn gen_start(rng: &mut Rng, limit: usize) -> usize {
    match rng.below(4) {
        0 => edge_pos(rng, limit),
        1 => 1 + rng.below(200_000.min(limit as u64)) as usize,
        2 => 1 + rng.below(70_000.min(limit as u64)) as usize,
        _ => 1 + rng.below(limit as u64) as usize,
    }
}

fn gen_span(rng: &mut Rng) -> usize {
    match rng.below(8) {
        0 => 1,
        1 => 1 + rng.below(50) as usize,
        2 => 1 + rng.below(20_000) as usize,
        3 => 1 + rng.below(200_000) as usize,
        4 => 1 + rng.below(2_000_000) as usize,
        5 => 1 + rng.below(80_000_000) as usize,
        _ => 1 + rng.below(300) as usize,
    }
}

/// CIGAR with the given reference span (M/D/N/=/X consume the reference; I/S/H/P do not)
fn gen_cigar(rng: &mut Rng, span: usize) -> Vec<(Kind, usize)> {
    let mut ops = vec![];
    if rng.chance(1, 4) {
        ops.push((Kind::SoftClip, 1 + rng.below(3) as usize));
    }
    let m1 = 1 + rng.below(4.min(span as u64)) as usize;
    ops.push((*rng.pick(&[Kind::Match, Kind::SequenceMatch, Kind::SequenceMismatch]), m1));
    let mut rest = span - m1;
    if rest > 0 {
        if rng.chance(1, 3) {
            ops.push((Kind::Insertion, 1 + rng.below(2) as usize));
        }
        if rest > 1 {
            let gap = rest - 1;
            ops.push((*rng.pick(&[Kind::Deletion, Kind::Skip]), gap));
            rest = 1;
        }
        ops.push((Kind::Match, rest));
    }
    if rng.chance(1, 5) {
        ops.push((Kind::HardClip, 2));
    }
    ops
}

fn ref_span(cigar: &[(Kind, usize)]) -> usize {
    cigar
        .iter()
        .filter(|(k, _)| matches!(k, Kind::Match | Kind::Deletion | Kind::Skip | Kind::SequenceMatch | Kind::SequenceMismatch))
        .map(|(_, n)| n)
        .sum()
}
fn read_len(cigar: &[(Kind, usize)]) -> usize {
    cigar
        .iter()
        .filter(|(k, _)| matches!(k, Kind::Match | Kind::Insertion | Kind::SoftClip | Kind::SequenceMatch | Kind::SequenceMismatch))
        .map(|(_, n)| n)
        .sum()
}

pub struct Gen {
    pub nref: usize,
    pub ref_len: usize,
    pub recs: Vec<GRec>,
}

pub fn gen_records(rng: &mut Rng, limit: usize, alignments: bool) -> Gen {
    let nref = 1 + rng.below(4) as usize;
    let mut recs = vec![];
    let dense = rng.chance(1, 2);
    for rid in 0..nref {
        if rng.chance(1, 5) {
            continue;
        }
        let n = if dense { rng.below(60) } else { rng.below(12) } as usize;
        let mut starts: Vec<usize> = (0..n).map(|_| gen_start(rng, limit)).collect();
        if rng.chance(1, 3) {
            // a cluster right after a long record
            let base = gen_start(rng, limit);
            starts.push(base);
            for _ in 0..rng.below(6) {
                starts.push((base + 1 + rng.below(90_000) as usize).min(limit));
            }
        }
        starts.sort();
        for s in starts {
            let span = gen_span(rng).min(limit - s + 1);
            let (cigar, unmapped_flag, end) = if alignments {
                if rng.chance(1, 12) {
                    // placed but unmapped read: no CIGAR → zero reference span → end = start
                    (vec![], true, s)
                } else {
                    let c = gen_cigar(rng, span);
                    let e = s + ref_span(&c) - 1;
                    (c, false, e)
                }
            } else {
                (vec![], false, s + span - 1)
            };
            recs.push(GRec { serial: 0, rid: Some(rid), start: s, end, unmapped_flag, cigar });
        }
    }
    if alignments {
        for _ in 0..rng.below(5) {
            recs.push(GRec { serial: 0, rid: None, start: 0, end: 0, unmapped_flag: true, cigar: vec![] });
        }
    }
    for (i, r) in recs.iter_mut().enumerate() {
        r.serial = i;
    }
    Gen { nref, ref_len: limit, recs }
}

fn sam_header(g: &Gen) -> sam::Header {
    use sam::header::record::value::{
        map::{self, header::tag::SORT_ORDER, ReferenceSequence},
        Map,
    };
    let hd = Map::<map::Header>::builder().insert(SORT_ORDER, "coordinate").build().unwrap();
    let refs = (0..g.nref)
        .map(|i| (bstr::BString::from(format!("sq{i}")), Map::<ReferenceSequence>::new(NonZero::new(g.ref_len).unwrap())))
        .collect();
    sam::Header::builder().set_header(hd).set_reference_sequences(refs).build()
}

fn to_record_buf(r: &GRec) -> RecordBuf {
    let mut b = RecordBuf::builder().set_name(format!("r{}", r.serial));
    let mut flags = Flags::empty();
    if r.unmapped_flag {
        flags |= Flags::UNMAPPED;
    }
    b = b.set_flags(flags);
    if let Some(rid) = r.rid {
        b = b.set_reference_sequence_id(rid).set_alignment_start(Position::try_from(r.start).unwrap());
        b = b.set_mapping_quality(MappingQuality::new(30).unwrap());
    }
    if !r.cigar.is_empty() {
        let ops: Vec<sam::alignment::record::cigar::Op> = r.cigar.iter().map(|(k, n)| sam::alignment::record::cigar::Op::new(*k, *n)).collect();
        let n = read_len(&r.cigar);
        b = b.set_cigar(Cigar::from(ops)).set_sequence(Sequence::from(vec![b'A'; n])).set_quality_scores(QualityScores::from(vec![30u8; n]));
    } else {
        b = b.set_sequence(Sequence::from(b"ACGT".to_vec())).set_quality_scores(QualityScores::from(vec![20u8; 4]));
    }
    b.build()
}

fn serial_of(name: &[u8]) -> usize {
    std::str::from_utf8(&name[1..]).unwrap().parse().unwrap()
}

fn region_of(rid: usize, q: (Option<usize>, Option<usize>)) -> Region {
    let name = format!("sq{rid}");
    match q {
        (Some(s), Some(e)) => Region::new(name, Position::try_from(s).unwrap()..=Position::try_from(e).unwrap()),
        (Some(s), None) => Region::new(name, Position::try_from(s).unwrap()..),
        (None, Some(e)) => Region::new(name, ..=Position::try_from(e).unwrap()),
        (None, None) => Region::new(name, ..),
    }
}

fn gen_queries(rng: &mut Rng, limit: usize, recs: &[&GRec]) -> Vec<(Option<usize>, Option<usize>)> {
    let mut qs = vec![(None, None), (Some(1), Some(1)), (Some(limit), Some(limit))];
    for _ in 0..6 {
        if recs.is_empty() {
            break;
        }
        let r = *rng.pick(recs);
        match rng.below(7) {
            0 => qs.push((Some(r.start), Some(r.start))),
            1 => qs.push((Some(r.end), Some(r.end))),
            2 => qs.push((Some(r.end), Some((r.end + 1 + rng.below(40_000) as usize).min(limit)))),
            3 => qs.push((Some((r.end + 1).min(limit)), Some((r.end + 1 + rng.below(100) as usize).min(limit)))),
            4 => qs.push((Some(r.start.saturating_sub(1 + rng.below(20_000) as usize).max(1)), Some(r.start.saturating_sub(1).max(1)))),
            5 => qs.push((Some((r.start + r.end) / 2), None)),
            _ => qs.push((None, Some((r.start + r.end) / 2))),
        }
    }
    for _ in 0..4 {
        // bin-aligned
        let w = *rng.pick(&[1usize << 14, 1 << 17, 1 << 20, 1 << 23]);
        let k = rng.below((limit / w) as u64) as usize;
        let s = (k * w + 1).min(limit);
        qs.push((Some(s), Some((s + w - 1).min(limit))));
        let a = edge_pos(rng, limit);
        let b = edge_pos(rng, limit);
        qs.push((Some(a.min(b)), Some(a.max(b))));
    }
    qs
}

struct Observed {
    /// per record in file order: packed start offset; plus the offset after the last record
    offs: Vec<u64>,
    end_off: u64,
}

fn fmt_query(ms: u8, d: u8, kind: &str, recs: &[&GRec], obs: &Observed, file_idx: &[usize], q: (usize, usize)) -> String {
    // records of ONE reference in file order with their observed chunk [off_i, off_{i+1})
    let body = if recs.is_empty() {
        "-".to_string()
    } else {
        recs.iter()
            .zip(file_idx)
            .map(|(r, &fi)| {
                let next = if fi + 1 < obs.offs.len() { obs.offs[fi + 1] } else { obs.end_off };
                format!("{}:{}:{}:{}", r.start, r.end, obs.offs[fi], next)
            })
            .collect::<Vec<_>>()
            .join(",")
    };
    format!("c04 query {kind} {ms} {d} {body} {} {}", q.0, q.1)
}

fn fmt_chunks(cs: &[Chunk]) -> String {
    if cs.is_empty() {
        return "-".into();
    }
    cs.iter().map(|c| format!("{}:{}", u64::from(c.start()), u64::from(c.end()))).collect::<Vec<_>>().join(",")
}

fn fmt_ids(v: &[usize]) -> String {
    if v.is_empty() { "-".into() } else { v.iter().map(|x| x.to_string()).collect::<Vec<_>>().join(",") }
}

#[allow(clippy::too_many_arguments)]
fn check_queries<I, F>(
    ctx: &mut Ctx,
    rng: &mut Rng,
    what: &str,
    kind: &str,
    ms: u8,
    d: u8,
    g: &Gen,
    obs: &Observed,
    index: &I,
    case: &str,
    emit_corr: bool,
    mut run_query: F,
) where
    I: BinningIndex,
    F: FnMut(&Region) -> Result<Vec<usize>, String>,
{
    let limit = g.ref_len.min(maxpos(ms, d));
    for rid in 0..g.nref {
        let on_ref: Vec<&GRec> = g.recs.iter().filter(|r| r.rid == Some(rid)).collect();
        let file_idx: Vec<usize> = on_ref.iter().map(|r| r.serial).collect();
        for q in gen_queries(rng, limit, &on_ref) {
            let region = region_of(rid, q);
            let (qs, qe) = (q.0.unwrap_or(1), q.1.unwrap_or(maxpos(ms, d)));
            let expect: Vec<usize> = on_ref.iter().filter(|r| r.start <= qe && qs <= r.end).map(|r| r.serial).collect();
            let got = run_query(&region);
            ctx.eval(if on_ref.len() >= 2 { Some(fnv(format!("{case} {what} {rid} {qs} {qe}").as_bytes())) } else { None });
            ctx.bump(&format!("queries_{what}"));
            if !expect.is_empty() {
                ctx.bump("queries_with_hits");
            }
            match &got {
                Ok(v) if *v == expect => {}
                Ok(v) => {
                    let missing: Vec<_> = expect.iter().filter(|x| !v.contains(x)).collect();
                    let extra: Vec<_> = v.iter().filter(|x| !expect.contains(x)).collect();
                    ctx.fail(
                        &format!("query-{what}"),
                        format!("{what} query sq{rid}:{qs}-{qe} returned records {v:?}, a scan keeps {expect:?} (missing {missing:?}, extra/dup/misordered {extra:?})"),
                        case.into(),
                    );
                    return;
                }
                Err(e) => {
                    ctx.fail(&format!("query-{what}"), format!("{what} query sq{rid}:{qs}-{qe} failed: {e}"), case.into());
                    return;
                }
            }
            if emit_corr {
                // model: chunk list of the query + the indices (within this reference) of the records delivered
                let iv = region.interval();
                let chunks = index.query(rid, iv).map(|c| fmt_chunks(&c)).unwrap_or_else(|e| errclass(&e).to_string());
                let local: Vec<usize> = got.as_ref().unwrap().iter().map(|s| file_idx.iter().position(|x| x == s).unwrap()).collect();
                ctx.corr(fmt_query(ms, d, kind, &on_ref, obs, &file_idx, (qs, qe)), format!("chunks={chunks} recs={}", fmt_ids(&local)));
            }
        }
    }
}

fn roundtrip_bai(idx: &bam::bai::Index) -> std::io::Result<bam::bai::Index> {
    let mut w = bam::bai::io::Writer::new(Vec::new());
    w.write_index(idx)?;
    let buf = w.into_inner();
    bam::bai::io::Reader::new(&buf[..]).read_index()
}
fn roundtrip_csi(idx: &csi::Index) -> std::io::Result<csi::Index> {
    let mut w = csi::io::Writer::new(Vec::new());
    w.write_index(idx)?;
    let buf = w.into_inner().finish()?;
    csi::io::Reader::new(&buf[..]).read_index()
}
fn roundtrip_tbi(idx: &noodles_tabix::Index) -> std::io::Result<noodles_tabix::Index> {
    let mut w = noodles_tabix::io::Writer::new(Vec::new());
    w.write_index(idx)?;
    w.try_finish()?;
    let buf = w.into_inner().into_inner();
    noodles_tabix::io::Reader::new(&buf[..]).read_index()
}

// ------------------------------------------------------------------ BAM

fn bam_case(ctx: &mut Ctx, sub: u64) {
    let mut rng = Rng::new(sub);
    let case = format!("bam {sub}");
    let (ms, d) = if rng.chance(2, 3) { (14u8, 5u8) } else { *rng.pick(&[(14u8, 6u8), (12, 5), (16, 4), (10, 6), (14, 5)]) };
    let limit = maxpos(14, 5).min(maxpos(ms, d)); // BAM coordinates (and BAI) stop at 2^29 - 1
    let g = gen_records(&mut rng, limit, true);
    let header = sam_header(&g);
    let path = format!("{}/files/{sub}.bam", ctx.dir);
    let r = guarded(|| -> std::io::Result<()> {
        let mut w = bam::io::Writer::new(std::fs::File::create(&path)?);
        w.write_header(&header)?;
        for r in &g.recs {
            w.write_alignment_record(&header, &to_record_buf(r))?;
        }
        w.try_finish()
    });
    if let Ok(Err(e)) | Err(e) = r.map(|r| r.map_err(|e| e.to_string())) {
        ctx.fail("bam-write", format!("writing the BAM failed: {e}"), case.clone());
        return;
    }
    // observe record offsets with the real reader (also the full scan)
    let mut reader = bam::io::Reader::new(std::fs::File::open(&path).unwrap());
    let hdr = reader.read_header().unwrap();
    let mut obs = Observed { offs: vec![], end_off: 0 };
    let mut rec = bam::Record::default();
    let mut csi_ix = Indexer::<BinnedIndex>::new(ms, d);
    let mut scan_ok = true;
    loop {
        let start = reader.get_ref().virtual_position();
        match reader.read_record(&mut rec) {
            Ok(0) => {
                obs.end_off = u64::from(start);
                break;
            }
            Ok(_) => {
                let end = reader.get_ref().virtual_position();
                let i = obs.offs.len();
                obs.offs.push(u64::from(start));
                let gr = &g.recs[i];
                // scan view: the record's own accessors vs the harness's span rule
                let rid = rec.reference_sequence_id().transpose().unwrap();
                let st = rec.alignment_start().transpose().unwrap().map(usize::from);
                let en = sam::alignment::Record::alignment_end(&rec).transpose().unwrap().map(usize::from);
                if rid != gr.rid || (gr.rid.is_some() && (st != Some(gr.start) || en != Some(gr.end))) {
                    ctx.fail("span", format!("record r{i}: reader reports ref {rid:?} {st:?}-{en:?}, written as {:?} {}-{} (POS + reference-consuming CIGAR length - 1)", gr.rid, gr.start, gr.end), case.clone());
                    scan_ok = false;
                }
                let ctxt = match (rid, rec.alignment_start().transpose().unwrap(), sam::alignment::Record::alignment_end(&rec).transpose().unwrap()) {
                    (Some(id), Some(s), Some(e)) => Some((id, s, e, !rec.flags().is_unmapped())),
                    _ => None,
                };
                if let Err(e) = csi_ix.add_record(ctxt, Chunk::new(start, end)) {
                    ctx.fail("bam-index", format!("csi indexer rejected record {i}: {e}"), case.clone());
                    return;
                }
            }
            Err(e) => {
                ctx.fail("bam-read", format!("reading back the BAM failed at record {}: {e}", obs.offs.len()), case.clone());
                return;
            }
        }
    }
    if !scan_ok || obs.offs.len() != g.recs.len() {
        if obs.offs.len() != g.recs.len() {
            ctx.fail("bam-read", format!("{} records written, {} read", g.recs.len(), obs.offs.len()), case.clone());
        }
        return;
    }
    let csi_index: csi::Index = csi_ix.build(g.nref);
    let bai = match guarded(|| bam::fs::index(&path)) {
        Ok(Ok(i)) => i,
        other => {
            ctx.fail("bam-index", format!("bam::fs::index failed: {:?}", other.map(|r| r.map(|_| ()).map_err(|e| e.to_string()))), case.clone());
            return;
        }
    };
    let emit = g.recs.len() <= 80;
    // ONE reader serves all queries of a pass (a query must not depend on where the previous
    // query, or a few sequential reads, left the reader); a fresh reader is used for the file passes
    let mut shared = bam::io::Reader::new(std::fs::File::open(&path).unwrap());
    shared.read_header().unwrap();
    let mut nth = 0u64;
    let mut run = |index: &dyn Fn(&mut bam::io::Reader<bgzf::io::Reader<std::fs::File>>, &Region) -> std::io::Result<Vec<usize>>, region: &Region| -> Result<Vec<usize>, String> {
        nth += 1;
        let rd = &mut shared;
        if nth % 3 == 0 {
            let mut tmp = bam::Record::default();
            for _ in 0..(nth % 5) {
                let _ = rd.read_record(&mut tmp);
            }
        }
        match guarded(|| index(rd, region)) {
            Ok(Ok(v)) => Ok(v),
            Ok(Err(e)) => Err(e.to_string()),
            Err(p) => Err(format!("panic: {p}")),
        }
    };
    fn collect<I: BinningIndex>(rd: &mut bam::io::Reader<bgzf::io::Reader<std::fs::File>>, hdr: &sam::Header, ix: &I, region: &Region) -> std::io::Result<Vec<usize>> {
        let q = rd.query(hdr, ix, region)?;
        let mut out = vec![];
        for r in q.records() {
            let r = r?;
            out.push(serial_of(r.name().unwrap()));
        }
        Ok(out)
    }
    if (ms, d) == (14, 5) {
        check_queries(ctx, &mut rng.clone(), "bam-bai", "lin", 14, 5, &g, &obs, &bai, &case, emit, |region| run(&|rd, rg| collect(rd, &hdr, &bai, rg), region));
        match roundtrip_bai(&bai) {
            Ok(back) => check_queries(ctx, &mut rng.clone(), "bam-bai-file", "lin", 14, 5, &g, &obs, &back, &case, false, |region| run(&|rd, rg| collect(rd, &hdr, &back, rg), region)),
            Err(e) => ctx.fail("bai-file", format!("BAI write/read failed: {e}"), case.clone()),
        }
    }
    check_queries(ctx, &mut rng.clone(), "bam-csi", "bin", ms, d, &g, &obs, &csi_index, &case, emit, |region| run(&|rd, rg| collect(rd, &hdr, &csi_index, rg), region));
    match roundtrip_csi(&csi_index) {
        Ok(back) => check_queries(ctx, &mut rng.clone(), "bam-csi-file", "bin", ms, d, &g, &obs, &back, &case, false, |region| run(&|rd, rg| collect(rd, &hdr, &back, rg), region)),
        Err(e) => ctx.fail("csi-file", format!("CSI write/read failed: {e}"), case.clone()),
    }
    // unmapped query
    let unplaced: Vec<usize> = g.recs.iter().filter(|r| r.rid.is_none()).map(|r| r.serial).collect();
    for (nm, ix) in [("bai", &bai as &dyn BinningIndexDyn), ("csi", &csi_index as &dyn BinningIndexDyn)] {
        if nm == "bai" && (ms, d) != (14, 5) {
            continue;
        }
        let mut rd = bam::io::Reader::new(std::fs::File::open(&path).unwrap());
        rd.read_header().unwrap();
        let got = guarded(|| ix.unmapped(&mut rd));
        ctx.eval(Some(fnv(format!("{case} unmapped {nm}").as_bytes())));
        match got {
            Ok(Ok(v)) => {
                let flagged_ok = v.iter().all(|s| g.recs[*s].unmapped_flag);
                let got_unplaced: Vec<usize> = v.iter().copied().filter(|s| g.recs[*s].rid.is_none()).collect();
                let ordered = v.windows(2).all(|w| w[0] < w[1]);
                if !flagged_ok || got_unplaced != unplaced || !ordered {
                    ctx.fail("query-unmapped", format!("unmapped query ({nm}) returned {v:?}; unplaced unmapped records are {unplaced:?}"), case.clone());
                }
            }
            other => ctx.fail("query-unmapped", format!("unmapped query ({nm}) failed: {:?}", other.map(|r| r.map_err(|e| e.to_string()))), case.clone()),
        }
    }
    let _ = std::fs::remove_file(&path);
    ctx.bump("files_bam");
    ctx.bump_by("records_bam", g.recs.len() as u64);
    ctx.bump(&format!("geometry_{ms}_{d}"));
    if sub % 50 == 0 {
        ctx.sample(|| format!("bam case {sub}: {} refs, {} records, first {:?}", g.nref, g.recs.len(), g.recs.first().map(|r| (r.rid, r.start, r.end))));
    }
}

trait BinningIndexDyn {
    fn unmapped(&self, rd: &mut bam::io::Reader<bgzf::io::Reader<std::fs::File>>) -> std::io::Result<Vec<usize>>;
}
impl<I: RsIndex> BinningIndexDyn for csi::binning_index::Index<I> {
    fn unmapped(&self, rd: &mut bam::io::Reader<bgzf::io::Reader<std::fs::File>>) -> std::io::Result<Vec<usize>> {
        let mut out = vec![];
        for r in rd.query_unmapped(self)? {
            out.push(serial_of(r?.name().unwrap()));
        }
        Ok(out)
    }
}

// ------------------------------------------------------------------ VCF / BCF

fn vcf_header(g: &Gen, v45: bool) -> vcf::Header {
    use vcf::header::record::value::{map::Contig, Map};
    let ff = if v45 { vcf::header::FileFormat::new(4, 5) } else { vcf::header::FileFormat::new(4, 3) };
    let mut b = vcf::Header::builder().set_file_format(ff);
    for i in 0..g.nref {
        b = b.add_contig(format!("sq{i}"), Map::<Contig>::new());
    }
    b = b.add_info(vcf::variant::record::info::field::key::END_POSITION, Map::from((ff, vcf::variant::record::info::field::key::END_POSITION)));
    b = b.add_info(vcf::variant::record::info::field::key::SV_LENGTHS, Map::from((ff, vcf::variant::record::info::field::key::SV_LENGTHS)));
    b.build()
}

fn to_variant(r: &GRec, v45: bool) -> vcf::variant::RecordBuf {
    use vcf::variant::record_buf::{info::field::Value, AlternateBases, Info};
    let span = r.end - r.start + 1;
    let mut b = vcf::variant::RecordBuf::builder()
        .set_reference_sequence_name(format!("sq{}", r.rid.unwrap()))
        .set_variant_start(Position::try_from(r.start).unwrap())
        .set_ids([format!("r{}", r.serial)].into_iter().collect());
    if span <= 40 {
        b = b.set_reference_bases("ACGTTGCA".repeat(6)[..span].to_string()).set_alternate_bases(AlternateBases::from(vec!["A".to_string()]));
    } else {
        b = b.set_reference_bases("N").set_alternate_bases(AlternateBases::from(vec!["<DEL>".to_string()]));
        let info: Info = if v45 {
            [(vcf::variant::record::info::field::key::SV_LENGTHS.to_string(), Some(Value::from(vec![Some(span as i32)])))].into_iter().collect()
        } else {
            [(vcf::variant::record::info::field::key::END_POSITION.to_string(), Some(Value::from(r.end as i32)))].into_iter().collect()
        };
        b = b.set_info(info);
    }
    b.build()
}

fn id_serial(ids: &str) -> usize {
    ids[1..].parse().unwrap()
}

fn variant_case(ctx: &mut Ctx, sub: u64, bcf_format: bool) {
    let mut rng = Rng::new(sub);
    let what = if bcf_format { "bcf" } else { "vcf" };
    let case = format!("{what} {sub}");
    let limit = maxpos(14, 5);
    let g = gen_records(&mut rng, limit, false);
    let v45 = rng.chance(1, 2);
    let header = vcf_header(&g, v45);
    let path = format!("{}/files/{sub}.{}", ctx.dir, if bcf_format { "bcf" } else { "vcf.gz" });
    let wr = guarded(|| -> std::io::Result<()> {
        use vcf::variant::io::Write as _;
        if bcf_format {
            let mut w = bcf::io::Writer::new(std::fs::File::create(&path)?);
            w.write_header(&header)?;
            for r in &g.recs {
                w.write_variant_record(&header, &to_variant(r, v45))?;
            }
            w.try_finish()
        } else {
            let mut w = vcf::io::Writer::new(bgzf::io::Writer::new(std::fs::File::create(&path)?));
            w.write_header(&header)?;
            for r in &g.recs {
                w.write_variant_record(&header, &to_variant(r, v45))?;
            }
            w.get_mut().flush()?;
            w.get_mut().try_finish()
        }
    });
    if let Ok(Err(e)) | Err(e) = wr.map(|r| r.map_err(|e| e.to_string())) {
        ctx.fail(&format!("{what}-write"), format!("writing failed: {e}"), case.clone());
        return;
    }
    let mut obs = Observed { offs: vec![], end_off: 0 };
    if bcf_format {
        let mut reader = bcf::io::Reader::new(std::fs::File::open(&path).unwrap());
        let hdr = reader.read_header().unwrap();
        let mut rec = bcf::Record::default();
        loop {
            let start = reader.get_ref().virtual_position();
            match reader.read_record(&mut rec) {
                Ok(0) => {
                    obs.end_off = u64::from(start);
                    break;
                }
                Ok(_) => {
                    use vcf::variant::Record as _;
                    let i = obs.offs.len();
                    obs.offs.push(u64::from(start));
                    let st = rec.variant_start().transpose().unwrap().map(usize::from);
                    let en_r = rec.variant_end(&hdr);
                    let en = en_r.as_ref().ok().map(|p| usize::from(*p));
                    if st != Some(g.recs[i].start) || en != Some(g.recs[i].end) {
                        ctx.fail("span", format!("BCF record {i}: reader reports {st:?}-{en_r:?}, written span {}-{} (fileformat {})", g.recs[i].start, g.recs[i].end, if v45 { "4.5 SVLEN" } else { "4.3 END" }), case.clone());
                        return;
                    }
                }
                Err(e) => {
                    ctx.fail("bcf-read", format!("reading back failed: {e}"), case.clone());
                    return;
                }
            }
        }
        let index = match guarded(|| bcf::fs::index(&path)) {
            Ok(Ok(i)) => i,
            other => {
                ctx.fail("bcf-index", format!("bcf::fs::index failed: {:?}", other.map(|r| r.map(|_| ()).map_err(|e| e.to_string()))), case.clone());
                return;
            }
        };
        let emit = g.recs.len() <= 80;
        let mut shared = bcf::io::Reader::new(std::fs::File::open(&path).unwrap());
        let hdr = shared.read_header().unwrap();
        let shared = std::cell::RefCell::new(shared);
        let run = |ix: &csi::Index, region: &Region| -> Result<Vec<usize>, String> {
            let mut rd = shared.borrow_mut();
            let r = guarded(|| -> std::io::Result<Vec<usize>> {
                use vcf::variant::Record as _;
                let mut out = vec![];
                for r in rd.query(&hdr, ix, region)?.records() {
                    let r = r?;
                    let ids = r.ids();
                    out.push(id_serial(std::str::from_utf8(AsRef::<[u8]>::as_ref(&ids.as_ref())).unwrap()));
                }
                Ok(out)
            });
            match r {
                Ok(Ok(v)) => Ok(v),
                Ok(Err(e)) => Err(e.to_string()),
                Err(p) => Err(format!("panic: {p}")),
            }
        };
        check_queries(ctx, &mut rng.clone(), "bcf-csi", "bin", 14, 5, &g, &obs, &index, &case, emit, |region| run(&index, region));
        match roundtrip_csi(&index) {
            Ok(back) => check_queries(ctx, &mut rng.clone(), "bcf-csi-file", "bin", 14, 5, &g, &obs, &back, &case, false, |region| run(&back, region)),
            Err(e) => ctx.fail("csi-file", format!("CSI write/read failed: {e}"), case.clone()),
        }
        ctx.bump("files_bcf");
    } else {
        let mut reader = vcf::io::Reader::new(bgzf::io::Reader::new(std::fs::File::open(&path).unwrap()));
        let hdr = reader.read_header().unwrap();
        let mut rec = vcf::Record::default();
        loop {
            let start = reader.get_ref().virtual_position();
            match reader.read_record(&mut rec) {
                Ok(0) => {
                    obs.end_off = u64::from(start);
                    break;
                }
                Ok(_) => {
                    use vcf::variant::Record as _;
                    let i = obs.offs.len();
                    obs.offs.push(u64::from(start));
                    let st = rec.variant_start().transpose().unwrap().map(usize::from);
                    let en = rec.variant_end(&hdr).ok().map(usize::from);
                    if st != Some(g.recs[i].start) || en != Some(g.recs[i].end) {
                        ctx.fail("span", format!("VCF record {i}: reader reports {st:?}-{en:?}, written span {}-{} (fileformat {})", g.recs[i].start, g.recs[i].end, if v45 { "4.5 SVLEN" } else { "4.3 END" }), case.clone());
                        return;
                    }
                }
                Err(e) => {
                    ctx.fail("vcf-read", format!("reading back failed: {e}"), case.clone());
                    return;
                }
            }
        }
        let index = match guarded(|| vcf::fs::index(&path)) {
            Ok(Ok(i)) => i,
            other => {
                ctx.fail("vcf-index", format!("vcf::fs::index failed: {:?}", other.map(|r| r.map(|_| ()).map_err(|e| e.to_string()))), case.clone());
                return;
            }
        };
        // tabix only knows references that have records; queries on the others must be empty or a clean error
        let emit = g.recs.len() <= 80;
        let mut shared = vcf::io::Reader::new(bgzf::io::Reader::new(std::fs::File::open(&path).unwrap()));
        let hdr = shared.read_header().unwrap();
        let shared = std::cell::RefCell::new(shared);
        let run = |ix: &noodles_tabix::Index, region: &Region| -> Result<Vec<usize>, String> {
            let mut rd = shared.borrow_mut();
            let r = guarded(|| -> std::io::Result<Vec<usize>> {
                use vcf::variant::Record as _;
                let mut out = vec![];
                for r in rd.query(&hdr, ix, region)?.records() {
                    let r = r?;
                    let ids = r.ids();
                    out.push(id_serial(std::str::from_utf8(AsRef::<[u8]>::as_ref(&ids.as_ref())).unwrap()));
                }
                Ok(out)
            });
            match r {
                Ok(Ok(v)) => Ok(v),
                Ok(Err(e)) => Err(e.to_string()),
                Err(p) => Err(format!("panic: {p}")),
            }
        };
        // restrict to references present in the tabix header, renumbered as tabix numbers them
        let present: Vec<usize> = (0..g.nref).filter(|rid| g.recs.iter().any(|r| r.rid == Some(*rid))).collect();
        let g2 = Gen { nref: g.nref, ref_len: g.ref_len, recs: g.recs.clone() };
        check_queries_tabix(ctx, &mut rng.clone(), "vcf-tabix", &g2, &present, &obs, &index, &case, emit, |region| run(&index, region));
        match roundtrip_tbi(&index) {
            Ok(back) => check_queries_tabix(ctx, &mut rng.clone(), "vcf-tabix-file", &g2, &present, &obs, &back, &case, false, |region| run(&back, region)),
            Err(e) => ctx.fail("tabix-file", format!("tabix write/read failed: {e}"), case.clone()),
        }
        ctx.bump("files_vcf");
    }
    let _ = std::fs::remove_file(&path);
    ctx.bump_by(&format!("records_{what}"), g.recs.len() as u64);
}

#[allow(clippy::too_many_arguments)]
fn check_queries_tabix<F>(ctx: &mut Ctx, rng: &mut Rng, what: &str, g: &Gen, present: &[usize], obs: &Observed, index: &noodles_tabix::Index, case: &str, emit_corr: bool, mut run_query: F)
where
    F: FnMut(&Region) -> Result<Vec<usize>, String>,
{
    let limit = g.ref_len;
    for (tid, &rid) in present.iter().enumerate() {
        let on_ref: Vec<&GRec> = g.recs.iter().filter(|r| r.rid == Some(rid)).collect();
        let file_idx: Vec<usize> = on_ref.iter().map(|r| r.serial).collect();
        for q in gen_queries(rng, limit, &on_ref) {
            let region = region_of(rid, q);
            let (qs, qe) = (q.0.unwrap_or(1), q.1.unwrap_or(maxpos(14, 5)));
            let expect: Vec<usize> = on_ref.iter().filter(|r| r.start <= qe && qs <= r.end).map(|r| r.serial).collect();
            let got = run_query(&region);
            ctx.eval(if on_ref.len() >= 2 { Some(fnv(format!("{case} {what} {rid} {qs} {qe}").as_bytes())) } else { None });
            ctx.bump(&format!("queries_{what}"));
            match &got {
                Ok(v) if *v == expect => {}
                Ok(v) => {
                    ctx.fail(&format!("query-{what}"), format!("{what} query sq{rid}:{qs}-{qe} returned records {v:?}, a scan keeps {expect:?}"), case.into());
                    return;
                }
                Err(e) => {
                    ctx.fail(&format!("query-{what}"), format!("{what} query sq{rid}:{qs}-{qe} failed: {e}"), case.into());
                    return;
                }
            }
            if emit_corr {
                let chunks = index.query(tid, region.interval()).map(|c| fmt_chunks(&c)).unwrap_or_else(|e| errclass(&e).to_string());
                let local: Vec<usize> = got.as_ref().unwrap().iter().map(|s| file_idx.iter().position(|x| x == s).unwrap()).collect();
                ctx.corr(fmt_query(14, 5, "lin", &on_ref, obs, &file_idx, (qs, qe)), format!("chunks={chunks} recs={}", fmt_ids(&local)));
            }
        }
    }
}

// ------------------------------------------------------------------ synthetic indexer-level cases (no files)

fn synthetic(ctx: &mut Ctx, sub: u64) {
    // the indexer + BinningIndex::query alone, on synthetic offsets; wider geometries and larger sets
    let mut rng = Rng::new(sub);
    let (ms, d) = *rng.pick(&[(14u8, 5u8), (14, 6), (12, 5), (16, 4), (10, 6), (4, 2), (1, 1), (3, 3), (2, 2)]);
    let limit = maxpos(ms, d);
    let n = rng.below(40) as usize;
    let mut starts: Vec<usize> = (0..n).map(|_| if limit > 100_000 { gen_start(&mut rng, limit) } else { 1 + rng.below(limit as u64) as usize }).collect();
    starts.sort();
    let mut off = 1000 + rng.below(70_000);
    let mut recs = vec![];
    let mut offs = vec![];
    for &s in &starts {
        let span = if limit > 100_000 { gen_span(&mut rng) } else { 1 + rng.below((limit as u64 / 2).max(1)) as usize };
        let e = (s + span - 1).min(limit);
        offs.push(off);
        off = if rng.chance(1, 6) { ((off >> 16) + 1 + rng.below(2)) << 16 } else { off + 1 + rng.below(400) };
        recs.push((s, e));
    }
    let end_off = off;
    let chunk = |i: usize| Chunk::new(bgzf::VirtualPosition::from(offs[i]), bgzf::VirtualPosition::from(if i + 1 < offs.len() { offs[i + 1] } else { end_off }));
    let mut lin = Indexer::<LinearIndex>::new(ms, d);
    let mut bin = Indexer::<BinnedIndex>::new(ms, d);
    for (i, &(s, e)) in recs.iter().enumerate() {
        let c = Some((0usize, Position::try_from(s).unwrap(), Position::try_from(e).unwrap(), true));
        lin.add_record(c, chunk(i)).unwrap();
        bin.add_record(c, chunk(i)).unwrap();
    }
    let lin = lin.build(1);
    let bin = bin.build(1);
    let body = if recs.is_empty() { "-".to_string() } else { recs.iter().enumerate().map(|(i, (s, e))| format!("{s}:{e}:{}:{}", offs[i], if i + 1 < offs.len() { offs[i + 1] } else { end_off })).collect::<Vec<_>>().join(",") };
    for _ in 0..6 {
        let a = if !recs.is_empty() && rng.chance(2, 3) { let r = *rng.pick(&recs); *rng.pick(&[r.0, r.1, (r.0 + r.1) / 2, (r.1 + 1).min(limit)]) } else { 1 + rng.below(limit as u64) as usize };
        let b = (a + *rng.pick(&[0usize, 1, 100, 20_000, 1 << 20]) % limit.max(1)).min(limit);
        let iv = noodles_core::region::Interval::from(Position::try_from(a).unwrap()..=Position::try_from(b).unwrap());
        for (kind, chunks) in [("lin", if ms == 14 { lin.query(0, iv).ok() } else { None }), ("bin", bin.query(0, iv).ok())] {
            let Some(chunks) = chunks else { continue };
            let served: Vec<usize> = (0..recs.len()).filter(|&i| chunks.iter().any(|c| u64::from(c.start()) <= offs[i] && offs[i] < u64::from(c.end()))).collect();
            let got: Vec<usize> = served.iter().copied().filter(|&i| recs[i].0 <= b && a <= recs[i].1).collect();
            let expect: Vec<usize> = (0..recs.len()).filter(|&i| recs[i].0 <= b && a <= recs[i].1).collect();
            ctx.eval(if recs.len() >= 2 { Some(fnv(format!("syn {sub} {kind} {a} {b}").as_bytes())) } else { None });
            if got != expect {
                ctx.fail("query-synthetic", format!("indexer+query ({kind}, geometry {ms},{d}) region {a}-{b}: chunks {} serve {got:?}, scan keeps {expect:?}", fmt_chunks(&chunks)), format!("synthetic {sub}"));
                return;
            }
            ctx.corr(format!("c04 query {kind} {ms} {d} {body} {a} {b}"), format!("chunks={} recs={}", fmt_chunks(&chunks), fmt_ids(&got)));
        }
    }
    ctx.bump("synthetic_indexes");
}

pub fn run(ctx: &mut Ctx) {
    std::fs::create_dir_all(format!("{}/files", ctx.dir)).ok();
    if let Some(case) = ctx.replay_only.clone() {
        if super::c04_span::replay(ctx, &case) { return; }
        if super::c04_join::replay(ctx, &case) { return; }
        let sub: u64 = case.get(1).and_then(|s| s.parse().ok()).unwrap_or(0);
        match case.first().map(|s| s.as_str()) {
            Some("bam") => bam_case(ctx, sub),
            Some("bcf") => variant_case(ctx, sub, true),
            Some("vcf") => variant_case(ctx, sub, false),
            Some("synthetic") => synthetic(ctx, sub),
            _ => {}
        }
        return;
    }
    // corpus: the F4 witnesses, always first
    corpus(ctx);
    let n = ctx.n(40, 1500);
    for it in 0..n {
        bam_case(ctx, ctx.seed.wrapping_mul(1_000_033).wrapping_add(it));
        variant_case(ctx, ctx.seed.wrapping_mul(1_000_037).wrapping_add(it), true);
        variant_case(ctx, ctx.seed.wrapping_mul(1_000_039).wrapping_add(it), false);
    }
    let n = ctx.n(400, 30_000);
    for it in 0..n {
        synthetic(ctx, ctx.seed.wrapping_mul(1_000_081).wrapping_add(it));
    }
    super::c04_span::run(ctx);
    super::c04_join::run(ctx);
}

fn corpus(ctx: &mut Ctx) {
    // F4: long record before a short one (binned index)
    let ans = {
        let mut ix = Indexer::<BinnedIndex>::new(14, 5);
        let p = |n: usize| Position::try_from(n).unwrap();
        let v = |n: u64| bgzf::VirtualPosition::from(n);
        ix.add_record(Some((0, p(1), p(100000), true)), Chunk::new(v(100), v(200))).unwrap();
        ix.add_record(Some((0, p(50000), p(50010), true)), Chunk::new(v(200), v(300))).unwrap();
        let ix = ix.build(1);
        let cs = ix.query(0, noodles_core::region::Interval::from(p(50005)..=p(50005))).unwrap();
        let recs: Vec<usize> = [(100u64, 0usize), (200, 1)].iter().filter(|(o, _)| cs.iter().any(|c| u64::from(c.start()) <= *o && *o < u64::from(c.end()))).map(|x| x.1).collect();
        if recs != vec![0, 1] {
            ctx.fail("query-synthetic", format!("F4 witness: CSI query 50005 serves records {recs:?}, both records overlap"), "corpus F4".into());
        }
        format!("chunks={} recs={}", fmt_chunks(&cs), fmt_ids(&recs))
    };
    ctx.corr("c04 query bin 14 5 1:100000:100:200,50000:50010:200:300 50005 50005".into(), ans);
}
