//! C13 — a truncated file yields a prefix of the original records/bytes, then EOF or an error.
//!
//! For small files of every format (written by noodles itself) EVERY cut offset 0..len is tried on
//! the real reader under catch_unwind. Oracle: delivered items are a prefix of the originals,
//! unchanged and in order; then end of input or an error; never a panic; and a BAM/BCF record
//! stream that ends inside a record, or a CRAM file that ends inside a container, is an ERROR.
//! Correspondence: the framing layers (BGZF members, BAM/BCF u32-framed records, BAM over BGZF,
//! CRAM containers) are compared cut by cut with the Lean model (`Noodles/Trunc/*.lean`).
use crate::adversary::SchedReader;
use crate::common::*;
use crate::props::c01::{raw_inflate, split_members};
use noodles_bam as bam;
use noodles_bcf as bcf;
use noodles_bgzf as bgzf;
use noodles_core::Position;
use noodles_cram as cram;
use noodles_csi as csi;
use noodles_fasta as fasta;
use noodles_sam as sam;
use noodles_vcf as vcf;
use std::io::{BufRead, Read, Write};
use std::num::NonZero;

// ------------------------------------------------------------------ outcome of one read

/// no file of this suite holds more records/containers; a reader that keeps producing items is cut
/// off here and then judged (more items than were written = fabricated)
const MAX_ITEMS: usize = 64;

#[derive(Clone, Debug, PartialEq, Eq)]
pub enum End {
    Eof,
    Err(&'static str),
    Panic(String),
}

impl End {
    fn of(e: &std::io::Error) -> End {
        End::Err(errclass(e))
    }
    fn txt(&self) -> String {
        match self {
            End::Eof => "eof".into(),
            End::Err(c) => (*c).into(),
            End::Panic(_) => "panic".into(),
        }
    }
}

/// What one reader run over one (truncated) file produced.
#[derive(Clone, Debug)]
pub struct Out {
    /// None = the header could not be read (then `end` says why); Some(canonical header text)
    pub header: Option<String>,
    /// canonical text of each delivered record, in order
    pub items: Vec<String>,
    pub end: End,
}

fn run_guarded(f: impl FnOnce() -> Out) -> Out {
    match guarded(f) {
        Ok(o) => o,
        Err(p) => Out { header: None, items: vec![], end: End::Panic(p) },
    }
}

/// canonical header text: what the text writer emits (Debug output of a VCF header is not
/// deterministic: the string maps hold a HashMap)
fn sam_header_text(h: &sam::Header) -> String {
    let mut w = sam::io::Writer::new(Vec::new());
    match w.write_header(h) {
        Ok(()) => String::from_utf8_lossy(w.get_ref()).into_owned(),
        Err(e) => format!("unwritable header: {e}"),
    }
}

fn vcf_header_text(h: &vcf::Header) -> String {
    let mut w = vcf::io::Writer::new(Vec::new());
    match w.write_header(h) {
        Ok(()) => format!("{} | contigs {:?} strings {:?}", String::from_utf8_lossy(w.get_ref()), h.string_maps().contigs().get_index(0), h.string_maps().strings().get_index(0)),
        Err(e) => format!("unwritable header: {e}"),
    }
}

// ------------------------------------------------------------------ BGZF layout helpers (independent of noodles)

/// (member end offsets in the file, uncompressed length after each member)
pub fn member_table(file: &[u8]) -> (Vec<usize>, Vec<usize>) {
    let ms = split_members(file).expect("written file must split into members");
    let mut ends = vec![];
    let mut uends = vec![];
    let (mut c, mut u) = (0usize, 0usize);
    for m in &ms {
        c += m.whole.len();
        u += m.isize as usize;
        ends.push(c);
        uends.push(u);
    }
    (ends, uends)
}

/// Uncompressed bytes available from members wholly inside the first `k` bytes, and the number of
/// bytes of the next (cut) member that are present.
pub fn avail(ends: &[usize], uends: &[usize], k: usize) -> (usize, usize) {
    let mut n = 0;
    while n < ends.len() && ends[n] <= k {
        n += 1;
    }
    let base = if n == 0 { 0 } else { ends[n - 1] };
    (if n == 0 { 0 } else { uends[n - 1] }, k - base)
}

/// Compress `raw` into BGZF with block boundaries after the given uncompressed offsets.
pub fn bgzf_with_flushes(raw: &[u8], flush_at: &[usize], level: u8) -> Vec<u8> {
    let mut sink = Vec::new();
    {
        let lvl = bgzf::io::writer::CompressionLevel::new(level).unwrap();
        let mut w = bgzf::io::writer::Builder::default().set_compression_level(lvl).build_from_writer(&mut sink);
        let mut at = 0;
        for &f in flush_at {
            let f = f.min(raw.len());
            if f > at {
                w.write_all(&raw[at..f]).unwrap();
                at = f;
            }
            w.flush().unwrap();
        }
        w.write_all(&raw[at..]).unwrap();
        w.try_finish().unwrap();
        let _ = w.into_inner();
    }
    sink
}

fn inf_table(file: &[u8]) -> String {
    // the DEFLATE library's answers for every whole member of the file (oracle table for the model)
    let mut v = vec![];
    if let Ok(ms) = split_members(file) {
        for m in &ms {
            if (m.isize as usize) <= 65536 {
                let d = raw_inflate(m.cdata, m.isize as usize);
                v.push(format!("{}:{}:{}:{}", crc32(m.cdata), m.cdata.len(), m.isize, d.map(|d| hex(&d)).unwrap_or("!".into())));
            }
        }
    }
    if v.is_empty() { "-".into() } else { v.join(",") }
}

fn flush_points(rng: &mut Rng, len: usize, boundaries: &[usize], style: u64) -> Vec<usize> {
    match style % 4 {
        0 => vec![],                 // one data block
        1 => boundaries.to_vec(),    // a block per structure (header, each record/line)
        2 => {
            // anywhere, including inside records
            let n = 1 + rng.below(5) as usize;
            let mut v: Vec<usize> = (0..n).map(|_| rng.below(len as u64 + 1) as usize).collect();
            v.sort();
            v
        }
        _ => {
            // one byte either side of structure boundaries
            let mut v: Vec<usize> = vec![];
            for &b in boundaries {
                if rng.chance(2, 3) {
                    v.push(if rng.chance(1, 2) { b.saturating_sub(1) } else { (b + 1).min(len) });
                }
            }
            v.sort();
            v
        }
    }
}

// ------------------------------------------------------------------ generic prefix oracle

fn tail_diff(a: &str, b: &str) -> String {
    let i = a.bytes().zip(b.bytes()).position(|(p, q)| p != q).unwrap_or(a.len().min(b.len()));
    let from = |s: &str| -> String { s.bytes().skip(i.saturating_sub(30)).take(90).map(|c| if c.is_ascii_graphic() || c == b' ' { c as char } else { '~' }).collect() };
    format!("got ...{} written ...{}", from(a), from(b))
}

pub struct Expect<'a> {
    pub fmt: &'a str,
    pub header: Option<&'a str>,
    pub items: &'a [String],
}

/// The property on one cut. `whole_items`: number of original items wholly contained in what the
/// reader can see; `inside`: Some(true) when the visible stream ends strictly inside a framed
/// record/container (so a clean EOF is forbidden), Some(false) at a boundary, None when the format
/// has no such obligation (text).
fn judge(ctx: &mut Ctx, ex: &Expect, out: &Out, header_visible: bool, whole_items: usize, inside: Option<bool>, case: &str) -> bool {
    let fmt = ex.fmt;
    if let End::Panic(p) = &out.end {
        ctx.fail(&format!("panic:{fmt}"), format!("{fmt}: reader panicked on a truncated file: {p}"), case.into());
        return false;
    }
    match (&out.header, ex.header) {
        (Some(h), Some(orig)) => {
            if h != orig {
                if header_visible {
                    ctx.fail(&format!("altered-header:{fmt}"), format!("{fmt}: header read from the truncated file differs from the written one although it is wholly present"), case.into());
                    return false;
                } else if inside.is_some() {
                    // a length-prefixed (binary) header cut short must not be accepted as a different header
                    ctx.fail(&format!("silent-header-truncation:{fmt}"), format!("{fmt}: a header cut short was accepted as a different header: {:.200}", tail_diff(h, orig)), case.into());
                    return false;
                } else {
                    ctx.bump(&format!("{fmt}:text-header-cut-accepted"));
                }
            } else if !header_visible {
                // e.g. only a NUL terminator / gzip trailer / CRC is missing: what was delivered is unchanged
                ctx.bump(&format!("{fmt}:header-complete-from-cut-bytes"));
            }
        }
        (None, _) => {
            if out.end == End::Eof {
                ctx.fail(&format!("header-eof:{fmt}"), format!("{fmt}: header reading reported neither a header nor an error"), case.into());
                return false;
            }
            if header_visible {
                // allowed (an error may come at any time): e.g. the text header reader must look at
                // the line after the header, which lies in a cut member
                ctx.bump(&format!("{fmt}:header-visible-but-error"));
            }
            return true;
        }
        _ => {}
    }
    // delivered items: a prefix of the originals, unchanged, in order
    for (i, it) in out.items.iter().enumerate() {
        let same = ex.items.get(i).map(|o| o == it).unwrap_or(false);
        if !same {
            let is_last = i + 1 == out.items.len();
            if inside.is_none() && is_last && i == whole_items && i < ex.items.len() {
                // text formats: the visible stream ends inside this line; the reader cannot know
                ctx.bump(&format!("{fmt}:text-cut-midline-accepted"));
                continue;
            }
            ctx.fail(
                &format!("fabricated:{fmt}"),
                format!("{fmt}: delivered item {i} is not the {i}-th written record: got {:.160} expected {:.160}", it, ex.items.get(i).map(|s| s.as_str()).unwrap_or("<nothing: only fewer were written>")),
                case.into(),
            );
            return false;
        }
    }
    if out.items.len() > whole_items + if inside.is_none() { 1 } else { 0 } {
        ctx.fail(&format!("fabricated:{fmt}"), format!("{fmt}: {} records delivered but only {whole_items} are wholly present in the truncated file", out.items.len()), case.into());
        return false;
    }
    if out.end == End::Eof {
        if inside == Some(true) {
            ctx.fail(&format!("silent-truncation:{fmt}"), format!("{fmt}: the stream ends inside a record/container but the reader reported a clean end of input after {} records", out.items.len()), case.into());
            return false;
        }
        if out.items.len() < whole_items {
            ctx.fail(&format!("lost:{fmt}"), format!("{fmt}: clean end of input after {} records although {whole_items} are wholly present", out.items.len()), case.into());
            return false;
        }
    }
    true
}

// ------------------------------------------------------------------ BGZF

fn gen_bgzf_file(rng: &mut Rng, many: bool) -> (Vec<u8>, Vec<u8>) {
    let nchunks = if many { 2 + rng.below(5) as usize } else { 1 };
    let mut payload = vec![];
    let mut flushes = vec![];
    for _ in 0..nchunks {
        let n = match rng.below(6) {
            0 => 0,
            1 => 1,
            _ => 1 + rng.below(60) as usize,
        };
        let chunk = crate::props::c01::gen_payload(rng, n);
        payload.extend_from_slice(&chunk);
        flushes.push(payload.len());
    }
    flushes.pop();
    let level = *rng.pick(&[0u8, 1, 6, 9]);
    (bgzf_with_flushes(&payload, &flushes, level), payload)
}

#[derive(Clone, Copy, Debug, PartialEq, Eq)]
enum BgzfMode {
    ReadToEnd,
    Small(usize),
    Big,
    FillBuf,
    OneByteSource,
    Mt(usize),
}

fn read_bgzf(file: &[u8], mode: BgzfMode) -> (Vec<u8>, End, Option<End>) {
    let data = file.to_vec();
    let r = guarded(move || -> (Vec<u8>, End, Option<End>) {
        let mut out = vec![];
        // a reader that keeps delivering data is cut off once it has delivered far more than any
        // file of this suite holds; the prefix check then reports it as fabricated data
        const RUNAWAY: usize = 600_000;
        fn pump<R: Read>(r: &mut R, out: &mut Vec<u8>, bufsize: usize) -> End {
            let mut buf = vec![0u8; bufsize];
            loop {
                match r.read(&mut buf) {
                    Ok(0) => return End::Eof,
                    Ok(n) => {
                        out.extend_from_slice(&buf[..n]);
                        if out.len() > RUNAWAY {
                            return End::Eof;
                        }
                    }
                    Err(e) => return End::of(&e),
                }
            }
        }
        match mode {
            BgzfMode::ReadToEnd => {
                let mut r = bgzf::io::Reader::new(&data[..]).take(RUNAWAY as u64);
                let end = match r.read_to_end(&mut out) {
                    Ok(_) => End::Eof,
                    Err(e) => End::of(&e),
                };
                (out, end, None)
            }
            BgzfMode::Small(n) => {
                let mut r = bgzf::io::Reader::new(&data[..]);
                let end = pump(&mut r, &mut out, n);
                (out, end, None)
            }
            BgzfMode::Big => {
                let mut r = bgzf::io::Reader::new(&data[..]);
                let end = pump(&mut r, &mut out, 70000);
                (out, end, None)
            }
            BgzfMode::FillBuf => {
                let mut r = bgzf::io::Reader::new(&data[..]);
                let end = loop {
                    match r.fill_buf() {
                        Ok(b) if b.is_empty() => break End::Eof,
                        Ok(b) => {
                            let n = b.len();
                            out.extend_from_slice(b);
                            r.consume(n);
                            if out.len() > RUNAWAY {
                                break End::Eof;
                            }
                        }
                        Err(e) => break End::of(&e),
                    }
                };
                (out, end, None)
            }
            BgzfMode::OneByteSource => {
                let mut r = bgzf::io::Reader::new(SchedReader::one_byte(data.clone()));
                let end = pump(&mut r, &mut out, 33);
                (out, end, None)
            }
            BgzfMode::Mt(_) => {
                let mut r = bgzf::io::MultithreadedReader::new(std::io::Cursor::new(data.clone()));
                let end = pump(&mut r, &mut out, 50);
                let fin = match r.finish() {
                    Ok(_) => End::Eof,
                    Err(e) => End::of(&e),
                };
                (out, end, Some(fin))
            }
        }
    });
    match r {
        Ok(x) => x,
        Err(p) => (vec![], End::Panic(p), None),
    }
}

/// An indexed consumer on a cut file: read `warm` bytes, seek to the virtual position `(c, up)` of
/// the ORIGINAL file, read to the end. The outcome: Err(seek error) or Ok((bytes, end)).
fn seek_on_cut(pre: &[u8], warm: usize, c: usize, up: u16, exact_first: bool) -> Result<Result<(Vec<u8>, End), End>, String> {
    let data = pre.to_vec();
    guarded(move || {
        let mut r = bgzf::io::Reader::new(std::io::Cursor::new(data));
        let mut w = vec![0u8; warm];
        let _ = r.read(&mut w);
        let vpos = bgzf::VirtualPosition::try_from((c as u64, up)).expect("virtual position");
        if let Err(e) = r.seek(vpos) {
            return Err(End::of(&e));
        }
        let mut out = vec![];
        let mut buf = [0u8; 4096];
        if exact_first {
            // `read_exact` has its own path in the reader (it copies out of the block directly)
            let mut first = [0u8; 3];
            match r.read_exact(&mut first) {
                Ok(()) => out.extend_from_slice(&first),
                Err(e) => return Ok((out, End::of(&e))),
            }
        }
        let end = loop {
            match r.read(&mut buf) {
                Ok(0) => break End::Eof,
                Ok(n) => {
                    out.extend_from_slice(&buf[..n]);
                    if out.len() > 600_000 {
                        break End::Eof;
                    }
                }
                Err(e) => break End::of(&e),
            }
        };
        Ok((out, end))
    })
}

/// the seek oracle of one cut: whatever is delivered after a successful seek to `(c, up)` is what
/// was WRITTEN at that position, and no more of it than the whole members of the cut file hold
fn bgzf_seek_cuts(ctx: &mut Ctx, payload: &[u8], ends: &[usize], uends: &[usize], pre: &[u8], k: usize, case: &str) {
    let (u, _) = avail(ends, uends, k);
    let mut starts = vec![0usize];
    starts.extend(ends.iter().copied());
    // the member the cut falls into, the one before it and the one after it (past the end of the cut file)
    let n = ends.iter().filter(|&&e| e <= k).count();
    for mi in [n.saturating_sub(1), n, n + 1] {
        if mi >= starts.len() {
            continue;
        }
        let c = starts[mi];
        let ubase = if mi == 0 { 0 } else { uends[mi - 1] };
        let usize_of = uends.get(mi).map(|e| e - ubase).unwrap_or(0);
        for up in [0usize, 1, usize_of / 2, usize_of] {
            if up > 65535 {
                continue;
            }
            for (warm, exact_first) in [(0usize, false), (1, false), (1, true)] {
                ctx.eval(if ends.len() >= 3 { Some(fnv(format!("{case} seek {mi} {up} {warm} {exact_first}").as_bytes())) } else { None });
                match seek_on_cut(pre, warm, c, up as u16, exact_first) {
                    Err(p) => ctx.fail("panic:bgzf", format!("bgzf reader panicked in a seek to ({c}, {up}) on a file cut at {k}: {p}"), case.to_string()),
                    Ok(Err(_)) => ctx.bump("bgzf:seek-on-cut:seek-error"),
                    Ok(Ok((got, end))) => {
                        let at = ubase + up;
                        let want = payload.get(at..).unwrap_or(&[]);
                        if got.len() > want.len() || got[..] != want[..got.len()] {
                            ctx.fail("fabricated:bgzf", format!("bgzf reader on a file cut at {k}: after a seek to ({c}, {up}) (after reading {warm} bytes) it delivered {} bytes that are not the bytes written at that position", got.len()), case.to_string());
                        } else if at + got.len() > u.max(at) {
                            ctx.fail("fabricated:bgzf", format!("bgzf reader on a file cut at {k}: after a seek to ({c}, {up}) it delivered {} bytes, more than whole members of the cut file hold", got.len()), case.to_string());
                        } else {
                            ctx.bump(&format!("bgzf:seek-on-cut:{}:{}", if got.is_empty() { "nothing" } else { "data" }, end.txt()));
                        }
                    }
                }
            }
        }
    }
}

/// every cut of one BGZF file: oracle (all modes) + correspondence (read_to_end)
fn bgzf_file_cuts(ctx: &mut Ctx, file: &[u8], payload: &[u8], cuts: &[usize], case_prefix: &str, emit_corr: bool) {
    let (ends, uends) = member_table(file);
    let table = if emit_corr { inf_table(file) } else { String::new() };
    let fhex = if emit_corr { hex(file) } else { String::new() };
    for &k in cuts {
        let case = format!("{case_prefix} {k}");
        let pre = &file[..k];
        let (u, j) = avail(&ends, &uends, k);
        let modes: &[BgzfMode] = if k % 3 == 0 || cuts.len() < 400 {
            &[BgzfMode::ReadToEnd, BgzfMode::Small(7), BgzfMode::Big, BgzfMode::FillBuf, BgzfMode::OneByteSource, BgzfMode::Mt(2)]
        } else {
            &[BgzfMode::ReadToEnd, BgzfMode::Big]
        };
        if k % 3 == 0 || cuts.len() < 400 {
            bgzf_seek_cuts(ctx, payload, &ends, &uends, pre, k, &case);
        }
        for &mode in modes {
            let (got, end, fin) = read_bgzf(pre, mode);
            ctx.eval(if ends.len() >= 3 { Some(fnv(format!("{case}{mode:?}").as_bytes())) } else { None });
            if let End::Panic(p) = &end {
                ctx.fail("panic:bgzf", format!("bgzf reader ({mode:?}) panicked on a file cut at {k}: {p}"), case.clone());
                continue;
            }
            if got.len() > payload.len() || got[..] != payload[..got.len()] {
                ctx.fail("fabricated:bgzf", format!("bgzf reader ({mode:?}) on a file cut at {k} delivered {} bytes that are not a prefix of the {} written bytes", got.len(), payload.len()), case.clone());
                continue;
            }
            if got.len() > u {
                ctx.fail("fabricated:bgzf", format!("bgzf reader ({mode:?}): {} bytes delivered, only {u} are in whole members of the cut file", got.len()), case.clone());
                continue;
            }
            if end == End::Eof && got.len() < u {
                ctx.fail("lost:bgzf", format!("bgzf reader ({mode:?}): clean end of input after {} bytes although whole members hold {u}", got.len()), case.clone());
                continue;
            }
            match mode {
                BgzfMode::Mt(_) => {
                    // observation (allowed at the BGZF level): frame-level read errors surface only from finish()
                    if j >= 18 && end == End::Eof {
                        ctx.bump("bgzf:mt-read-eof-on-cut-member");
                        if fin == Some(End::Eof) {
                            ctx.bump("bgzf:mt-finish-ok-on-cut-member");
                        }
                    }
                }
                _ => {
                    ctx.bump(&format!("bgzf:end:{}", end.txt()));
                }
            }
            if mode == BgzfMode::ReadToEnd {
                ctx.bump(if j == 0 { "bgzf:cut-at-member-boundary" } else if j < 18 { "bgzf:cut-in-member-header" } else { "bgzf:cut-in-member-body" });
                if emit_corr {
                    ctx.corr(format!("c13 bgzf {k} {fhex} {table}"), format!("{} {}", hex(&got), end.txt()));
                }
            }
        }
    }
}

fn all_cuts(len: usize) -> Vec<usize> {
    (0..=len).collect()
}

fn bgzf_case(ctx: &mut Ctx, sub: u64, only: Option<usize>) {
    let mut rng = Rng::new(sub);
    let many = sub % 2 == 1;
    let (file, payload) = gen_bgzf_file(&mut rng, many);
    let cuts = only.map(|k| vec![k]).unwrap_or_else(|| all_cuts(file.len()));
    ctx.bump(if many { "file:bgzf-many-blocks" } else { "file:bgzf-one-block" });
    bgzf_file_cuts(ctx, &file, &payload, &cuts, &format!("bgzf {sub}"), only.is_none());
}

/// one large multi-block file (full 64 KiB blocks): cuts around every member boundary + random
fn bgzf_big_case(ctx: &mut Ctx, sub: u64, only: Option<usize>) {
    let mut rng = Rng::new(sub);
    let len = 65280 * 2 + 1 + rng.below(3000) as usize;
    let payload = crate::props::c01::gen_payload(&mut rng, len);
    let file = bgzf_with_flushes(&payload, &[], 1);
    let (ends, _) = member_table(&file);
    let mut cuts = vec![];
    let mut starts = vec![0usize];
    starts.extend(ends.iter().copied());
    for &s in &starts {
        for d in 0..40usize {
            if s + d <= file.len() {
                cuts.push(s + d);
            }
            if s >= d {
                cuts.push(s - d);
            }
        }
    }
    for _ in 0..ctx.n(40, 400) {
        cuts.push(rng.below(file.len() as u64 + 1) as usize);
    }
    cuts.sort();
    cuts.dedup();
    let cuts = only.map(|k| vec![k]).unwrap_or(cuts);
    ctx.bump("file:bgzf-64KiB-blocks");
    bgzf_file_cuts(ctx, &file, &payload, &cuts, &format!("bgzfbig {sub}"), false);
}

// ------------------------------------------------------------------ BAM

fn sam_header(nref: usize) -> sam::Header {
    use sam::header::record::value::{map::ReferenceSequence, Map};
    let refs = (0..nref).map(|i| (bstr::BString::from(format!("sq{i}")), Map::<ReferenceSequence>::new(NonZero::new(1000 + i).unwrap()))).collect();
    sam::Header::builder().set_header(Default::default()).set_reference_sequences(refs).add_comment("c13").build()
}

fn gen_alignment(rng: &mut Rng, i: usize, nref: usize) -> sam::alignment::RecordBuf {
    use sam::alignment::record::cigar::{op::Kind, Op};
    use sam::alignment::record::{Flags, MappingQuality};
    use sam::alignment::record_buf::{data::field::Value, Cigar, QualityScores, Sequence};
    let mut b = sam::alignment::RecordBuf::builder().set_name(format!("read{i}"));
    let n = rng.below(12) as usize;
    let bases: Vec<u8> = (0..n).map(|_| *rng.pick(b"ACGT")).collect();
    if nref > 0 && rng.chance(3, 4) && n > 0 {
        b = b
            .set_flags(Flags::empty())
            .set_reference_sequence_id(rng.below(nref as u64) as usize)
            .set_alignment_start(Position::try_from(1 + rng.below(900) as usize).unwrap())
            .set_mapping_quality(MappingQuality::new(rng.below(60) as u8).unwrap())
            .set_cigar(Cigar::from(vec![Op::new(Kind::Match, n)]));
    } else {
        b = b.set_flags(Flags::UNMAPPED);
    }
    b = b.set_sequence(Sequence::from(bases)).set_quality_scores(QualityScores::from((0..n).map(|_| rng.below(40) as u8).collect::<Vec<u8>>()));
    if rng.chance(1, 2) {
        let data = [(sam::alignment::record::data::field::Tag::ALIGNMENT_HIT_COUNT, Value::from(rng.below(200) as u8))].into_iter().collect();
        b = b.set_data(data);
    }
    b.build()
}

pub struct Framed {
    /// the uncompressed stream
    pub raw: Vec<u8>,
    /// length of the header part
    pub hdr: usize,
    /// end offset of each record in `raw`
    pub rec_ends: Vec<usize>,
}

/// independent parse of an uncompressed BAM stream: header length and record ends
fn frame_bam(raw: &[u8]) -> Framed {
    let u32at = |o: usize| u32::from_le_bytes(raw[o..o + 4].try_into().unwrap()) as usize;
    assert_eq!(&raw[..4], b"BAM\x01");
    let l_text = u32at(4);
    let mut o = 8 + l_text;
    let n_ref = u32at(o);
    o += 4;
    for _ in 0..n_ref {
        let l_name = u32at(o);
        o += 4 + l_name + 4;
    }
    let hdr = o;
    let mut rec_ends = vec![];
    while o < raw.len() {
        let bs = u32at(o);
        o += 4 + bs;
        rec_ends.push(o);
    }
    assert_eq!(o, raw.len());
    Framed { raw: raw.to_vec(), hdr, rec_ends }
}

/// independent parse of an uncompressed BCF stream
fn frame_bcf(raw: &[u8]) -> Framed {
    let u32at = |o: usize| u32::from_le_bytes(raw[o..o + 4].try_into().unwrap()) as usize;
    assert_eq!(&raw[..5], b"BCF\x02\x02");
    let l_text = u32at(5);
    let mut o = 9 + l_text;
    let hdr = o;
    let mut rec_ends = vec![];
    while o < raw.len() {
        let ls = u32at(o);
        let li = u32at(o + 4);
        o += 8 + ls + li;
        rec_ends.push(o);
    }
    assert_eq!(o, raw.len());
    Framed { raw: raw.to_vec(), hdr, rec_ends }
}

fn whole_records(f: &Framed, u: usize) -> (bool, usize, bool) {
    // (header visible, records wholly inside the first u bytes, stream ends strictly inside a record)
    if u < f.hdr {
        return (false, 0, false);
    }
    let n = f.rec_ends.iter().take_while(|&&e| e <= u).count();
    let at = if n == 0 { f.hdr } else { f.rec_ends[n - 1] };
    (true, n, u > at)
}

fn gen_bam_raw(rng: &mut Rng, many: bool) -> (sam::Header, Vec<sam::alignment::RecordBuf>, Vec<u8>) {
    use sam::alignment::io::Write as _;
    let nref = rng.below(3) as usize;
    let header = sam_header(nref);
    let nrec = if many { 2 + rng.below(5) as usize } else { rng.below(2) as usize };
    let recs: Vec<_> = (0..nrec).map(|i| gen_alignment(rng, i, nref)).collect();
    let mut w = bam::io::Writer::from(Vec::new());
    w.write_header(&header).unwrap();
    for r in &recs {
        w.write_alignment_record(&header, r).unwrap();
    }
    (header, recs, w.into_inner())
}

fn read_bam<R: Read>(inner: R) -> Out {
    let mut r = bam::io::Reader::from(inner);
    let header = match r.read_header() {
        Ok(h) => h,
        Err(e) => return Out { header: None, items: vec![], end: End::of(&e) },
    };
    let htxt = sam_header_text(&header);
    let mut items = vec![];
    let mut rec = bam::Record::default();
    let end = loop {
        match r.read_record(&mut rec) {
            Ok(0) => break End::Eof,
            Ok(_) => {
                let buf = sam::alignment::RecordBuf::try_from_alignment_record(&header, &rec);
                items.push(format!("{:?} | {:?}", rec, buf.map_err(|e| e.to_string())));
                if items.len() > MAX_ITEMS {
                    break End::Eof;
                }
            }
            Err(e) => break End::of(&e),
        }
    };
    Out { header: Some(htxt), items, end }
}

/// sizes reported by read_record on a raw (uncompressed) stream: for the correspondence
fn bam_sizes_raw(stream: &[u8], hdr: usize) -> String {
    let r = guarded(|| {
        let mut r = bam::io::Reader::from(&stream[hdr.min(stream.len())..]);
        let mut rec = bam::Record::default();
        let mut sizes = vec![];
        let end = loop {
            match r.read_record(&mut rec) {
                Ok(0) => break End::Eof,
                Ok(n) => {
                    sizes.push(n.to_string());
                    if sizes.len() > MAX_ITEMS {
                        break End::Eof;
                    }
                }
                Err(e) => break End::of(&e),
            }
        };
        format!("{} {}", if sizes.is_empty() { "-".to_string() } else { sizes.join(",") }, end.txt())
    });
    r.unwrap_or_else(|_| "panic".into())
}

fn bcf_sizes_raw(stream: &[u8], hdr: usize) -> String {
    let r = guarded(|| {
        let mut r = bcf::io::Reader::from(&stream[hdr.min(stream.len())..]);
        let mut rec = bcf::Record::default();
        let mut sizes = vec![];
        let end = loop {
            match r.read_record(&mut rec) {
                Ok(0) => break End::Eof,
                Ok(n) => {
                    sizes.push(n.to_string());
                    if sizes.len() > MAX_ITEMS {
                        break End::Eof;
                    }
                }
                Err(e) => break End::of(&e),
            }
        };
        format!("{} {}", if sizes.is_empty() { "-".to_string() } else { sizes.join(",") }, end.txt())
    });
    r.unwrap_or_else(|_| "panic".into())
}

#[derive(Clone, Copy, PartialEq, Eq, Debug)]
enum Kind {
    Bam,
    Bcf,
}

/// All cuts of (a) the raw record stream and (b) the BGZF file, for BAM or BCF.
fn framed_case(ctx: &mut Ctx, kind: Kind, sub: u64, only: Option<(String, usize)>) {
    let mut rng = Rng::new(sub);
    let many = sub % 2 == 1;
    let fmt = if kind == Kind::Bam { "bam" } else { "bcf" };
    let (raw, reader): (Vec<u8>, fn(&[u8], u8) -> Out) = match kind {
        Kind::Bam => {
            let (_, _, raw) = gen_bam_raw(&mut rng, many);
            (raw, |b, mode| match mode {
                0 => run_guarded(|| read_bam(b)),
                1 => run_guarded(|| read_bam(bgzf::io::Reader::new(b))),
                2 => run_guarded(|| read_bam(bgzf::io::Reader::new(SchedReader::one_byte(b.to_vec())))),
                _ => run_guarded(|| read_bam(bgzf::io::MultithreadedReader::new(std::io::Cursor::new(b.to_vec())))),
            })
        }
        Kind::Bcf => {
            let (_, _, raw) = gen_bcf_raw(&mut rng, many);
            (raw, |b, mode| match mode {
                0 => run_guarded(|| read_bcf(b)),
                1 => run_guarded(|| read_bcf(bgzf::io::Reader::new(b))),
                2 => run_guarded(|| read_bcf(bgzf::io::Reader::new(SchedReader::one_byte(b.to_vec())))),
                _ => run_guarded(|| read_bcf(bgzf::io::MultithreadedReader::new(std::io::Cursor::new(b.to_vec())))),
            })
        }
    };
    let fr = if kind == Kind::Bam { frame_bam(&raw) } else { frame_bcf(&raw) };
    let full = reader(&raw, 0);
    if full.end != End::Eof || full.items.len() != fr.rec_ends.len() || full.header.is_none() {
        ctx.fail(&format!("{fmt}-reference-read"), format!("the complete {fmt} stream does not read back: {} records of {}, end {}", full.items.len(), fr.rec_ends.len(), full.end.txt()), format!("{fmt} {sub}"));
        return;
    }
    let htxt = full.header.clone().unwrap();
    let ex = Expect { fmt, header: Some(&htxt), items: &full.items };
    ctx.bump(&format!("file:{fmt}-{}", if many { "many-records" } else { "0-1-records" }));

    // (a) raw stream, every cut
    let rawhex = hex(&raw[fr.hdr..]);
    for k in 0..=raw.len() {
        if let Some((which, kk)) = &only {
            if which != "raw" || *kk != k {
                continue;
            }
        }
        let case = format!("{fmt} {sub} raw {k}");
        let out = reader(&raw[..k], 0);
        let (hv, whole, inside) = whole_records(&fr, k);
        ctx.eval(if fr.rec_ends.len() >= 2 { Some(fnv(case.as_bytes())) } else { None });
        judge(ctx, &ex, &out, hv, whole, Some(inside), &case);
        ctx.bump(&format!("{fmt}-raw:{}", if !hv { "cut-in-header" } else if inside { "cut-in-record" } else { "cut-at-record-boundary" }));
        if k <= fr.hdr && only.is_none() {
            // header framing: a header or not (error classes differ with what the text parser
            // makes of a partial line, so only ok/err is compared)
            let ans = if matches!(out.end, End::Panic(_)) { "panic" } else if out.header.is_some() { "ok" } else { "err" };
            ctx.corr(format!("c13 {fmt}hdr {k} {}", hex(&raw[..fr.hdr])), ans.into());
        }
        if hv && only.is_none() {
            // correspondence at the record layer (header already consumed)
            let ans = if kind == Kind::Bam { bam_sizes_raw(&raw[..k], fr.hdr) } else { bcf_sizes_raw(&raw[..k], fr.hdr) };
            ctx.corr(format!("c13 {fmt} {} {rawhex}", k - fr.hdr), ans);
        }
    }

    // (b) BGZF-compressed with block boundaries in several styles, every cut
    let mut boundaries = vec![fr.hdr];
    boundaries.extend(fr.rec_ends.iter().copied());
    let nstyles = 4;
    for style in 0..nstyles {
        let fl = flush_points(&mut rng, raw.len(), &boundaries, style);
        let file = bgzf_with_flushes(&raw, &fl, *rng.pick(&[1u8, 6]));
        let (ends, uends) = member_table(&file);
        ctx.bump(&format!("file:{fmt}.bgzf-{}-members", if ends.len() <= 2 { "1-2".to_string() } else { "3+".to_string() }));
        let table = inf_table(&file);
        let fhex = hex(&file);
        for k in 0..=file.len() {
            if let Some((which, kk)) = &only {
                if *which != format!("z{style}") || *kk != k {
                    continue;
                }
            }
            let case = format!("{fmt} {sub} z{style} {k}");
            let (u, j) = avail(&ends, &uends, k);
            let (hv, whole, inside) = whole_records(&fr, u);
            let nmodes = if k % 4 == 0 { 4 } else { 2 };
            for mode in 1..nmodes {
                let out = reader(&file[..k], mode as u8);
                ctx.eval(if ends.len() >= 3 && fr.rec_ends.len() >= 2 { Some(fnv(format!("{case}m{mode}").as_bytes())) } else { None });
                let ok = judge(ctx, &ex, &out, hv, whole, Some(inside), &format!("{case} m{mode}"));
                if mode == 1 {
                    ctx.bump(&format!("{fmt}.bgzf:{}{}", if !hv { "hdr-cut" } else if inside { "in-record" } else { "at-record-boundary" }, if j == 0 { "/member-boundary" } else if j < 18 { "/in-member-header" } else { "/in-member-body" }));
                    ctx.bump(&format!("{fmt}.bgzf:end:{}", out.end.txt()));
                    if ok && hv && only.is_none() {
                        // the record layer over the BGZF layer (the header itself is not modelled:
                        // compared only when its bytes are all delivered)
                        let ans = if out.header.is_some() { format!("{} {}", out.items.len(), out.end.txt()) } else { format!("hdr:{}", out.end.txt()) };
                        ctx.corr(format!("c13 {fmt}z {k} {} {fhex} {table}", fr.hdr), ans);
                    }
                }
                if mode == 3 && ok && out.end == End::Eof && j >= 18 {
                    ctx.bump(&format!("{fmt}.bgzf:mt-clean-eof-at-record-boundary-with-cut-member"));
                }
            }
        }
    }
}

/// A BAM written the normal way (`bam::io::Writer::new`) large enough for several full 64 KiB
/// blocks, so records straddle member boundaries where the writer itself put them. Cuts: around
/// every member boundary and at random offsets (oracle only: the request lines would be huge).
fn bam_big_case(ctx: &mut Ctx, sub: u64, only: Option<usize>) {
    use sam::alignment::io::Write as _;
    let mut rng = Rng::new(sub ^ 0xB16);
    let nref = 2;
    let header = sam_header(nref);
    let nrec = 2200 + rng.below(600) as usize;
    let recs: Vec<_> = (0..nrec).map(|i| gen_alignment(&mut rng, i, nref)).collect();
    let mut wz = bam::io::Writer::new(Vec::new());
    let mut wr = bam::io::Writer::from(Vec::new());
    wz.write_header(&header).unwrap();
    wr.write_header(&header).unwrap();
    for r in &recs {
        wz.write_alignment_record(&header, r).unwrap();
        wr.write_alignment_record(&header, r).unwrap();
    }
    wz.try_finish().unwrap();
    let file = wz.into_inner().into_inner();
    let raw = wr.into_inner();
    let fr = frame_bam(&raw);
    let (ends, uends) = member_table(&file);
    if *uends.last().unwrap() != raw.len() {
        ctx.fail("bam-reference-read", format!("compressed BAM holds {} bytes, the uncompressed writer produced {}", uends.last().unwrap(), raw.len()), format!("bambig {sub}"));
        return;
    }
    let full = run_guarded(|| read_bam_uncapped(bgzf::io::Reader::new(&file[..])));
    if full.end != End::Eof || full.items.len() != nrec {
        ctx.fail("bam-reference-read", format!("the complete BAM does not read back: {} records of {nrec}, end {}", full.items.len(), full.end.txt()), format!("bambig {sub}"));
        return;
    }
    let htxt = full.header.clone().unwrap();
    let ex = Expect { fmt: "bam", header: Some(&htxt), items: &full.items };
    let mut cuts = vec![];
    let mut starts = vec![0usize];
    starts.extend(ends.iter().copied());
    for &s in &starts {
        for d in 0..26usize {
            if s + d <= file.len() {
                cuts.push(s + d);
            }
            if s >= d {
                cuts.push(s - d);
            }
        }
    }
    for _ in 0..ctx.n(40, 300) {
        cuts.push(rng.below(file.len() as u64 + 1) as usize);
    }
    cuts.sort();
    cuts.dedup();
    let cuts = only.map(|k| vec![k]).unwrap_or(cuts);
    ctx.bump(&format!("file:bam-{}-full-blocks", ends.len() - 1));
    for &k in &cuts {
        let case = format!("bambig {sub} {k}");
        let (u, j) = avail(&ends, &uends, k);
        let (hv, whole, inside) = whole_records(&fr, u);
        for mode in 0..2 {
            let out = if mode == 0 {
                run_guarded(|| read_bam_uncapped(bgzf::io::Reader::new(&file[..k])))
            } else {
                run_guarded(|| read_bam_uncapped(bgzf::io::MultithreadedReader::new(std::io::Cursor::new(file[..k].to_vec()))))
            };
            ctx.eval(Some(fnv(format!("{case}m{mode}").as_bytes())));
            judge(ctx, &ex, &out, hv, whole, Some(inside), &format!("{case} m{mode}"));
            if mode == 0 {
                ctx.bump(&format!("bam-big:{}{}", if !hv { "hdr-cut" } else if inside { "in-record" } else { "at-record-boundary" }, if j == 0 { "/member-boundary" } else if j < 18 { "/in-member-header" } else { "/in-member-body" }));
                ctx.bump(&format!("bam-big:end:{}", out.end.txt()));
            }
        }
    }
}

/// `read_bam` without the small-file item cap (stops at 100 000 records)
fn read_bam_uncapped<R: Read>(inner: R) -> Out {
    let mut r = bam::io::Reader::from(inner);
    let header = match r.read_header() {
        Ok(h) => h,
        Err(e) => return Out { header: None, items: vec![], end: End::of(&e) },
    };
    let htxt = sam_header_text(&header);
    let mut items = vec![];
    let mut rec = bam::Record::default();
    let end = loop {
        match r.read_record(&mut rec) {
            Ok(0) => break End::Eof,
            Ok(_) => {
                items.push(format!("{rec:?}"));
                if items.len() > 100_000 {
                    break End::Eof;
                }
            }
            Err(e) => break End::of(&e),
        }
    };
    Out { header: Some(htxt), items, end }
}

// ------------------------------------------------------------------ BCF / VCF

fn vcf_header(nref: usize, nsamples: usize) -> vcf::Header {
    use vcf::header::record::value::{map::Contig, map::Format, map::Info, Map};
    use vcf::variant::record::info::field::key as ikey;
    use vcf::variant::record::samples::keys::key as skey;
    let mut b = vcf::Header::builder();
    for i in 0..nref {
        b = b.add_contig(format!("sq{i}"), Map::<Contig>::new());
    }
    b = b.add_info(ikey::TOTAL_DEPTH, Map::<Info>::from(ikey::TOTAL_DEPTH));
    b = b.add_format(skey::GENOTYPE, Map::<Format>::from(skey::GENOTYPE));
    b = b.add_format(skey::READ_DEPTH, Map::<Format>::from(skey::READ_DEPTH));
    for s in 0..nsamples {
        b = b.add_sample_name(format!("sample{s}"));
    }
    b.build()
}

fn gen_variant(rng: &mut Rng, i: usize, nref: usize, nsamples: usize) -> vcf::variant::RecordBuf {
    use vcf::variant::record::info::field::key as ikey;
    use vcf::variant::record::samples::keys::key as skey;
    use vcf::variant::record_buf::{info::field::Value as IV, samples::sample::Value as SV, samples::Keys, AlternateBases, Info, Samples};
    let mut b = vcf::variant::RecordBuf::builder()
        .set_reference_sequence_name(format!("sq{}", rng.below(nref as u64)))
        .set_variant_start(Position::try_from(1 + i * 10 + rng.below(9) as usize).unwrap())
        .set_ids([format!("id{i}")].into_iter().collect())
        .set_reference_bases(["A", "AC", "GTT"][rng.below(3) as usize])
        .set_alternate_bases(AlternateBases::from(vec!["T".to_string()]));
    if rng.chance(1, 2) {
        b = b.set_quality_score(rng.below(99) as f32);
    }
    if rng.chance(2, 3) {
        let info: Info = [(ikey::TOTAL_DEPTH.to_string(), Some(IV::from(rng.below(5000) as i32)))].into_iter().collect();
        b = b.set_info(info);
    }
    if nsamples > 0 {
        let keys: Keys = [skey::GENOTYPE.to_string(), skey::READ_DEPTH.to_string()].into_iter().collect();
        let vals = (0..nsamples).map(|_| vec![Some(SV::from(["0/1", "1/1", "0|0"][rng.below(3) as usize])), Some(SV::from(rng.below(300) as i32))]).collect();
        b = b.set_samples(Samples::new(keys, vals));
    }
    b.build()
}

fn gen_bcf_raw(rng: &mut Rng, many: bool) -> (vcf::Header, Vec<vcf::variant::RecordBuf>, Vec<u8>) {
    use vcf::variant::io::Write as _;
    let nref = 1 + rng.below(2) as usize;
    let nsamples = rng.below(3) as usize;
    let header = vcf_header(nref, nsamples);
    let nrec = if many { 2 + rng.below(5) as usize } else { rng.below(2) as usize };
    let recs: Vec<_> = (0..nrec).map(|i| gen_variant(rng, i, nref, nsamples)).collect();
    let mut w = bcf::io::Writer::from(Vec::new());
    w.write_header(&header).unwrap();
    for r in &recs {
        w.write_variant_record(&header, r).unwrap();
    }
    (header, recs, w.into_inner())
}

fn read_bcf<R: Read>(inner: R) -> Out {
    let mut r = bcf::io::Reader::from(inner);
    let header = match r.read_header() {
        Ok(h) => h,
        Err(e) => return Out { header: None, items: vec![], end: End::of(&e) },
    };
    let htxt = vcf_header_text(&header);
    let mut items = vec![];
    let mut rec = bcf::Record::default();
    let end = loop {
        match r.read_record(&mut rec) {
            Ok(0) => break End::Eof,
            Ok(_) => {
                let buf = vcf::variant::RecordBuf::try_from_variant_record(&header, &rec);
                items.push(format!("{:?}", buf.map_err(|e| e.to_string())));
                if items.len() > MAX_ITEMS {
                    break End::Eof;
                }
            }
            Err(e) => break End::of(&e),
        }
    };
    Out { header: Some(htxt), items, end }
}

// ------------------------------------------------------------------ text over BGZF (VCF.gz, SAM.gz)

fn line_ends(raw: &[u8]) -> Vec<usize> {
    raw.iter().enumerate().filter(|(_, b)| **b == b'\n').map(|(i, _)| i + 1).collect()
}

fn read_vcf_gz(b: &[u8]) -> Out {
    let mut r = vcf::io::Reader::new(bgzf::io::Reader::new(b));
    let header = match r.read_header() {
        Ok(h) => h,
        Err(e) => return Out { header: None, items: vec![], end: End::of(&e) },
    };
    let htxt = vcf_header_text(&header);
    let mut items = vec![];
    let mut rec = vcf::Record::default();
    let end = loop {
        match r.read_record(&mut rec) {
            Ok(0) => break End::Eof,
            Ok(_) => {
                let buf = vcf::variant::RecordBuf::try_from_variant_record(&header, &rec);
                items.push(format!("{:?}", buf.map_err(|e| e.to_string())));
                if items.len() > MAX_ITEMS {
                    break End::Eof;
                }
            }
            Err(e) => break End::of(&e),
        }
    };
    Out { header: Some(htxt), items, end }
}

fn read_sam_gz(b: &[u8]) -> Out {
    let mut r = sam::io::Reader::new(bgzf::io::Reader::new(b));
    let header = match r.read_header() {
        Ok(h) => h,
        Err(e) => return Out { header: None, items: vec![], end: End::of(&e) },
    };
    let htxt = sam_header_text(&header);
    let mut items = vec![];
    let mut rec = sam::Record::default();
    let end = loop {
        match r.read_record(&mut rec) {
            Ok(0) => break End::Eof,
            Ok(_) => {
                let buf = sam::alignment::RecordBuf::try_from_alignment_record(&header, &rec);
                items.push(format!("{:?}", buf.map_err(|e| e.to_string())));
                if items.len() > MAX_ITEMS {
                    break End::Eof;
                }
            }
            Err(e) => break End::of(&e),
        }
    };
    Out { header: Some(htxt), items, end }
}

fn text_case(ctx: &mut Ctx, vcf_format: bool, sub: u64, only: Option<(String, usize)>) {
    let mut rng = Rng::new(sub);
    let many = sub % 2 == 1;
    let fmt = if vcf_format { "vcf.gz" } else { "sam.gz" };
    let nrec = if many { 2 + rng.below(5) as usize } else { rng.below(2) as usize };
    let (raw, hdr_len): (Vec<u8>, usize) = if vcf_format {
        use vcf::variant::io::Write as _;
        let nref = 1 + rng.below(2) as usize;
        let ns = rng.below(3) as usize;
        let header = vcf_header(nref, ns);
        let mut w = vcf::io::Writer::new(Vec::new());
        w.write_header(&header).unwrap();
        let h = w.get_ref().len();
        for i in 0..nrec {
            w.write_variant_record(&header, &gen_variant(&mut rng, i, nref, ns)).unwrap();
        }
        (w.into_inner(), h)
    } else {
        use sam::alignment::io::Write as _;
        let nref = rng.below(3) as usize;
        let header = sam_header(nref);
        let mut w = sam::io::Writer::new(Vec::new());
        w.write_header(&header).unwrap();
        let h = w.get_ref().len();
        for i in 0..nrec {
            w.write_alignment_record(&header, &gen_alignment(&mut rng, i, nref)).unwrap();
        }
        (w.into_inner(), h)
    };
    let reader: fn(&[u8]) -> Out = if vcf_format { |b| run_guarded(|| read_vcf_gz(b)) } else { |b| run_guarded(|| read_sam_gz(b)) };
    let les = line_ends(&raw);
    let rec_ends: Vec<usize> = les.iter().copied().filter(|&e| e > hdr_len).collect();
    let fr = Framed { raw: raw.clone(), hdr: hdr_len, rec_ends };
    ctx.bump(&format!("file:{fmt}-{}", if many { "many-records" } else { "0-1-records" }));
    for style in 0..4u64 {
        let fl = flush_points(&mut rng, raw.len(), &les, style);
        let file = bgzf_with_flushes(&raw, &fl, 6);
        let full = reader(&file);
        if full.end != End::Eof || full.items.len() != nrec || full.header.is_none() {
            ctx.fail(&format!("{fmt}-reference-read"), format!("the complete {fmt} file does not read back: {} records of {nrec}, end {}", full.items.len(), full.end.txt()), format!("{fmt} {sub}"));
            return;
        }
        let htxt = full.header.clone().unwrap();
        let ex = Expect { fmt, header: Some(&htxt), items: &full.items };
        let (ends, uends) = member_table(&file);
        for k in 0..=file.len() {
            if let Some((which, kk)) = &only {
                if *which != format!("z{style}") || *kk != k {
                    continue;
                }
            }
            let case = format!("{fmt} {sub} z{style} {k}");
            let (u, _j) = avail(&ends, &uends, k);
            let (hv, whole, _inside) = whole_records(&fr, u);
            let out = reader(&file[..k]);
            ctx.eval(if ends.len() >= 3 && nrec >= 2 { Some(fnv(case.as_bytes())) } else { None });
            judge(ctx, &ex, &out, hv, whole, None, &case);
            ctx.bump(&format!("{fmt}:end:{}", out.end.txt()));
        }
    }
}

// ------------------------------------------------------------------ CRAM

fn cram_reference() -> (Vec<fasta::Record>, sam::Header) {
    use fasta::record::{Definition, Sequence};
    use sam::header::record::value::{map::ReferenceSequence, Map};
    let seqs: Vec<Vec<u8>> = vec![b"ACGTTGCAAGGCTTAACCGGTTACGATCGATCGGCTAGCTAGGATCCGATTACA".to_vec(), b"TTGACCAGGTTTAAACCCGGGACGTACGTTAGC".to_vec()];
    let recs: Vec<fasta::Record> = seqs.iter().enumerate().map(|(i, s)| fasta::Record::new(Definition::new(format!("sq{i}"), None), Sequence::from(s.clone()))).collect();
    let mut b = sam::Header::builder().set_header(Default::default());
    for (i, s) in seqs.iter().enumerate() {
        b = b.add_reference_sequence(format!("sq{i}"), Map::<ReferenceSequence>::new(NonZero::new(s.len()).unwrap()));
    }
    (recs, b.build())
}

fn gen_cram_record(rng: &mut Rng, i: usize, refs: &[fasta::Record], force_ref: Option<usize>) -> sam::alignment::RecordBuf {
    use sam::alignment::record::cigar::{op::Kind, Op};
    use sam::alignment::record::{Flags, MappingQuality};
    use sam::alignment::record_buf::{Cigar, QualityScores, Sequence};
    let mut b = sam::alignment::RecordBuf::builder().set_name(format!("read{i}"));
    if force_ref.is_some() || rng.chance(3, 4) {
        let rid = force_ref.unwrap_or_else(|| rng.below(refs.len() as u64) as usize);
        let seq: &[u8] = refs[rid].sequence().as_ref();
        let n = 4 + rng.below(10) as usize;
        let start = 1 + rng.below((seq.len() - n) as u64) as usize;
        let mut bases = seq[start - 1..start - 1 + n].to_vec();
        if rng.chance(1, 2) {
            let p = rng.below(n as u64) as usize;
            bases[p] = if bases[p] == b'A' { b'C' } else { b'A' };
        }
        b = b
            .set_flags(Flags::empty())
            .set_reference_sequence_id(rid)
            .set_alignment_start(Position::try_from(start).unwrap())
            .set_mapping_quality(MappingQuality::new(rng.below(60) as u8).unwrap())
            .set_cigar(Cigar::from(vec![Op::new(Kind::Match, n)]))
            .set_sequence(Sequence::from(bases))
            .set_quality_scores(QualityScores::from((0..n).map(|_| rng.below(40) as u8).collect::<Vec<u8>>()));
    } else {
        let n = 3 + rng.below(8) as usize;
        b = b
            .set_flags(Flags::UNMAPPED)
            .set_sequence(Sequence::from((0..n).map(|_| *rng.pick(b"ACGT")).collect::<Vec<u8>>()))
            .set_quality_scores(QualityScores::from((0..n).map(|_| rng.below(40) as u8).collect::<Vec<u8>>()));
    }
    b.build()
}

/// independent walk over a CRAM file: end offset of the file definition and of every container
/// (including the header container and the EOF container); length of each container header
fn frame_cram(file: &[u8]) -> (Vec<usize>, Vec<usize>, Vec<usize>) {
    fn itf8_len(b: u8) -> usize {
        if b & 0x80 == 0 { 1 } else if b & 0x40 == 0 { 2 } else if b & 0x20 == 0 { 3 } else if b & 0x10 == 0 { 4 } else { 5 }
    }
    fn ltf8_len(b: u8) -> usize {
        1 + (b.leading_ones() as usize).min(8)
    }
    fn itf8_val(s: &[u8]) -> usize {
        let b0 = s[0] as u32;
        (match itf8_len(s[0]) {
            1 => b0,
            2 => (b0 & 0x7f) << 8 | s[1] as u32,
            3 => (b0 & 0x3f) << 16 | (s[1] as u32) << 8 | s[2] as u32,
            4 => (b0 & 0x1f) << 24 | (s[1] as u32) << 16 | (s[2] as u32) << 8 | s[3] as u32,
            _ => (b0 & 0x0f) << 28 | (s[1] as u32) << 20 | (s[2] as u32) << 12 | (s[3] as u32) << 4 | (s[4] as u32 & 0x0f),
        }) as usize
    }
    let mut ends = vec![26usize];
    let mut hdr_lens = vec![];
    let mut nrecs = vec![];
    let mut o = 26;
    while o < file.len() {
        let start = o;
        let len = i32::from_le_bytes(file[o..o + 4].try_into().unwrap()) as usize;
        o += 4;
        for _ in 0..3 {
            o += itf8_len(file[o]);
        }
        nrecs.push(itf8_val(&file[o..]));
        o += itf8_len(file[o]);
        for _ in 0..2 {
            o += ltf8_len(file[o]);
        }
        o += itf8_len(file[o]);
        let nl = itf8_val(&file[o..]);
        o += itf8_len(file[o]);
        for _ in 0..nl {
            o += itf8_len(file[o]);
        }
        o += 4;
        hdr_lens.push(o - start);
        o += len;
        ends.push(o);
    }
    assert_eq!(o, file.len());
    (ends, hdr_lens, nrecs)
}

fn read_cram(b: &[u8], repo: fasta::Repository) -> Out {
    let mut r = cram::io::reader::Builder::default().set_reference_sequence_repository(repo).build_from_reader(b);
    let header = match r.read_header() {
        Ok(h) => h,
        Err(e) => return Out { header: None, items: vec![], end: End::of(&e) },
    };
    let htxt = sam_header_text(&header);
    let mut items = vec![];
    let mut end = End::Eof;
    for rec in r.records(&header) {
        match rec {
            Ok(rb) => {
                items.push(format!("{rb:?}"));
                if items.len() > MAX_ITEMS {
                    break;
                }
            }
            Err(e) => {
                end = End::of(&e);
                break;
            }
        }
    }
    Out { header: Some(htxt), items, end }
}

/// container-level walk with the public `read_container`: for the correspondence
fn cram_containers(b: &[u8]) -> String {
    let r = guarded(|| {
        let mut r = cram::io::Reader::new(b);
        if let Err(e) = r.read_file_definition() {
            return format!("def:{}", errclass(&e));
        }
        let mut c = cram::io::reader::Container::default();
        let mut lens = vec![];
        let end = loop {
            match r.read_container(&mut c) {
                Ok(0) => break End::Eof,
                Ok(n) => {
                    lens.push(n.to_string());
                    if lens.len() > MAX_ITEMS {
                        break End::Eof;
                    }
                }
                Err(e) => break End::of(&e),
            }
        };
        format!("{} {}", if lens.is_empty() { "-".to_string() } else { lens.join(",") }, end.txt())
    });
    r.unwrap_or_else(|_| "panic".into())
}

fn cram_case(ctx: &mut Ctx, sub: u64, only: Option<usize>) {
    use sam::alignment::io::Write as _;
    let mut rng = Rng::new(sub);
    let many = sub % 2 == 1;
    let (refs, header) = cram_reference();
    let repo = fasta::Repository::new(refs.clone());
    // container layout through the cfg(noodles_verif) hook: records per slice x slices per container
    let (rps, spc) = *rng.pick(&[(2usize, 1usize), (2, 1), (1, 2), (2, 2), (3, 1)]);
    let nrec = if many { 2 * rps * spc + rng.below((rps * spc) as u64 + 1) as usize } else { 1 + rng.below(2) as usize };
    // the writer rejects a container whose slices have different reference contexts ("invalid slice
    // reference sequence context"; only reachable through the layout hook, the default is one slice
    // per container): multi-slice layouts get records on one reference only
    let force_ref = if many && spc > 1 { Some(0) } else { None };
    let mut recs: Vec<_> = (0..nrec).map(|i| gen_cram_record(&mut rng, i, &refs, force_ref)).collect();
    // CRAM containers hold coordinate-ordered slices; keep input order arbitrary but stable
    let _ = &mut recs;
    let mut file = Vec::new();
    {
        let b = cram::io::writer::Builder::default().set_reference_sequence_repository(repo.clone());
        let mut w = if many { b.verif_build_from_writer_with_layout(&mut file, rps, spc) } else { b.build_from_writer(&mut file) };
        w.write_header(&header).unwrap();
        for r in &recs {
            w.write_alignment_record(&header, r).unwrap();
        }
        w.try_finish(&header).unwrap();
    }
    let (ends, hdr_lens, nrecs) = frame_cram(&file);
    // ends[0] = file definition, ends[1] = header container, ends[2..n-1] data containers, last = EOF container
    let ncont = ends.len() - 1;
    ctx.bump(&format!("file:cram-{}-data-containers", if ncont - 2 <= 1 { "1".to_string() } else { "2+".to_string() }));
    let full = run_guarded(|| read_cram(&file, repo.clone()));
    if full.end != End::Eof || full.items.len() != nrec || full.header.is_none() {
        ctx.fail("cram-reference-read", format!("the complete CRAM file does not read back: {} records of {nrec}, end {}", full.items.len(), full.end.txt()), format!("cram {sub}"));
        return;
    }
    // records per data container: the record count field of each container header, read by the
    // harness's own walker (containers 1..ncont-1 are the data containers)
    let per: Vec<usize> = nrecs[1..ncont - 1].to_vec();
    if per.iter().sum::<usize>() != nrec {
        ctx.fail("cram-reference-read", format!("container headers announce {} records, {nrec} were written", per.iter().sum::<usize>()), format!("cram {sub}"));
        return;
    }
    ctx.bump(&format!("file:cram-layout-{}", if many { format!("{rps}x{spc}") } else { "default".into() }));
    let htxt = full.header.clone().unwrap();
    let ex = Expect { fmt: "cram", header: Some(&htxt), items: &full.items };
    let fhex = hex(&file);
    let eof_start = ends[ncont - 1];
    let eof_hdr = hdr_lens[ncont - 1];
    for k in 0..=file.len() {
        if let Some(kk) = only {
            if kk != k {
                continue;
            }
        }
        let case = format!("cram {sub} {k}");
        let out = run_guarded(|| read_cram(&file[..k], repo.clone()));
        let hv = k >= ends[1];
        // data containers wholly inside
        let nwhole = ends[2..ncont].iter().take_while(|&&e| e <= k).count();
        let whole: usize = per[..nwhole.min(per.len())].iter().sum();
        // "ends inside a container": strictly between two container boundaries. (At a boundary the
        // present code reports an error too — there is no EOF container — and the model says so; the
        // property does not demand it, so the oracle accepts either outcome there.) The reader stops at
        // the EOF container's header and never reads its 15-byte body, so a cut inside that body is a
        // clean end with every record delivered: recorded as an observation, not as a violation.
        let in_eof_body = k >= eof_start + eof_hdr && k < file.len();
        let at_boundary = ends[1..].contains(&k);
        let inside = !at_boundary && !in_eof_body;
        ctx.eval(if ncont >= 4 { Some(fnv(case.as_bytes())) } else { None });
        let ok = judge(ctx, &ex, &out, hv, whole, Some(inside), &case);
        if ok && in_eof_body {
            ctx.bump(if out.end == End::Eof { "cram:cut-in-eof-container-body:clean-eof" } else { "cram:cut-in-eof-container-body:error" });
        }
        ctx.bump(&format!("cram:end:{}", out.end.txt()));
        if only.is_none() {
            ctx.corr(format!("c13 cram {k} {fhex}"), cram_containers(&file[..k]));
        }
    }
}

// ------------------------------------------------------------------ index files

fn vp(n: u64) -> bgzf::VirtualPosition {
    bgzf::VirtualPosition::from(n)
}

fn small_index<I>(rng: &mut Rng, nref: usize, header: Option<csi::binning_index::index::Header>, unplaced: u64) -> csi::binning_index::Index<I>
where
    I: csi::binning_index::index::reference_sequence::Index + Default,
{
    use csi::binning_index::{index::reference_sequence::bin::Chunk, Indexer};
    let mut ix = Indexer::<I>::new(14, 5);
    if let Some(h) = header {
        ix = ix.set_header(h);
    }
    let mut off = 100u64;
    for rid in 0..nref {
        let n = rng.below(4);
        let mut s = 1 + rng.below(50_000) as usize;
        for _ in 0..n {
            let e = s + rng.below(40_000) as usize;
            let c = Chunk::new(vp(off << 16), vp((off + 50) << 16));
            off += 50;
            ix.add_record(Some((rid, Position::try_from(s).unwrap(), Position::try_from(e).unwrap(), true)), c).unwrap();
            s += rng.below(60_000) as usize;
        }
    }
    for _ in 0..unplaced {
        ix.add_record(None, Chunk::new(vp(0), vp(0))).unwrap();
    }
    ix.build(nref)
}

/// Whole-file index readers: on a strict prefix the result must be an error, or an index equal to
/// the original (`same`), or one of the explicitly allowed prefix forms (`allowed`, with a tag).
fn index_cuts<T>(
    ctx: &mut Ctx,
    fmt: &str,
    sub: u64,
    file: &[u8],
    only: Option<usize>,
    read: impl Fn(&[u8]) -> std::io::Result<T>,
    classify: impl Fn(&T, usize) -> Result<&'static str, String>,
) {
    for k in 0..=file.len() {
        if let Some(kk) = only {
            if kk != k {
                continue;
            }
        }
        let case = format!("{fmt} {sub} {k}");
        ctx.eval(if file.len() > 40 { Some(fnv(case.as_bytes())) } else { None });
        match guarded(|| read(&file[..k])) {
            Err(p) => ctx.fail(&format!("panic:{fmt}"), format!("{fmt} reader panicked on an index cut at {k} of {}: {p}", file.len()), case),
            Ok(Err(e)) => {
                if k == file.len() {
                    ctx.fail(&format!("{fmt}-reference-read"), format!("complete {fmt} does not read back: {e}"), case);
                } else {
                    ctx.bump(&format!("{fmt}:end:{}", errclass(&e)));
                }
            }
            Ok(Ok(ix)) => match classify(&ix, k) {
                Ok(tag) => ctx.bump(&format!("{fmt}:ok:{tag}")),
                Err(why) => ctx.fail(&format!("fabricated:{fmt}"), format!("{fmt} cut at {k} of {}: {why}", file.len()), case),
            },
        }
    }
}

fn index_case(ctx: &mut Ctx, sub: u64, only: Option<(String, usize)>) {
    use csi::binning_index::index::reference_sequence::index::{BinnedIndex, LinearIndex};
    use csi::binning_index::BinningIndex;
    let mut rng = Rng::new(sub);
    let many = sub % 2 == 1;
    let nref = if many { 2 + rng.below(2) as usize } else { 1 };
    let pick = |name: &str| -> Option<Option<usize>> {
        match &only {
            None => Some(None),
            Some((w, k)) if w == name => Some(Some(*k)),
            _ => None,
        }
    };
    // ---- BAI
    {
        let unplaced = rng.below(3);
        let idx: bam::bai::Index = small_index::<LinearIndex>(&mut rng, nref, None, unplaced);
        let mut w = bam::bai::io::Writer::new(Vec::new());
        w.write_index(&idx).unwrap();
        let file = w.into_inner();
        let flen = file.len();
        // the reference is what the reader makes of the complete file (C17 owns write/read equality)
        let idx = match bam::bai::io::Reader::new(&file[..]).read_index() {
            Ok(i) => i,
            Err(e) => {
                ctx.fail("bai-reference-read", format!("complete bai does not read back: {e}"), format!("bai {sub}"));
                return;
            }
        };
        let has_count = idx.unplaced_unmapped_record_count().is_some();
        if let Some(o) = pick("bai") {
            ctx.bump("file:bai");
            index_cuts(ctx, "bai", sub, &file, o, |b| bam::bai::io::Reader::new(b).read_index(), |ix, k| {
                if *ix == idx {
                    if k == flen { Ok("complete") } else { Err("a strict prefix of the file produced the complete index".into()) }
                } else if has_count && k >= flen - 8 && ix.unplaced_unmapped_record_count().is_none() && ix.reference_sequences() == idx.reference_sequences() {
                    // the optional trailing n_no_coor is cut: everything before it is delivered unchanged
                    Ok("prefix-without-optional-n_no_coor")
                } else {
                    Err("an index different from the written one was returned".into())
                }
            });
        }
    }
    // ---- tabix (BGZF)
    {
        let names = (0..nref).map(|i| bstr::BString::from(format!("sq{i}"))).collect();
        let header = csi::binning_index::index::header::Builder::vcf().set_reference_sequence_names(names).build();
        let unplaced = rng.below(3);
        let idx: noodles_tabix::Index = small_index::<LinearIndex>(&mut rng, nref, Some(header), unplaced);
        let mut w = noodles_tabix::io::Writer::new(Vec::new());
        w.write_index(&idx).unwrap();
        w.try_finish().unwrap();
        let file = w.into_inner().into_inner();
        let idx = match noodles_tabix::io::Reader::new(&file[..]).read_index() {
            Ok(i) => i,
            Err(e) => {
                ctx.fail("tbi-reference-read", format!("complete tbi does not read back: {e}"), format!("tbi {sub}"));
                return;
            }
        };
        let (ends, _) = member_table(&file);
        let data_end = ends[ends.len() - 2.min(ends.len())];
        if let Some(o) = pick("tbi") {
            ctx.bump("file:tbi");
            index_cuts(ctx, "tbi", sub, &file, o, |b| noodles_tabix::io::Reader::new(b).read_index(), |ix, k| {
                if *ix == idx {
                    if k >= data_end { Ok("complete-data-members") } else { Err("complete index from a file whose data members are cut".into()) }
                } else {
                    Err("an index different from the written one was returned".into())
                }
            });
        }
    }
    // ---- tabix with a linear index of several 64 KiB BGZF blocks (a record far into the reference)
    if sub % 8 == 3 {
        use csi::binning_index::{index::reference_sequence::bin::Chunk, Indexer};
        let names = (0..2).map(|i| bstr::BString::from(format!("sq{i}"))).collect();
        let header = csi::binning_index::index::header::Builder::vcf().set_reference_sequence_names(names).build();
        let mut ix = Indexer::<LinearIndex>::new(14, 5).set_header(header);
        let far = 200_000_000 + rng.below(300_000_000) as usize;
        for (rid, s) in [(0usize, 100usize), (0, far), (1, 5000), (1, far / 2)] {
            ix.add_record(Some((rid, Position::try_from(s).unwrap(), Position::try_from(s + 10).unwrap(), true)), Chunk::new(vp((s as u64) << 16), vp(((s + 50) as u64) << 16))).unwrap();
        }
        let idx: noodles_tabix::Index = ix.build(2);
        let mut w = noodles_tabix::io::Writer::new(Vec::new());
        w.write_index(&idx).unwrap();
        w.try_finish().unwrap();
        let file = w.into_inner().into_inner();
        let (ends, _) = member_table(&file);
        let data_end = ends[ends.len() - 2.min(ends.len())];
        if let (Some(o), Ok(idx)) = (pick("tbibig"), noodles_tabix::io::Reader::new(&file[..]).read_index()) {
            ctx.bump(&format!("file:tbi-{}-blocks", ends.len() - 1));
            index_cuts(ctx, "tbibig", sub, &file, o, |b| noodles_tabix::io::Reader::new(b).read_index(), |ix, k| {
                if *ix == idx {
                    if k >= data_end { Ok("complete-data-members") } else { Err("complete index from a file whose data members are cut".into()) }
                } else {
                    Err("an index different from the written one was returned".into())
                }
            });
        }
    }
    // ---- CSI (BGZF)
    {
        let unplaced = rng.below(3);
        let idx: csi::Index = small_index::<BinnedIndex>(&mut rng, nref, None, unplaced);
        let mut w = csi::io::Writer::new(Vec::new());
        w.write_index(&idx).unwrap();
        let file = w.into_inner().finish().unwrap();
        let idx = match csi::io::Reader::new(&file[..]).read_index() {
            Ok(i) => i,
            Err(e) => {
                ctx.fail("csi-reference-read", format!("complete csi does not read back: {e}"), format!("csi {sub}"));
                return;
            }
        };
        let (ends, _) = member_table(&file);
        let data_end = ends[ends.len() - 2.min(ends.len())];
        if let Some(o) = pick("csi") {
            ctx.bump("file:csi");
            index_cuts(ctx, "csi", sub, &file, o, |b| csi::io::Reader::new(b).read_index(), |ix, k| {
                if *ix == idx {
                    if k >= data_end { Ok("complete-data-members") } else { Err("complete index from a file whose data members are cut".into()) }
                } else {
                    Err("an index different from the written one was returned".into())
                }
            });
        }
    }
    // ---- gzi
    {
        let n = if many { 2 + rng.below(4) } else { rng.below(2) };
        let (mut c, mut u) = (0u64, 0u64);
        let v: Vec<(u64, u64)> = (0..n)
            .map(|_| {
                c += 28 + rng.below(65000);
                u += 1 + rng.below(65536);
                (c, u)
            })
            .collect();
        let idx = bgzf::gzi::Index::from(v);
        let mut w = bgzf::gzi::io::Writer::new(Vec::new());
        w.write_index(&idx).unwrap();
        let file = w.into_inner();
        let flen = file.len();
        if let Some(o) = pick("gzi") {
            ctx.bump("file:gzi");
            index_cuts(ctx, "gzi", sub, &file, o, |b| bgzf::gzi::io::Reader::new(b).read_index(), |ix, k| {
                if *ix == idx && k == flen { Ok("complete") } else { Err(format!("a strict prefix was accepted as an index with {} entries", ix.as_ref().len())) }
            });
        }
    }
    // ---- fai (text, line per record)
    {
        use fasta::fai;
        let n = if many { 2 + rng.below(4) as usize } else { rng.below(2) as usize };
        let recs: Vec<fai::Record> = (0..n)
            .map(|i| {
                let lb = 1 + rng.below(200);
                fai::Record::new(format!("sq{i}"), 1 + rng.below(1 << 20), rng.below(1 << 30), NonZero::new(lb).unwrap(), NonZero::new(lb + 1).unwrap())
            })
            .collect();
        let idx = fai::Index::from(recs.clone());
        let mut w = fai::io::Writer::new(Vec::new());
        w.write_index(&idx).unwrap();
        let file = w.into_inner();
        let les = line_ends(&file);
        if let Some(o) = pick("fai") {
            ctx.bump("file:fai");
            let les2 = les.clone();
            index_cuts(ctx, "fai", sub, &file, o, |b| fai::io::Reader::new(b).read_index(), move |ix, k| {
                let got: &[fai::Record] = ix.as_ref();
                let whole = les2.iter().take_while(|&&e| e <= k).count();
                let at_boundary = whole == 0 && k == 0 || (whole > 0 && les2[whole - 1] == k);
                if got.len() < whole || got[..whole] != recs[..whole] {
                    return Err(format!("{} records returned, the first {whole} complete lines are not all delivered unchanged", got.len()));
                }
                if got.len() == whole {
                    Ok(if at_boundary { "prefix-at-line-boundary" } else { "prefix-partial-line-dropped" })
                } else if got.len() == whole + 1 && !at_boundary {
                    // text: the file ends inside this line (no terminator); the reader cannot know
                    Ok(if got[whole] == recs[whole] { "text-cut-midline-accepted-equal" } else { "text-cut-midline-accepted" })
                } else {
                    Err(format!("{} records returned from {whole} complete lines", got.len()))
                }
            });
        }
    }
    // ---- crai (gzip-compressed text)
    {
        use cram::crai;
        let n = if many { 2 + rng.below(4) as usize } else { rng.below(2) as usize };
        let recs: Vec<crai::Record> = (0..n)
            .map(|_| {
                let (rid, st, span) = if rng.chance(1, 5) { (None, None, 0) } else { (Some(rng.below(100) as usize), Position::new(1 + rng.below(1 << 30) as usize), rng.below(1 << 20) as usize) };
                crai::Record::new(rid, st, span, rng.below(1 << 40), rng.below(1 << 20), rng.below(1 << 30))
            })
            .collect();
        let mut w = crai::io::Writer::new(Vec::new());
        w.write_index(&recs).unwrap();
        let file = w.finish().unwrap();
        let flen = file.len();
        if let Some(o) = pick("crai") {
            ctx.bump("file:crai");
            index_cuts(ctx, "crai", sub, &file, o, |b| crai::io::Reader::new(b).read_index(), |ix, k| {
                if *ix == recs {
                    Ok(if k == flen { "complete" } else { "complete-from-prefix" })
                } else if ix.len() <= recs.len() && ix[..] == recs[..ix.len()] {
                    Ok("record-prefix")
                } else {
                    Err(format!("{} records returned that are not a prefix of the {} written", ix.len(), recs.len()))
                }
            });
        }
    }
}

// ------------------------------------------------------------------ driver

pub fn run(ctx: &mut Ctx) {
    if let Some(case) = ctx.replay_only.clone() {
        if !super::c13_more::replay(ctx, &case) && !super::c13_seek::replay(ctx, &case) { replay(ctx, &case); }
        return;
    }
    // a panic inside a case (an assumption of the harness about written files no longer holds, e.g.
    // the independent framers cannot walk what the writer produced) is reported, not fatal
    fn case(ctx: &mut Ctx, name: &str, sub: u64, f: impl FnOnce(&mut Ctx)) {
        if let Err(p) = guarded(|| f(ctx)) {
            ctx.fail("case-setup", format!("{name} {sub}: building or reference-reading the test file panicked: {p}"), format!("{name} {sub}"));
        }
    }
    case(ctx, "corpus", 0, corpus);
    let nfiles = ctx.n(4, 60);
    for it in 0..nfiles {
        let sub = ctx.seed.wrapping_mul(1_000_003).wrapping_add(it);
        case(ctx, "bgzf", sub, |c| bgzf_case(c, sub, None));
        case(ctx, "bam", sub, |c| framed_case(c, Kind::Bam, sub, None));
        case(ctx, "bcf", sub, |c| framed_case(c, Kind::Bcf, sub, None));
        case(ctx, "vcf.gz", sub, |c| text_case(c, true, sub, None));
        case(ctx, "sam.gz", sub, |c| text_case(c, false, sub, None));
        case(ctx, "cram", sub, |c| cram_case(c, sub, None));
    }
    for it in 0..ctx.n(8, 200) {
        let sub = ctx.seed.wrapping_mul(1_000_003).wrapping_add(it);
        case(ctx, "index", sub, |c| index_case(c, sub, None));
    }
    for it in 0..ctx.n(1, 3) {
        let sub = ctx.seed.wrapping_mul(1_000_003).wrapping_add(it);
        case(ctx, "bgzfbig", sub, |c| bgzf_big_case(c, sub, None));
        case(ctx, "bambig", sub, |c| bam_big_case(c, sub, None));
    }
    super::c13_more::run(ctx);
    super::c13_seek::run(ctx);
}

/// Hand-written boundary cases, run before anything random: one request per branch of the model
/// (including branches no cut of a well-formed file reaches: zero block size, `validate` failing,
/// container length 0, bad reference context, CRC mismatch, negative length).
fn corpus(ctx: &mut Ctx) {
    // ---- BGZF: the EOF marker alone; one stored member + EOF marker, cuts at every edge
    {
        let eof = crate::props::c01::EOF.to_vec();
        let t = inf_table(&eof);
        for k in 0..=eof.len() {
            let (got, end, _) = read_bgzf(&eof[..k], BgzfMode::ReadToEnd);
            ctx.corr(format!("c13 bgzf {k} {} {t}", hex(&eof)), format!("{} {}", hex(&got), end.txt()));
        }
        let mut f = crate::props::c01::stored_member(b"truncate me");
        let m = f.len();
        f.extend_from_slice(&eof);
        let t = inf_table(&f);
        for k in [0, 1, 17, 18, 19, m - 9, m - 8, m - 1, m, m + 1, m + 17, m + 18, m + 27, m + 28, m + 29] {
            let kk = k.min(f.len());
            let (got, end, _) = read_bgzf(&f[..kk], BgzfMode::ReadToEnd);
            ctx.corr(format!("c13 bgzf {k} {} {t}", hex(&f)), format!("{} {}", hex(&got), end.txt()));
        }
        ctx.bump("corpus:bgzf");
    }
    // ---- BAM record layer: minimal record, zero block size (reported as end of input even with
    // data behind it), block shorter than the fixed fields, name length running past the block
    {
        let rec32 = vec![0u8; 32];
        let framed = |r: &[u8]| -> Vec<u8> {
            let mut v = (r.len() as u32).to_le_bytes().to_vec();
            v.extend_from_slice(r);
            v
        };
        let mut streams: Vec<Vec<u8>> = vec![];
        streams.push(framed(&rec32));
        streams.push([framed(&rec32), vec![0, 0, 0, 0], framed(&rec32)].concat()); // zero size in the middle
        streams.push(framed(&[1, 2, 3, 4, 5, 6, 7, 8])); // block of 8 bytes: validate -> UnexpectedEof
        let mut bad = rec32.clone();
        bad[8] = 5; // name of 5 bytes does not fit
        streams.push([framed(&rec32), framed(&bad)].concat());
        let mut bad2 = rec32.clone();
        bad2[16] = 3; // 3 bases: 2 packed + 3 qualities do not fit
        streams.push(framed(&bad2));
        let mut ok2 = vec![0u8; 32 + 2 + 4 + 1 + 2];
        ok2[8] = 2; // name "a\\0"
        ok2[12] = 1; // one CIGAR op
        ok2[16] = 2; // two bases
        streams.push(framed(&ok2));
        for st in &streams {
            for k in 0..=st.len() {
                ctx.corr(format!("c13 bam {k} {}", hex(st)), bam_sizes_raw(&st[..k], 0));
            }
        }
        ctx.bump("corpus:bam");
    }
    // ---- BCF record layer: l_shared = 0 is the end of input; minimal site blocks are rejected by
    // Fields::index (not modelled), so the remaining branches are visited by the generated files
    {
        let st: Vec<u8> = vec![0, 0, 0, 0, 9, 9, 9, 9, 9, 9];
        for k in 0..=st.len() {
            ctx.corr(format!("c13 bcf {k} {}", hex(&st)), bcf_sizes_raw(&st[..k], 0));
        }
        ctx.bump("corpus:bcf");
    }
    // ---- CRAM containers: EOF container only; hand-made headers with a valid CRC
    {
        let def: Vec<u8> = [b"CRAM".to_vec(), vec![3, 0], vec![0u8; 20]].concat();
        let eof = cram_eof_bytes();
        let with_crc = |h: &[u8]| -> Vec<u8> { [h.to_vec(), crc32(h).to_le_bytes().to_vec()].concat() };
        let mut files: Vec<Vec<u8>> = vec![];
        files.push([def.clone(), eof.clone()].concat());
        files.push([b"CRAX".to_vec(), vec![3, 0], vec![0u8; 20], eof.clone()].concat()); // bad magic
        // one container of 3 bytes: len=3, ref 0, start 1, span 1, counts 0, no landmarks
        let h_ok = with_crc(&[3, 0, 0, 0, 0, 1, 1, 0, 0, 0, 0, 0]);
        files.push([def.clone(), h_ok.clone(), vec![7, 8, 9], eof.clone()].concat());
        // two landmarks, multi-byte ITF8 (0x87 0x55 = 1877) and LTF8 values
        let h_lm = with_crc(&[2, 0, 0, 0, 0xff, 0xff, 0xff, 0xff, 0x0f, 0, 0, 0x87, 0x55, 0xc0, 0x12, 0x34, 0x80, 0x01, 2, 2, 0, 0x81, 0x00]);
        files.push([def.clone(), h_lm.clone(), vec![1, 2], eof.clone()].concat());
        // length field 0: reported as the end of input
        let h_len0 = with_crc(&[0, 0, 0, 0, 0, 1, 1, 0, 0, 0, 0, 0]);
        files.push([def.clone(), h_len0, h_ok.clone(), vec![7, 8, 9], eof.clone()].concat());
        // reference id 0 with start 0: InvalidData from ReferenceSequenceContext::try_from
        let h_ctx = with_crc(&[3, 0, 0, 0, 0, 0, 1, 0, 0, 0, 0, 0]);
        files.push([def.clone(), h_ctx, vec![7, 8, 9], eof.clone()].concat());
        // multi-reference marker (-2) with zero start/span is accepted
        let h_multi = with_crc(&[1, 0, 0, 0, 0xff, 0xff, 0xff, 0xff, 0x0e, 0, 0, 0, 0, 0, 0, 0]);
        files.push([def.clone(), h_multi, vec![7], eof.clone()].concat());
        // negative record count (ITF8 -1): InvalidData
        let h_neg = with_crc(&[1, 0, 0, 0, 0, 1, 1, 0xff, 0xff, 0xff, 0xff, 0x0f, 0, 0, 0, 0]);
        files.push([def.clone(), h_neg, vec![7], eof.clone()].concat());
        // negative length: InvalidData before anything else is read
        files.push([def.clone(), vec![0xff, 0xff, 0xff, 0xff, 0, 1, 1, 0, 0, 0, 0, 0, 1, 2, 3, 4]].concat());
        // CRC mismatch
        let mut h_bad = h_ok.clone();
        let n = h_bad.len();
        h_bad[n - 1] ^= 1;
        files.push([def.clone(), h_bad, vec![7, 8, 9], eof.clone()].concat());
        for f in &files {
            for k in 0..=f.len() {
                ctx.corr(format!("c13 cram {k} {}", hex(f)), cram_containers(&f[..k]));
            }
        }
        ctx.bump("corpus:cram");
    }
}

fn cram_eof_bytes() -> Vec<u8> {
    // what the writer emits for an empty file: definition, header container, EOF container
    let mut file = Vec::new();
    {
        let header = sam::Header::default();
        let mut w = cram::io::Writer::new(&mut file);
        w.write_header(&header).unwrap();
        w.try_finish(&header).unwrap();
    }
    file[file.len() - 38..].to_vec()
}

fn replay(ctx: &mut Ctx, case: &[String]) {
    let sub: u64 = case.get(1).and_then(|s| s.parse().ok()).unwrap_or(0);
    let num = |i: usize| -> Option<usize> { case.get(i).and_then(|s| s.parse().ok()) };
    match case.first().map(|s| s.as_str()) {
        Some("bgzf") => bgzf_case(ctx, sub, num(2)),
        Some("bgzfbig") => bgzf_big_case(ctx, sub, num(2)),
        Some("bambig") => bam_big_case(ctx, sub, num(2)),
        Some("bam") => framed_case(ctx, Kind::Bam, sub, num(3).map(|k| (case[2].clone(), k))),
        Some("bcf") => framed_case(ctx, Kind::Bcf, sub, num(3).map(|k| (case[2].clone(), k))),
        Some("vcf.gz") => text_case(ctx, true, sub, num(3).map(|k| (case[2].clone(), k))),
        Some("sam.gz") => text_case(ctx, false, sub, num(3).map(|k| (case[2].clone(), k))),
        Some("cram") => cram_case(ctx, sub, num(2)),
        Some(f @ ("bai" | "tbi" | "tbibig" | "csi" | "gzi" | "fai" | "crai")) => index_case(ctx, sub, num(2).map(|k| (f.to_string(), k))),
        _ => {}
    }
}
