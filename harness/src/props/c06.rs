//! C06 — SAM text round trip, fixed point, SAM ≡ BAM.
//!
//! Correspondence (`c06 …` requests, answered by `lean/Noodles/Sam/DriverC06.lean`):
//!   rec      record → real `sam::io::Writer` line (or error class) → real reader's parse of that line
//!   parse    hostile / mutated record line → real reader's parse (record or error class)
//!   hdr      header value → real header text → real `read_header` of it
//!   hparse   header text with any mix/order of lines → real `read_header`
//!   bam      record → real BAM writer + reader → record read back
//!   bamhdr   header value → raw BAM header block bytes → real BAM `read_header`
//!   bamhparse hand-framed BAM header blocks
//!   num      lexical-core integer parsing (complete and partial) on a boundary table
//! Oracle (the property on the real code, no model involved): see `oracle_*` below.
use crate::common::*;
use bstr::BString;
use noodles_bam as bam;
use noodles_core::Position;
use noodles_sam as sam;
use sam::alignment::io::Write as _;
use sam::alignment::record::cigar::{op::Kind, Op};
use sam::alignment::record::data::field::Tag;
use sam::alignment::record::{Flags, MappingQuality};
use sam::alignment::record_buf::data::field::{value::Array, Value};
use sam::alignment::record_buf::{Cigar, Data, QualityScores, Sequence};
use sam::alignment::RecordBuf;
use sam::header::record::value::{
    map::{self, header::Version, Program, ReadGroup, ReferenceSequence},
    Map,
};
use std::num::NonZero;

// ------------------------------------------------------------------ plain mirror of the values

#[derive(Clone, Debug, PartialEq)]
pub enum MVal {
    Char(u8),
    /// type letter (c C s S i I), value
    Int(char, i64),
    Float(u32),
    Str(Vec<u8>),
    Hex(Vec<u8>),
    IArr(char, Vec<i64>),
    FArr(Vec<u32>),
}

#[derive(Clone, Debug, PartialEq)]
pub struct MRec {
    pub name: Option<Vec<u8>>,
    pub flags: u16,
    pub rid: Option<usize>,
    pub pos: usize,
    pub mapq: u8,
    pub cigar: Vec<(char, usize)>,
    pub mrid: Option<usize>,
    pub mpos: usize,
    pub tlen: i32,
    pub seq: Vec<u8>,
    pub qual: Vec<u8>,
    pub data: Vec<([u8; 2], MVal)>,
}

pub type Others = Vec<([u8; 2], Vec<u8>)>;

#[derive(Clone, Debug, PartialEq, Default)]
pub struct MHdr {
    pub hd: Option<(u32, u32, Others)>,
    pub sq: Vec<(Vec<u8>, usize, Others)>,
    pub rg: Vec<(Vec<u8>, Others)>,
    pub pg: Vec<(Vec<u8>, Others)>,
    pub co: Vec<Vec<u8>>,
}

fn kind_of(c: char) -> Kind {
    match c {
        'M' => Kind::Match,
        'I' => Kind::Insertion,
        'D' => Kind::Deletion,
        'N' => Kind::Skip,
        'S' => Kind::SoftClip,
        'H' => Kind::HardClip,
        'P' => Kind::Pad,
        '=' => Kind::SequenceMatch,
        _ => Kind::SequenceMismatch,
    }
}
fn kind_ch(k: Kind) -> char {
    match k {
        Kind::Match => 'M',
        Kind::Insertion => 'I',
        Kind::Deletion => 'D',
        Kind::Skip => 'N',
        Kind::SoftClip => 'S',
        Kind::HardClip => 'H',
        Kind::Pad => 'P',
        Kind::SequenceMatch => '=',
        Kind::SequenceMismatch => 'X',
    }
}
fn consumes_read(c: char) -> bool {
    matches!(c, 'M' | 'I' | 'S' | '=' | 'X')
}

fn to_value(v: &MVal) -> Value {
    match v {
        MVal::Char(c) => Value::Character(*c),
        MVal::Int('c', n) => Value::Int8(*n as i8),
        MVal::Int('C', n) => Value::UInt8(*n as u8),
        MVal::Int('s', n) => Value::Int16(*n as i16),
        MVal::Int('S', n) => Value::UInt16(*n as u16),
        MVal::Int('i', n) => Value::Int32(*n as i32),
        MVal::Int(_, n) => Value::UInt32(*n as u32),
        MVal::Float(b) => Value::Float(f32::from_bits(*b)),
        MVal::Str(s) => Value::String(BString::from(s.clone())),
        MVal::Hex(s) => Value::Hex(BString::from(s.clone())),
        MVal::IArr('c', l) => Value::Array(Array::Int8(l.iter().map(|&n| n as i8).collect())),
        MVal::IArr('C', l) => Value::Array(Array::UInt8(l.iter().map(|&n| n as u8).collect())),
        MVal::IArr('s', l) => Value::Array(Array::Int16(l.iter().map(|&n| n as i16).collect())),
        MVal::IArr('S', l) => Value::Array(Array::UInt16(l.iter().map(|&n| n as u16).collect())),
        MVal::IArr('i', l) => Value::Array(Array::Int32(l.iter().map(|&n| n as i32).collect())),
        MVal::IArr(_, l) => Value::Array(Array::UInt32(l.iter().map(|&n| n as u32).collect())),
        MVal::FArr(l) => Value::Array(Array::Float(l.iter().map(|&b| f32::from_bits(b)).collect())),
    }
}
fn from_value(v: &Value) -> MVal {
    match v {
        Value::Character(c) => MVal::Char(*c),
        Value::Int8(n) => MVal::Int('c', *n as i64),
        Value::UInt8(n) => MVal::Int('C', *n as i64),
        Value::Int16(n) => MVal::Int('s', *n as i64),
        Value::UInt16(n) => MVal::Int('S', *n as i64),
        Value::Int32(n) => MVal::Int('i', *n as i64),
        Value::UInt32(n) => MVal::Int('I', *n as i64),
        Value::Float(x) => MVal::Float(x.to_bits()),
        Value::String(s) => MVal::Str(s.to_vec()),
        Value::Hex(s) => MVal::Hex(s.to_vec()),
        Value::Array(Array::Int8(l)) => MVal::IArr('c', l.iter().map(|&n| n as i64).collect()),
        Value::Array(Array::UInt8(l)) => MVal::IArr('C', l.iter().map(|&n| n as i64).collect()),
        Value::Array(Array::Int16(l)) => MVal::IArr('s', l.iter().map(|&n| n as i64).collect()),
        Value::Array(Array::UInt16(l)) => MVal::IArr('S', l.iter().map(|&n| n as i64).collect()),
        Value::Array(Array::Int32(l)) => MVal::IArr('i', l.iter().map(|&n| n as i64).collect()),
        Value::Array(Array::UInt32(l)) => MVal::IArr('I', l.iter().map(|&n| n as i64).collect()),
        Value::Array(Array::Float(l)) => MVal::FArr(l.iter().map(|x| x.to_bits()).collect()),
    }
}

pub fn to_real(r: &MRec) -> RecordBuf {
    let mut b = RecordBuf::default();
    *b.name_mut() = r.name.clone().map(BString::from);
    *b.flags_mut() = Flags::from_bits_retain(r.flags);
    *b.reference_sequence_id_mut() = r.rid;
    *b.alignment_start_mut() = Position::new(r.pos);
    *b.mapping_quality_mut() = MappingQuality::new(r.mapq);
    *b.cigar_mut() = Cigar::from(r.cigar.iter().map(|&(k, n)| Op::new(kind_of(k), n)).collect::<Vec<_>>());
    *b.mate_reference_sequence_id_mut() = r.mrid;
    *b.mate_alignment_start_mut() = Position::new(r.mpos);
    *b.template_length_mut() = r.tlen;
    *b.sequence_mut() = Sequence::from(r.seq.clone());
    *b.quality_scores_mut() = QualityScores::from(r.qual.clone());
    let mut d = Data::default();
    for (t, v) in &r.data {
        d.insert(Tag::new(t[0], t[1]), to_value(v));
    }
    *b.data_mut() = d;
    b
}

pub fn from_real(b: &RecordBuf) -> MRec {
    MRec {
        name: b.name().map(|n| n.to_vec()),
        flags: b.flags().bits(),
        rid: b.reference_sequence_id(),
        pos: b.alignment_start().map(usize::from).unwrap_or(0),
        mapq: b.mapping_quality().map(u8::from).unwrap_or(255),
        cigar: b.cigar().as_ref().iter().map(|op| (kind_ch(op.kind()), op.len())).collect(),
        mrid: b.mate_reference_sequence_id(),
        mpos: b.mate_alignment_start().map(usize::from).unwrap_or(0),
        tlen: b.template_length(),
        seq: b.sequence().as_ref().to_vec(),
        qual: b.quality_scores().as_ref().to_vec(),
        data: b.data().iter().map(|(t, v)| (<[u8; 2]>::from(t), from_value(v))).collect(),
    }
}

// ------------------------------------------------------------------ tokens (same grammar as DriverC06.lean)

fn hex_e(b: &[u8]) -> String {
    let mut s = String::with_capacity(b.len() * 2);
    for x in b {
        s.push_str(&format!("{x:02x}"));
    }
    s
}

fn tok_val(v: &MVal) -> String {
    match v {
        MVal::Char(c) => format!("A.{}", hex_e(&[*c])),
        MVal::Int(t, n) => format!("{t}.{n}"),
        MVal::Float(b) => format!("f.{b}"),
        MVal::Str(s) => format!("Z.{}", hex_e(s)),
        MVal::Hex(s) => format!("H.{}", hex_e(s)),
        MVal::IArr(t, l) => format!("B{t}.{}", l.iter().map(|n| format!("_{n}")).collect::<String>()),
        MVal::FArr(l) => format!("Bf.{}", l.iter().map(|n| format!("_{n}")).collect::<String>()),
    }
}

pub fn tok_rec(r: &MRec) -> String {
    let opt = |o: Option<usize>| o.map(|n| n.to_string()).unwrap_or_else(|| "~".into());
    format!(
        "{};{};{};{};{};{};{};{};{};{};{};{}",
        r.name.as_ref().map(|n| format!("n{}", hex_e(n))).unwrap_or_else(|| "~".into()),
        r.flags,
        opt(r.rid),
        r.pos,
        r.mapq,
        r.cigar.iter().map(|(k, n)| format!(",{n}{k}")).collect::<String>(),
        opt(r.mrid),
        r.mpos,
        r.tlen,
        hex_e(&r.seq),
        hex_e(&r.qual),
        r.data.iter().map(|(t, v)| format!("|{}.{}", hex_e(t), tok_val(v))).collect::<String>()
    )
}

fn tok_refs(refs: &[Vec<u8>]) -> String {
    format!("r{}", refs.iter().map(|n| format!(",{}", hex_e(n))).collect::<String>())
}

fn tok_others(o: &Others) -> String {
    o.iter().map(|(t, v)| format!(",{}={}", hex_e(t), hex_e(v))).collect()
}

pub fn tok_hdr(h: &MHdr) -> String {
    let hd = match &h.hd {
        None => "~".to_string(),
        Some((a, b, o)) => format!("{a}.{b}{}", tok_others(o)),
    };
    let sq: String = h.sq.iter().map(|(n, l, o)| format!("|{}:{}{}", hex_e(n), l, tok_others(o))).collect();
    let rg: String = h.rg.iter().map(|(i, o)| format!("|{}{}", hex_e(i), tok_others(o))).collect();
    let pg: String = h.pg.iter().map(|(i, o)| format!("|{}{}", hex_e(i), tok_others(o))).collect();
    let co: String = h.co.iter().map(|c| format!("|{}", hex_e(c))).collect();
    format!("{hd}/{sq}/{rg}/{pg}/{co}")
}

// ------------------------------------------------------------------ headers: mirror <-> real

fn others_into<S>(dst: &mut indexmap::IndexMap<map::tag::Other<S>, BString>, o: &Others) -> bool
where
    S: map::tag::Standard,
{
    for (t, v) in o {
        match map::tag::Other::<S>::try_from(*t) {
            Ok(tag) => {
                dst.insert(tag, BString::from(v.clone()));
            }
            Err(_) => return false, // a standard tag cannot be an "other" key: not a header value
        }
    }
    true
}

/// None when the mirror is not a `sam::Header` value (standard tag among the other fields,
/// zero length).
pub fn to_real_hdr(h: &MHdr) -> Option<sam::Header> {
    let mut out = sam::Header::default();
    if let Some((a, b, o)) = &h.hd {
        let mut m = Map::<map::Header>::new(Version::new(*a, *b));
        if !others_into(m.other_fields_mut(), o) {
            return None;
        }
        *out.header_mut() = Some(m);
    }
    for (n, l, o) in &h.sq {
        let mut m = Map::<ReferenceSequence>::new(NonZero::new(*l)?);
        if !others_into(m.other_fields_mut(), o) {
            return None;
        }
        out.reference_sequences_mut().insert(BString::from(n.clone()), m);
    }
    for (i, o) in &h.rg {
        let mut m = Map::<ReadGroup>::default();
        if !others_into(m.other_fields_mut(), o) {
            return None;
        }
        out.read_groups_mut().insert(BString::from(i.clone()), m);
    }
    for (i, o) in &h.pg {
        let mut m = Map::<Program>::default();
        if !others_into(m.other_fields_mut(), o) {
            return None;
        }
        out.programs_mut().as_mut().insert(BString::from(i.clone()), m);
    }
    for c in &h.co {
        out.comments_mut().push(BString::from(c.clone()));
    }
    Some(out)
}

fn others_from<S>(src: &indexmap::IndexMap<map::tag::Other<S>, BString>) -> Others {
    src.iter().map(|(t, v)| (*t.as_ref(), v.to_vec())).collect()
}

pub fn from_real_hdr(h: &sam::Header) -> MHdr {
    MHdr {
        hd: h.header().map(|m| (m.version().major(), m.version().minor(), others_from(m.other_fields()))),
        sq: h.reference_sequences().iter().map(|(n, m)| (n.to_vec(), usize::from(m.length()), others_from(m.other_fields()))).collect(),
        rg: h.read_groups().iter().map(|(i, m)| (i.to_vec(), others_from(m.other_fields()))).collect(),
        pg: h.programs().as_ref().iter().map(|(i, m)| (i.to_vec(), others_from(m.other_fields()))).collect(),
        co: h.comments().iter().map(|c| c.to_vec()).collect(),
    }
}

fn refs_header(refs: &[Vec<u8>]) -> sam::Header {
    let mut h = sam::Header::default();
    for n in refs {
        h.reference_sequences_mut().insert(BString::from(n.clone()), Map::<ReferenceSequence>::new(NonZero::new(1000usize).unwrap()));
    }
    h
}

// ------------------------------------------------------------------ the real code, canonicalised

fn panic_class<T>(r: Result<Result<T, String>, String>) -> Result<T, String> {
    match r {
        Ok(x) => x,
        Err(p) => Err(format!("panic:{}", p.replace([' ', '\n', '\t'], "_"))),
    }
}

/// `sam::io::Writer::write_alignment_record`: the line without its `\n`, or the error class
pub fn real_write(h: &sam::Header, r: &RecordBuf) -> Result<Vec<u8>, String> {
    panic_class(guarded(|| {
        let mut w = sam::io::Writer::new(Vec::new());
        match w.write_alignment_record(h, r) {
            Ok(()) => {
                let mut v = w.into_inner();
                if v.last() == Some(&b'\n') {
                    v.pop();
                    Ok(v)
                } else {
                    Err("no-line-feed".to_string())
                }
            }
            Err(e) => Err(errclass(&e).to_string()),
        }
    }))
}

/// `sam::io::Reader::read_record_buf` on one line
pub fn real_parse(h: &sam::Header, line: &[u8]) -> Result<MRec, String> {
    panic_class(guarded(|| {
        let mut text = line.to_vec();
        text.push(b'\n');
        let mut rd = sam::io::Reader::new(&text[..]);
        let mut rec = RecordBuf::default();
        match rd.read_record_buf(h, &mut rec) {
            Ok(0) => Err("eof".to_string()),
            Ok(_) => Ok(from_real(&rec)),
            Err(e) => Err(errclass(&e).to_string()),
        }
    }))
}

pub fn real_hdr_write(h: &sam::Header) -> Result<Vec<u8>, String> {
    panic_class(guarded(|| {
        let mut w = sam::io::Writer::new(Vec::new());
        match w.write_header(h) {
            Ok(()) => Ok(w.into_inner()),
            Err(e) => Err(errclass(&e).to_string()),
        }
    }))
}

pub fn real_hdr_parse(text: &[u8]) -> Result<sam::Header, String> {
    panic_class(guarded(|| {
        let mut rd = sam::io::Reader::new(text);
        rd.read_header().map_err(|e| errclass(&e).to_string())
    }))
}

/// raw (not BGZF-wrapped) BAM header block
pub fn real_bam_hdr_write(h: &sam::Header) -> Result<Vec<u8>, String> {
    panic_class(guarded(|| {
        let mut w = bam::io::Writer::from(Vec::new());
        match w.write_header(h) {
            Ok(()) => Ok(w.into_inner()),
            Err(e) => Err(errclass(&e).to_string()),
        }
    }))
}

/// header and number of unread bytes
pub fn real_bam_hdr_read(bytes: &[u8]) -> Result<(sam::Header, usize), String> {
    panic_class(guarded(|| {
        let mut src = bytes;
        let mut rd = bam::io::Reader::from(&mut src);
        let h = rd.read_header().map_err(|e| errclass(&e).to_string())?;
        drop(rd);
        Ok((h, src.len()))
    }))
}

/// one record through the BAM writer and reader (raw stream, header with `nrefs` references first)
pub fn real_bam_roundtrip(h: &sam::Header, r: &RecordBuf) -> Result<MRec, String> {
    panic_class(guarded(|| {
        let mut w = bam::io::Writer::from(Vec::new());
        w.write_header(h).map_err(|e| format!("header:{}", errclass(&e)))?;
        w.write_alignment_record(h, r).map_err(|e| errclass(&e).to_string())?;
        let bytes = w.into_inner();
        let mut rd = bam::io::Reader::from(&bytes[..]);
        let h2 = rd.read_header().map_err(|e| format!("read-header:{}", errclass(&e)))?;
        let mut rec = RecordBuf::default();
        match rd.read_record_buf(&h2, &mut rec) {
            Ok(0) => Err("read:eof".to_string()),
            Ok(_) => Ok(from_real(&rec)),
            Err(e) => Err(format!("read:{}", errclass(&e))),
        }
    }))
}

// ------------------------------------------------------------------ the float library, called directly

pub fn lex_fmt(bits: u32) -> Vec<u8> {
    const FORMAT: u128 = lexical_core::format::STANDARD;
    let options = lexical_core::WriteFloatOptionsBuilder::new().trim_floats(true).build().unwrap();
    let mut dst = [0u8; 64];
    lexical_core::write_with_options::<_, FORMAT>(f32::from_bits(bits), &mut dst, &options).to_vec()
}
pub fn disp_fmt(bits: u32) -> Vec<u8> {
    format!("{}", f32::from_bits(bits)).into_bytes()
}
pub fn lex_parse(tok: &[u8]) -> Option<u32> {
    lexical_core::parse::<f32>(tok).ok().map(|x| x.to_bits())
}

fn ftab(r: Option<&MRec>, tokens: &[Vec<u8>]) -> String {
    let mut out = String::from("t");
    let mut toks: Vec<Vec<u8>> = tokens.to_vec();
    if let Some(r) = r {
        for (_, v) in &r.data {
            match v {
                MVal::Float(b) => {
                    let t = lex_fmt(*b);
                    out.push_str(&format!(",s{}:{}", b, hex_e(&t)));
                    toks.push(t);
                }
                MVal::FArr(l) => {
                    for b in l {
                        let t = disp_fmt(*b);
                        out.push_str(&format!(",a{}:{}", b, hex_e(&t)));
                        toks.push(t);
                    }
                }
                _ => {}
            }
        }
    }
    toks.sort();
    toks.dedup();
    for t in toks {
        match lex_parse(&t) {
            Some(b) => out.push_str(&format!(",p{}:{}", hex_e(&t), b)),
            None => out.push_str(&format!(",p{}:x", hex_e(&t))),
        }
    }
    out
}

/// every byte string in a record line that a reader could hand to the float parser: whatever
/// follows a `:f:` up to the next TAB, and the `,`-separated pieces after a `:B:f,` up to the next
/// TAB (an over-approximation on purpose: a mutated tag may itself contain a TAB, so the fields
/// cannot be found by splitting on TABs first; superfluous table entries are harmless)
fn float_tokens(line: &[u8]) -> Vec<Vec<u8>> {
    let mut out = vec![];
    let upto_tab = |from: usize| -> &[u8] {
        let end = line[from..].iter().position(|&b| b == b'\t').map(|k| from + k).unwrap_or(line.len());
        &line[from..end]
    };
    for i in 0..line.len() {
        if line[i..].starts_with(b":f:") {
            out.push(upto_tab(i + 3).to_vec());
        }
        if line[i..].starts_with(b":B:f,") {
            for t in upto_tab(i + 5).split(|&b| b == b',') {
                out.push(t.to_vec());
            }
        }
    }
    out
}

// ------------------------------------------------------------------ generators

const BAM_ALPHABET: &[u8] = b"=ACMGRSVTWYHKDBN";

/// boundary-dense f32 bit patterns (finite unless `allow_nonfinite`)
pub fn gen_f32_bits(rng: &mut Rng, allow_nonfinite: bool) -> u32 {
    const FIXED: &[u32] = &[
        0x0000_0000, 0x8000_0000, 0x0000_0001, 0x8000_0001, 0x007f_ffff, 0x0080_0000, 0x7f7f_ffff, 0xff7f_ffff,
        0x3f80_0000, 0xbf80_0000, 0x3fc0_0000, 0x3dcc_cccd, 0x3e99_999a, 0x4b80_0000, 0x4b7f_ffff, 0x4b00_0000,
        0x501502f9, 0x4e6e6b28, 0x33d6bf95, 0x3727c5ac, 0x38d1b717, 0x4996b43f, 0x4ceb79a3, 0x49742400,
    ];
    let b = match rng.below(10) {
        0..=2 => *rng.pick(FIXED),
        3 => (10f32).powi(rng.below(77) as i32 - 38).to_bits(), // powers of ten
        4 => ((rng.below(1_000_000_000) as f32) / 1000.0).to_bits(), // 9-digit-ish decimals
        5 => rng.below(0x0080_0000) as u32, // subnormals
        6 => (rng.below(2000) as f32 - 1000.0).to_bits(), // small integers
        _ => rng.next() as u32,
    };
    let finite = (b >> 23) & 0xff != 0xff;
    if finite || allow_nonfinite { b } else { b & 0xbf7f_ffff }
}

fn gen_name_bytes(rng: &mut Rng, len: usize) -> Vec<u8> {
    // [!-?A-~]: the full range the SAM specification allows for QNAME
    (0..len)
        .map(|_| loop {
            let b = 33 + rng.below(94) as u8;
            if b != b'@' {
                break b;
            }
        })
        .collect()
}

fn int_range(t: char) -> (i64, i64) {
    match t {
        'c' => (-128, 127),
        'C' => (0, 255),
        's' => (-32768, 32767),
        'S' => (0, 65535),
        'i' => (-2147483648, 2147483647),
        _ => (0, 4294967295),
    }
}
fn gen_int(rng: &mut Rng, t: char) -> i64 {
    let (lo, hi) = int_range(t);
    match rng.below(6) {
        0 => lo,
        1 => hi,
        2 => 0.max(lo),
        3 => *rng.pick(&[-1i64, 1, 127, 128, 255, 256, -128, -129, 32767, 32768, 65535, 65536, -32768, -32769]).clamp(&lo, &hi),
        _ => lo + (rng.next() % ((hi - lo + 1) as u64)) as i64,
    }
}

fn gen_value(rng: &mut Rng, hostile: bool) -> MVal {
    const TYS: &[char] = &['c', 'C', 's', 'S', 'i', 'I'];
    match rng.below(12) {
        0 => MVal::Char(if hostile && rng.chance(1, 6) { *rng.pick(&[b' ', 9u8, 0, 127, 200]) } else { 33 + rng.below(94) as u8 }),
        1..=3 => {
            let t = *rng.pick(TYS);
            MVal::Int(t, gen_int(rng, t))
        }
        4 | 5 => { let nf = hostile && rng.chance(1, 4); MVal::Float(gen_f32_bits(rng, nf)) }
        6 | 7 => {
            let n = *rng.pick(&[0usize, 1, 2, 5, 12, 40]);
            let mut s: Vec<u8> = (0..n).map(|_| 32 + rng.below(95) as u8).collect();
            if hostile && rng.chance(1, 6) && !s.is_empty() {
                let i = rng.below(s.len() as u64) as usize;
                s[i] = *rng.pick(&[9u8, 0, 127, 31, 200]);
            }
            MVal::Str(s)
        }
        8 => {
            let n = 2 * rng.below(6) as usize;
            let mut s: Vec<u8> = (0..n).map(|_| *rng.pick(b"0123456789ABCDEF")).collect();
            if hostile && rng.chance(1, 4) {
                match rng.below(3) {
                    0 => s.push(b'A'),
                    1 if !s.is_empty() => s[0] = b'a',
                    _ => s.push(b'G'),
                }
            }
            MVal::Hex(s)
        }
        9 | 10 => {
            let t = *rng.pick(TYS);
            let n = *rng.pick(&[0usize, 1, 2, 3, 7]);
            MVal::IArr(t, (0..n).map(|_| gen_int(rng, t)).collect())
        }
        _ => {
            let n = *rng.pick(&[0usize, 1, 2, 4]);
            MVal::FArr((0..n).map(|_| { let nf = hostile && rng.chance(1, 5); gen_f32_bits(rng, nf) }).collect())
        }
    }
}

fn gen_tag(rng: &mut Rng, hostile: bool) -> [u8; 2] {
    if hostile && rng.chance(1, 8) {
        return *rng.pick(&[*b"1A", *b"A_", *b"A\t", *b"  ", *b"a:"]);
    }
    if rng.chance(1, 40) {
        return *b"CG";
    }
    let a = *rng.pick(b"ABCDEFGHIJKLMNOPQRSTUVWXYZabcdefghijklmnopqrstuvwxyz");
    let b = *rng.pick(b"ABCDEFGHIJKLMNOPQRSTUVWXYZabcdefghijklmnopqrstuvwxyz0123456789");
    [a, b]
}

/// a record; `hostile` additionally mixes in values the writers must refuse
pub fn gen_rec(rng: &mut Rng, nrefs: usize, hostile: bool) -> MRec {
    let h = |rng: &mut Rng, num: u64, den: u64| hostile && rng.chance(num, den);
    let name = match rng.below(12) {
        0 => None,
        1 => Some(gen_name_bytes(rng, 254)),
        2 => Some(gen_name_bytes(rng, 1)),
        _ => {
            let n = 1 + rng.below(24) as usize;
            Some(gen_name_bytes(rng, n))
        }
    };
    let name = if h(rng, 1, 12) {
        Some(match rng.below(6) {
            0 => gen_name_bytes(rng, 255),
            1 => b"*".to_vec(),
            2 => vec![],
            3 => b"a@b".to_vec(),
            4 => b"a b".to_vec(),
            _ => b"a\tb".to_vec(),
        })
    } else {
        name
    };
    let flags = match rng.below(10) {
        0 => 0,
        1 => 4095,
        2 if hostile => *rng.pick(&[4096u16, 65535, 0x8001]),
        _ => rng.below(4096) as u16,
    };
    let gen_rid = |rng: &mut Rng| -> Option<usize> {
        if nrefs == 0 || rng.chance(1, 5) {
            if hostile && rng.chance(1, 6) { Some(nrefs + rng.below(2) as usize) } else { None }
        } else {
            Some(rng.below(nrefs as u64) as usize)
        }
    };
    let gen_pos = |rng: &mut Rng| -> usize {
        match rng.below(10) {
            0 => 0,
            1 => 1,
            2 => (1usize << 31) - 1,
            3 if hostile => *rng.pick(&[1usize << 31, (1usize << 31) + 1, usize::MAX >> 1]),
            4 => (1usize << 29) - 1 + rng.below(3) as usize,
            _ => 1 + rng.below(1_000_000) as usize,
        }
    };
    let rid = gen_rid(rng);
    let mrid = match rng.below(3) {
        0 => rid,
        _ => gen_rid(rng),
    };
    // sequence first, then a CIGAR that (usually) agrees with it
    let slen = match rng.below(10) {
        0 | 1 => 0,
        2 => 1,
        3 => 2,
        4 => *rng.pick(&[3usize, 15, 16, 17, 100, 255, 256]),
        _ => 1 + rng.below(40) as usize,
    };
    let alphabet: &[u8] = match rng.below(6) {
        0 => b"acgtn",
        1 => b"ACGTNacgtn=.XZxzEFIJLOPQUefijlopqu",
        2 => BAM_ALPHABET,
        _ => b"ACGT",
    };
    let mut seq: Vec<u8> = (0..slen).map(|_| *rng.pick(alphabet)).collect();
    if h(rng, 1, 15) && !seq.is_empty() {
        let i = rng.below(seq.len() as u64) as usize;
        seq[i] = *rng.pick(&[b'*', b'1', b' ', 9u8, b'-']);
    }
    let mut cigar: Vec<(char, usize)> = vec![];
    if !rng.chance(1, 5) {
        let nops = match rng.below(12) {
            0 => 1,
            1 => *rng.pick(&[20usize, 200]),
            _ => 1 + rng.below(6) as usize,
        };
        let mut left = slen;
        for i in 0..nops {
            let k = *rng.pick(&['M', 'I', 'D', 'N', 'S', 'H', 'P', '=', 'X', 'M', 'M']);
            let n = if consumes_read(k) && slen > 0 {
                let n = if i + 1 == nops { left } else { rng.below(left as u64 + 1) as usize };
                left -= n;
                n
            } else {
                match rng.below(8) {
                    0 => 0,
                    1 => (1 << 28) - 1,
                    2 if hostile => *rng.pick(&[1usize << 28, 1usize << 32]),
                    _ => 1 + rng.below(500) as usize,
                }
            };
            cigar.push((k, n));
        }
        if slen > 0 && left > 0 {
            cigar.push(('M', left));
        }
        if h(rng, 1, 10) {
            cigar.push(('M', 1 + rng.below(3) as usize)); // read length disagrees with the sequence
        }
    }
    let qual: Vec<u8> = match rng.below(8) {
        0 | 1 => vec![],
        2 if slen == 1 => vec![9], // prints as "*": the one QUAL string SAM cannot tell from "absent"
        3 => vec![*rng.pick(&[0u8, 9, 93]); slen],
        _ => (0..slen).map(|_| rng.below(94) as u8).collect(),
    };
    let qual = if h(rng, 1, 12) {
        match rng.below(3) {
            0 => vec![94; slen.max(1)],
            1 => vec![30; slen + 1],
            _ => vec![255; slen.max(1)],
        }
    } else {
        qual
    };
    let nf = match rng.below(8) {
        0 | 1 => 0,
        2 => 1,
        _ => 1 + rng.below(6) as usize,
    };
    let mut data: Vec<([u8; 2], MVal)> = vec![];
    for _ in 0..nf {
        let t = gen_tag(rng, hostile);
        if data.iter().any(|(x, _)| *x == t) {
            continue;
        }
        let v = if t == *b"CG" { MVal::IArr('I', vec![(4 << 4) | 4, (10 << 4) | 3]) } else { gen_value(rng, hostile) };
        data.push((t, v));
    }
    MRec {
        name,
        flags,
        rid,
        pos: gen_pos(rng),
        mapq: { let x = rng.below(256) as u8; *rng.pick(&[0u8, 1, 30, 60, 254, 255, x]) },
        cigar,
        mrid,
        mpos: gen_pos(rng),
        tlen: { let x = rng.next() as i32; *rng.pick(&[0i32, 1, -1, i32::MAX, i32::MIN, 350, -350, x]) },
        seq,
        qual,
        data,
    }
}

pub fn gen_ref_names(rng: &mut Rng) -> Vec<Vec<u8>> {
    let n = *rng.pick(&[0usize, 1, 2, 3, 5]);
    let mut out: Vec<Vec<u8>> = vec![];
    for i in 0..n {
        let name = match rng.below(5) {
            0 => format!("chr{}", i + 1).into_bytes(),
            1 => format!("sq{i}|a:b;c=d*e").into_bytes(),
            2 => format!("{i}").into_bytes(),
            _ => format!("sq{i}").into_bytes(),
        };
        out.push(name);
    }
    out
}

// ------------------------------------------------------------------ the property's own notions (no model involved)

/// "valid alignment record" of the SAM data model w.r.t. a dictionary of `nrefs` references
/// (SAMv1 §1.4/§1.5 regexes and ranges), written independently of the noodles writer's checks.
/// Returns the reason when the record is outside the property's quantifier.
pub fn sam_invalid(r: &MRec, nrefs: usize) -> Option<&'static str> {
    if let Some(n) = &r.name {
        if n.is_empty() || n.len() > 254 || n == b"*" || !n.iter().all(|&b| (33..=126).contains(&b) && b != b'@') {
            return Some("qname");
        }
    }
    if r.flags >= 4096 {
        return Some("reserved-flag-bits"); // "should not be set when writing" (SAMv1 §1.4.2)
    }
    if r.rid.is_some_and(|i| i >= nrefs) || r.mrid.is_some_and(|i| i >= nrefs) {
        return Some("reference-id");
    }
    if r.pos > (1 << 31) - 1 || r.mpos > (1 << 31) - 1 {
        return Some("position");
    }
    if !r.seq.iter().all(|&b| b.is_ascii_alphabetic() || b == b'=' || b == b'.') {
        return Some("seq-alphabet");
    }
    let rl: usize = r.cigar.iter().filter(|(k, _)| consumes_read(*k)).map(|(_, n)| *n).sum();
    if !r.seq.is_empty() && rl > 0 && rl != r.seq.len() {
        return Some("cigar-seq-length");
    }
    if !r.qual.is_empty() && (r.qual.len() != r.seq.len() || r.qual.iter().any(|&q| q > 93)) {
        return Some("qual");
    }
    if r.qual == [9] {
        // one base with quality 9 prints as QUAL "*", which SAM text defines as "not stored"
        return Some("qual-star-ambiguity");
    }
    let mut seen = std::collections::BTreeSet::new();
    for (t, v) in &r.data {
        if !(t[0].is_ascii_alphabetic() && t[1].is_ascii_alphanumeric()) || !seen.insert(*t) {
            return Some("tag");
        }
        let ok = match v {
            MVal::Char(c) => (33..=126).contains(c),
            MVal::Int(t, n) => int_range(*t).0 <= *n && *n <= int_range(*t).1,
            MVal::Float(b) => f32::from_bits(*b).is_finite(),
            MVal::Str(s) => s.iter().all(|b| (32..=126).contains(b)),
            MVal::Hex(s) => s.len() % 2 == 0 && s.iter().all(|b| b.is_ascii_digit() || (b'A'..=b'F').contains(b)),
            MVal::IArr(t, l) => l.iter().all(|n| int_range(*t).0 <= *n && *n <= int_range(*t).1),
            MVal::FArr(l) => l.iter().all(|b| f32::from_bits(*b).is_finite()),
        };
        if !ok {
            return Some("aux-value");
        }
    }
    None
}

/// additionally representable in BAM (SAMv1 §4.2): op lengths < 2^28, `CG` is BAM's own tag
pub fn bam_invalid(r: &MRec) -> Option<&'static str> {
    if r.cigar.iter().any(|(_, n)| *n >= 1 << 28) {
        return Some("cigar-op-length");
    }
    if r.data.iter().any(|(t, _)| t == b"CG") {
        return Some("cg-tag");
    }
    None
}

/// integer tags compared by numeric value
pub fn num_norm(r: &MRec) -> MRec {
    let mut r = r.clone();
    for (_, v) in r.data.iter_mut() {
        if let MVal::Int(t, n) = v {
            *t = 'n';
            let _ = n;
        }
    }
    r
}

/// BAM stores bases in a 16-letter upper-case alphabet
pub fn base_norm(r: &MRec) -> MRec {
    let mut r = r.clone();
    for b in r.seq.iter_mut() {
        let u = b.to_ascii_uppercase();
        *b = if BAM_ALPHABET.contains(&u) { u } else { b'N' };
    }
    r
}

fn show_rec(r: &MRec) -> String {
    let s = tok_rec(r);
    if s.len() > 300 { format!("{}…", &s[..300]) } else { s }
}

// ------------------------------------------------------------------ suite: records

fn rec_case_of(sub: u64) -> (Vec<Vec<u8>>, MRec) {
    let mut rng = Rng::new(sub);
    let refs = gen_ref_names(&mut rng);
    let hostile = rng.chance(1, 3);
    let r = gen_rec(&mut rng, refs.len(), hostile);
    (refs, r)
}

/// correspondence request + oracle for one record
fn rec_case(ctx: &mut Ctx, refs: &[Vec<u8>], r: &MRec, case: &str, emit_corr: bool) {
    let h = refs_header(refs);
    let real = to_real(r);
    let written = real_write(&h, &real);
    let parsed = written.as_ref().ok().map(|line| real_parse(&h, line));
    if emit_corr {
        let ans = match (&written, &parsed) {
            (Ok(line), Some(Ok(p))) => format!("{} {}", hex(line), tok_rec(p)),
            (Ok(line), Some(Err(c))) => format!("{} {}", hex(line), c),
            (Err(c), _) => format!("{c} -"),
            _ => unreachable!(),
        };
        ctx.corr(format!("c06 rec {} {} {}", tok_refs(refs), tok_rec(r), ftab(Some(r), &[])), ans);
    }
    // ---- oracle
    let invalid = sam_invalid(r, refs.len());
    ctx.bump(&format!("rec_{}", invalid.map(|s| format!("outside:{s}")).unwrap_or_else(|| "valid".into())));
    let nontrivial = !r.data.is_empty() || !r.cigar.is_empty();
    ctx.eval(if nontrivial && invalid.is_none() { Some(fnv(tok_rec(r).as_bytes())) } else { None });
    if let Err(c) = &written {
        if c.starts_with("panic") {
            ctx.fail("sam-write-panic", format!("sam writer panicked ({c}) on {}", show_rec(r)), case.into());
            return;
        }
    }
    match (&written, invalid) {
        (Err(c), None) => {
            ctx.fail("sam-write-rejects-valid", format!("writer refused ({c}) a valid record {}", show_rec(r)), case.into());
        }
        (Ok(line), _) => {
            // whatever the writer emits is one line the reader must take back
            match parsed.as_ref().unwrap() {
                Err(c) => {
                    ctx.fail("sam-own-output-unreadable", format!("reader refused ({c}) the writer's own line {:?} for {}", String::from_utf8_lossy(line), show_rec(r)), case.into());
                }
                Ok(p) => {
                    if invalid.is_none() && num_norm(p) != num_norm(r) {
                        ctx.fail("sam-roundtrip", format!("wrote {} read back {} (line {:?})", show_rec(r), show_rec(p), String::from_utf8_lossy(line)), case.into());
                    }
                    // the lazy `sam::Record` view of the same line, converted with
                    // `RecordBuf::try_from_alignment_record`, and written back as is
                    if invalid.is_none() {
                        let lazy = guarded(|| -> std::io::Result<(MRec, Vec<u8>)> {
                            let mut text = line.clone();
                            text.push(b'\n');
                            let mut rd = sam::io::Reader::new(&text[..]);
                            let mut rec = sam::Record::default();
                            rd.read_record(&mut rec)?;
                            let buf = RecordBuf::try_from_alignment_record(&h, &rec)?;
                            let mut w = sam::io::Writer::new(Vec::new());
                            w.write_alignment_record(&h, &rec)?;
                            Ok((from_real(&buf), w.into_inner()))
                        });
                        match lazy {
                            Ok(Ok((lp, rewritten))) => {
                                if num_norm(&lp) != num_norm(p) {
                                    ctx.fail("sam-lazy-differs", format!("line {:?}: lazy record converts to {} but read_record_buf gives {}", String::from_utf8_lossy(line), show_rec(&lp), show_rec(p)), case.into());
                                } else if rewritten.strip_suffix(b"\n") != Some(&line[..]) {
                                    ctx.fail("sam-lazy-differs", format!("line {:?} written back from the lazy record as {:?}", String::from_utf8_lossy(line), String::from_utf8_lossy(&rewritten)), case.into());
                                }
                            }
                            Ok(Err(e)) => {
                                // known shape: an empty `B` array that is not the last field
                                let empty_array_mid_line = line.windows(5).any(|w| w[0] == b':' && w[1] == b'B' && w[2] == b':' && b"cCsSiIf".contains(&w[3]) && w[4] == b'\t');
                                let class = if empty_array_mid_line && e.to_string().contains("invalid delimiter") { "sam-lazy-empty-array" } else { "sam-lazy-differs" };
                                ctx.fail(class, format!("line {:?}: lazy record path failed: {e}", String::from_utf8_lossy(line)), case.into())
                            }
                            Err(pn) => ctx.fail("sam-lazy-differs", format!("line {:?}: lazy record path panicked: {pn}", String::from_utf8_lossy(line)), case.into()),
                        }
                    }
                    // fixed point: parse own output, write again, byte for byte. Reserved FLAG bits
                    // (0x1000..0x8000, settable only through `Flags::from_bits_retain`) are dropped by
                    // `Flags::from(u16)` on every read path by design; such records are outside the
                    // SAM data model ("should not be set when writing") and are only counted.
                    if r.flags >= 4096 {
                        ctx.bump("fixed_point_skipped_reserved_flag_bits");
                    } else {
                        match real_write(&h, &to_real(p)) {
                            Ok(line2) if &line2 == line => {}
                            other => {
                                ctx.fail("sam-fixed-point", format!("line {:?} re-emitted as {:?}", String::from_utf8_lossy(line), other.map(|l| String::from_utf8_lossy(&l).to_string())), case.into());
                            }
                        }
                    }
                }
            }
        }
        (Err(_), Some(_)) => {}
    }
}

// ------------------------------------------------------------------ suite: hostile record lines

fn mutate_line(rng: &mut Rng, line: &[u8]) -> Vec<u8> {
    const INTERESTING: &[u8] = b"\t:,*=+-0159MIXSZzfBcCsSiIAH. @~!";
    let mut l = line.to_vec();
    let n = 1 + rng.below(3);
    for _ in 0..n {
        if l.is_empty() {
            l.push(*rng.pick(INTERESTING));
            continue;
        }
        let i = rng.below(l.len() as u64) as usize;
        match rng.below(9) {
            0 => {
                l.remove(i);
            }
            1 | 2 => l.insert(i, *rng.pick(INTERESTING)),
            3 | 4 => l[i] = *rng.pick(INTERESTING),
            5 => l.truncate(i),
            6 => {
                // duplicate a TAB-delimited field
                let fields: Vec<&[u8]> = l.split(|&b| b == b'\t').collect();
                let k = rng.below(fields.len() as u64) as usize;
                let mut out: Vec<Vec<u8>> = fields.iter().map(|f| f.to_vec()).collect();
                out.insert(k, fields[k].to_vec());
                l = out.join(&b'\t');
            }
            7 => {
                // drop a field
                let mut out: Vec<Vec<u8>> = l.split(|&b| b == b'\t').map(|f| f.to_vec()).collect();
                let k = rng.below(out.len() as u64) as usize;
                out.remove(k);
                l = out.join(&b'\t');
            }
            _ => {
                // numeric edge in place of a field
                let mut out: Vec<Vec<u8>> = l.split(|&b| b == b'\t').map(|f| f.to_vec()).collect();
                let k = rng.below(out.len() as u64) as usize;
                out[k] = rng.pick(&[&b"65535"[..], b"65536", b"+7", b"-0", b"007", b"", b"4294967295", b"4294967296", b"2147483648", b"-2147483649", b"18446744073709551615", b"18446744073709551616", b"256", b"255", b"*", b"="]).to_vec();
                l = out.join(&b'\t');
            }
        }
    }
    l.retain(|&b| b != b'\n' && b != b'\r');
    l
}

fn parse_case_of(sub: u64) -> (Vec<Vec<u8>>, Vec<u8>) {
    let mut rng = Rng::new(sub);
    let mut refs = gen_ref_names(&mut rng);
    if refs.is_empty() {
        refs.push(b"sq0".to_vec());
    }
    // a valid line from the real writer (retry until the generator yields an acceptable record)
    let h = refs_header(&refs);
    let mut line = b"*\t4\t*\t0\t255\t*\t*\t0\t0\t*\t*".to_vec();
    for _ in 0..6 {
        let r = gen_rec(&mut rng, refs.len(), false);
        if let Ok(l) = real_write(&h, &to_real(&r)) {
            line = l;
            break;
        }
    }
    let line = if rng.chance(1, 8) { line } else { mutate_line(&mut rng, &line) };
    (refs, line)
}

fn parse_case(ctx: &mut Ctx, refs: &[Vec<u8>], line: &[u8], case: &str) {
    let h = refs_header(refs);
    let got = real_parse(&h, line);
    let ans = match &got {
        Ok(p) => tok_rec(p),
        Err(c) => c.clone(),
    };
    ctx.corr(format!("c06 parse {} {} {}", tok_refs(refs), hex(line), ftab(None, &float_tokens(line))), ans);
    ctx.eval(None);
    ctx.bump(if got.is_ok() { "parse_accepted" } else { "parse_rejected" });
    if let Err(c) = &got {
        if c.starts_with("panic") {
            ctx.fail("sam-parse-panic", format!("reader panicked ({c}) on line {:?}", String::from_utf8_lossy(line)), case.into());
        }
    }
}

// ------------------------------------------------------------------ suite: the lazy `sam::Record` view of the optional fields

const EMPTY_MANDATORY: &[u8] = b"*\t4\t*\t0\t255\t*\t*\t0\t0\t*\t*";

fn lazy_value(v: &sam::alignment::record::data::field::Value<'_>) -> std::io::Result<MVal> {
    use sam::alignment::record::data::field::{value::Array as LArray, Value as LValue};
    fn col<T: Copy + Into<i64>>(it: Box<dyn Iterator<Item = std::io::Result<T>> + '_>) -> std::io::Result<Vec<i64>> {
        it.map(|r| r.map(Into::into)).collect()
    }
    Ok(match v {
        LValue::Character(c) => MVal::Char(*c),
        LValue::Int8(n) => MVal::Int('c', *n as i64),
        LValue::UInt8(n) => MVal::Int('C', *n as i64),
        LValue::Int16(n) => MVal::Int('s', *n as i64),
        LValue::UInt16(n) => MVal::Int('S', *n as i64),
        LValue::Int32(n) => MVal::Int('i', *n as i64),
        LValue::UInt32(n) => MVal::Int('I', *n as i64),
        LValue::Float(x) => MVal::Float(x.to_bits()),
        LValue::String(s) => MVal::Str(s.to_vec()),
        LValue::Hex(s) => MVal::Hex(s.to_vec()),
        LValue::Array(LArray::Int8(a)) => MVal::IArr('c', col(a.iter())?),
        LValue::Array(LArray::UInt8(a)) => MVal::IArr('C', col(a.iter())?),
        LValue::Array(LArray::Int16(a)) => MVal::IArr('s', col(a.iter())?),
        LValue::Array(LArray::UInt16(a)) => MVal::IArr('S', col(a.iter())?),
        LValue::Array(LArray::Int32(a)) => MVal::IArr('i', col(a.iter())?),
        LValue::Array(LArray::UInt32(a)) => MVal::IArr('I', col(a.iter())?),
        LValue::Array(LArray::Float(a)) => MVal::FArr(a.iter().map(|r| r.map(|x| x.to_bits())).collect::<std::io::Result<_>>()?),
    })
}

/// `sam::Record::data().iter()` over a record whose optional-field section is `data`
pub fn real_lazy_data(data: &[u8]) -> Result<Vec<([u8; 2], MVal)>, String> {
    panic_class(guarded(|| {
        let mut text = EMPTY_MANDATORY.to_vec();
        if !data.is_empty() {
            text.push(b'\t');
            text.extend_from_slice(data);
        }
        text.push(b'\n');
        let mut rd = sam::io::Reader::new(&text[..]);
        let mut rec = sam::Record::default();
        rd.read_record(&mut rec).map_err(|e| format!("read_record:{}", errclass(&e)))?;
        let mut out = vec![];
        for r in rec.data().iter() {
            let (t, v) = r.map_err(|e| errclass(&e).to_string())?;
            out.push((<[u8; 2]>::from(t), lazy_value(&v).map_err(|e| errclass(&e).to_string())?));
        }
        Ok(out)
    }))
}

fn lazy_case_of(sub: u64) -> Vec<u8> {
    let mut rng = Rng::new(sub);
    let h = refs_header(&[]);
    let mut data = vec![];
    for _ in 0..6 {
        let mut r = gen_rec(&mut rng, 0, false);
        r.rid = None;
        r.mrid = None;
        if let Ok(l) = real_write(&h, &to_real(&r)) {
            data = l.split(|&b| b == b'\t').skip(11).collect::<Vec<_>>().join(&b'\t');
            break;
        }
    }
    if rng.chance(1, 3) { data } else { mutate_line(&mut rng, &data) }
}

fn lazy_case(ctx: &mut Ctx, data: &[u8], case: &str) {
    if data.first() == Some(&b'\t') {
        return; // would shift the mandatory fields of the carrier line
    }
    let got = real_lazy_data(data);
    let ans = match &got {
        Ok(fs) if fs.is_empty() => "-".to_string(),
        Ok(fs) => fs.iter().map(|(t, v)| format!("|{}.{}", hex_e(t), tok_val(v))).collect(),
        Err(c) => c.clone(),
    };
    let mut line = EMPTY_MANDATORY.to_vec();
    line.push(b'\t');
    line.extend_from_slice(data);
    ctx.corr(format!("c06 lazy {} {}", hex(data), ftab(None, &float_tokens(&line))), ans);
    ctx.eval(None);
    ctx.bump(if got.is_ok() { "lazy_accepted" } else { "lazy_rejected" });
    if let Err(c) = &got {
        if c.starts_with("panic") {
            ctx.fail("sam-lazy-panic", format!("lazy data iteration panicked ({c}) on {:?}", String::from_utf8_lossy(data)), case.into());
        }
    }
}

fn corpus_lazy() -> Vec<Vec<u8>> {
    [
        &b""[..], b"NH:i:1", b"XB:B:c\tNH:i:1", b"XB:B:c", b"XB:B:c,", b"XB:B:c,\tNH:i:1", b"XB:B:c,1,2\tNH:i:1", b"XB:B:c,,5", b"XB:B:cx", b"XB:B:x,1", b"XB:B:",
        b"XB:B:c,128", b"XB:B:C,-1", b"XB:B:f,1.5,2e3\tYB:B:f", b"XB:B:f,1.5x", b"XB:B:f,", b"NH:i:2147483647", b"NH:i:2147483648", b"NH:i:4294967295",
        b"NH:i:4294967296", b"NH:i:-2147483648", b"NH:i:-2147483649", b"NH:i:", b"NH:i:+", b"NH:i:-", b"NH:i:-\tXX:i:1", b"NH:i:5x", b"NH:i:+5", b"NH:i:007",
        b"XA:A:a", b"XA:A:", b"XA:A:ab", b"XA:A:\t", b"XA:A:\t\tNH:i:1", b"XZ:Z:", b"XZ:Z:\x01\xff", b"XZ:Z:a\t", b"XH:H:zz", b"XF:f:1.5", b"XF:f:", b"XF:f:1e", b"XF:f:nan",
        b"XF:f:1.5\tNH:i:1", b"X", b"XX", b"XX:", b"XX:i", b"XX:i:", b"XX;i:1", b"XX:q:1", b"XX:i;1", b"NH:i:1\t", b"NH:i:1\t\t", b"NH:i:1\tNH:i:2",
    ]
    .iter()
    .map(|l| l.to_vec())
    .collect()
}

// ------------------------------------------------------------------ suite: lexical-core integers

fn num_cases(ctx: &mut Ctx) {
    fn c<T: lexical_core::FromLexical + std::fmt::Display>(s: &[u8]) -> String {
        lexical_core::parse::<T>(s).map(|v| v.to_string()).unwrap_or_else(|_| "x".into())
    }
    fn p<T: lexical_core::FromLexical + std::fmt::Display>(s: &[u8]) -> String {
        lexical_core::parse_partial::<T>(s).map(|(v, i)| format!("{v}/{i}")).unwrap_or_else(|_| "x".into())
    }
    let mut texts: Vec<Vec<u8>> = vec![];
    for s in [
        "", "+", "-", "+5", "-5", "007", "00", "0", "-0", "+0", "5x", "x", " 5", "5 ", "+-5", "-+5", "++5", "--5", "5M", "M", "*", "12,3", ",3", "1_0",
        "127", "128", "-128", "-129", "255", "256", "32767", "32768", "-32768", "-32769", "65535", "65536", "2147483647", "2147483648", "-2147483648",
        "-2147483649", "4294967295", "4294967296", "9223372036854775807", "9223372036854775808", "-9223372036854775808", "-9223372036854775809",
        "18446744073709551615", "18446744073709551616", "000000000000000000000000000255", "000000000000000000000000000256", "99999999999999999999999999",
        "1.5", "1e5", "0x10", "٣",
    ] {
        texts.push(s.as_bytes().to_vec());
    }
    for t in texts {
        for kind in ["u8", "u16", "u32", "usize", "i32", "i64", "pusize", "pi8", "pu8", "pi16", "pu16", "pi32", "pu32"] {
            let a = match kind {
                "u8" => c::<u8>(&t),
                "u16" => c::<u16>(&t),
                "u32" => c::<u32>(&t),
                "usize" => c::<usize>(&t),
                "i32" => c::<i32>(&t),
                "i64" => c::<i64>(&t),
                "pusize" => p::<usize>(&t),
                "pi8" => p::<i8>(&t),
                "pu8" => p::<u8>(&t),
                "pi16" => p::<i16>(&t),
                "pu16" => p::<u16>(&t),
                "pi32" => p::<i32>(&t),
                _ => p::<u32>(&t),
            };
            ctx.corr(format!("c06 num {kind} {}", hex(&t)), a);
        }
    }
}

// ------------------------------------------------------------------ suite: headers

fn gen_hdr_value(rng: &mut Rng, hostile: bool) -> Vec<u8> {
    let n = *rng.pick(&[1usize, 1, 2, 5, 12, 30]);
    let mut v: Vec<u8> = (0..n).map(|_| 32 + rng.below(95) as u8).collect();
    if hostile && rng.chance(1, 8) {
        match rng.below(3) {
            0 => v.clear(),
            1 => v.push(9),
            _ => v[0] = 200,
        }
    }
    v
}

fn gen_others(rng: &mut Rng, standard: &[[u8; 2]], pool: &[[u8; 2]], hostile: bool) -> Others {
    let n = *rng.pick(&[0usize, 0, 1, 2, 4]);
    let mut out: Others = vec![];
    for _ in 0..n {
        let t = if rng.chance(1, 2) {
            *rng.pick(pool)
        } else if hostile && rng.chance(1, 6) {
            *rng.pick(&[*b"1x", *b"x_", *b"  "])
        } else {
            let a = *rng.pick(b"ABCDEFGHIJKLMNOPQRSTUVWXYZabcdefghijklmnopqrstuvwxyz");
            let b = *rng.pick(b"ABCDEFGHIJKLMNOPQRSTUVWXYZabcdefghijklmnopqrstuvwxyz0123456789");
            [a, b]
        };
        if standard.contains(&t) || out.iter().any(|(x, _)| *x == t) {
            continue;
        }
        out.push((t, gen_hdr_value(rng, hostile)));
    }
    out
}

fn gen_rname(rng: &mut Rng, i: usize, hostile: bool) -> Vec<u8> {
    if hostile && rng.chance(1, 8) {
        return rng.pick(&[&b"*"[..], b"=x", b"a,b", b"", b"a b", b"a\tb", b"<x>", b"*a"]).to_vec();
    }
    match rng.below(5) {
        0 => format!("chr{}", i + 1).into_bytes(),
        1 => {
            // every character the specification allows: [0-9A-Za-z!#$%&+./:;?@^_|~-] then also * and =
            let first = b"0123456789ABCXYZabcxyz!#$%&+./:;?@^_|~-";
            let rest = b"0123456789ABCXYZabcxyz!#$%&*+./:;=?@^_|~-";
            let n = 1 + rng.below(12) as usize;
            let mut v = vec![*rng.pick(first)];
            for _ in 1..n {
                v.push(*rng.pick(rest));
            }
            v.extend_from_slice(format!("{i}").as_bytes());
            v
        }
        _ => format!("sq{i}").into_bytes(),
    }
}

pub fn gen_hdr(rng: &mut Rng, hostile: bool) -> MHdr {
    let mut h = MHdr::default();
    if rng.chance(3, 4) {
        let (a, b) = *rng.pick(&[(1u32, 6u32), (1, 6), (1, 5), (1, 0), (1, 4), (2, 0), (0, 9), (1, 10), (4294967295, 4294967295)]);
        h.hd = Some((a, b, gen_others(rng, &[*b"VN"], &[*b"SO", *b"GO", *b"SS"], hostile)));
    }
    let nsq = match rng.below(10) {
        0 | 1 => 0,
        2 => 1,
        3 => *rng.pick(&[50usize, 200]),
        _ => 1 + rng.below(6) as usize,
    };
    for i in 0..nsq {
        let n = gen_rname(rng, i, hostile);
        if h.sq.iter().any(|(x, _, _)| *x == n) {
            continue;
        }
        let l = match rng.below(8) {
            0 => 1,
            1 => (1usize << 31) - 1,
            2 if hostile => *rng.pick(&[1usize << 31, 1usize << 32]),
            3 => (1usize << 29) + rng.below(3) as usize,
            _ => 1 + rng.below(250_000_000) as usize,
        };
        h.sq.push((n, l, gen_others(rng, &[*b"SN", *b"LN"], &[*b"AH", *b"AN", *b"AS", *b"DS", *b"M5", *b"SP", *b"TP", *b"UR"], hostile)));
    }
    for (dst, pool) in [(0, &[*b"BC", *b"CN", *b"DS", *b"DT", *b"FO", *b"KS", *b"LB", *b"PG", *b"PI", *b"PL", *b"PM", *b"PU", *b"SM"][..]), (1, &[*b"PN", *b"CL", *b"PP", *b"DS", *b"VN"][..])] {
        let n = *rng.pick(&[0usize, 0, 1, 2, 4]);
        for i in 0..n {
            let id = if hostile && rng.chance(1, 10) { rng.pick(&[&b""[..], b"a\tb", b"\xc3\xa9"]).to_vec() } else { let mut v = gen_hdr_value(rng, false); v.extend_from_slice(format!("{i}").as_bytes()); v };
            let o = gen_others(rng, &[*b"ID"], pool, hostile);
            let list = if dst == 0 { &mut h.rg } else { &mut h.pg };
            if list.iter().any(|(x, _)| *x == id) {
                continue;
            }
            list.push((id, o));
        }
    }
    let nco = *rng.pick(&[0usize, 0, 1, 2, 3]);
    for _ in 0..nco {
        let c: Vec<u8> = match rng.below(6) {
            0 => vec![],
            1 => "tab\tinside and ünïcödé".as_bytes().to_vec(),
            2 => b"@SQ\tSN:looks-like-a-line".to_vec(),
            _ => {
                let n = rng.below(40) as usize;
                (0..n).map(|_| 32 + rng.below(95) as u8).collect()
            }
        };
        h.co.push(c);
    }
    h
}

/// "valid header" of the SAM data model (SAMv1 §1.3), independent of the writer's checks
pub fn hdr_invalid(h: &MHdr) -> Option<&'static str> {
    let others_ok = |o: &Others| o.iter().all(|(t, v)| t[0].is_ascii_alphabetic() && t[1].is_ascii_alphanumeric() && !v.is_empty() && v.iter().all(|b| (32..=126).contains(b)));
    if let Some((_, _, o)) = &h.hd {
        if !others_ok(o) {
            return Some("hd-field");
        }
    }
    for (n, l, o) in &h.sq {
        let ch = |b: u8| (33..=126).contains(&b) && !b"\\,\"`'()[]{}<>".contains(&b);
        if n.is_empty() || n[0] == b'*' || n[0] == b'=' || !n.iter().all(|&b| ch(b)) {
            return Some("rname");
        }
        if *l == 0 || *l > (1 << 31) - 1 {
            return Some("ln");
        }
        if !others_ok(o) {
            return Some("sq-field");
        }
    }
    for (i, o) in h.rg.iter().chain(h.pg.iter()) {
        if i.is_empty() || !i.iter().all(|b| (32..=126).contains(b)) || !others_ok(o) {
            return Some("id-line");
        }
    }
    if h.co.iter().any(|c| c.contains(&b'\n') || c.last() == Some(&b'\r')) {
        return Some("comment-line-break");
    }
    None
}

fn hdr_case_of(sub: u64) -> MHdr {
    let mut rng = Rng::new(sub);
    let hostile = rng.chance(1, 3);
    gen_hdr(&mut rng, hostile)
}

fn hdr_case(ctx: &mut Ctx, m: &MHdr, case: &str, emit_corr: bool) {
    let Some(h) = to_real_hdr(m) else { return };
    // ---- SAM text
    let text = real_hdr_write(&h);
    let back = text.as_ref().ok().map(|t| real_hdr_parse(t));
    if emit_corr {
        let ans = match (&text, &back) {
            (Ok(t), Some(Ok(b))) => format!("{} {}", hex(t), tok_hdr(&from_real_hdr(b))),
            (Ok(t), Some(Err(c))) => format!("{} {}", hex(t), c),
            (Err(c), _) => format!("{c} -"),
            _ => unreachable!(),
        };
        ctx.corr(format!("c06 hdr {}", tok_hdr(m)), ans);
    }
    // ---- BAM header block
    let bbytes = real_bam_hdr_write(&h);
    let bback = bbytes.as_ref().ok().map(|b| real_bam_hdr_read(b));
    if emit_corr {
        let ans = match (&bbytes, &bback) {
            (Ok(t), Some(Ok((b, rest)))) => format!("{} {} {}", hex(t), tok_hdr(&from_real_hdr(b)), rest),
            (Ok(t), Some(Err(c))) => format!("{} {}", hex(t), c),
            (Err(c), _) => format!("{c} -"),
            _ => unreachable!(),
        };
        ctx.corr(format!("c06 bamhdr {}", tok_hdr(m)), ans);
    }
    // ---- oracle
    let invalid = hdr_invalid(m);
    ctx.bump(&format!("hdr_{}", invalid.map(|s| format!("outside:{s}")).unwrap_or_else(|| "valid".into())));
    ctx.bump(&format!("hdr_refs_{}", match m.sq.len() { 0 => "0", 1 => "1", 2..=9 => "2-9", _ => "10+" }));
    let lines = m.hd.is_some() as usize + m.sq.len() + m.rg.len() + m.pg.len() + m.co.len();
    ctx.eval(if lines >= 2 && invalid.is_none() { Some(fnv(tok_hdr(m).as_bytes())) } else { None });
    for (what, r) in [("sam", text.as_ref().err()), ("bam", bbytes.as_ref().err())] {
        if let Some(c) = r {
            if c.starts_with("panic") {
                ctx.fail("header-write-panic", format!("{what} header writer panicked ({c}) on {}", tok_hdr(m)), case.into());
                return;
            }
            if invalid.is_none() {
                ctx.fail("header-write-rejects-valid", format!("{what} header writer refused ({c}) a valid header {}", tok_hdr(m)), case.into());
                return;
            }
        }
    }
    if invalid.is_some() {
        return;
    }
    let (Ok(text), Ok(bbytes)) = (&text, &bbytes) else { return };
    match back.as_ref().unwrap() {
        Ok(b) if *b == h => {
            // fixed point
            match real_hdr_write(b) {
                Ok(t2) if &t2 == text => {}
                other => ctx.fail("header-fixed-point", format!("header text re-emitted differently: {:?} vs {:?}", String::from_utf8_lossy(text), other.map(|t| String::from_utf8_lossy(&t).to_string())), case.into()),
            }
        }
        Ok(b) => ctx.fail("header-roundtrip", format!("wrote {} read back {}", tok_hdr(m), tok_hdr(&from_real_hdr(b))), case.into()),
        Err(c) => ctx.fail("header-roundtrip", format!("reader refused ({c}) the writer's header text {:?}", String::from_utf8_lossy(text)), case.into()),
    }
    match bback.as_ref().unwrap() {
        Ok((b, 0)) if *b == h => {}
        Ok((b, rest)) => ctx.fail("bam-header-roundtrip", format!("wrote {} as BAM, read back {} with {rest} bytes unread", tok_hdr(m), tok_hdr(&from_real_hdr(b))), case.into()),
        Err(c) => ctx.fail("bam-header-roundtrip", format!("BAM reader refused ({c}) the BAM writer's header for {} ({} bytes)", tok_hdr(m), bbytes.len()), case.into()),
    }
}

// ------------------------------------------------------------------ suite: header text with any mix / order of lines

fn gen_hdr_text(rng: &mut Rng) -> Vec<u8> {
    const LINES: &[&str] = &[
        "@HD\tVN:1.6", "@HD\tVN:1.6\tSO:coordinate", "@HD\tVN:1.5\tSO:x\tSO:y", "@HD\tVN:1.6\tSO:x\tSO:y", "@HD\tSO:x\tVN:1.4\tGO:q\tVN:1.7",
        "@HD\tVN:1.6\tVN:1.5", "@HD\tVN:1.5\tVN:1.6", "@HD\tSO:x", "@HD", "@HD\tVN:1", "@HD\tVN:1.6.1", "@HD\tVN:+1.06", "@HD\tVN:1.", "@HD\tVN:.6",
        "@HD\tVN:x.6\tVN:1.6", "@HD\tVN:4294967296.0", "@HD\tVN:1.5\tab:1\tab:2\tcd:3\tab:4",
        "@SQ\tSN:sq0\tLN:8", "@SQ\tLN:13\tSN:sq1", "@SQ\tSN:sq2\tLN:+5", "@SQ\tSN:sq3\tLN:05\tM5:abc", "@SQ\tSN:sq4\tLN:0", "@SQ\tSN:sq5\tLN:5x",
        "@SQ\tSN:sq6", "@SQ\tLN:5", "@SQ\tSN:sq0\tLN:9", "@SQ\tSN:sq7\tLN:7\tSN:sq8", "@SQ\tSN:sq9\tLN:7\tLN:8", "@SQ\tSN:\tLN:5", "@SQ\tSN:sqA\tLN:",
        "@SQ\tSN:sqB\tLN:-5", "@SQ\tSN:*\tLN:5", "@SQ\tSN:sqC\tLN:18446744073709551615", "@SQ\tSN:sqD\tLN:18446744073709551616", "@SQ\tSN:sqE\tLN:5\tUR:file:///x y",
        "@SQ\tSN:sqF\tLN:5\t", "@SQ\tSN:sqG\tLN:5\tX\t:v", "@SQ\tSN:sqH\tLN:5\tXX", "@SQ\tSN:sqI\tLN:5\tXX:", "@SQ\tSN:sqJ\tLN:5\tXX;v", "@SQ SN:sqK\tLN:5",
        "@SQ\tSN:sqL\tLN:5\tAB:1\tAB:2", "@SQ\tSN:sqM\tLN:5\tLN", "@SQ\tSN:sqN\tLN:5\tL",
        "@RG\tID:rg0", "@RG\tID:rg1\tSM:s\tPL:ILLUMINA", "@RG\tSM:s\tID:rg2", "@RG\tID:rg0\tSM:dup", "@RG", "@RG\tSM:s", "@RG\tID:rg3\tID:rg4", "@RG\tID:",
        "@PG\tID:pg0\tPN:x", "@PG\tID:pg1\tPP:pg0\tCL:a b\tc", "@PG\tID:pg0", "@PG\tPN:x",
        "@CO\thello", "@CO\t", "@CO", "@CO\ta\tb\tc", "@COx", "@CO\t@HD\tVN:1.6", "@CO hello",
        "@XX\tID:1", "@", "@H", "@hd\tVN:1.6", "", "r0\t4\t*\t0\t255\t*\t*\t0\t0\t*\t*", " @CO\tx", "@CO\tx\r",
    ];
    let n = *rng.pick(&[0usize, 1, 2, 3, 4, 6, 9]);
    let mut text = vec![];
    for i in 0..n {
        let mut line = rng.pick(LINES).as_bytes().to_vec();
        if rng.chance(1, 12) && !line.is_empty() {
            let k = rng.below(line.len() as u64) as usize;
            match rng.below(3) {
                0 => {
                    line.remove(k);
                }
                1 => line.insert(k, *rng.pick(b"\t:@ \r0x")),
                _ => line[k] = *rng.pick(b"\t:@ \r0x"),
            }
        }
        text.extend_from_slice(&line);
        let last = i + 1 == n;
        match rng.below(12) {
            0 => text.extend_from_slice(b"\r\n"),
            1 if last => {} // no final line feed
            _ => text.push(b'\n'),
        }
    }
    text
}

fn hparse_case(ctx: &mut Ctx, text: &[u8], case: &str) {
    let got = real_hdr_parse(text);
    let ans = match &got {
        Ok(h) => tok_hdr(&from_real_hdr(h)),
        Err(c) => c.clone(),
    };
    ctx.corr(format!("c06 hparse {}", hex(text)), ans);
    ctx.eval(None);
    ctx.bump(if got.is_ok() { "hparse_accepted" } else { "hparse_rejected" });
    match &got {
        Err(c) if c.starts_with("panic") => ctx.fail("header-parse-panic", format!("header reader panicked ({c}) on {:?}", String::from_utf8_lossy(text)), case.into()),
        Ok(h) => {
            // whatever was accepted is a header value: its canonical text must be a fixed point
            if hdr_invalid(&from_real_hdr(h)).is_some() {
                ctx.bump("hparse_accepted_but_not_a_valid_header");
            } else if let Ok(t1) = real_hdr_write(h) {
                match real_hdr_parse(&t1) {
                    Ok(h2) if h2 == *h => {}
                    other => ctx.fail("header-roundtrip", format!("header parsed from {:?} is written as {:?} which reads back as {:?}", String::from_utf8_lossy(text), String::from_utf8_lossy(&t1), other.map(|x| tok_hdr(&from_real_hdr(&x)))), case.into()),
                }
            }
        }
        _ => {}
    }
}

// ------------------------------------------------------------------ suite: hand-framed BAM header blocks

fn le32(n: u32) -> [u8; 4] {
    n.to_le_bytes()
}

/// `read_reference_sequences` pre-allocates `n_ref` map entries before reading any of them
/// (`IndexMap::with_capacity(n_ref)`), so a block whose `n_ref` field is large aborts the process
/// with an allocation failure (a C15 matter, noted in the report); such blocks are not generated.
fn bam_hdr_n_ref_seen(bytes: &[u8]) -> u32 {
    if bytes.len() < 8 {
        return 0;
    }
    let ltext = u32::from_le_bytes(bytes[4..8].try_into().unwrap()) as usize;
    match bytes.get(8 + ltext..12 + ltext) {
        Some(b) => u32::from_le_bytes(b.try_into().unwrap()),
        None => 0,
    }
}

fn gen_bam_hdr_bytes(rng: &mut Rng) -> Vec<u8> {
    loop {
        let b = gen_bam_hdr_bytes_unchecked(rng);
        if bam_hdr_n_ref_seen(&b) <= 100_000 {
            return b;
        }
    }
}

fn gen_bam_hdr_bytes_unchecked(rng: &mut Rng) -> Vec<u8> {
    let mut text: Vec<u8> = match rng.below(6) {
        0 => vec![],
        1 => b"@HD\tVN:1.6\n".to_vec(),
        2 => b"@HD\tVN:1.6\n@SQ\tSN:sq0\tLN:8\n@SQ\tSN:sq1\tLN:13\n".to_vec(),
        3 => b"@SQ\tSN:sq0\tLN:8\n@CO\tno final line feed".to_vec(),
        4 => b"@SQ\tSN:sq0\tLN:8\r\n@RG\tID:x\n".to_vec(),
        _ => b"@CO\tc\nnot a header line\n".to_vec(),
    };
    match rng.below(6) {
        0 => text.extend_from_slice(&[0, 0, 0]), // NUL padding
        1 => text.extend_from_slice(b"\0@CO\tafter a NUL\n"),
        _ => {}
    }
    let mut refs: Vec<(Vec<u8>, u32)> = match rng.below(6) {
        0 => vec![],
        1 => vec![(b"sq0".to_vec(), 8)],
        2 | 3 => vec![(b"sq0".to_vec(), 8), (b"sq1".to_vec(), 13)],
        4 => vec![(b"sq0".to_vec(), 8), (b"sq0".to_vec(), 9)],
        _ => vec![(b"sq1".to_vec(), 13), (b"sq0".to_vec(), 8)],
    };
    if rng.chance(1, 8) && !refs.is_empty() {
        refs[0].1 = *rng.pick(&[0u32, 9, u32::MAX]);
    }
    let mut out = vec![];
    out.extend_from_slice(if rng.chance(1, 12) { b"BAM\x02" } else { b"BAM\x01" });
    let ltext = match rng.below(10) {
        0 => text.len() as u32 + 4, // swallows n_ref
        1 => (text.len() as u32).saturating_sub(1),
        _ => text.len() as u32,
    };
    out.extend_from_slice(&le32(ltext));
    out.extend_from_slice(&text);
    let nref = match rng.below(10) {
        0 => refs.len() as u32 + 1,
        _ => refs.len() as u32,
    };
    out.extend_from_slice(&le32(nref));
    for (n, l) in &refs {
        match rng.below(14) {
            0 => {
                out.extend_from_slice(&le32(n.len() as u32)); // no NUL terminator
                out.extend_from_slice(n);
            }
            1 => {
                out.extend_from_slice(&le32(0));
            }
            2 => {
                out.extend_from_slice(&le32(n.len() as u32 + 2)); // interior NUL
                out.extend_from_slice(n);
                out.extend_from_slice(&[0, 0]);
            }
            _ => {
                out.extend_from_slice(&le32(n.len() as u32 + 1));
                out.extend_from_slice(n);
                out.push(0);
            }
        }
        out.extend_from_slice(&le32(*l));
    }
    match rng.below(8) {
        0 => {
            let k = rng.below(out.len() as u64 + 1) as usize;
            out.truncate(k);
        }
        1 => out.extend_from_slice(b"trailing"),
        _ => {}
    }
    out
}

fn bamhparse_case(ctx: &mut Ctx, bytes: &[u8], case: &str) {
    let got = real_bam_hdr_read(bytes);
    let ans = match &got {
        Ok((h, rest)) => format!("{} {}", tok_hdr(&from_real_hdr(h)), rest),
        Err(c) => c.clone(),
    };
    ctx.corr(format!("c06 bamhparse {}", hex(bytes)), ans);
    ctx.eval(None);
    ctx.bump(if got.is_ok() { "bamhparse_accepted" } else { "bamhparse_rejected" });
    if let Err(c) = &got {
        if c.starts_with("panic") {
            ctx.fail("header-parse-panic", format!("BAM header reader panicked ({c}) on {}", hex(bytes)), case.into());
        }
    }
}

// ------------------------------------------------------------------ suite: one record through BAM

fn bam_case(ctx: &mut Ctx, refs: &[Vec<u8>], r: &MRec, case: &str, emit_corr: bool) {
    let h = refs_header(refs);
    let real = to_real(r);
    let got = real_bam_roundtrip(&h, &real);
    if emit_corr {
        let ans = match &got {
            Ok(p) => tok_rec(p),
            Err(c) => c.clone(),
        };
        ctx.corr(format!("c06 bam {} {}", refs.len(), tok_rec(r)), ans);
    }
    // ---- oracle: SAM ≡ BAM on the records valid for both
    let invalid = sam_invalid(r, refs.len()).or_else(|| bam_invalid(r));
    ctx.bump(&format!("bam_{}", invalid.map(|s| format!("outside:{s}")).unwrap_or_else(|| "valid".into())));
    ctx.eval(if invalid.is_none() && (!r.data.is_empty() || !r.cigar.is_empty()) { Some(fnv(tok_rec(r).as_bytes()) ^ 0xb4) } else { None });
    if let Err(c) = &got {
        if c.starts_with("panic") {
            ctx.fail("bam-panic", format!("BAM writer/reader panicked ({c}) on {}", show_rec(r)), case.into());
            return;
        }
    }
    if invalid.is_some() {
        return;
    }
    let via_bam = match &got {
        Ok(p) => p,
        Err(c) => {
            ctx.fail("bam-rejects-valid", format!("BAM refused ({c}) a record valid for SAM and BAM: {}", show_rec(r)), case.into());
            return;
        }
    };
    let via_sam = match real_write(&h, &real).and_then(|l| real_parse(&h, &l)) {
        Ok(p) => p,
        Err(_) => return, // reported by the record suite
    };
    let exact = r.seq.iter().all(|b| BAM_ALPHABET.contains(b));
    ctx.bump(if exact { "sam_bam_compared_exactly" } else { "sam_bam_compared_modulo_base_alphabet" });
    let (a, b) = if exact { (num_norm(&via_sam), num_norm(via_bam)) } else { (num_norm(&base_norm(&via_sam)), num_norm(&base_norm(via_bam))) };
    if a != b {
        ctx.fail("sam-bam-differ", format!("record {} reads back from SAM as {} and from BAM as {}", show_rec(r), show_rec(&via_sam), show_rec(via_bam)), case.into());
    }
    if num_norm(via_bam) != num_norm(&base_norm(r)) {
        ctx.fail("bam-roundtrip", format!("record {} reads back from BAM as {}", show_rec(r), show_rec(via_bam)), case.into());
    }
    // SAM text -> LAZY sam::Record -> BAM writer (the conversion pipe that never builds a RecordBuf):
    // the BAM record must read back as the same record
    if let Ok(line) = real_write(&h, &real) {
        ctx.eval(None);
        let lazy = panic_class(guarded(|| {
            let mut text = line.clone();
            text.push(b'\n');
            let mut rd = sam::io::Reader::new(&text[..]);
            let mut rec = sam::Record::default();
            rd.read_record(&mut rec).map_err(|e| format!("lazy-read:{}", errclass(&e)))?;
            let mut w = bam::io::Writer::from(Vec::new());
            w.write_header(&h).map_err(|e| format!("header:{}", errclass(&e)))?;
            w.write_alignment_record(&h, &rec).map_err(|e| errclass(&e).to_string())?;
            let bytes = w.into_inner();
            let mut rd = bam::io::Reader::from(&bytes[..]);
            let h2 = rd.read_header().map_err(|e| format!("read-header:{}", errclass(&e)))?;
            let mut out = RecordBuf::default();
            match rd.read_record_buf(&h2, &mut out) {
                Ok(0) => Err("read:eof".to_string()),
                Ok(_) => Ok(from_real(&out)),
                Err(e) => Err(format!("read:{}", errclass(&e))),
            }
        }));
        match lazy {
            Ok(p) => {
                let (a, b) = if exact { (num_norm(&p), num_norm(via_bam)) } else { (num_norm(&base_norm(&p)), num_norm(&base_norm(via_bam))) };
                if a != b {
                    ctx.fail("sam-bam-lazy-differ", format!("record {}: its SAM line read lazily and written to BAM reads back as {}, the RecordBuf written to BAM as {}", show_rec(r), show_rec(&p), show_rec(via_bam)), case.into());
                } else {
                    ctx.bump("sam_lazy_to_bam_agrees");
                }
            }
            Err(c) => ctx.fail("sam-bam-lazy-differ", format!("record {}: its SAM line read lazily and written to BAM: {c}; the RecordBuf written to BAM reads back as {}", show_rec(r), show_rec(via_bam)), case.into()),
        }
    }
}

// ------------------------------------------------------------------ oracle: whole files, both formats, both directions

fn file_case(ctx: &mut Ctx, sub: u64) {
    let mut rng = Rng::new(sub);
    let case = format!("file {sub}");
    // a valid header and valid records for it
    let mut m = gen_hdr(&mut rng, false);
    if hdr_invalid(&m).is_some() {
        m.co.clear();
        m.sq.retain(|(_, l, _)| *l <= (1 << 31) - 1);
    }
    let Some(h) = to_real_hdr(&m) else { return };
    if hdr_invalid(&m).is_some() {
        return;
    }
    let n = *rng.pick(&[0usize, 1, 3, 12]);
    let mut recs = vec![];
    while recs.len() < n {
        let r = gen_rec(&mut rng, m.sq.len(), false);
        if sam_invalid(&r, m.sq.len()).is_none() && bam_invalid(&r).is_none() {
            recs.push(r);
        }
    }
    ctx.eval(if n > 0 { Some(fnv(case.as_bytes())) } else { None });
    ctx.bump(&format!("file_records_{n}"));
    let res = guarded(|| -> Result<(), String> {
        let e = |w: &str, e: std::io::Error| format!("{w}: {e}");
        // SAM file
        let mut w = sam::io::Writer::new(Vec::new());
        w.write_header(&h).map_err(|x| e("sam write_header", x))?;
        for r in &recs {
            w.write_alignment_record(&h, &to_real(r)).map_err(|x| e("sam write_record", x))?;
        }
        let sam_text = w.into_inner();
        // BAM file (BGZF)
        let mut w = bam::io::Writer::new(Vec::new());
        w.write_header(&h).map_err(|x| e("bam write_header", x))?;
        for r in &recs {
            w.write_alignment_record(&h, &to_real(r)).map_err(|x| e("bam write_record", x))?;
        }
        w.try_finish().map_err(|x| e("bam finish", x))?;
        let bam_bytes = w.into_inner().into_inner();
        // read both
        let mut rd = sam::io::Reader::new(&sam_text[..]);
        let hs = rd.read_header().map_err(|x| e("sam read_header", x))?;
        let rs: Vec<RecordBuf> = rd.record_bufs(&hs).collect::<std::io::Result<_>>().map_err(|x| e("sam read records", x))?;
        let mut rd = bam::io::Reader::new(&bam_bytes[..]);
        let hb = rd.read_header().map_err(|x| e("bam read_header", x))?;
        let rb: Vec<RecordBuf> = rd.record_bufs(&hb).collect::<std::io::Result<_>>().map_err(|x| e("bam read records", x))?;
        if hs != h {
            return Err(format!("SAM header reads back as {} (written {})", tok_hdr(&from_real_hdr(&hs)), tok_hdr(&m)));
        }
        if hb != h {
            return Err(format!("BAM header reads back as {} (written {})", tok_hdr(&from_real_hdr(&hb)), tok_hdr(&m)));
        }
        if rs.len() != recs.len() || rb.len() != recs.len() {
            return Err(format!("{} records written, {} read from SAM, {} from BAM", recs.len(), rs.len(), rb.len()));
        }
        for (i, r) in recs.iter().enumerate() {
            let a = num_norm(&base_norm(&from_real(&rs[i])));
            let b = num_norm(&base_norm(&from_real(&rb[i])));
            if a != b {
                return Err(format!("record {i}: SAM gives {} BAM gives {}", show_rec(&from_real(&rs[i])), show_rec(&from_real(&rb[i]))));
            }
            if num_norm(&from_real(&rs[i])) != num_norm(r) {
                return Err(format!("record {i}: wrote {} SAM gives {}", show_rec(r), show_rec(&from_real(&rs[i]))));
            }
        }
        // SAM file is a fixed point of read + write
        let mut w = sam::io::Writer::new(Vec::new());
        w.write_header(&hs).map_err(|x| e("sam rewrite_header", x))?;
        for r in &rs {
            w.write_alignment_record(&hs, r).map_err(|x| e("sam rewrite_record", x))?;
        }
        if w.get_ref() != &sam_text {
            return Err("SAM file read and written again differs from itself".into());
        }
        // conversion BAM -> SAM of what was SAM -> BAM: same text up to the base alphabet
        let mut w = sam::io::Writer::new(Vec::new());
        w.write_header(&hb).map_err(|x| e("sam write_header(bam)", x))?;
        for r in &rb {
            w.write_alignment_record(&hb, r).map_err(|x| e("sam write_record(bam)", x))?;
        }
        let all_exact = recs.iter().all(|r| r.seq.iter().all(|b| BAM_ALPHABET.contains(b)));
        if all_exact && w.get_ref() != &sam_text {
            return Err("SAM → BAM → SAM changed the text although every base is in the BAM alphabet".into());
        }
        Ok(())
    });
    match res {
        Ok(Ok(())) => {}
        Ok(Err(t)) => ctx.fail("file-sam-bam", t, case),
        Err(p) => ctx.fail("file-sam-bam", format!("panic: {p}"), case),
    }
}

// ------------------------------------------------------------------ oracle: the float law the theorems assume

fn float_law(ctx: &mut Ctx, bits: u32) {
    let x = f32::from_bits(bits);
    ctx.eval(Some(bits as u64 ^ 0xf10a7));
    let case = format!("float {bits}");
    for (which, text) in [("lexical trim_floats (f field)", lex_fmt(bits)), ("Display (B:f element)", disp_fmt(bits))] {
        if text.is_empty() {
            ctx.fail("float-law", format!("{which} of bits {bits:#x} is the empty string"), case.clone());
        }
        if text.iter().any(|&b| b == b'\t' || b == b',' || b == b'\n') {
            ctx.fail("float-law", format!("{which} of bits {bits:#x} contains a separator: {:?}", String::from_utf8_lossy(&text)), case.clone());
        }
        if x.is_finite() {
            if lex_parse(&text) != Some(bits) {
                ctx.fail("float-law", format!("{which} of bits {bits:#x} is {:?}, which parses to {:?}", String::from_utf8_lossy(&text), lex_parse(&text).map(|b| format!("{b:#x}"))), case.clone());
            }
            if !text.iter().all(|b| b"0123456789eE+-.".contains(b)) {
                ctx.fail("float-law", format!("{which} of finite bits {bits:#x} leaves the SAM float alphabet: {:?}", String::from_utf8_lossy(&text)), case.clone());
            }
        }
    }
}

// ------------------------------------------------------------------ corpus: boundary cases, always first

fn base_rec() -> MRec {
    MRec { name: Some(b"r0".to_vec()), flags: 0, rid: Some(0), pos: 1, mapq: 60, cigar: vec![('M', 4)], mrid: None, mpos: 0, tlen: 0, seq: b"ACGT".to_vec(), qual: vec![30, 31, 32, 33], data: vec![] }
}

fn corpus_recs() -> Vec<(Vec<Vec<u8>>, MRec)> {
    let refs = vec![b"sq0".to_vec(), b"sq1".to_vec()];
    let b = base_rec();
    let mut out = vec![];
    let mut push = |f: &dyn Fn(&mut MRec)| {
        let mut r = b.clone();
        f(&mut r);
        out.push((refs.clone(), r));
    };
    push(&|_| {});
    // the default record: everything absent
    push(&|r| *r = MRec { name: None, flags: 4, rid: None, pos: 0, mapq: 255, cigar: vec![], mrid: None, mpos: 0, tlen: 0, seq: vec![], qual: vec![], data: vec![] });
    // '=' mate collapse / no collapse / mate without own reference
    push(&|r| r.mrid = Some(0));
    push(&|r| r.mrid = Some(1));
    push(&|r| { r.rid = None; r.mrid = Some(1); });
    // reference id outside the dictionary
    push(&|r| r.rid = Some(2));
    push(&|r| r.mrid = Some(2));
    // name edges
    push(&|r| r.name = Some(vec![b'x'; 254]));
    push(&|r| r.name = Some(vec![b'x'; 255]));
    push(&|r| r.name = Some(b"*".to_vec()));
    push(&|r| r.name = Some(vec![]));
    push(&|r| r.name = Some(b"a@b".to_vec()));
    push(&|r| r.name = Some(b"!\"#$%&'()*+,-./0123456789:;<=>?ABCXYZ[\\]^_`abcxyz{|}~".to_vec()));
    // flags: all defined bits, reserved bits
    push(&|r| r.flags = 4095);
    push(&|r| r.flags = 65535);
    // positions
    push(&|r| r.pos = (1 << 31) - 1);
    push(&|r| r.pos = 1 << 31);
    push(&|r| r.mpos = 1 << 31);
    push(&|r| r.pos = 0);
    // mapping quality
    push(&|r| r.mapq = 255);
    push(&|r| r.mapq = 254);
    // template length
    push(&|r| r.tlen = i32::MIN);
    push(&|r| r.tlen = i32::MAX);
    // CIGAR: all kinds, zero-length op, missing, mismatch with SEQ, op length at the BAM limit
    push(&|r| { r.cigar = vec![('H', 1), ('S', 1), ('M', 1), ('I', 1), ('D', 2), ('N', 3), ('P', 1), ('=', 1), ('X', 0)]; });
    push(&|r| r.cigar = vec![]);
    push(&|r| r.cigar = vec![('M', 5)]);
    push(&|r| r.cigar = vec![('D', 5)]);
    push(&|r| r.cigar = vec![('M', 4), ('N', (1 << 28) - 1)]);
    push(&|r| r.cigar = vec![('M', 4), ('N', 1 << 28)]);
    // SEQ / QUAL
    push(&|r| { r.seq = vec![]; r.qual = vec![]; });
    push(&|r| { r.seq = vec![]; r.qual = vec![]; r.cigar = vec![]; });
    push(&|r| { r.seq = vec![]; }); // quality without bases
    push(&|r| r.qual = vec![]);
    push(&|r| r.qual = vec![30; 3]);
    push(&|r| r.qual = vec![93, 0, 9, 94]);
    push(&|r| r.qual = vec![93, 0, 9, 93]);
    push(&|r| r.seq = b"acgt".to_vec());
    push(&|r| r.seq = b"=.NX".to_vec());
    push(&|r| r.seq = b"AC*T".to_vec());
    push(&|r| { r.seq = b"A".to_vec(); r.qual = vec![9]; r.cigar = vec![('M', 1)]; }); // QUAL prints as "*"
    push(&|r| { r.seq = b"A".to_vec(); r.qual = vec![10]; r.cigar = vec![('M', 1)]; });
    push(&|r| { r.seq = b"ACG".to_vec(); r.qual = vec![9, 9, 9]; r.cigar = vec![('M', 3)]; });
    // aux values: every type at its boundaries
    push(&|r| {
        r.data = vec![
            (*b"Xc", MVal::Int('c', -128)), (*b"XC", MVal::Int('C', 255)), (*b"Xs", MVal::Int('s', -32768)), (*b"XS", MVal::Int('S', 65535)),
            (*b"Xi", MVal::Int('i', -2147483648)), (*b"XI", MVal::Int('I', 4294967295)), (*b"Yi", MVal::Int('i', 2147483647)), (*b"Yc", MVal::Int('c', 127)),
            (*b"Zi", MVal::Int('i', 0)), (*b"Zs", MVal::Int('s', -129)), (*b"ZI", MVal::Int('I', 256)),
        ];
    });
    push(&|r| {
        r.data = vec![
            (*b"XA", MVal::Char(b'!')), (*b"XB", MVal::Char(b'~')), (*b"XD", MVal::Char(b':')), (*b"XZ", MVal::Str(b"".to_vec())),
            (*b"YZ", MVal::Str(b" a:b,c\\ ~".to_vec())), (*b"XH", MVal::Hex(b"".to_vec())), (*b"YH", MVal::Hex(b"00FF1A".to_vec())),
        ];
    });
    push(&|r| {
        r.data = vec![
            (*b"XF", MVal::Float(0)), (*b"YF", MVal::Float(0x8000_0000)), (*b"ZF", MVal::Float(0x7f7f_ffff)), (*b"WF", MVal::Float(1)),
            (*b"VF", MVal::Float(0x501502f9)), (*b"UF", MVal::Float(0x33d6bf95)), (*b"TF", MVal::Float(0x3dcc_cccd)),
        ];
    });
    push(&|r| {
        r.data = vec![
            (*b"Bc", MVal::IArr('c', vec![-128, 0, 127])), (*b"BC", MVal::IArr('C', vec![0, 255])), (*b"Bs", MVal::IArr('s', vec![-32768, 32767])),
            (*b"BS", MVal::IArr('S', vec![65535])), (*b"Bi", MVal::IArr('i', vec![-2147483648, 2147483647])), (*b"BI", MVal::IArr('I', vec![4294967295])),
            (*b"Be", MVal::IArr('c', vec![])), (*b"Bf", MVal::FArr(vec![0, 0x8000_0000, 0x7f7f_ffff, 1, 0x501502f9, 0x33d6bf95])), (*b"Bg", MVal::FArr(vec![])),
        ];
    });
    // values the writer must refuse
    push(&|r| r.data = vec![(*b"XF", MVal::Float(0x7fc0_0000))]);
    push(&|r| r.data = vec![(*b"XF", MVal::Float(0x7f80_0000))]);
    push(&|r| r.data = vec![(*b"Bf", MVal::FArr(vec![0x7fc0_0000, 0xff80_0000, 0xffc0_0001]))]); // not refused for arrays
    push(&|r| r.data = vec![(*b"XA", MVal::Char(b' '))]);
    push(&|r| r.data = vec![(*b"XZ", MVal::Str(b"a\tb".to_vec()))]);
    push(&|r| r.data = vec![(*b"XH", MVal::Hex(b"0".to_vec()))]);
    push(&|r| r.data = vec![(*b"XH", MVal::Hex(b"0a".to_vec()))]);
    push(&|r| r.data = vec![(*b"1X", MVal::Int('C', 1))]);
    // more CIGAR operations than BAM's 16-bit count holds (BAM parks them in a CG:B,I field)
    for n in [65535usize, 65536, 70000] {
        push(&|r| { r.cigar = vec![('M', 1); n]; r.seq = vec![b'A'; n]; r.qual = vec![]; r.data = vec![(*b"NM", MVal::Int('C', 0))]; });
    }
    // BAM's own tag
    push(&|r| r.data = vec![(*b"NH", MVal::Int('C', 1)), (*b"CG", MVal::IArr('I', vec![64, 35])), (*b"NM", MVal::Int('C', 0))]);
    push(&|r| { r.cigar = vec![('S', 4), ('N', 10)]; r.data = vec![(*b"CG", MVal::IArr('I', vec![64]))]; });
    out
}

fn corpus_lines() -> Vec<Vec<u8>> {
    [
        &b"*\t4\t*\t0\t255\t*\t*\t0\t0\t*\t*"[..], b"", b"*", b"r0\t0\tsq0\t1\t60\t4M\t=\t5\t-3\tACGT\t!!!!", b"r0\t0\tsq0\t1\t60\t4M\t=\t5\t-3\tACGT\t!!!!\t",
        b"r0\t0\tsq0\t1\t60\t4M\t=\t5\t-3\tACGT\t!!!!\tNH:i:1\t", b"r0\t0\tsq0\t1\t60\t4M\t=\t5\t-3\tACGT\t!!!!\t\tNH:i:1", b"r0\t0\t*\t1\t60\t4M\t=\t5\t-3\tACGT\t!!!!",
        b"r0\t0\tsqX\t1\t60\t4M\t*\t0\t0\tACGT\t*", b"r0\t65535\tsq0\t+1\t255\tM\t*\t0\t0\t*\t*", b"r0\t0\tsq0\t1\t60\t4\t*\t0\t0\t*\t*", b"r0\t0\tsq0\t1\t60\t+4M-0D\t*\t0\t0\t*\t*",
        b"r0\t0\tsq0\t1\t60\t4Z\t*\t0\t0\t*\t*", b"r0\t0\tsq0\t1\t256\t*\t*\t0\t0\t*\t*", b"r0\t0\tsq0\t1\t60\t*\t*\t0\t0\tACGT\t!!!", b"r0\t0\tsq0\t1\t60\t*\t*\t0\t0\t*\t!!!",
        b"r0\t0\tsq0\t1\t60\t*\t*\t0\t0\tA\t*", b"r0\t0\tsq0\t1\t60\t*\t*\t0\t0\tA\t \t", b"r0\t0\tsq0\t1\t60\t*\t*\t0\t0\t*\t*\tNH:i:1\tNH:i:2", b"r0\t0\tsq0\t1\t60\t*\t*\t0\t0\t*\t*\tNH:i:4294967295",
        b"r0\t0\tsq0\t1\t60\t*\t*\t0\t0\t*\t*\tNH:i:4294967296", b"r0\t0\tsq0\t1\t60\t*\t*\t0\t0\t*\t*\tNH:i:-2147483648", b"r0\t0\tsq0\t1\t60\t*\t*\t0\t0\t*\t*\tNH:i:-2147483649",
        b"r0\t0\tsq0\t1\t60\t*\t*\t0\t0\t*\t*\tXA:A:ab", b"r0\t0\tsq0\t1\t60\t*\t*\t0\t0\t*\t*\tXA:A:", b"r0\t0\tsq0\t1\t60\t*\t*\t0\t0\t*\t*\tXB:B:c", b"r0\t0\tsq0\t1\t60\t*\t*\t0\t0\t*\t*\tXB:B:c,",
        b"r0\t0\tsq0\t1\t60\t*\t*\t0\t0\t*\t*\tXB:B:c,,5", b"r0\t0\tsq0\t1\t60\t*\t*\t0\t0\t*\t*\tXB:B:c,+,-", b"r0\t0\tsq0\t1\t60\t*\t*\t0\t0\t*\t*\tXB:B:C,-1", b"r0\t0\tsq0\t1\t60\t*\t*\t0\t0\t*\t*\tXB:B:c,128",
        b"r0\t0\tsq0\t1\t60\t*\t*\t0\t0\t*\t*\tXB:B:f,1.5,nan,-inf,1e40,", b"r0\t0\tsq0\t1\t60\t*\t*\t0\t0\t*\t*\tXB:B:f,1.5,nan,-inf,1e40", b"r0\t0\tsq0\t1\t60\t*\t*\t0\t0\t*\t*\tXB:B:f,,1", b"r0\t0\tsq0\t1\t60\t*\t*\t0\t0\t*\t*\tXB:B:f",
        b"r0\t0\tsq0\t1\t60\t*\t*\t0\t0\t*\t*\tXB:B:x,1", b"r0\t0\tsq0\t1\t60\t*\t*\t0\t0\t*\t*\tXB:B:", b"r0\t0\tsq0\t1\t60\t*\t*\t0\t0\t*\t*\tXF:f:1.5e", b"r0\t0\tsq0\t1\t60\t*\t*\t0\t0\t*\t*\tXF:f:.5",
        b"r0\t0\tsq0\t1\t60\t*\t*\t0\t0\t*\t*\tXF:f:Infinity", b"r0\t0\tsq0\t1\t60\t*\t*\t0\t0\t*\t*\tXF:f:", b"r0\t0\tsq0\t1\t60\t*\t*\t0\t0\t*\t*\tXH:H:0a", b"r0\t0\tsq0\t1\t60\t*\t*\t0\t0\t*\t*\tXZ:Z:",
        b"r0\t0\tsq0\t1\t60\t*\t*\t0\t0\t*\t*\tXZ:Z", b"r0\t0\tsq0\t1\t60\t*\t*\t0\t0\t*\t*\tXZ;Z:a", b"r0\t0\tsq0\t1\t60\t*\t*\t0\t0\t*\t*\tX", b"r0\t0\tsq0\t1\t60\t*\t*\t0\t0\t*\t*\t::::::",
        b"r0\t0\tsq0\t1\t60\t*\t*\t0\t0\t*\t*\tXQ:q:1", b"\t0\tsq0\t1\t60\t*\t*\t0\t0\t*\t*", b"r0\t\tsq0\t1\t60\t*\t*\t0\t0\t*\t*", b"r0\t0\tsq0\t1\t60\t*\t=\t0\t0\t*\t*", b"r0\t0\t*\t1\t60\t*\t=\t0\t0\t*\t*",
        b"r0\t0\t=\t1\t60\t*\t*\t0\t0\t*\t*", b"r0\t0\tsq0\t18446744073709551615\t60\t*\t*\t0\t0\t*\t*", b"r0\t0\tsq0\t18446744073709551616\t60\t*\t*\t0\t0\t*\t*", b"r0\t0\tsq0\t1\t60\t*\t*\t0\t2147483648\t*\t*",
    ]
    .iter()
    .map(|l| l.to_vec())
    .collect()
}

fn corpus_hdrs() -> Vec<MHdr> {
    let mut out = vec![MHdr::default()];
    out.push(MHdr { hd: Some((1, 6, vec![])), ..Default::default() });
    out.push(MHdr { hd: Some((1, 6, vec![(*b"SO", b"coordinate".to_vec()), (*b"GO", b"none".to_vec()), (*b"xy", b" ~".to_vec())])), sq: vec![(b"sq0".to_vec(), 8, vec![(*b"M5", b"d41d8cd98f00b204e9800998ecf8427e".to_vec())]), (b"sq1".to_vec(), (1 << 31) - 1, vec![])], rg: vec![(b"rg0".to_vec(), vec![(*b"SM", b"s 1".to_vec())]), (b"rg1".to_vec(), vec![])], pg: vec![(b"pg0".to_vec(), vec![(*b"PN", b"x".to_vec())]), (b"pg1".to_vec(), vec![(*b"PP", b"pg0".to_vec())])], co: vec![b"hello".to_vec(), vec![], b"tab\there".to_vec()] });
    out.push(MHdr { sq: vec![(b"sq0".to_vec(), 1 << 31, vec![])], ..Default::default() });
    out.push(MHdr { sq: vec![(b"*".to_vec(), 5, vec![])], ..Default::default() });
    out.push(MHdr { sq: vec![(b"=a".to_vec(), 5, vec![])], ..Default::default() });
    out.push(MHdr { sq: vec![(b"a=*".to_vec(), 5, vec![])], ..Default::default() });
    out.push(MHdr { sq: vec![(b"a,b".to_vec(), 5, vec![])], ..Default::default() });
    out.push(MHdr { rg: vec![(vec![], vec![])], ..Default::default() });
    out.push(MHdr { rg: vec![(b"x".to_vec(), vec![(*b"1a", b"v".to_vec())])], ..Default::default() });
    out.push(MHdr { rg: vec![(b"x".to_vec(), vec![(*b"ab", vec![])])], ..Default::default() });
    out.push(MHdr { pg: vec![(b"x".to_vec(), vec![(*b"ab", b"a\tb".to_vec())])], ..Default::default() });
    out.push(MHdr { hd: Some((1, 5, vec![])), co: vec![b"x\r".to_vec()], ..Default::default() });
    out.push(MHdr { co: vec![b"two\nlines".to_vec()], ..Default::default() });
    out.push(MHdr { hd: Some((0, 0, vec![])), ..Default::default() });
    out
}

// ------------------------------------------------------------------ entry

pub fn run(ctx: &mut Ctx) {
    if let Some(case) = ctx.replay_only.clone() {
        if super::c06_file::replay(ctx, &case) { return; }
        if super::c06_lazy::replay(ctx, &case) { return; }
        let sub: u64 = case.get(1).and_then(|s| s.parse().ok()).unwrap_or(0);
        let tag = format!("{} {}", case.first().cloned().unwrap_or_default(), sub);
        match case.first().map(|s| s.as_str()) {
            Some("rec") => {
                let (refs, r) = rec_case_of(sub);
                rec_case(ctx, &refs, &r, &tag, false);
            }
            Some("bam") => {
                let (refs, r) = rec_case_of(sub);
                bam_case(ctx, &refs, &r, &tag, false);
            }
            Some("parse") => {
                let (refs, line) = parse_case_of(sub);
                parse_case(ctx, &refs, &line, &tag);
            }
            Some("hdr") => hdr_case(ctx, &hdr_case_of(sub), &tag, false),
            Some("hparse") => hparse_case(ctx, &gen_hdr_text(&mut Rng::new(sub)), &tag),
            Some("bamh") => bamhparse_case(ctx, &gen_bam_hdr_bytes(&mut Rng::new(sub)), &tag),
            Some("file") => file_case(ctx, sub),
            Some("float") => float_law(ctx, sub as u32),
            Some("corpus-rec") => {
                if let Some((refs, r)) = corpus_recs().get(sub as usize) {
                    rec_case(ctx, refs, r, &tag, false);
                    bam_case(ctx, refs, r, &tag, false);
                }
            }
            Some("corpus-line") => {
                if let Some(l) = corpus_lines().get(sub as usize) {
                    parse_case(ctx, &[b"sq0".to_vec(), b"sq1".to_vec()], l, &tag);
                }
            }
            Some("lazy") => lazy_case(ctx, &lazy_case_of(sub), &tag),
            Some("corpus-lazy") => {
                if let Some(d) = corpus_lazy().get(sub as usize) {
                    lazy_case(ctx, d, &tag);
                }
            }
            Some("corpus-hdr") => {
                if let Some(m) = corpus_hdrs().get(sub as usize) {
                    hdr_case(ctx, m, &tag, false);
                }
            }
            _ => {}
        }
        return;
    }
    // corpus first
    num_cases(ctx);
    for (i, (refs, r)) in corpus_recs().iter().enumerate() {
        rec_case(ctx, refs, r, &format!("corpus-rec {i}"), true);
        bam_case(ctx, refs, r, &format!("corpus-rec {i}"), true);
    }
    let refs = vec![b"sq0".to_vec(), b"sq1".to_vec()];
    for (i, l) in corpus_lines().iter().enumerate() {
        parse_case(ctx, &refs, l, &format!("corpus-line {i}"));
    }
    for (i, m) in corpus_hdrs().iter().enumerate() {
        hdr_case(ctx, m, &format!("corpus-hdr {i}"), true);
    }
    for (i, d) in corpus_lazy().iter().enumerate() {
        lazy_case(ctx, d, &format!("corpus-lazy {i}"));
    }
    // generated
    let seed = ctx.seed;
    let n = ctx.n(2500, 600_000);
    for it in 0..n {
        let sub = seed.wrapping_mul(6_000_011).wrapping_add(it);
        let (refs, r) = rec_case_of(sub);
        let big = r.cigar.len() > 100;
        rec_case(ctx, &refs, &r, &format!("rec {sub}"), !big || it % 4 == 0);
        bam_case(ctx, &refs, &r, &format!("bam {sub}"), !big || it % 4 == 0);
        for (_, v) in &r.data {
            ctx.bump(match v {
                MVal::Char(_) => "aux_A",
                MVal::Int(..) => "aux_int",
                MVal::Float(_) => "aux_f",
                MVal::Str(_) => "aux_Z",
                MVal::Hex(_) => "aux_H",
                MVal::IArr(..) => "aux_B_int",
                MVal::FArr(_) => "aux_B_f",
            });
        }
        ctx.bump(match (r.rid, r.mrid) {
            (Some(a), Some(b)) if a == b => "mate_same_reference(=)",
            (_, None) => "mate_unset(*)",
            _ => "mate_other_reference",
        });
        ctx.bump(if r.seq.is_empty() { "seq_absent" } else { "seq_present" });
        ctx.bump(if r.qual.is_empty() { "qual_absent" } else { "qual_present" });
        ctx.bump(if r.cigar.is_empty() { "cigar_absent" } else { "cigar_present" });
    }
    let n = ctx.n(1500, 300_000);
    for it in 0..n {
        let sub = seed.wrapping_mul(6_000_013).wrapping_add(it);
        let (refs, line) = parse_case_of(sub);
        parse_case(ctx, &refs, &line, &format!("parse {sub}"));
    }
    let n = ctx.n(1200, 250_000);
    for it in 0..n {
        let sub = seed.wrapping_mul(6_000_037).wrapping_add(it);
        lazy_case(ctx, &lazy_case_of(sub), &format!("lazy {sub}"));
    }
    let n = ctx.n(600, 100_000);
    for it in 0..n {
        let sub = seed.wrapping_mul(6_000_017).wrapping_add(it);
        hdr_case(ctx, &hdr_case_of(sub), &format!("hdr {sub}"), true);
    }
    let n = ctx.n(800, 150_000);
    for it in 0..n {
        let sub = seed.wrapping_mul(6_000_019).wrapping_add(it);
        hparse_case(ctx, &gen_hdr_text(&mut Rng::new(sub)), &format!("hparse {sub}"));
    }
    let n = ctx.n(400, 60_000);
    for it in 0..n {
        let sub = seed.wrapping_mul(6_000_023).wrapping_add(it);
        bamhparse_case(ctx, &gen_bam_hdr_bytes(&mut Rng::new(sub)), &format!("bamh {sub}"));
    }
    let n = ctx.n(150, 20_000);
    for it in 0..n {
        file_case(ctx, seed.wrapping_mul(6_000_029).wrapping_add(it));
    }
    let n = ctx.n(20_000, 10_000_000);
    let mut rng = Rng::new(seed.wrapping_mul(6_000_031));
    for _ in 0..n {
        let b = gen_f32_bits(&mut rng, true);
        float_law(ctx, b);
    }
    ctx.sample(|| "c06 rec r,737130 n7230;0;0;1;60;,4M;0;5;-3;41434754;1e1f2021;|4e48.C.1 t".into());
    ctx.sample(|| "c06 hparse 40484409564e3a312e360a40535109534e3a737130094c4e3a380a".into());
    super::c06_file::run(ctx);
    super::c06_lazy::run(ctx);
}
