//! C15, CRAM codec decoders: hostile streams through `rans_4x8::decode`, `rans_nx16::decode` and
//! `name_tokenizer::decode` (hooks `noodles_cram::verif::*`), compared with the `Res`-valued Lean
//! transcriptions `lean/Noodles/Hostile/{Rans4x8,RansNx16,NameTok}.lean` (request words
//! `c15 r4x8 | nx16 | ntok`, handled by `DriverC15Codec.lean`).
//!
//! * correspondence: a hand-written corpus first (one stream per rejecting branch, labelled), then
//!   for small inputs under every order / every one of the 256 flag bytes the REAL encoder's output
//!   intact, truncated at every length and with single-byte substitutions at every position,
//!   random multi-byte damage, arbitrary byte strings; for the tokenizer also containers
//!   re-assembled around hostile TOKEN STREAMS (the decoded streams are damaged and compressed
//!   again with the real rANS Nx16 / arithmetic encoder) and hand-made containers. The answer is
//!   `ok:<bytes>`, the error class, or `panic`.
//! * the decoders allocate the sizes their own stream declares (up to 4 GiB) and, with a degenerate
//!   frequency table, produce them without reading input: a request is only made when a shadow
//!   walk of the stream's headers (`nx16_scan`, `tok_scan`) finds every declared size `<= CAP`.
//!   A wrong walk cannot hide anything: the model's allocator refuses sizes above 2^20, which
//!   shows as a disagreement.
//! * oracle: every correspondence input and a larger set of damaged streams (declared sizes up
//!   to 2^20) must give `Ok` or `Err` — a panic is the failure `panic:codec:<suite>`.
use crate::common::*;
use noodles_cram as cram;
use cram::verif as v;
use std::collections::{BTreeMap, BTreeSet};

/// largest declared size in a correspondence request
const CAP: usize = 1 << 16;
/// largest declared size in an oracle-only evaluation
const CAP_ORACLE: usize = 1 << 20;

thread_local! {
    static ONLY: std::cell::Cell<Option<u64>> = const { std::cell::Cell::new(None) };
}
fn only() -> Option<u64> {
    ONLY.with(|o| o.get())
}

fn fmt_bytes(d: &[u8]) -> String {
    if d.len() <= 256 { format!("ok:{}", hex(d)) } else { format!("ok:{}:{}", d.len(), crc32(d)) }
}

fn fmt_res(r: std::io::Result<Vec<u8>>) -> String {
    match r {
        Ok(d) => fmt_bytes(&d),
        Err(e) => errclass(&e).to_string(),
    }
}

/// one correspondence request; every request is also an oracle evaluation (no panic)
fn emit(ctx: &mut Ctx, label: &str, req: String, f: impl FnOnce() -> String) {
    let h = fnv(req.as_bytes());
    if let Some(o) = only() {
        if o != h {
            return;
        }
    }
    let suite = req.split(' ').nth(1).unwrap_or("?").to_string();
    let ans = match guarded(f) {
        Ok(a) => a,
        Err(p) => {
            let shown = if req.len() > 600 { format!("{}…", &req[..600]) } else { req.clone() };
            ctx.fail(&format!("panic:codec:{suite}"), format!("PANIC {p} — request `{shown}`"), format!("codec {suite} {h}"));
            "panic".to_string()
        }
    };
    let class = if ans.starts_with("ok:") { "ok" } else { ans.as_str() };
    ctx.eval(if class == "ok" || class == "err:eof" { Some(h) } else { None });
    ctx.bump(&format!("codec:{suite}:{label}:{class}"));
    ctx.bump(&format!("codec:{suite}:answer:{class}"));
    ctx.corr(req, ans);
}

// ------------------------------------------------------------------ uint7 and the shadow walks

fn put_u7(dst: &mut Vec<u8>, n: u32) {
    let mut groups = vec![(n & 0x7f) as u8];
    let mut m = n >> 7;
    while m > 0 {
        groups.push((m & 0x7f) as u8 | 0x80);
        m >>= 7;
    }
    groups.reverse();
    dst.extend(groups);
}

fn get_u7(s: &[u8], p: &mut usize) -> Option<usize> {
    let mut n: u32 = 0;
    for k in 0..5 {
        let b = *s.get(*p)?;
        *p += 1;
        n = (n << 7) | u32::from(b & 0x7f);
        if b & 0x80 == 0 {
            return Some(n as usize);
        }
        if k == 4 {
            return None;
        }
    }
    None
}

#[derive(Default)]
struct Scan {
    /// largest size some stage of the decoder would allocate / produce
    max: usize,
    feats: BTreeSet<&'static str>,
}

/// follow the headers of an rANS Nx16 stream the way `decode_chunk` does and note every declared
/// size; stops where the stream ends (the decoder fails there or earlier)
fn nx16_scan(src: &[u8], mut n: usize, depth: usize, sc: &mut Scan) -> Option<()> {
    let mut p = 0usize;
    let flags = *src.get(p)?;
    p += 1;
    if flags & 0x10 == 0 {
        n = get_u7(src, &mut p)?;
    } else {
        sc.feats.insert("nosize");
    }
    sc.max = sc.max.max(n);
    if flags & 0x04 != 0 {
        sc.feats.insert("n32");
    }
    if flags & 0x08 != 0 {
        sc.feats.insert("stripe");
        if depth >= 8 {
            sc.feats.insert("stripe-too-deep");
            return None;
        }
        let count = *src.get(p)? as usize;
        p += 1;
        if count == 0 {
            return None;
        }
        let mut csizes = vec![];
        for _ in 0..count {
            csizes.push(get_u7(src, &mut p)?);
        }
        for (i, c) in csizes.iter().enumerate() {
            let (q, r) = (n / count, n % count);
            let u = if r > i { q + 1 } else { q };
            let end = p.checked_add(*c)?;
            let buf = src.get(p..end)?;
            p = end;
            if depth > 0 {
                sc.feats.insert("stripe-nested");
            }
            nx16_scan(buf, u, depth + 1, sc);
        }
        return Some(());
    }
    if flags & 0x80 != 0 {
        sc.feats.insert("pack");
        let count = *src.get(p)? as usize;
        p += 1;
        if count == 0 {
            return None;
        }
        p = p.checked_add(count)?;
        if p > src.len() {
            return None;
        }
        n = get_u7(src, &mut p)?;
        sc.max = sc.max.max(n);
    }
    if flags & 0x40 != 0 {
        sc.feats.insert("rle");
        let hdr = get_u7(src, &mut p)?;
        let ctx_size = hdr >> 1;
        sc.max = sc.max.max(ctx_size);
        n = get_u7(src, &mut p)?;
        sc.max = sc.max.max(n);
        if hdr & 1 == 0 {
            sc.feats.insert("rle-meta-compressed");
            let c = get_u7(src, &mut p)?;
            p = p.checked_add(c)?;
        } else {
            p = p.checked_add(ctx_size)?;
        }
        if p > src.len() {
            return None;
        }
    }
    if flags & 0x20 != 0 {
        sc.feats.insert("cat");
        return Some(());
    }
    if flags & 0x01 != 0 {
        sc.feats.insert("order1");
        let b = *src.get(p)?;
        p += 1;
        if b & 1 != 0 {
            sc.feats.insert("order1-table-compressed");
            let u = get_u7(src, &mut p)?;
            sc.max = sc.max.max(u);
        }
    } else {
        sc.feats.insert("order0");
    }
    Some(())
}

/// one token byte stream of a tokenizer container, as the framing describes it
#[derive(Clone, Debug)]
enum Payload {
    Dup(u8, u8),
    Comp(Vec<u8>),
}

/// follow the framing of a name tokenizer container: header, then `(ttype, payload)*`; stops where
/// the container ends or a type byte is invalid
fn tok_walk(src: &[u8]) -> Option<(usize, usize, u8, Vec<(u8, Payload)>)> {
    if src.len() < 9 {
        return None;
    }
    let usize_ = u32::from_le_bytes(src[0..4].try_into().unwrap()) as usize;
    let n_names = u32::from_le_bytes(src[4..8].try_into().unwrap()) as usize;
    let method = src[8];
    let mut p = 9;
    let mut out = vec![];
    while p < src.len() {
        let ttype = src[p];
        p += 1;
        if ttype & 0x3f > 12 {
            break;
        }
        if ttype & 0x40 != 0 {
            let (Some(a), Some(b)) = (src.get(p).copied(), src.get(p + 1).copied()) else { break };
            p += 2;
            out.push((ttype, Payload::Dup(a, b)));
            if b & 0x3f > 12 {
                break;
            }
        } else {
            let Some(c) = get_u7(src, &mut p) else { break };
            let Some(end) = p.checked_add(c) else { break };
            let Some(buf) = src.get(p..end) else { break };
            p = end;
            out.push((ttype, Payload::Comp(buf.to_vec())));
        }
    }
    Some((usize_, n_names, method, out))
}

fn assemble(usize_: u32, n_names: u32, method: u8, streams: &[(u8, Payload)]) -> Vec<u8> {
    let mut dst = vec![];
    dst.extend(usize_.to_le_bytes());
    dst.extend(n_names.to_le_bytes());
    dst.push(method);
    for (ttype, p) in streams {
        dst.push(*ttype);
        match p {
            Payload::Dup(a, b) => {
                dst.push(*a);
                dst.push(*b);
            }
            Payload::Comp(c) => {
                put_u7(&mut dst, c.len() as u32);
                dst.extend(c);
            }
        }
    }
    dst
}

// ------------------------------------------------------------------ requests

fn req_r4x8(ctx: &mut Ctx, label: &str, src: &[u8]) {
    // the declared size is the `u32` at offset 5
    if src.len() >= 9 {
        let n = u32::from_le_bytes(src[5..9].try_into().unwrap()) as usize;
        if n > CAP {
            ctx.bump("codec:r4x8:skipped:declared-size");
            return;
        }
    }
    let order = src.first().map(|b| format!("order{b}")).unwrap_or_else(|| "empty".into());
    if matches!(src.first(), Some(0) | Some(1)) || src.is_empty() {
        ctx.bump(&format!("codec:r4x8:feat:{order}"));
    } else {
        ctx.bump("codec:r4x8:feat:order-invalid");
    }
    let s = src.to_vec();
    emit(ctx, label, format!("c15 r4x8 {}", hex(src)), move || fmt_res(v::rans_4x8_decode(&s)));
}

fn req_nx16(ctx: &mut Ctx, label: &str, src: &[u8], n: usize) {
    let mut sc = Scan::default();
    nx16_scan(src, n, 0, &mut sc);
    if sc.max > CAP {
        ctx.bump("codec:nx16:skipped:declared-size");
        return;
    }
    for f in &sc.feats {
        ctx.bump(&format!("codec:nx16:feat:{f}"));
    }
    let s = src.to_vec();
    emit(ctx, label, format!("c15 nx16 {n} {}", hex(src)), move || fmt_res(v::rans_nx16_decode(&s, n)));
}

/// `known`: arithmetic-coder payloads that the real encoder produced (only those are decoded in
/// process for the table)
fn req_ntok(ctx: &mut Ctx, label: &str, src: &[u8], known: &BTreeSet<Vec<u8>>) {
    let mut table: BTreeMap<Vec<u8>, String> = BTreeMap::new();
    if let Some((usize_, n_names, method, streams)) = tok_walk(src) {
        if usize_ > CAP || n_names > CAP {
            ctx.bump("codec:ntok:skipped:declared-size");
            return;
        }
        ctx.bump(if method == 0 { "codec:ntok:feat:method-rans" } else { "codec:ntok:feat:method-aac" });
        for (ttype, p) in &streams {
            if ttype & 0x80 != 0 {
                ctx.bump("codec:ntok:feat:new-token");
            }
            match p {
                Payload::Dup(..) => ctx.bump("codec:ntok:feat:dup-stream"),
                Payload::Comp(c) => {
                    if method == 0 {
                        let mut sc = Scan::default();
                        nx16_scan(c, 0, 0, &mut sc);
                        if sc.max > CAP {
                            ctx.bump("codec:ntok:skipped:declared-size");
                            return;
                        }
                    } else {
                        if !known.contains(c) {
                            ctx.bump("codec:ntok:skipped:aac-payload-not-encoder-made");
                            return;
                        }
                        let c2 = c.clone();
                        let ans = match guarded(move || v::aac_decode(&c2, 0)) {
                            Ok(Ok(d)) => hex(&d),
                            Ok(Err(e)) => format!("!{}", errclass(&e).trim_start_matches("err:")),
                            Err(_) => "!panic".into(),
                        };
                        table.insert(c.clone(), ans);
                    }
                }
            }
        }
    }
    let t = if table.is_empty() { "-".to_string() } else { table.iter().map(|(k, a)| format!("{}={}", hex(k), a)).collect::<Vec<_>>().join(",") };
    let s = src.to_vec();
    emit(ctx, label, format!("c15 ntok {} {}", hex(src), t), move || fmt_res(v::name_tokenizer_decode(&s)));
}

// ------------------------------------------------------------------ mutation engines

/// the values a byte is replaced by: `k` of them, the first ones structural
fn subst_values(rng: &mut Rng, b: u8, k: usize) -> Vec<u8> {
    let mut pool = vec![b ^ 1, b.wrapping_add(1), 0x00, 0xff, 0x80, b ^ 0x80, b.wrapping_sub(1), 0x7f, b ^ 0x40, b ^ 0x08, 0x01, b ^ 0x20, b ^ 0x10, b ^ 0x04, b ^ 0x02];
    // a seeded rotation so that different runs see different structural values
    let rot = rng.below(pool.len() as u64) as usize;
    pool.rotate_left(rot);
    let mut out: Vec<u8> = vec![];
    out.push(rng.next() as u8);
    for v in pool {
        if out.len() >= k {
            break;
        }
        if v != b && !out.contains(&v) {
            out.push(v);
        }
    }
    out.retain(|v| *v != b);
    out
}

/// intact, truncations (every length below 48 and the last four, every `tstride`-th in between),
/// `k` substitutions at every `stride`-th position, `dmg` damaged copies
fn mutants(rng: &mut Rng, enc: &[u8], k: usize, stride: usize, dmg: usize, tstride: usize) -> Vec<(&'static str, Vec<u8>)> {
    let mut out = vec![("intact", enc.to_vec())];
    let toff = rng.below(tstride.max(1) as u64) as usize;
    for cut in 0..enc.len() {
        if cut < 48 || cut + 4 >= enc.len() || (cut + toff) % tstride.max(1) == 0 {
            out.push(("trunc", enc[..cut].to_vec()));
        }
    }
    let off = rng.below(stride.max(1) as u64) as usize;
    for p in 0..enc.len() {
        // the first 12 bytes hold flags / orders / sizes: always substituted
        if p >= 12 && (p + off) % stride.max(1) != 0 {
            continue;
        }
        for val in subst_values(rng, enc[p], k) {
            let mut m = enc.to_vec();
            m[p] = val;
            out.push(("subst", m));
        }
    }
    for _ in 0..dmg {
        if enc.is_empty() {
            break;
        }
        let mut m = enc.to_vec();
        for _ in 0..1 + rng.below(3) {
            let p = rng.below(m.len() as u64) as usize;
            match rng.below(4) {
                0 => m[p] = rng.next() as u8,
                1 => m[p] ^= 1 << rng.below(8),
                2 => {
                    m.insert(p, rng.next() as u8);
                }
                _ => {
                    m.remove(p);
                    if m.is_empty() {
                        break;
                    }
                }
            }
        }
        out.push(("damage", m));
    }
    out
}

fn sample_inputs(rng: &mut Rng, count: usize) -> Vec<Vec<u8>> {
    let fixed: Vec<Vec<u8>> = vec![
        b"noodles".to_vec(),
        b"ACGTACGTTTGACCAGTAGGCATTAGACCAGATTAGGG".to_vec(),
        b"AAAAAAAAAAAAAAAACCCCCCCCAAAAAAAAAAAAAAAAAAAAAAAAAG".to_vec(),
        b"A".to_vec(),
        (0u8..=255).collect(),
        b"IIIIIIIIIHHHHHGGGGFFF###IIIIIIIIHHHH".to_vec(),
        b"abc".to_vec(),
        vec![0xff; 9],
        (0u8..40).map(|i| i % 17).collect(),
        b"read.1\0read.2\0read.10\0".to_vec(),
        (250u8..=255).cycle().take(30).collect(),
        vec![],
    ];
    let mut out = vec![];
    for i in 0..count {
        if i < fixed.len() {
            out.push(fixed[i].clone());
        } else {
            let n = *rng.pick(&[1usize, 2, 3, 4, 5, 7, 8, 13, 31, 32, 33, 64, 100]);
            let alpha = *rng.pick(&[1u64, 2, 3, 4, 5, 16, 17, 64, 256]);
            let base = rng.next() as u8;
            out.push((0..n).map(|_| base.wrapping_add(rng.below(alpha) as u8)).collect());
        }
    }
    out
}

// ------------------------------------------------------------------ rANS 4x8

fn itf8(n: u32) -> Vec<u8> {
    if n < 0x80 {
        vec![n as u8]
    } else if n < 0x4000 {
        vec![0x80 | (n >> 8) as u8, n as u8]
    } else if n < 0x20_0000 {
        vec![0xc0 | (n >> 16) as u8, (n >> 8) as u8, n as u8]
    } else if n < 0x1000_0000 {
        vec![0xe0 | (n >> 24) as u8, (n >> 16) as u8, (n >> 8) as u8, n as u8]
    } else {
        vec![0xf0 | (n >> 28) as u8, (n >> 20) as u8, (n >> 12) as u8, (n >> 4) as u8, (n & 0x0f) as u8]
    }
}

fn r4_header(order: u8, n: u32) -> Vec<u8> {
    let mut s = vec![order];
    s.extend(0u32.to_le_bytes());
    s.extend(n.to_le_bytes());
    s
}

fn cat(parts: &[&[u8]]) -> Vec<u8> {
    parts.concat()
}

fn r4x8_corpus(ctx: &mut Ctx) {
    let st = |a: u32, b: u32, c: u32, d: u32| -> Vec<u8> { [a, b, c, d].iter().flat_map(|x| x.to_le_bytes()).collect() };
    let big = 1u32 << 23;
    let cases: Vec<(&str, Vec<u8>)> = vec![
        ("empty", vec![]),
        ("order-2", cat(&[&[2u8], &[0; 8]])),
        ("header-short", vec![0, 1, 2, 3, 4, 5, 6, 7]),
        ("size-0-order0", r4_header(0, 0)),
        ("size-0-order1", r4_header(1, 0)),
        ("size-0-trailing", cat(&[&r4_header(0, 0), &[1, 2, 3]])),
        ("o0-no-table", r4_header(0, 4)),
        ("o0-table-eof-after-sym", cat(&[&r4_header(0, 4), &[0x41]])),
        ("o0-table-eof-after-freq", cat(&[&r4_header(0, 4), &[0x41], &itf8(4095)])),
        ("o0-freq-65536", cat(&[&r4_header(0, 4), &[0x41], &itf8(65536), &[0]])),
        ("o0-freq-negative", cat(&[&r4_header(0, 4), &[0x41, 0xff, 0xff, 0xff, 0xff, 0xff], &[0]])),
        ("o0-freq-65535-then-1", cat(&[&r4_header(0, 4), &[0x41], &itf8(65535), &[0x43], &itf8(1), &[0]])),
        ("o0-total-4097", cat(&[&r4_header(0, 4), &[0x41], &itf8(4096), &[0x43], &itf8(1), &[0], &st(big, big, big, big)])),
        // refused by `validate_frequencies`; without it `state_step` overflows at this state
        ("o0-total-4097-max-state", cat(&[&r4_header(0, 9), &[0x41], &itf8(4097), &[0], &st(u32::MAX, u32::MAX, u32::MAX, u32::MAX)])),
        ("o0-total-4096-one-symbol", cat(&[&r4_header(0, 9), &[0x41], &itf8(4096), &[0], &st(big, big, big, big)])),
        ("o0-total-4096-max-state", cat(&[&r4_header(0, 9), &[0x41], &itf8(4096), &[0], &st(u32::MAX, u32::MAX, u32::MAX, u32::MAX)])),
        ("o0-total-4095-sym255", cat(&[&r4_header(0, 5), &[0xff], &itf8(4095), &[0], &st(big, big | 0xfff, big, 0), &[0x80; 24]])),
        ("o0-all-zero-table", cat(&[&r4_header(0, 3), &[0x41], &itf8(0), &[0], &st(big, big, big, big), &[1, 2, 3, 4, 5, 6, 7, 8, 9, 10, 11, 12, 13, 14, 15, 16]])),
        ("o0-all-zero-table-eof", cat(&[&r4_header(0, 3), &[0x41], &itf8(0), &[0], &st(big, big, big, big)])),
        ("o0-states-short", cat(&[&r4_header(0, 4), &[0x41], &itf8(4095), &[0], &[0; 15]])),
        ("o0-run", cat(&[&r4_header(0, 6), &[0x41], &itf8(1000), &[0x42, 2], &itf8(1000), &itf8(1000), &itf8(1095), &[0], &st(big, big + 1000, big + 2000, big + 3000), &[0; 8]])),
        ("o0-run-past-255", cat(&[&r4_header(0, 6), &[0xfd], &itf8(1), &[0xfe, 3], &itf8(1), &itf8(1), &itf8(1), &[0]])),
        ("o0-run-reaches-255", cat(&[&r4_header(0, 6), &[0xfd], &itf8(1000), &[0xfe, 1], &itf8(1000), &itf8(2096), &[0], &st(big, big + 1000, big + 2000, big + 4095), &[0x80; 24]])),
        ("o0-run-len-0", cat(&[&r4_header(0, 2), &[0x41], &itf8(2000), &[0x42, 0], &itf8(2000), &[0], &st(big, big + 2000, big, big), &[0x80; 8]])),
        ("o0-sym-0-first", cat(&[&r4_header(0, 2), &[0x00], &itf8(4095), &[0], &st(big, big, big, big), &[0x80; 8]])),
        ("o0-sym-revisited", cat(&[&r4_header(0, 2), &[0x41], &itf8(4000), &[0x41], &itf8(5), &[0], &st(big, big, big, big), &[0x80; 8]])),
        ("o0-renorm-eof", cat(&[&r4_header(0, 8), &[0x41], &itf8(1), &[0x43], &itf8(4094), &[0], &st(0, 0, 0, 0), &[1, 2, 3]])),
        ("o1-no-table", r4_header(1, 4)),
        ("o1-ctx-then-eof", cat(&[&r4_header(1, 4), &[0x00]])),
        ("o1-inner-total-4097", cat(&[&r4_header(1, 4), &[0x00, 0x41], &itf8(4097), &[0], &[0]])),
        ("o1-outer-run-past-255", cat(&[&r4_header(1, 4), &[0xfe, 0x41], &itf8(1), &[0], &[0xff, 2, 0x41], &itf8(1), &[0, 0x41], &itf8(1), &[0], &[0]])),
        ("o1-one-context", cat(&[&r4_header(1, 7), &[0x00, 0x41], &itf8(4095), &[0], &[0x41, 0x41], &itf8(4095), &[0], &[0], &st(big, big, big, big), &[0x80; 24]])),
        ("o1-outer-run", cat(&[&r4_header(1, 9), &[0x41, 0x42], &itf8(4095), &[0], &[0x42, 1, 0x41], &itf8(4095), &[0], &[0x41], &itf8(4095), &[0], &[0], &st(big, big, big, big), &[0x80; 48]])),
        ("o1-unused-context-zero-table", cat(&[&r4_header(1, 5), &[0x00, 0x41], &itf8(4095), &[0], &[0], &st(big, big, big, big), &[9, 9, 9, 9, 9, 9, 9, 9]])),
        ("o1-states-short", cat(&[&r4_header(1, 5), &[0x00, 0x41], &itf8(4095), &[0], &[0], &[0; 7]])),
    ];
    for (label, s) in cases {
        req_r4x8(ctx, &format!("corpus:{label}"), &s);
    }
}

fn r4x8_suite(ctx: &mut Ctx, rng: &mut Rng) {
    use cram::codecs::rans_4x8::Order;
    let (nsamples, k, stride, dmg, tstride) = if ctx.tier_thorough { (16, 5, 1, 30, 1) } else { (8, 2, 3, 6, 3) };
    for (si, sample) in sample_inputs(rng, nsamples).into_iter().enumerate() {
        for (oi, order) in [Order::Zero, Order::One].into_iter().enumerate() {
            // order 1 builds 256 lookup tables of 4096 slots per request (8 ms in the model): fewer
            // of those in the quick tier
            if oi == 1 && !ctx.tier_thorough && si >= 3 {
                continue;
            }
            let Ok(Ok(enc)) = guarded(|| v::rans_4x8_encode(order, &sample)) else { continue };
            let (k, stride, tstride) = if oi == 1 { if ctx.tier_thorough { (2, 2, 2) } else { (1, 4, 4) } } else { (k, stride, tstride) };
            for (kind, m) in mutants(rng, &enc, k, stride, dmg, tstride) {
                req_r4x8(ctx, &format!("o{oi}:{kind}"), &m);
            }
        }
    }
    for i in 0..ctx.n(300, 4000) {
        let n = *rng.pick(&[1usize, 2, 5, 9, 10, 12, 20, 40, 80]);
        let mut b = rng.bytes(n);
        b[0] = (i % 2) as u8;
        if b.len() >= 9 {
            // a small declared size, so that the table and the body are reached
            b[6] = 0;
            b[7] = 0;
            b[8] = 0;
        }
        req_r4x8(ctx, "random", &b);
    }
}

// ------------------------------------------------------------------ rANS Nx16

fn u7(n: u32) -> Vec<u8> {
    let mut d = vec![];
    put_u7(&mut d, n);
    d
}

fn nx16_corpus(ctx: &mut Ctx) {
    let st4 = |x: u32| -> Vec<u8> { (0..4).flat_map(|_| x.to_le_bytes()).collect() };
    let big = 1u32 << 15;
    // an order-0 body for one symbol 0x41 with frequency 4096: every state stays as it is
    let one_sym = cat(&[&[0x41, 0x00], &u7(4096), &st4(big)]);
    let cases: Vec<(&str, usize, Vec<u8>)> = vec![
        ("empty", 0, vec![]),
        ("flags-only", 0, vec![0x00]),
        ("size-uint7-too-long", 0, vec![0x00, 0x80, 0x80, 0x80, 0x80, 0x80, 0x01]),
        ("o0-size-0", 0, cat(&[&[0x00, 0x00], &one_sym])),
        ("o0-one-symbol", 0, cat(&[&[0x00, 0x09], &one_sym])),
        ("o0-nosize-param", 7, cat(&[&[0x10], &one_sym])),
        ("o0-n32", 0, cat(&[&[0x04, 0x21], &[0x41, 0x00], &u7(4096), &(0..32).flat_map(|_| big.to_le_bytes()).collect::<Vec<u8>>()])),
        ("o0-n32-states-short", 0, cat(&[&[0x04, 0x21], &[0x41, 0x00], &u7(4096), &[0; 100]])),
        ("o0-alphabet-eof", 0, vec![0x00, 0x05, 0x41]),
        ("o0-alphabet-run-past-255", 0, vec![0x00, 0x05, 0xfd, 0xfe, 0x03, 0x00]),
        ("o0-alphabet-run-to-255", 0, cat(&[&[0x00, 0x02, 0xfd, 0xfe, 0x01, 0x00], &u7(1024), &u7(1024), &u7(2048), &st4(big), &[0x80; 8]])),
        ("o0-freq-sum-3000", 0, cat(&[&[0x00, 0x05, 0x41, 0x00], &u7(3000), &st4(big)])),
        ("o0-freq-sum-4097", 0, cat(&[&[0x00, 0x05, 0x41, 0x43, 0x00], &u7(4096), &u7(1), &st4(big)])),
        ("o0-freq-sum-overflows-u32", 0, cat(&[&[0x00, 0x05, 0x41, 0x43, 0x00], &u7(u32::MAX), &u7(1), &st4(big)])),
        ("o0-freq-sum-1-scaled", 0, cat(&[&[0x00, 0x05, 0x41, 0x00], &u7(1), &st4(big)])),
        ("o0-freq-sum-2048-scaled", 0, cat(&[&[0x00, 0x06, 0x41, 0x43, 0x00], &u7(1024), &u7(1024), &st4(big), &[0; 12]])),
        ("o0-freq-all-zero", 0, cat(&[&[0x00, 0x03, 0x41, 0x00], &u7(0), &st4(big), &[1, 2, 3, 4, 5, 6]])),
        ("o0-freq-all-zero-eof", 0, cat(&[&[0x00, 0x03, 0x41, 0x00], &u7(0), &st4(big)])),
        ("o0-max-state", 0, cat(&[&[0x00, 0x05, 0x41, 0x00], &u7(4096), &st4(u32::MAX)])),
        ("o0-renorm-eof", 0, cat(&[&[0x00, 0x09, 0x41, 0x43, 0x00], &u7(1), &u7(4095), &st4(0), &[1]])),
        ("cat", 0, vec![0x20, 0x03, 1, 2, 3]),
        ("cat-short", 0, vec![0x20, 0x04, 1, 2, 3]),
        ("cat-nosize", 2, vec![0x30, 7, 8, 9]),
        ("cat-trailing", 0, vec![0x20, 0x01, 1, 2, 3]),
        ("pack-count-0", 0, vec![0xa0, 0x04, 0x00]),
        ("pack-count-1", 0, vec![0xa0, 0x05, 0x01, 0x41, 0x00]),
        ("pack-count-1-nonempty-data", 0, vec![0xa0, 0x05, 0x01, 0x41, 0x02, 9, 9]),
        ("pack-count-2", 0, vec![0xa0, 0x0a, 0x02, 0x41, 0x43, 0x02, 0b1010_0101, 0xff]),
        ("pack-count-2-data-short", 0, vec![0xa0, 0x14, 0x02, 0x41, 0x43, 0x01, 0b1010_0101]),
        ("pack-count-3-bad-index", 0, vec![0xa0, 0x04, 0x03, 0x41, 0x43, 0x47, 0x01, 0b1110_0100]),
        ("pack-count-4", 0, vec![0xa0, 0x05, 0x04, 0x41, 0x43, 0x47, 0x54, 0x02, 0b1110_0100, 0b0000_0001]),
        ("pack-count-5-bad-index", 0, vec![0xa0, 0x02, 0x05, 1, 2, 3, 4, 5, 0x01, 0x4f]),
        ("pack-count-16", 0, cat(&[&[0xa0, 0x03, 0x10], &(0u8..16).collect::<Vec<u8>>(), &[0x02, 0xf0, 0x0a]])),
        ("pack-count-17", 0, cat(&[&[0xa0, 0x03, 0x11], &(0u8..17).collect::<Vec<u8>>(), &[0x02, 0xf0, 0x0a]])),
        ("pack-table-short", 0, vec![0xa0, 0x03, 0x05, 1, 2]),
        ("pack-len-missing", 0, vec![0xa0, 0x03, 0x02, 1, 2]),
        ("rle-cat-raw-meta", 0, vec![0x60, 0x05, 0x07, 0x02, 0x01, 0x41, 0x03, 0x41, 0x42]),
        ("rle-meta-count-0-means-256", 0, cat(&[&[0x60, 0x03], &u7((258 << 1) | 1), &[0x01], &[0u8], &(0u8..=255).collect::<Vec<u8>>(), &[0x02], &[0x41]])),
        ("rle-meta-empty", 0, vec![0x60, 0x03, 0x01, 0x01, 0x41]),
        ("rle-meta-symbols-short", 0, vec![0x60, 0x03, 0x05, 0x01, 0x03, 0x41, 0x41]),
        ("rle-run-length-missing", 0, vec![0x60, 0x03, 0x05, 0x01, 0x01, 0x41, 0x41]),
        ("rle-literals-short", 0, vec![0x60, 0x05, 0x05, 0x01, 0x01, 0x41, 0x42]),
        ("rle-run-longer-than-output", 0, vec![0x60, 0x03, 0x07, 0x01, 0x01, 0x41, 0x7f, 0x41]),
        ("rle-meta-beyond-input", 0, vec![0x60, 0x03, 0x21, 0x01, 0x01]),
        ("rle-meta-compressed", 0, {
            // metadata `01 01` (one run symbol, 0x01) from an order-0 body for the single symbol 0x01
            let body = cat(&[&[0x01, 0x00], &u7(4096), &st4(big)]);
            cat(&[&[0x60, 0x01], &u7(2 << 1), &[0x01], &u7(body.len() as u32), &body, &[0x41]])
        }),
        ("rle-meta-compressed-run-length-missing", 0, {
            let body = cat(&[&[0x01, 0x00], &u7(4096), &st4(big)]);
            cat(&[&[0x60, 0x02], &u7(2 << 1), &[0x01], &u7(body.len() as u32), &body, &[0x01]])
        }),
        ("rle-meta-compressed-short", 0, cat(&[&[0x60, 0x04], &u7(2 << 1), &[0x01], &u7(40), &one_sym])),
        ("stripe-count-0", 0, vec![0x08, 0x04, 0x00]),
        ("stripe-2-cat", 0, vec![0x08, 0x05, 0x02, 0x05, 0x04, 0x20, 0x03, 1, 3, 5, 0x20, 0x02, 2, 4]),
        ("stripe-chunk-size-mismatch", 0, vec![0x08, 0x05, 0x02, 0x04, 0x04, 0x20, 0x02, 1, 3, 0x20, 0x02, 2, 4]),
        ("stripe-chunk-beyond-input", 0, vec![0x08, 0x05, 0x02, 0x05, 0x09, 0x20, 0x03, 1, 3, 5, 0x20, 0x02, 2, 4]),
        ("stripe-sizes-missing", 0, vec![0x08, 0x05, 0x03, 0x05]),
        ("stripe-nosize-chunks", 5, vec![0x18, 0x02, 0x04, 0x03, 0x30, 1, 3, 5, 0x30, 2, 4]),
        ("stripe-more-chunks-than-bytes", 0, vec![0x08, 0x01, 0x03, 0x02, 0x01, 0x01, 0x30, 7, 0x30, 0x30]),
        ("stripe-depth-8", 0, vec![0x08, 0x01, 0x01, 0x1e, 0x08, 0x01, 0x01, 0x1a, 0x08, 0x01, 0x01, 0x16, 0x08, 0x01, 0x01, 0x12, 0x08, 0x01, 0x01, 0x0e, 0x08, 0x01, 0x01, 0x0a, 0x08, 0x01, 0x01, 0x06, 0x08, 0x01, 0x01, 0x02, 0x30, 0x2a]),
        ("stripe-depth-9", 0, vec![0x08, 0x01, 0x01, 0x22, 0x08, 0x01, 0x01, 0x1e, 0x08, 0x01, 0x01, 0x1a, 0x08, 0x01, 0x01, 0x16, 0x08, 0x01, 0x01, 0x12, 0x08, 0x01, 0x01, 0x0e, 0x08, 0x01, 0x01, 0x0a, 0x08, 0x01, 0x01, 0x06, 0x08, 0x01, 0x01, 0x02, 0x30, 0x2a]),
        ("o1-table-eof", 0, vec![0x01, 0x05, 0xc0]),
        ("o1-bits-0", 0, cat(&[&[0x01, 0x05, 0x00, 0x00, 0x00], &u7(1), &st4(7), &[0x55; 10]])),
        ("o1-bits-0-sum-2", 0, cat(&[&[0x01, 0x05, 0x00, 0x00, 0x41, 0x00], &u7(1), &u7(1), &u7(0), &[0x00], &st4(7)])),
        ("o1-bits-15", 0, cat(&[&[0x01, 0x05, 0xf0, 0x00, 0x00], &u7(32768), &st4(big), &[0; 4]])),
        ("o1-bits-12-one-context", 0, cat(&[&[0x01, 0x06, 0xc0, 0x00, 0x00], &u7(4096), &st4(big)])),
        // contexts 0x00, 0x41, 0x43: row 0 = (4096, 0 + skip 1), row 0x41 = (0 + skip 0, 4096, 0 + skip 0), row 0x43 = (0 + skip 5)
        ("o1-zero-run-skip", 0, cat(&[&[0x01, 0x06, 0xc0, 0x00, 0x41, 0x43, 0x00], &u7(4096), &u7(0), &[0x01], &u7(0), &[0x00], &u7(4096), &u7(0), &[0x00], &u7(0), &[0x05], &st4(big)])),
        ("o1-zero-run-count-missing", 0, cat(&[&[0x01, 0x06, 0xc0, 0x00, 0x00], &u7(0)])),
        ("o1-row-sum-not-power-of-two", 0, cat(&[&[0x01, 0x06, 0xc0, 0x00, 0x41, 0x00], &u7(1000), &u7(2000)])),
        ("o1-table-compressed", 0, {
            // the uncompressed table `00 00 <4096>` (one context, one symbol), order-0 coded by hand:
            // alphabet {0x00, 0x20, 0xa0}: bytes 0x00 0x00 0xa0 0x00
            let tbl = cat(&[&[0x00, 0x00], &u7(4096)]);
            let enc = guarded(|| v::rans_nx16_encode(cram::codecs::rans_nx16::Flags::from(0x10), &tbl)).ok().and_then(|r| r.ok()).unwrap_or_default();
            // strip the flags byte of the NO_SIZE stream: what is left is the order-0 body
            let body = enc.get(1..).unwrap_or(&[]).to_vec();
            cat(&[&[0x01, 0x06, 0xc1], &u7(tbl.len() as u32), &u7(body.len() as u32), &body, &st4(big)])
        }),
        ("o1-table-compressed-beyond-input", 0, vec![0x01, 0x06, 0xc1, 0x04, 0x7f, 1, 2, 3]),
        ("o1-n32", 0, cat(&[&[0x05, 0x45, 0xc0, 0x00, 0x00], &u7(4096), &(0..32).flat_map(|_| big.to_le_bytes()).collect::<Vec<u8>>()])),
    ];
    for (label, n, s) in cases {
        req_nx16(ctx, &format!("corpus:{label}"), &s, n);
    }
}

fn nx16_suite(ctx: &mut Ctx, rng: &mut Rng) {
    use cram::codecs::rans_nx16::Flags;
    let (per_flag, k, stride, dmg, tstride) = if ctx.tier_thorough { (3, 3, 1, 8, 1) } else { (1, 1, 3, 2, 6) };
    let samples = sample_inputs(rng, 40);
    for flags in 0u16..=255 {
        let flags = flags as u8;
        for j in 0..per_flag {
            let sample = &samples[(flags as usize * 7 + j * 5 + rng.below(3) as usize) % samples.len()];
            let Ok(Ok(enc)) = guarded(|| v::rans_nx16_encode(Flags::from(flags), sample)) else {
                ctx.bump("codec:nx16:encoder-refused");
                continue;
            };
            // the decoder is told the size when the stream does not carry it
            let n = if flags & 0x10 != 0 { sample.len() } else { *rng.pick(&[0usize, sample.len(), 3]) };
            for (kind, m) in mutants(rng, &enc, k, stride, dmg, tstride) {
                req_nx16(ctx, &format!("gen:{kind}"), &m, n);
            }
            if flags & 0x10 != 0 {
                for wrong in [0usize, sample.len().saturating_sub(1), sample.len() + 1, sample.len() + 40] {
                    req_nx16(ctx, "gen:wrong-size", &enc, wrong);
                }
            }
        }
    }
    for _ in 0..ctx.n(400, 6000) {
        let n = *rng.pick(&[1usize, 2, 3, 5, 8, 12, 20, 40, 90]);
        let mut b = rng.bytes(n);
        if rng.chance(3, 4) {
            b[0] = *rng.pick(&[0x00u8, 0x01, 0x04, 0x05, 0x08, 0x10, 0x20, 0x40, 0x41, 0x80, 0x81, 0xc0, 0xc1, 0x48, 0x88]);
        }
        if b.len() > 1 && rng.chance(3, 4) {
            b[1] &= 0x3f;
        }
        req_nx16(ctx, "random", &b, *rng.pick(&[0usize, 1, 7, 64]));
    }
}

// ------------------------------------------------------------------ name tokenizer

fn rans(buf: &[u8]) -> Vec<u8> {
    let b = buf.to_vec();
    guarded(move || v::rans_nx16_encode(cram::codecs::rans_nx16::Flags::from(0), &b)).ok().and_then(|r| r.ok()).unwrap_or_default()
}

fn aac(buf: &[u8]) -> Vec<u8> {
    let b = buf.to_vec();
    guarded(move || v::aac_encode(cram::codecs::aac::Flags::from(0), &b)).ok().and_then(|r| r.ok()).unwrap_or_default()
}

/// a container from PLAIN token byte streams `(ttype, Ok(bytes) | Err((dup_pos, dup_type)))`
fn build(method: u8, usize_: u32, n_names: u32, plain: &[(u8, Result<Vec<u8>, (u8, u8)>)], known: &mut BTreeSet<Vec<u8>>) -> Vec<u8> {
    let streams: Vec<(u8, Payload)> = plain
        .iter()
        .map(|(t, p)| match p {
            Ok(b) => {
                let c = if method == 0 { rans(b) } else { aac(b) };
                if method != 0 {
                    known.insert(c.clone());
                }
                (*t, Payload::Comp(c))
            }
            Err((a, b)) => (*t, Payload::Dup(*a, *b)),
        })
        .collect();
    assemble(usize_, n_names, method, &streams)
}

fn le(n: u32) -> Vec<u8> {
    n.to_le_bytes().to_vec()
}

fn ntok_corpus(ctx: &mut Ctx, known: &mut BTreeSet<Vec<u8>>) {
    type P = (u8, Result<Vec<u8>, (u8, u8)>);
    let ok = |t: u8, b: Vec<u8>| -> P { (t, Ok(b)) };
    // token 0 of a container with the given name types and distances
    let tok0 = |types: Vec<u8>, dup: Vec<u8>, diff: Vec<u8>| -> Vec<P> {
        let mut v = vec![ok(0x80, types)];
        if !dup.is_empty() {
            v.push(ok(0x05, dup));
        }
        if !diff.is_empty() {
            v.push(ok(0x06, diff));
        }
        v
    };
    let mut cases: Vec<(String, u8, u32, u32, Vec<P>)> = vec![];
    let mut add = |label: &str, n_names: u32, streams: Vec<P>| {
        cases.push((label.to_string(), 0, 64, n_names, streams.clone()));
        cases.push((format!("{label}:aac"), 1, 64, n_names, streams));
    };
    add("no-streams-no-names", 0, vec![]);
    add("no-streams-one-name", 1, vec![]);
    add("first-stream-without-new-flag", 1, vec![ok(0x00, vec![6])]);
    add("type-13", 1, vec![ok(0x8d, vec![6])]);
    add("stream-of-type-match", 1, vec![ok(0x80, vec![6]), ok(0x0a, vec![1])]);
    add("stream-of-type-end", 1, vec![ok(0x80, vec![6]), ok(0x0c, vec![1])]);
    add("one-char-name", 1, [tok0(vec![6], vec![], le(0)), vec![ok(0x80, vec![2, 12]), ok(0x02, vec![0x41])], vec![ok(0x80, vec![12])]].concat());
    add("char-stream-empty", 1, [tok0(vec![6], vec![], le(0)), vec![ok(0x80, vec![2, 12])]].concat());
    add("type-stream-exhausted", 2, [tok0(vec![6], vec![], le(0)), vec![ok(0x80, vec![2, 12]), ok(0x02, vec![0x41])], vec![ok(0x80, vec![12])]].concat());
    add("distance-type-not-dup-diff", 1, tok0(vec![2], vec![], le(0)));
    add("distance-stream-short", 1, tok0(vec![6], vec![], vec![0, 0, 0]));
    add("distance-beyond-first-name", 1, tok0(vec![6], vec![], le(1)));
    add("distance-huge", 2, tok0(vec![6, 6], vec![], [le(0), le(u32::MAX)].concat()));
    add("dup-of-self", 1, tok0(vec![5], le(0), vec![]));
    add("dup-of-previous", 3, [tok0(vec![6, 5, 5], [le(1), le(2)].concat(), le(0)), vec![ok(0x80, vec![1, 12]), ok(0x01, b"name\0".to_vec())], vec![ok(0x80, vec![12])]].concat());
    add("diff-self-match-ends-name", 1, [tok0(vec![6], vec![], le(0)), vec![ok(0x80, vec![2]), ok(0x02, vec![0x41])], vec![ok(0x80, vec![10])]].concat());
    add("match-copies-previous", 2, [tok0(vec![6, 6], vec![], [le(0), le(1)].concat()), vec![ok(0x80, vec![1, 10]), ok(0x01, b"abc\0".to_vec())], vec![ok(0x80, vec![12, 12])]].concat());
    add("missing-token-stream", 1, [tok0(vec![6], vec![], le(0)), vec![ok(0x80, vec![2]), ok(0x02, vec![0x41])]].concat());
    add("string-unterminated", 1, [tok0(vec![6], vec![], le(0)), vec![ok(0x80, vec![1, 12]), ok(0x01, b"abc".to_vec())], vec![ok(0x80, vec![12])]].concat());
    add("string-stream-empty", 1, [tok0(vec![6], vec![], le(0)), vec![ok(0x80, vec![1, 1, 12]), ok(0x01, b"ab\0".to_vec())], vec![ok(0x80, vec![1])], vec![ok(0x80, vec![12])]].concat());
    add("digits", 1, [tok0(vec![6], vec![], le(0)), vec![ok(0x80, vec![7]), ok(0x07, le(4294967295))], vec![ok(0x80, vec![12])]].concat());
    add("digits-stream-short", 1, [tok0(vec![6], vec![], le(0)), vec![ok(0x80, vec![7]), ok(0x07, vec![1, 2, 3])]].concat());
    add("digits0-padded", 1, [tok0(vec![6], vec![], le(0)), vec![ok(0x80, vec![3]), ok(0x03, le(42)), ok(0x04, vec![7])], vec![ok(0x80, vec![12])]].concat());
    add("digits0-width-0", 1, [tok0(vec![6], vec![], le(0)), vec![ok(0x80, vec![3]), ok(0x03, le(42)), ok(0x04, vec![0])], vec![ok(0x80, vec![12])]].concat());
    add("digits0-width-255", 1, [tok0(vec![6], vec![], le(0)), vec![ok(0x80, vec![3]), ok(0x03, le(7)), ok(0x04, vec![255])], vec![ok(0x80, vec![12])]].concat());
    add("digits0-dzlen-missing", 1, [tok0(vec![6], vec![], le(0)), vec![ok(0x80, vec![3]), ok(0x03, le(42))]].concat());
    add("delta", 2, [tok0(vec![6, 6], vec![], [le(0), le(1)].concat()), vec![ok(0x80, vec![7, 8]), ok(0x07, le(9)), ok(0x08, vec![5])], vec![ok(0x80, vec![12, 12])]].concat());
    add("delta-overflow", 2, [tok0(vec![6, 6], vec![], [le(0), le(1)].concat()), vec![ok(0x80, vec![7, 8]), ok(0x07, le(u32::MAX)), ok(0x08, vec![1])], vec![ok(0x80, vec![12, 12])]].concat());
    add("delta-to-max", 2, [tok0(vec![6, 6], vec![], [le(0), le(1)].concat()), vec![ok(0x80, vec![7, 8]), ok(0x07, le(u32::MAX - 1)), ok(0x08, vec![1])], vec![ok(0x80, vec![12, 12])]].concat());
    add("delta-without-previous", 1, [tok0(vec![6], vec![], le(0)), vec![ok(0x80, vec![8]), ok(0x08, vec![1])]].concat());
    add("delta-on-string", 2, [tok0(vec![6, 6], vec![], [le(0), le(1)].concat()), vec![ok(0x80, vec![1, 8]), ok(0x01, b"x\0".to_vec()), ok(0x08, vec![1])], vec![ok(0x80, vec![12])]].concat());
    add("delta-stream-empty", 2, [tok0(vec![6, 6], vec![], [le(0), le(1)].concat()), vec![ok(0x80, vec![7, 8]), ok(0x07, le(9))], vec![ok(0x80, vec![12, 12])]].concat());
    add("delta0", 2, [tok0(vec![6, 6], vec![], [le(0), le(1)].concat()), vec![ok(0x80, vec![3, 9]), ok(0x03, le(9)), ok(0x04, vec![3]), ok(0x09, vec![1])], vec![ok(0x80, vec![12, 12])]].concat());
    add("delta0-overflow", 2, [tok0(vec![6, 6], vec![], [le(0), le(1)].concat()), vec![ok(0x80, vec![3, 9]), ok(0x03, le(u32::MAX)), ok(0x04, vec![3]), ok(0x09, vec![1])], vec![ok(0x80, vec![12, 12])]].concat());
    add("delta0-on-digits", 2, [tok0(vec![6, 6], vec![], [le(0), le(1)].concat()), vec![ok(0x80, vec![7, 9]), ok(0x07, le(9)), ok(0x09, vec![1])], vec![ok(0x80, vec![12, 12])]].concat());
    add("nop-types", 1, [tok0(vec![6], vec![], le(0)), vec![ok(0x80, vec![0, 4, 5, 6, 11, 12])]].concat());
    add("type-byte-invalid-in-stream", 1, [tok0(vec![6], vec![], le(0)), vec![ok(0x80, vec![13])]].concat());
    add("type-byte-high-bits", 1, [tok0(vec![0x46], vec![], le(0)), vec![ok(0x80, vec![0xc2, 0x8c]), ok(0x02, vec![0x41])]].concat());
    add("implied-type-stream", 2, [tok0(vec![6, 6], vec![], [le(0), le(1)].concat()), vec![ok(0x82, vec![0x41]), ok(0x80, vec![12, 12])]].concat());
    add("implied-type-stream-zero-names", 0, vec![ok(0x82, vec![0x41])]);
    add("implied-type-of-token-0", 2, vec![ok(0x86, [le(0), le(0)].concat())]);
    add("dup-stream", 1, [tok0(vec![6], vec![], le(0)), vec![ok(0x80, vec![2, 2, 12]), ok(0x02, vec![0x41, 0x42])], vec![(0xc0, Err((1, 0))), (0x42, Err((1, 2)))]].concat());
    add("dup-stream-position-out-of-range", 1, [tok0(vec![6], vec![], le(0)), vec![(0xc0, Err((9, 0)))]].concat());
    add("dup-stream-of-self", 1, [tok0(vec![6], vec![], le(0)), vec![(0xc0, Err((1, 0)))]].concat());
    add("dup-stream-type-match", 1, [tok0(vec![6], vec![], le(0)), vec![(0xc0, Err((0, 10)))]].concat());
    add("dup-stream-type-13", 1, [tok0(vec![6], vec![], le(0)), vec![(0xc0, Err((0, 13)))]].concat());
    add("dup-stream-without-token", 1, vec![(0x40, Err((0, 0)))]);
    add("stream-replaced", 1, [tok0(vec![6], vec![], le(0)), vec![ok(0x80, vec![2, 12]), ok(0x02, vec![0x41]), ok(0x02, vec![0x42])], vec![ok(0x80, vec![12])]].concat());
    add("name-with-127-tokens", 1, [tok0(vec![6], vec![], le(0)), (1..127).map(|_| ok(0x80, vec![11])).collect::<Vec<P>>(), vec![ok(0x80, vec![12])]].concat());
    add("name-with-128-tokens", 1, [tok0(vec![6], vec![], le(0)), (1..128).map(|_| ok(0x80, vec![11])).collect::<Vec<P>>()].concat());
    add("129-new-tokens", 1, [tok0(vec![6], vec![], le(0)), (1..129).map(|_| ok(0x80, vec![11])).collect::<Vec<P>>()].concat());
    for (label, method, usize_, n_names, streams) in cases {
        let c = build(method, usize_, n_names, &streams, known);
        req_ntok(ctx, &format!("corpus:{label}"), &c, known);
    }
    // framing-level corpus
    let hdr = |n: u32, m: u8| -> Vec<u8> { [le(10), le(n), vec![m]].concat() };
    let raw: Vec<(&str, Vec<u8>)> = vec![
        ("empty", vec![]),
        ("header-8-bytes", vec![0; 8]),
        ("header-only", hdr(0, 0)),
        ("ttype-only", cat(&[&hdr(1, 0), &[0x80]])),
        ("size-beyond-input", cat(&[&hdr(1, 0), &[0x80, 0x05, 1, 2]])),
        ("size-uint7-too-long", cat(&[&hdr(1, 0), &[0x80, 0x80, 0x80, 0x80, 0x80, 0x80, 0x00]])),
        ("dup-fields-missing", cat(&[&hdr(1, 0), &[0xc0, 0x00]])),
        ("inner-stream-invalid", cat(&[&hdr(1, 0), &[0x80, 0x02, 0x00, 0x05]])),
        ("inner-stream-empty", cat(&[&hdr(1, 0), &[0x80, 0x00]])),
    ];
    for (label, s) in raw {
        req_ntok(ctx, &format!("corpus:{label}"), &s, known);
    }
}

fn name_samples(rng: &mut Rng, count: usize) -> Vec<Vec<u8>> {
    let fixed: Vec<&[u8]> = vec![
        b"read.1\0read.2\0read.10\0read.11\0x:7:3\0",
        b"I7_12:4:2:0019\0I7_12:4:2:0020\0I7_12:4:2:0020\0I7_12:4:3:0001\0",
        b"a\0a\0a\0",
        b"name",
        b"",
        b"\0",
        b"0\x0000\x00000\x0001\x00010\0",
        b"q4294967295\0q4294967296\0q1\0q256\0",
        b"A1B22C333\0A1B22C334\0A2B22C334\0Z\0",
        b"@SRR001.1 071112_SLXA-EAS1_s_7:5:1:817:345\0@SRR001.2 071112_SLXA-EAS1_s_7:5:1:801:338\0",
    ];
    let mut out = vec![];
    for i in 0..count {
        if i < fixed.len() {
            out.push(fixed[i].to_vec());
            continue;
        }
        let n = 1 + rng.below(6);
        let mut s = vec![];
        let mut num = rng.below(2000);
        for _ in 0..n {
            s.extend_from_slice(*rng.pick(&[&b"rd"[..], b"x_", b"", b"Q:"]));
            if rng.chance(1, 3) {
                s.extend(format!("{:04}", num).bytes());
            } else {
                s.extend(num.to_string().bytes());
            }
            if rng.chance(1, 2) {
                s.push(*rng.pick(&[b'/', b':', b'.', b'a']));
                s.extend(rng.below(300).to_string().bytes());
            }
            s.push(0);
            num = if rng.chance(1, 4) { num } else { num + rng.below(300) };
        }
        out.push(s);
    }
    out
}

fn ntok_suite(ctx: &mut Ctx, rng: &mut Rng, known: &mut BTreeSet<Vec<u8>>) {
    let (nsamples, k, stride, dmg, content, tstride) = if ctx.tier_thorough { (30, 4, 1, 30, 60, 1) } else { (8, 2, 2, 8, 30, 2) };
    for sample in name_samples(rng, nsamples) {
        let Ok(Ok(enc)) = guarded(|| v::name_tokenizer_encode(&sample)) else {
            ctx.bump("codec:ntok:encoder-refused");
            continue;
        };
        for (kind, m) in mutants(rng, &enc, k, stride, dmg, tstride) {
            req_ntok(ctx, &format!("gen:{kind}"), &m, known);
        }
        // hostile token streams: decode the inner streams, damage the plain bytes, compress again
        let Some((usize_, n_names, _, streams)) = tok_walk(&enc) else { continue };
        let plain: Vec<(u8, Result<Vec<u8>, (u8, u8)>)> = streams
            .iter()
            .map(|(t, p)| match p {
                Payload::Comp(c) => (*t, Ok(guarded(|| v::rans_nx16_decode(c, 0)).ok().and_then(|r| r.ok()).unwrap_or_default())),
                Payload::Dup(a, b) => (*t, Err((*a, *b))),
            })
            .collect();
        for method in [0u8, 1] {
            // the arithmetic-coder twin of the container, intact, truncated, framing damaged
            if method == 1 {
                let twin = build(1, usize_ as u32, n_names as u32, &plain, known);
                for (kind, m) in mutants(rng, &twin, k, stride * 2, dmg, tstride * 2) {
                    req_ntok(ctx, &format!("gen:aac:{kind}"), &m, known);
                }
            }
            for _ in 0..content {
                let mut p = plain.clone();
                if p.is_empty() {
                    break;
                }
                for _ in 0..1 + rng.below(2) {
                    let i = rng.below(p.len() as u64) as usize;
                    match rng.below(8) {
                        0 => p[i].0 = *rng.pick(&[0x80u8, 0x00, 0x01, 0x02, 0x05, 0x06, 0x0a, 0x0c, 0x8c, 0x0d, 0xc0, 0x40, 0x47]),
                        1 => p[i].1 = Err((rng.below(p.len() as u64 + 1) as u8, *rng.pick(&[0u8, 1, 2, 3, 4, 5, 6, 7, 8, 9, 10, 13]))),
                        2 => {
                            let _ = p.remove(i);
                        }
                        3 => {
                            let e = p[i].clone();
                            p.insert(i, e);
                        }
                        _ => {
                            if let Ok(b) = &mut p[i].1 {
                                if b.is_empty() {
                                    b.push(rng.next() as u8);
                                } else {
                                    let j = rng.below(b.len() as u64) as usize;
                                    match rng.below(5) {
                                        0 => b[j] = rng.below(14) as u8,
                                        1 => b[j] = rng.next() as u8,
                                        2 => {
                                            b.remove(j);
                                        }
                                        3 => b.insert(j, *rng.pick(&[0u8, 1, 2, 3, 5, 6, 7, 8, 9, 10, 11, 12, 0xff])),
                                        _ => b[j] = *rng.pick(&[0u8, 0xff, 0x80, 0x0a, 0x0c]),
                                    }
                                }
                            }
                        }
                    }
                }
                let n2 = match rng.below(6) {
                    0 => 0,
                    1 => n_names as u32 + 1,
                    2 => (n_names as u32).saturating_sub(1),
                    _ => n_names as u32,
                };
                let c = build(method, usize_ as u32, n2, &p, known);
                req_ntok(ctx, if method == 0 { "gen:content" } else { "gen:aac:content" }, &c, known);
            }
        }
    }
    for _ in 0..ctx.n(200, 3000) {
        let n = *rng.pick(&[9usize, 10, 11, 12, 14, 20, 30, 60]);
        let mut b = rng.bytes(n);
        // small declared sizes, method rANS, a plausible first type byte
        for i in [1usize, 2, 3, 5, 6, 7] {
            b[i] = 0;
        }
        b[8] = 0;
        if b.len() > 9 && rng.chance(3, 4) {
            b[9] = *rng.pick(&[0x80u8, 0x00, 0x85, 0x86, 0xc0, 0x40, 0x8d]);
        }
        req_ntok(ctx, "random", &b, known);
    }
}

// ------------------------------------------------------------------ oracle only

fn oracle_one(ctx: &mut Ctx, suite: &str, case: &str, src: &[u8], n: usize) {
    let s = src.to_vec();
    let st = suite.to_string();
    let r = guarded(move || match st.as_str() {
        "r4x8" => v::rans_4x8_decode(&s).map(|d| d.len()),
        "nx16" => v::rans_nx16_decode(&s, n).map(|d| d.len()),
        _ => v::name_tokenizer_decode(&s).map(|d| d.len()),
    });
    match r {
        Ok(Ok(_)) => {
            ctx.bump(&format!("codec:oracle:{suite}:ok"));
            ctx.eval(Some(fnv(src)));
        }
        Ok(Err(e)) => {
            ctx.bump(&format!("codec:oracle:{suite}:{}", errclass(&e)));
            ctx.eval(None);
        }
        Err(p) => {
            ctx.eval(None);
            ctx.fail(&format!("panic:codec:{suite}"), format!("PANIC {p} — {suite} n={n} input {}", hex(src)), case.to_string());
        }
    }
}

/// damaged encoder outputs with declared sizes up to `CAP_ORACLE`; `which`: replay of one case
fn oracle(ctx: &mut Ctx, which: Option<(String, u64)>) {
    use cram::codecs::{rans_4x8::Order, rans_nx16::Flags};
    let count = ctx.n(2500, 40_000);
    for suite in ["r4x8", "nx16", "ntok"] {
        for i in 0..count {
            if let Some((s, k)) = &which {
                if s != suite || *k != i {
                    continue;
                }
            }
            let mut rng = Rng::new(fnv(format!("c15-codec-oracle-{}-{suite}-{i}", ctx.seed).as_bytes()));
            let sample: Vec<u8> = match rng.below(3) {
                0 => sample_inputs(&mut rng, 12).swap_remove(rng.below(12) as usize),
                1 => name_samples(&mut rng, 10).swap_remove(rng.below(10) as usize),
                _ => {
                    let n = rng.below(300) as usize;
                    let a = 1 + rng.below(40);
                    (0..n).map(|_| 0x30 + rng.below(a) as u8).collect()
                }
            };
            let flags = rng.next() as u8;
            let enc = guarded(|| match suite {
                "r4x8" => v::rans_4x8_encode(if flags & 1 == 0 { Order::Zero } else { Order::One }, &sample).ok(),
                "nx16" => v::rans_nx16_encode(Flags::from(flags), &sample).ok(),
                _ => v::name_tokenizer_encode(&sample).ok(),
            })
            .ok()
            .flatten();
            let Some(mut m) = enc else { continue };
            for _ in 0..1 + rng.below(4) {
                if m.is_empty() {
                    break;
                }
                let p = if rng.chance(1, 3) { rng.below(m.len().min(16) as u64) } else { rng.below(m.len() as u64) } as usize;
                match rng.below(6) {
                    0 => m[p] = rng.next() as u8,
                    1 => m[p] ^= 1 << rng.below(8),
                    2 => m[p] = *rng.pick(&[0u8, 0xff, 0x80, 0x7f, 0x01]),
                    3 => m.truncate(p),
                    4 => m.insert(p, rng.next() as u8),
                    _ => {
                        m.remove(p);
                    }
                }
            }
            let n = *rng.pick(&[0usize, sample.len(), sample.len() + 1, 1000]);
            // declared sizes stay below the cap (time and memory of an in-process decoder)
            let too_big = match suite {
                "r4x8" => m.len() >= 9 && u32::from_le_bytes(m[5..9].try_into().unwrap()) as usize > CAP_ORACLE,
                "nx16" => {
                    let mut sc = Scan::default();
                    nx16_scan(&m, n, 0, &mut sc);
                    sc.max > CAP_ORACLE
                }
                _ => match tok_walk(&m) {
                    Some((u, nn, method, streams)) => {
                        u > CAP_ORACLE
                            || nn > CAP_ORACLE
                            || method != 0
                            || streams.iter().any(|(_, p)| match p {
                                Payload::Comp(c) => {
                                    let mut sc = Scan::default();
                                    nx16_scan(c, 0, 0, &mut sc);
                                    sc.max > CAP_ORACLE
                                }
                                _ => false,
                            })
                    }
                    None => false,
                },
            };
            if too_big {
                ctx.bump(&format!("codec:oracle:{suite}:skipped:declared-size"));
                continue;
            }
            oracle_one(ctx, suite, &format!("codec oracle {suite} {i}"), &m, n);
        }
    }
}

pub fn run(ctx: &mut Ctx) {
    // a private generator: the PRNG stream of the existing suites is left as it was
    let mut rng = Rng::new(ctx.seed ^ 0xC15_C0DEC);
    let mut known: BTreeSet<Vec<u8>> = BTreeSet::new();
    r4x8_corpus(ctx);
    r4x8_suite(ctx, &mut rng);
    nx16_corpus(ctx);
    nx16_suite(ctx, &mut rng);
    ntok_corpus(ctx, &mut known);
    ntok_suite(ctx, &mut rng, &mut known);
    if only().is_none() {
        oracle(ctx, None);
    }
    ctx.sample(|| "c15 nx16 <n> <hex> = rans_nx16::decode(src, n) on a damaged stream of the real encoder (every flag byte), answered ok:<bytes> | err:<class> | panic by noodles and by the Lean transcription".into());
}

/// `codec <suite> <request hash>`: that one request; `codec oracle <suite> <case>`: that one
/// oracle input; `codec all`: this extension alone; `codec decode r4x8|nx16|ntok <n> <hex>`: the
/// real decoder on these bytes (a witness), as a request with its answer
pub fn replay(ctx: &mut Ctx, case: &[String]) -> bool {
    if case.first().map(|s| s.as_str()) != Some("codec") {
        return false;
    }
    match case.get(1).map(|s| s.as_str()) {
        Some("all") => run(ctx),
        Some("decode") => {
            let suite = case.get(2).cloned().unwrap_or_default();
            let n: usize = case.get(3).and_then(|s| s.parse().ok()).unwrap_or(0);
            let src = unhex(case.get(4).map(|s| s.as_str()).unwrap_or("-"));
            match suite.as_str() {
                "r4x8" => req_r4x8(ctx, "witness", &src),
                "nx16" => req_nx16(ctx, "witness", &src, n),
                _ => req_ntok(ctx, "witness", &src, &BTreeSet::new()),
            }
            if let (Some(r), Some(a)) = (ctx.requests.last(), ctx.answers.last()) {
                println!("{r} -> {a}");
            }
        }
        Some("oracle") => {
            let suite = case.get(2).cloned().unwrap_or_default();
            let n: u64 = case.get(3).and_then(|s| s.parse().ok()).unwrap_or(0);
            oracle(ctx, Some((suite, n)));
        }
        _ => {
            let only: Option<u64> = case.get(2).and_then(|s| s.parse().ok());
            ONLY.with(|o| o.set(only.or(Some(0))));
            run(ctx);
            ONLY.with(|o| o.set(None));
        }
    }
    true
}
