//! C09, whole-header extension — `vcf_header_roundtrip` & co. (lean/Noodles/Props/C09Header.lean).
//!
//! Correspondence requests (answered by lean/Noodles/Vcf/DriverC09Header.lean and, for `hdr`, by
//! DriverC09.lean):
//!   `c09 hval <defs> <dump>`  a header VALUE (canonical dump of `c09::dump_header`, parsed back by the
//!        driver) → `wf=<0|1> w=<hex text | err:invalid-input> r=<same | diff:<dump> | err:Variant>
//!        s=<same | diff:… | err:…>`: the decision of `wfHeader` (here: `wf_header`, a Rust twin of
//!        HeaderWF.lean), the REAL writer's text, what `vcf::io::Reader::read_header` (r) and
//!        `Header::from_str` (s) make of that text compared with the value written.
//!   `c09 hstr <defs> <hex text>`  `Header::from_str` on an arbitrary text → `p=<dump | err:Variant>`.
//!   `c09 hdr  <defs> <hex text>`  (existing word) `read_header` on the text, dump, re-written text.
//! `<defs>` = the REAL reserved definitions (`Map::<Info>::from((file_format, key))`, i.e.
//! `definition(file_format, key)`) of every key of the specification's tables for 4.3/4.4/4.5.
//!
//! The contig writer is expected AS FIXED by fixes/vcf-contig-url-unquoted.diff (md5 / URL written quoted
//! when the unquoted form would not read back): contig md5 / URL are any bytes but LF in `wf_reason`.
//! On a tree without the fix the oracle reports `header-wf:*:contig-url-md5-unquoted` for exactly the
//! headers with such a value (and the correspondence disagrees on their `w=`).
//!
//! Oracle: for every generated or hand-written header value with `wf_reason(h) == None`: the writer accepts it, `read_header` and
//! `from_str` return a header with the same dump that is `==` to `h`, the header read back is written
//! as the same text again (fixed point), and the header is read back unchanged when records follow.
use super::c09::{dump_header, enc_fnum, enc_fty, enc_inum, enc_ity, hx, list, map_other_id_tag, real_read_header, real_write_header};
use crate::common::*;
use noodles_vcf::{
    self as vcf,
    header::{
        record::{
            value::{
                map::{self, AlternativeAllele, Contig, Filter, Format, Info},
                Collection, Map,
            },
            Value,
        },
        FileFormat,
    },
};

type INum = map::info::Number;
type ITy = map::info::Type;
type FNum = map::format::Number;
type FTy = map::format::Type;

// ------------------------------------------------------------------------------------------
// the real reserved definitions, passed to the model as a table

const INFO_KEYS: &[&str] = &[
    "AA", "AC", "AD", "ADF", "ADR", "AF", "AN", "BQ", "CIGAR", "DB", "DP", "H2", "H3", "MQ", "MQ0", "NS", "SB", "SOMATIC", "VALIDATED", "1000G", "IMPRECISE", "NOVEL", "END", "SVTYPE", "SVLEN", "CIPOS", "CIEND", "HOMLEN", "HOMSEQ", "BKPTID",
    "MEINFO", "METRANS", "DBVID", "DBVARID", "DBRIPID", "MATEID", "PARID", "EVENT", "EVENTTYPE", "CILEN", "DPADJ", "CN", "CNADJ", "CICN", "CICNADJ", "SVCLAIM", "RN", "RUS", "RUL", "RUC", "RB", "CIRUC", "CIRB", "RUB",
];
const FORMAT_KEYS: &[&str] = &[
    "AD", "ADF", "ADR", "DP", "EC", "LEN", "FT", "GL", "GP", "GQ", "GT", "HQ", "LA", "LAA", "LAD", "LADF", "LADR", "LEC", "LGL", "LGP", "LPL", "LPP", "MQ", "PL", "PP", "PQ", "PS", "PSL", "PSO", "PSQ", "CN", "CICN", "CNQ", "CNL", "CNP", "NQ",
    "HAP", "AHAP",
];

fn real_info_def(ff: FileFormat, key: &str) -> Option<(INum, ITy)> {
    let m = Map::<Info>::from((ff, key));
    if m.description().is_empty() { None } else { Some((m.number(), m.ty())) }
}
fn real_format_def(ff: FileFormat, key: &str) -> Option<(FNum, FTy)> {
    let m = Map::<Format>::from((ff, key));
    if m.description().is_empty() { None } else { Some((m.number(), m.ty())) }
}

/// `4.3/<info defs>/<format defs>+4.4/…+4.5/…` (the format `DriverC09.parseDefTables` reads)
pub fn full_defs() -> &'static str {
    static DEFS: std::sync::OnceLock<String> = std::sync::OnceLock::new();
    DEFS.get_or_init(|| {
        let mut out = vec![];
        for v in [(4u32, 3u32), (4, 4), (4, 5)] {
            let ff = FileFormat::new(v.0, v.1);
            let i = list(INFO_KEYS.iter().filter_map(|k| real_info_def(ff, k).map(|(n, t)| format!("{}:{}:{}", hx(k), enc_inum(n), enc_ity(t)))).collect());
            let f = list(FORMAT_KEYS.iter().filter_map(|k| real_format_def(ff, k).map(|(n, t)| format!("{}:{}:{}", hx(k), enc_fnum(n), enc_fty(t)))).collect());
            out.push(format!("{}.{}/{}/{}", v.0, v.1, i, f));
        }
        out.join("+")
    })
}

// ------------------------------------------------------------------------------------------
// `wfHeader` (lean/Noodles/Vcf/HeaderWF.lean), transcribed. Clauses that are facts about the Rust
// types (u32 / usize ranges, INFO Number vocabulary, FORMAT Type ≠ Flag, unique ids / tags / keys)
// have nothing to check here. Returns the name of the first clause that fails.

fn raw_ok(v: &str) -> bool {
    !v.contains(',') && !v.contains('>') && !v.contains('\n') && !v.starts_with('"')
}
fn str_ok(v: &str) -> bool {
    !v.contains('\n')
}
fn tag_ok(k: &str) -> bool {
    !k.contains('=') && !k.contains('\n') && !k.starts_with('>')
}
fn others_ok<K: AsRef<str>>(std: &[&str], fs: &indexmap::IndexMap<K, String>) -> bool {
    fs.iter().all(|(k, v)| tag_ok(k.as_ref()) && !std.contains(&k.as_ref()) && str_ok(v))
}
fn before(ff: FileFormat, a: u32, b: u32) -> bool {
    ff.major() < a || (ff.major() == a && ff.minor() < b)
}
fn is_map(ff: FileFormat, v: &str) -> bool {
    v.starts_with('<') && (!before(ff, 4, 3) || v.contains("ID="))
}
fn unstr_ok(ff: FileFormat, v: &str) -> bool {
    !v.contains('\n') && !v.ends_with('\r') && !is_map(ff, v) && (before(ff, 4, 3) || !v.is_empty())
}
fn bracket_ok(v: &str) -> bool {
    v.starts_with('[') && v.ends_with(']') && !v[..v.len() - 1].contains(']') && !v.contains('\n')
}
fn meta_field_ok(ff: FileFormat, k: &str, v: &str) -> bool {
    tag_ok(k)
        && k != "ID"
        && if matches!(k, "Number" | "Type" | "Values") {
            if !before(ff, 4, 3) && k == "Values" && v.starts_with('[') { bracket_ok(v) } else { raw_ok(v) }
        } else {
            str_ok(v)
        }
}
fn ped_id_tags(ff: FileFormat) -> &'static [&'static str] {
    if before(ff, 4, 3) { &["ID", "Child", "Derived"] } else { &["ID"] }
}
const STD_KEYS: &[&str] = &["fileformat", "INFO", "FILTER", "FORMAT", "ALT", "contig"];
fn key_ok(k: &str) -> bool {
    !k.contains('=') && !k.contains('\n') && !STD_KEYS.contains(&k)
}
fn wf_other_map(ff: FileFormat, key: &str, id: &str, m: &Map<map::Other>) -> bool {
    let id_tag = map_other_id_tag(m);
    let fs = m.other_fields();
    raw_ok(id)
        && if key == "META" {
            id_tag == "ID" && fs.iter().all(|(k, v)| meta_field_ok(ff, k.as_ref(), v))
        } else if key == "PEDIGREE" {
            let tags = ped_id_tags(ff);
            tags.contains(&id_tag.as_str()) && fs.iter().all(|(k, v)| tag_ok(k.as_ref()) && !tags.contains(&k.as_ref()) && str_ok(v))
        } else {
            id_tag == "ID" && fs.iter().all(|(k, v)| tag_ok(k.as_ref()) && k.as_ref() != "ID" && str_ok(v))
        }
}

fn wf_reason(h: &vcf::Header) -> Option<&'static str> {
    let ff = h.file_format();
    for (id, m) in h.infos() {
        if !(raw_ok(id) && str_ok(m.description()) && others_ok(&["ID", "Number", "Type", "Description", "IDX"], m.other_fields())) {
            return Some("info-bytes");
        }
        if real_info_def(ff, id).is_some_and(|d| d != (m.number(), m.ty())) {
            return Some("info-definition");
        }
    }
    for (id, m) in h.filters() {
        if !(raw_ok(id) && str_ok(m.description()) && others_ok(&["ID", "Description", "IDX"], m.other_fields())) {
            return Some("filter-bytes");
        }
    }
    for (id, m) in h.formats() {
        if !(raw_ok(id) && str_ok(m.description()) && others_ok(&["ID", "Number", "Type", "Description", "IDX"], m.other_fields())) {
            return Some("format-bytes");
        }
        if real_format_def(ff, id).is_some_and(|d| d != (m.number(), m.ty())) {
            return Some("format-definition");
        }
    }
    for (id, m) in h.alternative_alleles() {
        if !(raw_ok(id) && str_ok(m.description()) && others_ok(&["ID", "Description"], m.other_fields())) {
            return Some("alt-bytes");
        }
    }
    for (id, m) in h.contigs() {
        // md5 / URL: any bytes but LF (written quoted when the unquoted form would not read back)
        if !(raw_ok(id) && m.md5().is_none_or(str_ok) && m.url().is_none_or(str_ok) && others_ok(&["ID", "length", "md5", "URL", "IDX"], m.other_fields())) {
            return Some("contig-bytes");
        }
    }
    for (k, c) in h.other_records() {
        let k = k.as_ref();
        if !key_ok(k) {
            return Some("other-key");
        }
        match c {
            Collection::Unstructured(vs) => {
                if vs.is_empty() {
                    return Some("empty-collection");
                }
                if k == "META" || k == "PEDIGREE" {
                    return Some("unstructured-meta-pedigree");
                }
                if !vs.iter().all(|v| unstr_ok(ff, v)) {
                    return Some("unstructured-value");
                }
            }
            Collection::Structured(ms) => {
                if ms.is_empty() {
                    return Some("empty-collection");
                }
                if !ms.iter().all(|(id, m)| wf_other_map(ff, k, id, m)) {
                    return Some(if k == "META" { "meta-map" } else if k == "PEDIGREE" { "pedigree-map" } else { "other-map" });
                }
            }
        }
    }
    let ss = h.sample_names();
    if !ss.iter().all(|s| !s.contains('\t') && !s.contains('\n')) || ss.last().is_some_and(|s| s.ends_with('\r')) {
        return Some("samples");
    }
    None
}

// ------------------------------------------------------------------------------------------
// answers of the real code

fn variant_of(dbg: &str) -> String {
    let end = dbg.find(|c: char| !(c.is_ascii_alphanumeric() || c == '_')).unwrap_or(dbg.len());
    dbg[..end].to_string()
}

fn real_from_str(text: &str) -> Result<vcf::Header, String> {
    text.parse::<vcf::Header>().map_err(|e| format!("err:{}", variant_of(&format!("{e:?}"))))
}

fn read_back(h: &vcf::Header, r: Result<vcf::Header, String>) -> String {
    match r {
        Ok(b) => {
            let (a, b) = (dump_header(h), dump_header(&b));
            if a == b { "same".into() } else { format!("diff:{b}") }
        }
        Err(e) => e,
    }
}

fn value_request(h: &vcf::Header) -> String {
    format!("c09 hval {} {}", full_defs(), dump_header(h))
}

/// (answer line, outcome class for the histogram)
fn value_answer(h: &vcf::Header) -> (String, String) {
    let wf = if wf_reason(h).is_none() { 1 } else { 0 };
    match real_write_header(h) {
        Err(e) => (format!("wf={wf} w={e}"), "writer-rejects".into()),
        Ok(t) => {
            let r = read_back(h, real_read_header(&t));
            let s = read_back(h, real_from_str(&t));
            let class = if r == "same" { "same".to_string() } else if r.starts_with("diff:") { "diff".into() } else { r.clone() };
            (format!("wf={wf} w={} r={r} s={s}", hx(&t)), class)
        }
    }
}

fn value_corr(ctx: &mut Ctx, h: &vcf::Header) {
    match guarded(|| value_answer(h)) {
        Ok((ans, class)) => {
            ctx.bump(&format!("hval_outcome_{}:{}", if wf_reason(h).is_none() { "wf" } else { "notwf" }, class));
            ctx.corr(value_request(h), ans);
        }
        Err(_) => {
            ctx.bump("hval_real_code_panicked");
            ctx.corr(value_request(h), "panic".into());
        }
    }
}

fn text_corr(ctx: &mut Ctx, text: &str) {
    // `read_header`: the existing request word, with the real definition tables
    let out = guarded(|| match real_read_header(text) {
        Ok(h) => {
            let w = match real_write_header(&h) {
                Ok(t) => hx(&t),
                Err(e) => e,
            };
            (format!("p={} w={}", dump_header(&h), w), "ok".to_string())
        }
        Err(e) => (format!("p={e}"), e),
    });
    match out {
        Ok((ans, class)) => {
            ctx.bump(&format!("hdr_text:{class}"));
            ctx.corr(format!("c09 hdr {} {}", full_defs(), hx(text)), ans);
        }
        Err(_) => ctx.corr(format!("c09 hdr {} {}", full_defs(), hx(text)), "panic".into()),
    }
    // `Header::from_str`
    let out = guarded(|| match real_from_str(text) {
        Ok(h) => (format!("p={}", dump_header(&h)), "ok".to_string()),
        Err(e) => (format!("p={e}"), e),
    });
    match out {
        Ok((ans, class)) => {
            ctx.bump(&format!("hstr_text:{class}"));
            ctx.corr(format!("c09 hstr {} {}", full_defs(), hx(text)), ans);
        }
        Err(_) => ctx.corr(format!("c09 hstr {} {}", full_defs(), hx(text)), "panic".into()),
    }
}

// ------------------------------------------------------------------------------------------
// oracle: the property, stated on the real code

const RECORD_LINE: &str = "sq0\t1\t.\tA\t.\t.\t.\t.\n";

/// stable class suffix of the defect repaired by fixes/vcf-contig-url-unquoted.diff: a contig md5 /
/// URL that cannot be read back unquoted
fn defect_tag(h: &vcf::Header) -> &'static str {
    if h.contigs().values().any(|m| !m.md5().is_none_or(raw_ok) || !m.url().is_none_or(raw_ok)) {
        ":contig-url-md5-unquoted"
    } else {
        ""
    }
}

fn oracle_value(ctx: &mut Ctx, h: &vcf::Header, case: &str) -> Option<String> {
    let res = guarded(|| -> Result<String, (&'static str, String)> {
        let text = real_write_header(h).map_err(|e| ("header-wf:writer-rejects", format!("the writer rejects a well-formed header ({e}): {}", dump_header(h))))?;
        let back = real_read_header(&text).map_err(|e| ("header-wf:reader-rejects", format!("read_header rejects the writer's text ({e}): {text:?}")))?;
        let (a, b) = (dump_header(h), dump_header(&back));
        if a != b {
            return Err(("header-wf:roundtrip-differs", format!("written from {a}, read back as {b}; text {text:?}")));
        }
        if back != *h {
            return Err(("header-wf:eq-false", format!("Header == is false after the round trip of {text:?}")));
        }
        let back2 = real_from_str(&text).map_err(|e| ("header-wf:from-str-rejects", format!("Header::from_str rejects the writer's text ({e}): {text:?}")))?;
        if dump_header(&back2) != a {
            return Err(("header-wf:from-str-differs", format!("Header::from_str reads {} from {text:?}", dump_header(&back2))));
        }
        let again = real_write_header(&back).map_err(|e| ("header-wf:fixed-point", format!("the header read back is rejected by the writer ({e})")))?;
        if again != text {
            return Err(("header-wf:fixed-point", format!("write(read(write h)) = {again:?} but write h = {text:?}")));
        }
        let with_records = format!("{text}{RECORD_LINE}");
        let back3 = real_read_header(&with_records).map_err(|e| ("header-wf:then-records", format!("read_header fails when a record follows ({e})")))?;
        if dump_header(&back3) != a {
            return Err(("header-wf:then-records", format!("read_header reads {} when a record follows", dump_header(&back3))));
        }
        Ok(text)
    });
    match res {
        Ok(Ok(t)) => Some(t),
        Ok(Err((class, text))) => {
            ctx.fail(&format!("{class}{}", defect_tag(h)), text, case.into());
            None
        }
        Err(p) => {
            ctx.fail("panic", format!("panic on a well-formed header: {p}"), case.into());
            None
        }
    }
}

// ------------------------------------------------------------------------------------------
// generators

const VERSIONS: &[(u32, u32)] = &[(4, 1), (4, 2), (4, 2), (4, 3), (4, 3), (4, 4), (4, 5), (4, 5), (4, 6), (4, 0), (3, 3), (5, 0), (0, 0), (4, 4294967295), (4294967295, 3), (10, 10)];

/// pieces every quoted string may contain (everything but LF)
const ANY: &[&str] = &["a", "b c", "\"", "\\", ",", ">", "<", "=", ";", ":", "é", "Total Depth", "\\\"", "x\\", "#", "##", "%3B", "\t", "\r", "[", "]", "[1,2]", "ID=", "\"q\"", "\u{1F9EC}", " ", "0", "<ID=x>", "\\\\", "\"\""];
/// pieces of a value that is written unquoted
const RAW: &[&str] = &["a", "b", "sq", "0", "1", "chr", "_", ".", "-", "*", ":", "=", "<", "é", " ", ";", "#", "\"", "\\", "[", "]", "\t", "\r", "%", "\u{1F9EC}"];
/// what breaks a raw value
const RAW_BAD: &[&str] = &[",", ">", "\n", "a,b", "x>"];

fn cat(rng: &mut Rng, parts: &[&str], max: u64) -> String {
    let n = rng.below(max + 1);
    (0..n).map(|_| *rng.pick(parts)).collect()
}

/// a quoted value: any bytes; when `evil`, 1 in 8 has a line feed
fn gen_quoted(rng: &mut Rng, evil: bool) -> String {
    let mut s = cat(rng, ANY, 4);
    if evil && rng.chance(1, 8) {
        let at = rng.below(s.chars().count() as u64 + 1) as usize;
        let i = s.char_indices().nth(at).map(|(i, _)| i).unwrap_or(s.len());
        s.insert(i, '\n');
    }
    s
}

/// a raw value (ids, md5, URL): when `evil`, 1 in 6 has a byte the raw form cannot carry
fn gen_raw(rng: &mut Rng, evil: bool, nonempty: bool) -> String {
    let mut s = cat(rng, RAW, 3);
    if s.starts_with('"') && !(evil && rng.chance(1, 3)) {
        s.insert(0, 'q');
    }
    if evil && rng.chance(1, 6) {
        s.push_str(*rng.pick(RAW_BAD));
    }
    if nonempty && s.is_empty() {
        s.push('z');
    }
    s
}

const TAGS: &[&str] = &["Source", "Version", "x", "a.b", "é", "Values", "Number2", "assembly", "species", "taxonomy", "", "a,b", "\"t\"", "t>", "<t", "a b", "#", "Father", "Mother", "Original", "Child", "Derived", "idx", "Length", "URL2", "Number", "Type", "Description", "IDX", "length", "md5", "URL"];
const TAGS_BAD: &[&str] = &["a=b", "=", ">t", "t\nu"];

fn gen_tag(rng: &mut Rng, evil: bool) -> String {
    if evil && rng.chance(1, 8) { rng.pick(TAGS_BAD).to_string() } else { rng.pick(TAGS).to_string() }
}

macro_rules! add_others {
    ($rng:expr, $evil:expr, $m:expr) => {
        for _ in 0..$rng.below(4) {
            let t = gen_tag($rng, $evil);
            // a standard tag of the map kind is not an `Other` tag: `parse` refuses it
            if let Ok(tag) = t.parse() {
                let v = gen_quoted($rng, $evil);
                $m.other_fields_mut().insert(tag, v);
            }
        }
    };
}

fn gen_idx(rng: &mut Rng) -> Option<usize> {
    if rng.chance(1, 4) { Some(*rng.pick(&[0usize, 1, 7, 39, 127, 128, 32768, usize::MAX])) } else { None }
}

fn ped_map_with_tag(tag: &str) -> Option<Map<map::Other>> {
    let h = real_read_header(&format!("##fileformat=VCFv4.2\n##PEDIGREE=<{tag}=x>\n{COLS}\n")).ok()?;
    match h.other_records().get("PEDIGREE")? {
        Collection::Structured(ms) => ms.get("x").cloned(),
        _ => None,
    }
}

fn gen_header(rng: &mut Rng, evil: bool) -> vcf::Header {
    let ver = *rng.pick(VERSIONS);
    let ff = FileFormat::new(ver.0, ver.1);
    let mut h = vcf::Header::builder().set_file_format(ff).build();
    // INFO: free ids, reserved ids with their own or (evil) a foreign definition
    const INUMS: &[INum] = &[INum::Count(0), INum::Count(1), INum::Count(2), INum::Count(17), INum::Count(usize::MAX), INum::AlternateBases, INum::ReferenceAlternateBases, INum::Samples, INum::Unknown];
    const ITYS: &[ITy] = &[ITy::Integer, ITy::Float, ITy::Flag, ITy::Character, ITy::String];
    for _ in 0..rng.below(4) {
        let id = match rng.below(4) {
            0 => rng.pick(INFO_KEYS).to_string(),
            1 => rng.pick(&["x1", "_a", "a.b", "Zz_9", "dp", "k"]).to_string(),
            _ => gen_raw(rng, evil, false),
        };
        let (num, ty) = match real_info_def(ff, &id) {
            Some(d) if !(evil && rng.chance(1, 4)) => d,
            _ => (*rng.pick(INUMS), *rng.pick(ITYS)),
        };
        let mut m = Map::<Info>::new(num, ty, gen_quoted(rng, evil));
        *m.idx_mut() = gen_idx(rng);
        add_others!(rng, evil, m);
        h.infos_mut().insert(id, m);
    }
    for _ in 0..rng.below(3) {
        let id = match rng.below(3) {
            0 => "PASS".to_string(),
            1 => rng.pick(&["q10", "s50", "a:b", "x=y", "é", "a;b", "0"]).to_string(),
            _ => gen_raw(rng, evil, false),
        };
        let mut m = if id == "PASS" && rng.chance(1, 2) { Map::<Filter>::pass() } else { Map::<Filter>::new(gen_quoted(rng, evil)) };
        *m.idx_mut() = gen_idx(rng);
        add_others!(rng, evil, m);
        h.filters_mut().insert(id, m);
    }
    const FNUMS: &[FNum] = &[FNum::Count(0), FNum::Count(1), FNum::Count(3), FNum::Count(usize::MAX), FNum::AlternateBases, FNum::ReferenceAlternateBases, FNum::Samples, FNum::LocalAlternateBases, FNum::LocalReferenceAlternateBases, FNum::LocalSamples, FNum::Ploidy, FNum::BaseModifications, FNum::Unknown];
    const FTYS: &[FTy] = &[FTy::Integer, FTy::Float, FTy::Character, FTy::String];
    for _ in 0..rng.below(4) {
        let id = match rng.below(4) {
            0 => rng.pick(FORMAT_KEYS).to_string(),
            1 => rng.pick(&["x1", "_a", "a.b", "DPx", "kk"]).to_string(),
            _ => gen_raw(rng, evil, false),
        };
        let (num, ty) = match real_format_def(ff, &id) {
            Some(d) if !(evil && rng.chance(1, 4)) => d,
            _ => (*rng.pick(FNUMS), *rng.pick(FTYS)),
        };
        let mut m = Map::<Format>::new(num, ty, gen_quoted(rng, evil));
        *m.idx_mut() = gen_idx(rng);
        add_others!(rng, evil, m);
        h.formats_mut().insert(id, m);
    }
    for _ in 0..rng.below(3) {
        let id = if rng.chance(1, 2) { rng.pick(&["DEL", "INS:ME", "DUP:TANDEM", "*", "CN0", "R"]).to_string() } else { gen_raw(rng, evil, false) };
        let mut m = Map::<AlternativeAllele>::new(gen_quoted(rng, evil));
        add_others!(rng, evil, m);
        h.alternative_alleles_mut().insert(id, m);
    }
    for _ in 0..rng.below(4) {
        let id = if rng.chance(1, 2) { rng.pick(&["sq0", "chr1", "1", "HLA-A*01:01", "a=b", "chrUn_KI270302v1", "é"]).to_string() } else { gen_raw(rng, evil, false) };
        let mut m = Map::<Contig>::new();
        if rng.chance(1, 2) {
            *m.length_mut() = Some(*rng.pick(&[0usize, 1, 8, 248_956_422, usize::MAX]));
        }
        if rng.chance(1, 3) {
            *m.md5_mut() = Some(match rng.below(4) {
                0 | 1 => "d7eba311421bbc9d3ada44709dd61534".into(),
                2 => gen_raw(rng, evil, false),
                _ => gen_quoted(rng, evil),
            });
        }
        if rng.chance(1, 3) {
            *m.url_mut() = Some(match rng.below(5) {
                0 => "https://example.com/reference.fa".to_string(),
                1 => "file:///a?b=c".to_string(),
                2 => rng.pick(&["http://h/a,b", "ftp://h/x?a=1,2&b=<3>", "\"q\"", "a>b", ">", ","]).to_string(),
                _ => gen_raw(rng, evil, false),
            });
        }
        *m.idx_mut() = gen_idx(rng);
        add_others!(rng, evil, m);
        h.contigs_mut().insert(id, m);
    }
    // other records
    for _ in 0..rng.below(5) {
        let key = if evil && rng.chance(1, 10) { rng.pick(&["a=b", "k\nl", "=", ""]).to_string() } else { rng.pick(&["fileDate", "source", "reference", "phasing", "SAMPLE", "PEDIGREE", "META", "assembly2", "x.y", "", "a b", "<k>", "#", "PEDIGREE", "META"]).to_string() };
        let Ok(k) = key.parse::<vcf::header::record::key::Other>() else { continue };
        let structured = match key.as_str() {
            "META" | "PEDIGREE" => !(evil && rng.chance(1, 8)),
            "SAMPLE" | "assembly2" | "<k>" => true,
            _ => rng.chance(1, 5),
        };
        if evil && rng.chance(1, 12) {
            let c = if structured { Collection::Structured(Default::default()) } else { Collection::Unstructured(vec![]) };
            h.other_records_mut().insert(k, c);
            continue;
        }
        let n = 1 + rng.below(3);
        for i in 0..n {
            let v = if structured {
                let mut b = Map::<map::Other>::builder();
                let nf = rng.below(4);
                for _ in 0..nf {
                    let t = if key == "META" && rng.chance(2, 3) { rng.pick(&["Number", "Type", "Values", "Values"]).to_string() } else { gen_tag(rng, evil) };
                    let Ok(tag) = t.parse() else { continue };
                    let val = if key == "META" && matches!(t.as_str(), "Number" | "Type" | "Values") {
                        match rng.below(6) {
                            0 => ".".to_string(),
                            1 => "String".to_string(),
                            2 => "[a, b]".to_string(),
                            3 => rng.pick(&["[]", "[a]", "[a,b],c", "[a", "a]", "[a]]", "x[a]", "[a>b]", "[\"a\"]"]).to_string(),
                            _ => gen_raw(rng, evil, false),
                        }
                    } else {
                        gen_quoted(rng, evil)
                    };
                    b = b.insert(tag, val);
                }
                let id = if rng.chance(1, 2) { format!("{}{i}", rng.pick(&["id", "S", "é", "a:b", ""])) } else { format!("{}{i}", gen_raw(rng, evil, false)) };
                match b.build() {
                    Ok(mut m) => {
                        // `id_tag` is crate-private: a `Child` / `Derived` tag can only come from a pre-4.3 text
                        if key == "PEDIGREE" && (before(ff, 4, 3) || evil) && rng.chance(1, 2) {
                            if let Some(mut t) = ped_map_with_tag(*rng.pick(&["Child", "Derived"])) {
                                for (k, v) in m.other_fields() {
                                    t.other_fields_mut().insert(k.clone(), v.clone());
                                }
                                m = t;
                            }
                        }
                        Value::Map(id, m)
                    }
                    Err(_) => continue,
                }
            } else {
                let mut s = match rng.below(6) {
                    0 => "20200709".to_string(),
                    1 => rng.pick(&["a<", "=", "x=<ID=y>", "\"<\"", " <x>", "a\rb"]).to_string(),
                    2 if evil || before(ff, 4, 3) => rng.pick(&["", "<", "<ID=a>", "<x>", "a\r", "\r", "<>"]).to_string(),
                    _ => gen_quoted(rng, evil),
                };
                if !evil && !unstr_ok(ff, &s) {
                    // keep the clean half of the cases inside the quantifier
                    s = format!("v{}", s.replace("ID=", "id=").trim_end_matches('\r'));
                }
                Value::String(s)
            };
            let _ = h.insert(k.clone(), v);
        }
    }
    // sample names
    let ns = rng.below(5);
    for i in 0..ns {
        let s = match rng.below(8) {
            0 => String::new(),
            1 if evil => rng.pick(&["a\tb", "\t", "x\n", "s\r"]).to_string(),
            2 => format!("{}{i}", cat(rng, ANY, 2).replace('\t', " ")),
            3 if i + 1 == ns && evil => "last\r".to_string(),
            _ => format!("{}{i}", rng.pick(&["s", "NA0000", "a b", "é", "x:y", "#", "FORMAT", "s\r", "\"s\""])),
        };
        h.sample_names_mut().insert(s);
    }
    h
}

/// text-level variants of a written header: line endings, missing final LF, what follows
fn text_variants(rng: &mut Rng, t: &str) -> Vec<(&'static str, String)> {
    let mut out = vec![("asis", t.to_string())];
    let crlf = t.replace('\n', "\r\n");
    let body = t.strip_suffix('\n').unwrap_or(t);
    match rng.below(8) {
        0 => out.push(("crlf", crlf)),
        1 => out.push(("no-final-lf", body.to_string())),
        2 => out.push(("cr-no-final-lf", format!("{body}\r"))),
        3 => out.push(("crlf-no-final-lf", crlf.strip_suffix('\n').unwrap_or(&crlf).to_string())),
        4 => out.push(("then-record", format!("{t}{RECORD_LINE}"))),
        5 => out.push(("then-hash-line", format!("{t}#late\n"))),
        6 => {
            let lines: Vec<&str> = t.split_inclusive('\n').collect();
            let k = rng.below(lines.len() as u64 + 1) as usize;
            let mut s: String = lines[..k].concat();
            s.push_str(*rng.pick(&["\n", "\r\n", "#\n", "##\n", "##=\n", "x\n"]));
            s.push_str(&lines[k..].concat());
            out.push(("line-inserted", s));
        }
        _ => {
            let mut b = t.as_bytes().to_vec();
            let i = rng.below(b.len() as u64) as usize;
            if b[i] < 0x80 && (i + 1 >= b.len() || b[i + 1] < 0x80 || b[i + 1] >= 0xc0) {
                if rng.chance(1, 2) {
                    b.remove(i);
                } else {
                    b.insert(i, *rng.pick(&[b',', b'"', b'\\', b'>', b'<', b'=', b'#', b'\t', b'\r', b'\n', b'[', b']']));
                }
            }
            out.push(("byte-mutated", String::from_utf8(b).unwrap_or_default()));
        }
    }
    out
}

fn header_size(h: &vcf::Header) -> usize {
    h.infos().len() + h.filters().len() + h.formats().len() + h.alternative_alleles().len() + h.contigs().len() + h.other_records().values().map(|c| c.len()).sum::<usize>()
}

/// which branches of the model a well-formed header exercises
fn features(ctx: &mut Ctx, h: &vcf::Header) {
    let ff = h.file_format();
    let pre = if before(ff, 4, 3) { "pre4.3" } else { "from4.3" };
    let mut f = |ctx: &mut Ctx, k: &str| ctx.bump(&format!("wf_feature:{k}"));
    for m in h.infos().values() {
        f(ctx, "info");
        if m.idx().is_some() { f(ctx, "info-idx"); }
        if !m.other_fields().is_empty() { f(ctx, "info-other-fields"); }
        if m.description().contains(['"', '\\']) { f(ctx, "description-escapes"); }
    }
    for (id, m) in h.infos() {
        if real_info_def(ff, id).is_some() { f(ctx, "info-reserved-id"); }
        let _ = m;
    }
    for (id, _) in h.formats() {
        f(ctx, "format");
        if real_format_def(ff, id).is_some() { f(ctx, "format-reserved-id"); }
    }
    for m in h.formats().values() {
        if matches!(m.number(), FNum::LocalAlternateBases | FNum::LocalReferenceAlternateBases | FNum::LocalSamples | FNum::Ploidy | FNum::BaseModifications) { f(ctx, "format-number-local"); }
    }
    for (id, m) in h.filters() {
        f(ctx, if id == "PASS" { "filter-PASS" } else { "filter" });
        if m.idx().is_some() { f(ctx, "filter-idx"); }
    }
    for m in h.alternative_alleles().values() {
        f(ctx, "alt");
        if !m.other_fields().is_empty() { f(ctx, "alt-other-fields"); }
    }
    for m in h.contigs().values() {
        f(ctx, &format!("contig-len{}-md5{}-url{}-idx{}", m.length().is_some() as u8, m.md5().is_some() as u8, m.url().is_some() as u8, m.idx().is_some() as u8));
        if m.md5().is_some_and(|v| !raw_ok(v)) || m.url().is_some_and(|v| !raw_ok(v)) { f(ctx, "contig-md5-url-needs-quotes"); }
    }
    for (k, c) in h.other_records() {
        match c {
            Collection::Unstructured(vs) => {
                f(ctx, &format!("unstructured-{pre}-x{}", vs.len().min(3)));
                if vs.iter().any(|v| v.starts_with('<')) { f(ctx, "unstructured-starts-with-lt"); }
                if vs.iter().any(|v| v.is_empty()) { f(ctx, "unstructured-empty"); }
            }
            Collection::Structured(ms) => {
                let kind = match k.as_ref() { "META" => "meta", "PEDIGREE" => "pedigree", _ => "othermap" };
                f(ctx, &format!("{kind}-{pre}-x{}", ms.len().min(3)));
                for m in ms.values() {
                    if kind == "meta" {
                        for (t, v) in m.other_fields() {
                            if t.as_ref() == "Values" { f(ctx, &format!("meta-values-{pre}-{}", if v.starts_with('[') { "bracket" } else { "raw" })); }
                            else if matches!(t.as_ref(), "Number" | "Type") { f(ctx, "meta-raw-field"); }
                            else { f(ctx, "meta-quoted-field"); }
                        }
                    }
                    if kind == "pedigree" { f(ctx, &format!("pedigree-idtag-{}", map_other_id_tag(m))); }
                    if m.other_fields().is_empty() { f(ctx, &format!("{kind}-no-fields")); }
                }
            }
        }
    }
    if h.sample_names().iter().any(|s| s.is_empty()) { f(ctx, "sample-empty-name"); }
    if h.sample_names().last().is_some_and(|s| s.is_empty()) { f(ctx, "sample-empty-name-last"); }
}

fn value_case(ctx: &mut Ctx, sub: u64) {
    let mut rng = Rng::new(sub ^ 0x9e37_79b9_7f4a_7c15);
    let evil = rng.chance(1, 3);
    let h = gen_header(&mut rng, evil);
    let case = format!("hwf {sub}");
    value_corr(ctx, &h);
    let n = header_size(&h);
    ctx.bump(&format!("hval_lines_{}", n.min(16)));
    ctx.bump(&format!("hval_samples_{}", h.sample_names().len()));
    ctx.bump(&format!("hval_version_{}.{}", h.file_format().major(), h.file_format().minor()));
    match wf_reason(&h) {
        None => {
            ctx.bump("hval_wf");
            features(ctx, &h);
            ctx.eval(if n >= 2 { Some(fnv(dump_header(&h).as_bytes())) } else { None });
            if let Some(t) = oracle_value(ctx, &h, &case) {
                for (kind, v) in text_variants(&mut rng, &t) {
                    ctx.bump(&format!("text_variant:{kind}"));
                    text_corr(ctx, &v);
                }
            }
        }
        Some(reason) => {
            // outside the quantifier: compared with the model, not judged
            ctx.bump(&format!("hval_notwf:{reason}"));
        }
    }
}

// ------------------------------------------------------------------------------------------
// hand-written boundary cases (run first, on every run)

const COLS: &str = "#CHROM\tPOS\tID\tREF\tALT\tQUAL\tFILTER\tINFO";

/// hostile / edge header texts for `read_header` and `Header::from_str`
fn text_corpus() -> Vec<String> {
    let ff = "##fileformat=VCFv4.3\n";
    let wrap = |l: &str| format!("{ff}{l}\n{COLS}\n");
    let mut v: Vec<String> = vec![
        // framing
        String::new(),
        "\n".into(),
        "#".into(),
        "##".into(),
        ff.into(),
        format!("{ff}{COLS}"),
        format!("{ff}{COLS}\r"),
        format!("{ff}{COLS}\r\n"),
        format!("{ff}{COLS}\r\r\n"),
        format!("##fileformat=VCFv4.3\r\n{COLS}\r\n"),
        format!("##fileformat=VCFv4.3\r"),
        format!("##fileformat=VCFv4.3\r{COLS}\n"),
        format!("{ff}\n{COLS}\n"),
        format!("{ff}{COLS}\n{COLS}\n"),
        format!("{ff}{COLS}\n##late=1\n"),
        format!("{ff}{COLS}\nsq0\t1\t.\tA\t.\t.\t.\t.\n"),
        format!("{ff}{COLS}\n\n##late=1\n"),
        format!("{ff}sq0\t1\n{COLS}\n"),
        format!("{ff}{ff}{COLS}\n"),
        format!(" {ff}{COLS}\n"),
        format!("{ff}#CHROM\n"),
        format!("{ff}#CHROMX\tPOS\n"),
        format!("{ff}{COLS}\t\n"),
        format!("{ff}{COLS}\tFORMAT\n"),
        format!("{ff}{COLS}\tFORMAT\t\n"),
        format!("{ff}{COLS}\tFORMAT\t\t\n"),
        format!("{ff}{COLS}\tFORMAT\ta\t\tb\n"),
        format!("{ff}{COLS}\tFORMAT\ta b\t#\tFORMAT\n"),
        format!("{ff}{COLS}\tFORMAT\ts\r\n"),
        format!("{ff}{COLS}\tFORMAT\ts\r"),
        format!("{ff}{COLS}\tformat\ts\n"),
        format!("{ff}#CHROM\tPOS\tID\tREF\tALT\tQUAL\tFILTER\n"),
        format!("{ff}#CHROM POS ID REF ALT QUAL FILTER INFO\n"),
        // fileformat
        "##fileformat=VCFv4.3".into(),
        format!("##fileformat=VCFv4294967295.4294967295\n{COLS}\n"),
        format!("##fileformat=VCFv4294967296.0\n{COLS}\n"),
        format!("##fileformat=VCFv.\n{COLS}\n"),
        format!("##fileformat=VCFv4.\n{COLS}\n"),
        format!("##fileformat=VCFv.3\n{COLS}\n"),
        format!("##fileformat=VCFv04.003\n{COLS}\n"),
        format!("##fileformat=VCFv4.3.1\n{COLS}\n"),
        format!("##fileformat=VCFv+4.3\n{COLS}\n"),
        format!("##fileformat=VCFv4\n{COLS}\n"),
        format!("##fileformat=vcfv4.3\n{COLS}\n"),
        format!("##fileformat=<ID=VCFv4.3>\n{COLS}\n"),
        format!("##fileformat\n{COLS}\n"),
        format!("##FILEFORMAT=VCFv4.3\n{COLS}\n"),
    ];
    for l in [
        // quotes and backslashes in Description; `,` `=` `<` `>` inside quoted values; empty values
        r#"##FILTER=<ID=q,Description="a \"q\" \\ b">"#,
        r#"##FILTER=<ID=q,Description="a, b = c < d > e">"#,
        r#"##FILTER=<ID=q,Description="">"#,
        r#"##FILTER=<ID=q,Description=>"#,
        r#"##FILTER=<ID=q,Description=raw text>"#,
        r#"##FILTER=<ID=q,Description="x\">"#,
        r#"##FILTER=<ID=q,Description="x\\">"#,
        r#"##FILTER=<ID=q,Description="x\n">"#,
        r#"##FILTER=<ID=q,Description="x"y>"#,
        r#"##FILTER=<ID=q,Description="x" >"#,
        r#"##FILTER=<ID=q,Description="x">>"#,
        r#"##FILTER=<ID=q,Description="x">trailing"#,
        r#"##FILTER=<ID=q,Description="x""#,
        r#"##FILTER=<ID=q,Description="x",>"#,
        r#"##FILTER=<ID=q,,Description="x">"#,
        r#"##FILTER=<,ID=q,Description="x">"#,
        r#"##FILTER=<>"#,
        r#"##FILTER=<"#,
        r#"##FILTER="#,
        r#"##FILTER=<ID=q>"#,
        r#"##FILTER=<Description="x">"#,
        r#"##FILTER=<Description="x",ID=q>"#,
        r#"##FILTER=<ID="q,r",Description="x">"#,
        r#"##FILTER=<ID=,Description="x">"#,
        r#"##FILTER=<ID=q,Description="x",IDX=5>"#,
        r#"##FILTER=<ID=q,Description="x",IDX=+5>"#,
        r#"##FILTER=<ID=q,Description="x",IDX="5">"#,
        r#"##FILTER=<ID=q,Description="x",IDX=-1>"#,
        r#"##FILTER=<ID=q,Description="x",IDX=>"#,
        r#"##FILTER=<ID=q,Description="x",IDX=18446744073709551615>"#,
        r#"##FILTER=<ID=q,Description="x",IDX=18446744073709551616>"#,
        r#"##FILTER=<ID=q,Description="x",IDX=1,IDX=1>"#,
        // repeated keys
        r#"##FILTER=<ID=q,ID=r,Description="x">"#,
        r#"##FILTER=<ID=q,Description="x",Description="y">"#,
        r#"##FILTER=<ID=q,Description="x",a="1",a="2">"#,
        r#"##FILTER=<ID=q,Description="x",a="1",A="2",=3,="4">"#,
        r#"##FILTER=<ID=q,Description="x",a=b=c,d==>"#,
        r#"##FILTER=<ID=q,Description="x",a>"#,
        r#"##FILTER=<ID=q,Description="x",>a=1>"#,
        r#"##ALT=<ID=DEL,Description="d">"#,
        r#"##ALT=<ID=DEL>"#,
        r#"##ALT=<ID=DEL,Description="d",IDX=1>"#,
        r#"##ALT=<ID=<DEL>,Description="d">"#,
        r#"##contig=<ID=sq0>"#,
        r#"##contig=<ID=sq0,length=8,md5=d7,URL=http://h/a?b=c,IDX=0,x="y">"#,
        r#"##contig=<ID=sq0,URL="http://h/a,b">"#,
        r#"##contig=<ID=sq0,URL=http://h/a,b>"#,
        r#"##contig=<ID=sq0,URL=http://h/a,b=c>"#,
        r#"##contig=<ID=sq0,length=>"#,
        r#"##contig=<ID=sq0,length=+8>"#,
        r#"##contig=<ID=sq0,length=08>"#,
        r#"##contig=<ID=sq0,length=-8>"#,
        r#"##contig=<ID=sq0,length=8.0>"#,
        r#"##contig=<ID=sq0,length="8">"#,
        r#"##contig=<ID=sq0,Length=8,MD5=x,url=y>"#,
        r#"##contig=<ID=sq0,length=8,length=8>"#,
        r#"##contig=<URL=x>"#,
        r#"##INFO=<ID=x,Number=1,Type=Integer,Description="d">"#,
        r#"##INFO=<ID=x,Number=LA,Type=Integer,Description="d">"#,
        r#"##INFO=<ID=x,Number=0,Type=Flag,Description="d">"#,
        r#"##INFO=<ID=x,Number=+1,Type=Integer,Description="d">"#,
        r#"##INFO=<ID=x,Number=,Type=Integer,Description="d">"#,
        r#"##INFO=<ID=x,Number="1",Type="Integer",Description=d>"#,
        r#"##INFO=<ID=x,Type=Integer,Number=1,Description="d">"#,
        r#"##INFO=<ID=x,Number=1,Type=integer,Description="d">"#,
        r#"##INFO=<ID=DP,Number=1,Type=Integer,Description="d">"#,
        r#"##INFO=<ID=DP,Number=1,Type=String,Description="d">"#,
        r#"##INFO=<ID=CIGAR,Number=1,Type=String,Description="d">"#,
        r#"##INFO=<ID=CIGAR,Number=A,Type=String,Description="d">"#,
        r#"##FORMAT=<ID=x,Number=LA,Type=Integer,Description="d">"#,
        r#"##FORMAT=<ID=x,Number=M,Type=Flag,Description="d">"#,
        r#"##FORMAT=<ID=GT,Number=1,Type=String,Description="d">"#,
        r#"##FORMAT=<ID=GT,Number=1,Type=Integer,Description="d">"#,
        r#"##FORMAT=<ID=PSL,Number=P,Type=String,Description="d">"#,
        r#"##FORMAT=<ID=PSL,Number=1,Type=String,Description="d">"#,
        // META / PEDIGREE / other structured
        r#"##META=<ID=Assay,Type=String,Number=.,Values=[WholeGenome, Exome]>"#,
        r#"##META=<ID=Assay,Values=[a, b],x="y">"#,
        r#"##META=<ID=Assay,Values=[a, b>"#,
        r#"##META=<ID=Assay,Values=[a>,x=b]>"#,
        r#"##META=<ID=Assay,Values=[]>"#,
        r#"##META=<ID=Assay,Values=[]]>"#,
        r#"##META=<ID=Assay,Values="[a, b]">"#,
        r#"##META=<ID=Assay,Values=a>"#,
        r#"##META=<ID=Assay,values=[a, b]>"#,
        r#"##META=<Values=[a, b],ID=Assay>"#,
        r#"##META=<ID=Assay>"#,
        r#"##META=<ID=Assay,>"#,
        r#"##META=<>"#,
        r#"##META=x"#,
        r#"##META=<ID=a,ID=b>"#,
        r#"##META=<ID=a,x=1,x=2>"#,
        r#"##PEDIGREE=<ID=c,Father=f,Mother=m>"#,
        r#"##PEDIGREE=<Child=c,Father=f>"#,
        r#"##PEDIGREE=<ID=c,Child=d>"#,
        r#"##PEDIGREE=<Father=f>"#,
        r#"##PEDIGREE=x"#,
        r#"##SAMPLE=<ID=s0,Assay=WholeGenome,Description="a \"q\" \\ b">"#,
        r#"##SAMPLE=<ID=s0>"#,
        r#"##SAMPLE=<Assay=x>"#,
        r#"##SAMPLE=<ID=s0,ID=s1>"#,
        r#"##SAMPLE=<x>"#,
        // unstructured
        r#"##k=v"#,
        r#"##k="#,
        r#"##k"#,
        r#"##=v"#,
        r#"##="#,
        r#"##k=a=b,"c"<d>"#,
        r#"##k= <x>"#,
        "##k=v\r",
        "##k=\r",
        "##k=v\tw",
        r#"##é=🧬"#,
    ] {
        v.push(wrap(l));
    }
    // the same maps before 4.3, duplicate records, kind mismatch
    for t in [
        "##fileformat=VCFv4.2\n##PEDIGREE=<Child=c0,Father=f0>\n##PEDIGREE=<Derived=d0,Original=o0>\n##PEDIGREE=<ID=i0>\n",
        "##fileformat=VCFv4.2\n##PEDIGREE=<Child=c0,Derived=d0>\n",
        "##fileformat=VCFv4.2\n##PEDIGREE=<Child=c0,ID=d0>\n",
        "##fileformat=VCFv4.2\n##PEDIGREE=<Child=c0>\n##PEDIGREE=<Derived=c0>\n",
        "##fileformat=VCFv4.2\n##META=<ID=Assay,Values=[a, b]>\n",
        "##fileformat=VCFv4.2\n##META=<ID=Assay,Values=[a]>\n",
        "##fileformat=VCFv4.2\n##k=<x>\n##k=<ID=x>\n",
        "##fileformat=VCFv4.2\n##k=<ID=x>\n##k=<x>\n",
        "##fileformat=VCFv4.2\n##k=<xID=y>\n",
        "##fileformat=VCFv4.2\n##k=<x>ID=\n",
        "##fileformat=VCFv4.2\n##INFO=<ID=DP,Number=1,Type=String,Description=\"d\">\n",
        "##fileformat=VCFv4.3\n##k=1\n##k=2\n##k=1\n",
        "##fileformat=VCFv4.3\n##k=<ID=a>\n##k=<ID=b>\n##k=<ID=a>\n",
        "##fileformat=VCFv4.3\n##k=<ID=a>\n##j=1\n##k=<ID=b>\n##j=2\n",
        "##fileformat=VCFv4.3\n##contig=<ID=a>\n##contig=<ID=a>\n",
        "##fileformat=VCFv4.3\n##ALT=<ID=a,Description=\"\">\n##ALT=<ID=a,Description=\"\">\n",
        "##fileformat=VCFv4.3\n##FILTER=<ID=a,Description=\"\">\n##FILTER=<ID=a,Description=\"\">\n",
        "##fileformat=VCFv4.3\n##FORMAT=<ID=a,Number=1,Type=String,Description=\"\">\n##FORMAT=<ID=a,Number=1,Type=String,Description=\"\">\n",
        "##fileformat=VCFv4.3\n##INFO=<ID=a,Number=1,Type=String,Description=\"\">\n##FORMAT=<ID=a,Number=1,Type=String,Description=\"\">\n",
    ] {
        v.push(format!("{t}{COLS}\n"));
    }
    v
}

/// hostile header VALUES: the witnesses of `vcf_header_roundtrip_needs_wf_*` and their neighbours
fn value_corpus() -> Vec<vcf::Header> {
    let base = |maj, min| vcf::Header::builder().set_file_format(FileFormat::new(maj, min)).build();
    let mut v = vec![];
    // the empty header, every version class
    for (a, b) in [(4, 3), (4, 2), (4, 5), (0, 0), (u32::MAX, u32::MAX)] {
        v.push(base(a, b));
    }
    // contig URL / md5 with bytes the unquoted form cannot carry (fix vcf-contig-url-unquoted: quoted now),
    // needs_wf_raw_comma (the id) and neighbours
    for (id, md5, url) in [("sq0", None, Some("h/a,b")), ("sq0", None, Some("http://h/a,b")), ("sq0", Some("a>b"), None), ("sq0", None, Some("\"q\"")), ("sq0", None, Some("q\"")), ("sq0", Some(""), Some("")), ("a,b", None, None), ("", None, None), ("\"", None, None), ("<sq0>", None, None), ("s\nq", None, None)] {
        let mut h = base(4, 3);
        let mut m = Map::<Contig>::new();
        *m.md5_mut() = md5.map(String::from);
        *m.url_mut() = url.map(String::from);
        h.contigs_mut().insert(id.to_string(), m);
        v.push(h);
    }
    // needs_wf_sample_tab / needs_wf_cr and neighbours
    for ss in [vec!["a\tb"], vec!["a\r"], vec!["a\r", "b"], vec!["a", "b\r"], vec![""], vec!["", "x"], vec!["x", ""], vec!["a\nb"], vec!["FORMAT"], vec!["#CHROM", "POS"], vec![" ", "  "]] {
        let mut h = base(4, 3);
        for s in ss {
            h.sample_names_mut().insert(s.to_string());
        }
        v.push(h);
    }
    // needs_wf_empty_collection
    for c in [Collection::Unstructured(vec![]), Collection::Structured(Default::default())] {
        let mut h = base(4, 3);
        h.other_records_mut().insert("k".parse().unwrap(), c);
        v.push(h);
    }
    // needs_wf_definition: reserved ids against / with their definition, in and out of the versions
    for (a, b) in [(4, 3), (4, 2), (4, 5)] {
        for ty in [ITy::String, ITy::Integer] {
            let mut h = base(a, b);
            h.infos_mut().insert("DP".into(), Map::<Info>::new(INum::Count(1), ty, ""));
            v.push(h);
        }
        for num in [FNum::Count(1), FNum::Ploidy] {
            let mut h = base(a, b);
            h.formats_mut().insert("PSL".into(), Map::<Format>::new(num, FTy::String, "p"));
            h.formats_mut().insert("GT".into(), Map::<Format>::new(FNum::Count(1), FTy::String, "g"));
            v.push(h);
        }
    }
    // needs_wf_pedigree_child: id tags from a 4.2 text, kept or moved to 4.3
    if let Ok(h42) = real_read_header(&format!("##fileformat=VCFv4.2\n##PEDIGREE=<Child=c0,Father=f0>\n##PEDIGREE=<Derived=d0>\n##PEDIGREE=<ID=i0,Child=\"x\">\n{COLS}\n")) {
        let mut h43 = h42.clone();
        *h43.file_format_mut() = FileFormat::new(4, 3);
        v.push(h42);
        v.push(h43);
    }
    // a PEDIGREE map with a Child field under 4.3 read back under 4.2 becomes an id tag
    if let Ok(h43) = real_read_header(&format!("##fileformat=VCFv4.3\n##PEDIGREE=<ID=i0,Child=c0>\n##META=<ID=A,Values=[a, b]>\n{COLS}\n")) {
        let mut h42 = h43.clone();
        *h42.file_format_mut() = FileFormat::new(4, 2);
        v.push(h43);
        v.push(h42);
    }
    // needs_wf_unstructured_map and neighbours
    for (a, b) in [(4, 2), (4, 3)] {
        for (k, s) in [("k", "<ID=x>"), ("k", "<x>"), ("k", ""), ("k", "<"), ("k", "x\r"), ("k", "a\nb"), ("META", "x"), ("PEDIGREE", "x"), ("k", "=\"<,>\"")] {
            let mut h = base(a, b);
            h.other_records_mut().insert(k.parse().unwrap(), Collection::Unstructured(vec![s.to_string()]));
            v.push(h);
        }
    }
    // needs_wf_lf: line feeds in quoted values, tags, keys
    {
        let mut h = base(4, 3);
        h.filters_mut().insert("q".into(), Map::<Filter>::new("a\nb"));
        v.push(h);
        let mut h = base(4, 3);
        let mut m = Map::<Filter>::new("d");
        m.other_fields_mut().insert("t\nu".parse().unwrap(), "v".into());
        h.filters_mut().insert("q".into(), m);
        v.push(h);
        let mut h = base(4, 3);
        let mut m = Map::<AlternativeAllele>::new("d");
        m.other_fields_mut().insert("a=b".parse().unwrap(), "v".into());
        m.other_fields_mut().insert(">".parse().unwrap(), "v".into());
        h.alternative_alleles_mut().insert("DEL".into(), m);
        v.push(h);
        let mut h = base(4, 3);
        h.other_records_mut().insert("a=b".parse().unwrap(), Collection::Unstructured(vec!["v".into()]));
        v.push(h);
    }
    // well-formed boundary values: every optional field, quoted values with every delimiter
    {
        let mut h = base(4, 3);
        let mut m = Map::<Info>::new(INum::Count(usize::MAX), ITy::Character, "a \"q\" \\ , > = < ; \t \r [ ] # 🧬");
        *m.idx_mut() = Some(usize::MAX);
        m.other_fields_mut().insert("".parse().unwrap(), "".into());
        m.other_fields_mut().insert("a,b".parse().unwrap(), ",>\"\\".into());
        h.infos_mut().insert("x.y".into(), m);
        let mut m = Map::<Filter>::pass();
        *m.idx_mut() = Some(0);
        h.filters_mut().insert("PASS".into(), m);
        h.filters_mut().insert("".into(), Map::<Filter>::new(""));
        let mut m = Map::<Contig>::new();
        *m.length_mut() = Some(usize::MAX);
        *m.md5_mut() = Some("".into());
        *m.url_mut() = Some("file:///a?b=c&d=<e".into());
        *m.idx_mut() = Some(1);
        m.other_fields_mut().insert("species".parse().unwrap(), "Homo, sapiens".into());
        h.contigs_mut().insert("HLA-A*01:01".into(), m);
        let _ = h.insert("META".parse().unwrap(), Value::Map("A".into(), Map::<map::Other>::builder().insert("Values".parse().unwrap(), "[a, b>c]").insert("Number".parse().unwrap(), ".").insert("note".parse().unwrap(), "[x], \"y\"").build().unwrap()));
        let _ = h.insert("META".parse().unwrap(), Value::Map("B".into(), Map::<map::Other>::builder().insert("Values".parse().unwrap(), "plain").build().unwrap()));
        let _ = h.insert("SAMPLE".parse().unwrap(), Value::Map("".into(), Map::<map::Other>::new()));
        let _ = h.insert("x".parse().unwrap(), Value::String("a=b,\"c\"<d>".into()));
        let _ = h.insert("x".parse().unwrap(), Value::String(" <ID=x>".into()));
        for s in ["s0", "a b", "", "#", "é"] {
            h.sample_names_mut().insert(s.into());
        }
        v.push(h);
    }
    // META `Values` shapes, from 4.3 and before
    for (a, b) in [(4, 3), (4, 2)] {
        for val in ["[a, b]", "[]", "[a", "a]", "[a]]", "[a],b", "x[a]", "[a>b]", "[\"a\"]", "a,b", ""] {
            let mut h = base(a, b);
            let _ = h.insert("META".parse().unwrap(), Value::Map("A".into(), Map::<map::Other>::builder().insert("Values".parse().unwrap(), val).insert("after".parse().unwrap(), "]").build().unwrap()));
            v.push(h);
        }
    }
    v
}

fn corpus(ctx: &mut Ctx, only: Option<(&str, usize)>) {
    for (i, t) in text_corpus().iter().enumerate() {
        if only.is_some_and(|(w, k)| w != "htext" || k != i) {
            continue;
        }
        ctx.bump("corpus_header_text");
        text_corr(ctx, t);
        // a text the parser accepts yields a header value: when it is well formed the property applies
        if let Ok(Ok(h)) = guarded(|| real_read_header(t)) {
            value_corr(ctx, &h);
            if wf_reason(&h).is_none() {
                ctx.eval(Some(fnv(t.as_bytes())));
                oracle_value(ctx, &h, &format!("htext {i}"));
            } else {
                ctx.bump("corpus_text_value_notwf");
            }
        }
    }
    for (i, h) in value_corpus().iter().enumerate() {
        if only.is_some_and(|(w, k)| w != "hvalue" || k != i) {
            continue;
        }
        ctx.bump("corpus_header_value");
        value_corr(ctx, h);
        match wf_reason(h) {
            None => {
                ctx.eval(Some(fnv(dump_header(h).as_bytes())));
                if let Some(t) = oracle_value(ctx, h, &format!("hvalue {i}")) {
                    text_corr(ctx, &t);
                    text_corr(ctx, &t.replace('\n', "\r\n"));
                    text_corr(ctx, t.strip_suffix('\n').unwrap_or(&t));
                }
            }
            Some(reason) => ctx.bump(&format!("hval_notwf:{reason}")),
        }
    }
}

/// the assumed table: every key of the harness's lists is really answered by `definition`, and the
/// version classes without tables have none
fn defs_selftest(ctx: &mut Ctx) {
    let n43 = INFO_KEYS.iter().filter(|k| real_info_def(FileFormat::new(4, 3), k).is_some()).count();
    let n45 = INFO_KEYS.iter().filter(|k| real_info_def(FileFormat::new(4, 5), k).is_some()).count();
    let f45 = FORMAT_KEYS.iter().filter(|k| real_format_def(FileFormat::new(4, 5), k).is_some()).count();
    ctx.bump_by("defs_info_4.3", n43 as u64);
    ctx.bump_by("defs_info_4.5", n45 as u64);
    ctx.bump_by("defs_format_4.5", f45 as u64);
    let none = [(4, 2), (4, 6), (3, 3), (5, 0)].iter().all(|&(a, b)| INFO_KEYS.iter().all(|k| real_info_def(FileFormat::new(a, b), k).is_none()) && FORMAT_KEYS.iter().all(|k| real_format_def(FileFormat::new(a, b), k).is_none()));
    if n43 < 30 || n45 < 40 || f45 < 30 || !none {
        ctx.fail("header-defs-table", format!("the reserved-definition probe is off: info 4.3 {n43}, info 4.5 {n45}, format 4.5 {f45}, other versions empty = {none}"), "hdefs 0".into());
    }
}

pub fn replay(ctx: &mut Ctx, case: &[String]) -> bool {
    let sub: u64 = case.get(1).and_then(|s| s.parse().ok()).unwrap_or(0);
    match case.first().map(|s| s.as_str()) {
        Some("hwf") => value_case(ctx, sub),
        Some("htext") => corpus(ctx, Some(("htext", sub as usize))),
        Some("hvalue") => corpus(ctx, Some(("hvalue", sub as usize))),
        Some("hdefs") => defs_selftest(ctx),
        _ => return false,
    }
    true
}

pub fn run(ctx: &mut Ctx) {
    defs_selftest(ctx);
    corpus(ctx, None);
    let n = ctx.n(500, 40_000);
    for it in 0..n {
        value_case(ctx, ctx.seed.wrapping_mul(1_000_693).wrapping_add(it));
    }
    ctx.sample(|| "c09 hval <real definition tables> ver=4.3|C:612c62:-:.:.:-:~|S:~ => wf=0 w=2323… r=err:InvalidRecord s=err:InvalidRecord".into());
}
