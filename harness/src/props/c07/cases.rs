//! Generators for C07: a random reference, a SAM header, templates of mutually consistent records,
//! writer options and encoder assignments. Everything derives from one sub-seed.
use super::walker::{hexs, ref_md5};
use crate::common::Rng;

#[derive(Clone, Debug, PartialEq)]
pub struct Rec {
    pub name: Vec<u8>, // b"*" = missing
    pub flag: u16,
    pub rid: Option<usize>,
    pub pos: usize, // 0 = missing
    pub mapq: u8,   // 255 = missing
    pub cigar: Vec<(u8, usize)>,
    pub rnext: Option<usize>,
    pub pnext: usize,
    pub tlen: i64,
    pub seq: Vec<u8>,  // empty = *
    pub qual: Vec<u8>, // raw phred; empty = *
    pub tags: Vec<String>,
    /// generator bookkeeping (not rendered): template id, index of the mate record inside the template
    pub tid: usize,
    pub has_supp: bool,
}

impl Rec {
    pub fn unmapped(&self) -> bool {
        self.flag & 4 != 0
    }
    pub fn ref_span(&self) -> usize {
        self.cigar.iter().filter(|(k, _)| matches!(k, b'M' | b'D' | b'N' | b'=' | b'X')).map(|(_, n)| *n).sum()
    }
    pub fn read_len_cigar(&self) -> usize {
        self.cigar.iter().filter(|(k, _)| matches!(k, b'M' | b'I' | b'S' | b'=' | b'X')).map(|(_, n)| *n).sum()
    }
    pub fn end(&self) -> usize {
        // 1-based inclusive end of the alignment (pos - 1 when the span is zero)
        self.pos + self.ref_span() - 1
    }
    pub fn cigar_str(&self) -> String {
        if self.cigar.is_empty() {
            "*".into()
        } else {
            self.cigar.iter().map(|(k, n)| format!("{n}{}", *k as char)).collect()
        }
    }
    pub fn sam_line(&self, refs: &[(String, Vec<u8>)]) -> String {
        let rname = |r: Option<usize>| r.map(|i| refs[i].0.clone()).unwrap_or_else(|| "*".into());
        let rnext = match (self.rid, self.rnext) {
            (Some(a), Some(b)) if a == b => "=".to_string(),
            (_, r) => rname(r),
        };
        let seq = if self.seq.is_empty() { "*".to_string() } else { String::from_utf8_lossy(&self.seq).into_owned() };
        let qual = if self.qual.is_empty() { "*".to_string() } else { self.qual.iter().map(|q| (q + 33) as char).collect() };
        let mut s = format!(
            "{}\t{}\t{}\t{}\t{}\t{}\t{}\t{}\t{}\t{}\t{}",
            String::from_utf8_lossy(&self.name),
            self.flag,
            rname(self.rid),
            self.pos,
            self.mapq,
            self.cigar_str(),
            rnext,
            self.pnext,
            self.tlen,
            seq,
            qual
        );
        for t in &self.tags {
            s.push('\t');
            s.push_str(t);
        }
        s
    }
}

#[derive(Clone, Debug, PartialEq)]
pub enum Enc {
    Raw,
    Gzip(u32),
    Bzip2(u32),
    Lzma(u32),
    R4x8(u8),
    Nx16(u8),
    Aac(u8),
    Tok,
    Fqz,
}

impl Enc {
    pub fn label(&self) -> String {
        match self {
            Enc::Raw => "raw".into(),
            Enc::Gzip(_) => "gzip".into(),
            Enc::Bzip2(_) => "bzip2".into(),
            Enc::Lzma(_) => "lzma".into(),
            Enc::R4x8(o) => format!("rans4x8-o{o}"),
            Enc::Nx16(f) => format!("ransnx16-{f:02x}"),
            Enc::Aac(f) => format!("aac-{f:02x}"),
            Enc::Tok => "tok".into(),
            Enc::Fqz => "fqzcomp".into(),
        }
    }
    pub fn family(&self) -> &'static str {
        match self {
            Enc::Raw => "raw",
            Enc::Gzip(_) => "gzip",
            Enc::Bzip2(_) => "bzip2",
            Enc::Lzma(_) => "lzma",
            Enc::R4x8(_) => "rans4x8",
            Enc::Nx16(_) => "ransnx16",
            Enc::Aac(_) => "aac",
            Enc::Tok => "tok",
            Enc::Fqz => "fqzcomp",
        }
    }
    pub fn is_31(&self) -> bool {
        matches!(self, Enc::Nx16(_) | Enc::Aac(_) | Enc::Tok | Enc::Fqz)
    }
    /// the block compression method id this encoder produces (CRAM §8)
    pub fn method(&self) -> u8 {
        match self {
            Enc::Raw => 0,
            Enc::Gzip(_) => 1,
            Enc::Bzip2(_) => 2,
            Enc::Lzma(_) => 3,
            Enc::R4x8(_) => 4,
            Enc::Nx16(_) => 5,
            Enc::Aac(_) => 6,
            Enc::Fqz => 7,
            Enc::Tok => 8,
        }
    }
}

/// content ids of the 28 data series, in the order of the specification's table (id = index + 1)
pub const SERIES: [&str; 28] = [
    "BF", "CF", "RI", "RL", "AP", "RG", "RN", "MF", "NS", "NP", "TS", "NF", "TL", "FN", "FC", "FP", "DL", "BB", "QQ", "BS", "IN", "RS", "PD", "HC", "SC", "MQ", "BA", "QS",
];

#[derive(Clone, Debug, PartialEq)]
pub struct Opts {
    pub preserve_names: bool,
    pub deltas: bool,
    /// records per slice / slices per container; (0, 0) = library default (10240 / 1, `build_from_writer`)
    pub rps: usize,
    pub spc: usize,
    /// None = the library's default encoder map (gzip everywhere)
    pub plan: Option<EncPlan>,
    /// feed lazy `sam::Record`s instead of `RecordBuf`s
    pub lazy: bool,
}

#[derive(Clone, Debug, PartialEq)]
pub struct EncPlan {
    pub core: Enc,
    pub dflt: Enc,
    /// encoder per data series (index into SERIES)
    pub series: Vec<Enc>,
    /// encoder for tag value blocks: applied to the k-th distinct (tag, type) key of the stream, cyclically;
    /// empty = tags use the default encoder
    pub tags: Vec<Enc>,
}

impl EncPlan {
    pub fn uniform(e: Enc) -> Self {
        // fqzcomp is only implemented for data-series blocks (Block::encode is unimplemented!() for it);
        // the name tokenizer is defined on name lists only
        let other = |e: &Enc| if matches!(e, Enc::Fqz | Enc::Tok) { Enc::Gzip(6) } else { e.clone() };
        EncPlan {
            core: other(&e),
            dflt: other(&e),
            series: (0..28)
                .map(|i| match (&e, SERIES[i]) {
                    (Enc::Tok, "RN") => Enc::Tok,
                    (Enc::Tok, _) => Enc::Gzip(6),
                    (Enc::Fqz, "QS") => Enc::Fqz,
                    (Enc::Fqz, _) => Enc::Gzip(6),
                    _ => e.clone(),
                })
                .collect(),
            tags: vec![other(&e)],
        }
    }
    pub fn all(&self) -> Vec<&Enc> {
        let mut v = vec![&self.core, &self.dflt];
        v.extend(self.series.iter());
        v.extend(self.tags.iter());
        v
    }
    pub fn label(&self) -> String {
        let mut fams: Vec<&str> = self.all().iter().map(|e| e.family()).collect();
        fams.sort();
        fams.dedup();
        fams.join("+")
    }
}

#[derive(Clone, Debug)]
pub struct Case {
    pub refs: Vec<(String, Vec<u8>)>,
    pub header_text: String,
    pub recs: Vec<Rec>,
    pub opts: Opts,
    pub label: String,
}

impl Case {
    pub fn sam_text(&self) -> String {
        let mut s = self.header_text.clone();
        for r in &self.recs {
            s.push_str(&r.sam_line(&self.refs));
            s.push('\n');
        }
        s
    }
    /// the header the reader is expected to return: the writer adds M5 to @SQ lines that lack it
    pub fn expected_header_text(&self) -> String {
        let mut out = String::new();
        for line in self.header_text.lines() {
            if line.starts_with("@SQ") && !line.contains("\tM5:") {
                let name = line.split('\t').find(|f| f.starts_with("SN:")).map(|f| &f[3..]).unwrap_or("");
                let seq = self.refs.iter().find(|r| r.0 == name).map(|r| r.1.clone()).unwrap_or_default();
                out.push_str(&format!("{line}\tM5:{}\n", hexs(&ref_md5(&seq))));
            } else {
                out.push_str(line);
                out.push('\n');
            }
        }
        out
    }
}

// ---------------------------------------------------------------------------------- the reference

pub fn gen_ref(rng: &mut Rng, len: usize) -> Vec<u8> {
    let style = rng.below(10);
    let mut v = Vec::with_capacity(len);
    while v.len() < len {
        let r = rng.below(100);
        if style >= 3 && r < 3 {
            // a run of N
            let n = 1 + rng.below(6) as usize;
            for _ in 0..n {
                v.push(b'N');
            }
        } else if style >= 5 && r < 6 {
            v.push(*rng.pick(b"RYKMSWBDHV"));
        } else if style >= 7 && r < 12 {
            // soft-masked stretch
            let n = 1 + rng.below(8) as usize;
            for _ in 0..n {
                v.push(*rng.pick(b"acgtn"));
            }
        } else {
            v.push(*rng.pick(b"ACGT"));
        }
    }
    v.truncate(len);
    v
}

// ------------------------------------------------------------------------------------- alignments

fn read_base(rng: &mut Rng, style: u64) -> u8 {
    match rng.below(40) {
        0 if style >= 2 => b'N',
        1 if style >= 4 => *rng.pick(b"RYKMSWBDHV"),
        2 if style >= 6 => *rng.pick(b"acgtn"),
        _ => *rng.pick(b"ACGT"),
    }
}

/// a base different (case-insensitively) from `r`
fn mismatch_base(rng: &mut Rng, r: u8, style: u64) -> u8 {
    for _ in 0..20 {
        let b = read_base(rng, style);
        if !b.eq_ignore_ascii_case(&r) {
            return b;
        }
    }
    if r.eq_ignore_ascii_case(&b'A') { b'C' } else { b'A' }
}

/// a CIGAR over at most `max_span` reference bases
pub fn gen_cigar(rng: &mut Rng, max_span: usize) -> Vec<(u8, usize)> {
    let mut ops: Vec<(u8, usize)> = vec![];
    let mut span = 0usize;
    if rng.chance(1, 10) {
        ops.push((b'H', 1 + rng.below(5) as usize));
    }
    if rng.chance(1, 5) {
        ops.push((b'S', 1 + rng.below(6) as usize));
    }
    let nseg = 1 + rng.below(5);
    for s in 0..nseg {
        // one or more adjacent match-like operations
        let nm = if rng.chance(1, 4) { 1 + rng.below(3) } else { 1 };
        for _ in 0..nm {
            let k = *rng.pick(b"MMMMMM=X");
            let n = match rng.below(6) {
                0 => 1,
                1 => 2,
                _ => 1 + rng.below(24) as usize,
            };
            let n = n.min(max_span.saturating_sub(span));
            if n == 0 {
                break;
            }
            ops.push((k, n));
            span += n;
        }
        if s + 1 == nseg || span >= max_span {
            break;
        }
        match rng.below(10) {
            0 | 1 | 2 => ops.push((b'I', if rng.chance(1, 2) { 1 } else { 1 + rng.below(5) as usize })),
            3 | 4 | 5 => {
                let n = (1 + rng.below(6) as usize).min(max_span - span);
                if n > 0 && max_span - span > n {
                    ops.push((b'D', n));
                    span += n;
                }
            }
            6 | 7 => {
                let n = (1 + rng.below(40) as usize).min(max_span - span);
                if n > 0 && max_span - span > n {
                    ops.push((b'N', n));
                    span += n;
                }
            }
            8 => ops.push((b'P', 1 + rng.below(3) as usize)),
            _ => {}
        }
    }
    // an alignment must not end on I/D/N/P followed by nothing match-like … SAM does not forbid it, noodles
    // does not care; keep whatever came out, but make sure at least one read base exists
    if !ops.iter().any(|(k, _)| matches!(k, b'M' | b'=' | b'X' | b'I' | b'S')) {
        ops.push((b'M', 1));
    }
    if rng.chance(1, 5) {
        ops.push((b'S', 1 + rng.below(6) as usize));
    }
    if rng.chance(1, 10) {
        ops.push((b'H', 1 + rng.below(5) as usize));
    }
    ops
}

/// bases for `cigar` aligned at 1-based `start` on `r`
pub fn gen_bases(rng: &mut Rng, r: &[u8], start: usize, cigar: &[(u8, usize)], style: u64, err: u64) -> Vec<u8> {
    let mut seq = vec![];
    let mut rp = start - 1;
    for (k, n) in cigar {
        match k {
            b'M' | b'=' | b'X' => {
                for i in 0..*n {
                    let rb = r[rp + i];
                    let mism = match k {
                        b'=' => false,
                        b'X' => !rng.chance(1, 10),
                        _ => rng.below(100) < err,
                    };
                    if mism {
                        seq.push(mismatch_base(rng, rb, style));
                    } else if style >= 6 && rng.chance(1, 20) {
                        seq.push(if rb.is_ascii_lowercase() { rb.to_ascii_uppercase() } else { rb.to_ascii_lowercase() });
                    } else if style < 6 {
                        seq.push(rb.to_ascii_uppercase());
                    } else {
                        seq.push(rb);
                    }
                }
                rp += n;
            }
            b'I' | b'S' => {
                for _ in 0..*n {
                    seq.push(read_base(rng, style));
                }
            }
            b'D' | b'N' => rp += n,
            _ => {}
        }
    }
    seq
}

fn gen_quals(rng: &mut Rng, n: usize) -> Vec<u8> {
    let q = gen_quals0(rng, n);
    // a single quality of 9 renders as `*`, which SAM reads as "missing"
    if q == [9] { vec![10] } else { q }
}

fn gen_quals0(rng: &mut Rng, n: usize) -> Vec<u8> {
    match rng.below(8) {
        0 => vec![rng.below(94) as u8; n],
        1 => (0..n).map(|_| rng.below(94) as u8).collect(),
        _ => (0..n).map(|_| *rng.pick(&[2u8, 11, 25, 37, 37, 37, 40, 40])).collect(),
    }
}

pub fn gen_tags(rng: &mut Rng, nrg: usize) -> Vec<String> {
    let mut tags: Vec<String> = vec![];
    let n = match rng.below(6) {
        0 | 1 => 0,
        2 => 1,
        3 => 2,
        _ => 1 + rng.below(5),
    };
    let mut used = vec![];
    for _ in 0..n {
        let t = rng.below(14);
        if used.contains(&t) {
            continue;
        }
        used.push(t);
        let s = match t {
            0 => format!("NM:i:{}", rng.below(300)),
            1 => format!("AS:i:{}", rng.below(1200) as i64 - 100),
            2 => format!("XS:i:{}", *rng.pick(&[0i64, -1, 127, 128, 255, 256, -128, -129, 32767, 32768, 65535, 65536, -32768, -32769, 2147483647, -2147483648, 4294967295])),
            3 => format!("MD:Z:{}", *rng.pick(&["10", "3A6", "0C9", "5^AC5", "*"])),
            4 => format!("XA:Z:{}", *rng.pick(&["sq0,+12,4M,0;", "a b\tc".split('\t').next().unwrap(), "!~", "x"])),
            5 => format!("XF:f:{}", *rng.pick(&["1.5", "0.25", "-3", "100000", "0"])),
            6 => format!("XH:H:{}", *rng.pick(&["1AE3", "00", "FFFE01"])),
            7 => format!("XB:B:c,{}", (0..1 + rng.below(4)).map(|_| (rng.below(256) as i64 - 128).to_string()).collect::<Vec<_>>().join(",")),
            8 => format!("XC:B:S,{}", (0..1 + rng.below(4)).map(|_| rng.below(65536).to_string()).collect::<Vec<_>>().join(",")),
            9 => format!("XD:B:f,{}", (0..1 + rng.below(3)).map(|_| *rng.pick(&["0.5", "2", "-1.25"])).collect::<Vec<_>>().join(",")),
            10 => format!("XE:A:{}", *rng.pick(&['a', 'Z', '!', '~'])),
            11 => format!("XI:B:i,{}", (0..1 + rng.below(3)).map(|_| (rng.below(1 << 33) as i64 - (1 << 31)).clamp(-2147483648, 2147483647).to_string()).collect::<Vec<_>>().join(",")),
            12 if nrg > 0 => format!("RG:Z:rg{}", rng.below(nrg as u64)),
            12 => continue,
            _ => format!("XZ:Z:{}", *rng.pick(&["", "q"])),
        };
        if s == "XZ:Z:" {
            continue; // an empty Z value is not valid SAM text
        }
        tags.push(s);
    }
    tags
}

pub struct GenCfg {
    pub style: u64,
    pub err: u64,
    pub qual_missing: u64, // per mille
    pub seq_missing: u64,  // per mille
    pub name_missing: u64, // per mille
    pub nrg: usize,
}

fn mapped_read(rng: &mut Rng, refs: &[(String, Vec<u8>)], cfg: &GenCfg, rid: usize, near: Option<usize>) -> Rec {
    let r = &refs[rid].1;
    let mut cigar = gen_cigar(rng, r.len().min(120));
    let mut span: usize = cigar.iter().filter(|(k, _)| matches!(k, b'M' | b'D' | b'N' | b'=' | b'X')).map(|(_, n)| *n).sum();
    if span == 0 && !rng.chance(1, 8) {
        cigar.push((b'M', 1));
        span = 1;
    }
    let room = r.len() - span.max(1) + 1; // number of admissible starts
    let start = match (near, rng.below(10)) {
        (Some(p), 0..=6) => {
            let lo = p.saturating_sub(60).max(1);
            let hi = (p + 60).min(room);
            if lo <= hi { rng.range(lo as u64, hi as u64) as usize } else { 1 + rng.below(room as u64) as usize }
        }
        (_, 7) => 1,
        (_, 8) => room,
        _ => 1 + rng.below(room as u64) as usize,
    };
    let seq = gen_bases(rng, r, start, &cigar, cfg.style, cfg.err);
    let qual = if rng.below(1000) < cfg.qual_missing { vec![] } else { gen_quals(rng, seq.len()) };
    let (seq, qual) = if rng.below(1000) < cfg.seq_missing { (vec![], vec![]) } else { (seq, qual) };
    let mut flag = 0u16;
    if rng.chance(1, 2) {
        flag |= 0x10;
    }
    if rng.chance(1, 20) {
        flag |= 0x200;
    }
    if rng.chance(1, 20) {
        flag |= 0x400;
    }
    Rec {
        name: vec![],
        flag,
        rid: Some(rid),
        pos: start,
        mapq: *rng.pick(&[0u8, 1, 20, 37, 60, 60, 60, 254, 255]),
        cigar,
        rnext: None,
        pnext: 0,
        tlen: 0,
        seq,
        qual,
        tags: gen_tags(rng, cfg.nrg),
        tid: 0,
        has_supp: false,
    }
}

fn unmapped_read(rng: &mut Rng, cfg: &GenCfg) -> Rec {
    let n = match rng.below(10) {
        0 => 0,
        1 => 1,
        _ => 1 + rng.below(60) as usize,
    };
    let seq: Vec<u8> = (0..n).map(|_| read_base(rng, cfg.style)).collect();
    let qual = if n == 0 || rng.below(1000) < cfg.qual_missing.max(100) { vec![] } else { gen_quals(rng, n) };
    Rec {
        name: vec![],
        flag: 4 | if rng.chance(1, 10) { 0x200 } else { 0 },
        rid: None,
        pos: 0,
        mapq: *rng.pick(&[0u8, 0, 255]),
        cigar: vec![],
        rnext: None,
        pnext: 0,
        tlen: 0,
        seq,
        qual,
        tags: gen_tags(rng, cfg.nrg),
        tid: 0,
        has_supp: false,
    }
}

fn gen_name(rng: &mut Rng, style: u64, tid: usize) -> Vec<u8> {
    match style {
        0 => format!("r{tid}").into_bytes(),
        1 => format!("HWI-ST{}:{}:C0{}ACXX:{}:{}:{}:{}", 100 + rng.below(3), 7, rng.below(3), 1 + rng.below(8), 1101 + rng.below(3), 1000 + tid * 7, 2000 + rng.below(90000)).into_bytes(),
        2 => format!("q.{:04}/x", tid).into_bytes(),
        3 => format!("SRR{}.{}", 99000 + rng.below(3), tid + 1).into_bytes(),
        _ => {
            let n = 1 + rng.below(12) as usize;
            let mut v: Vec<u8> = (0..n).map(|_| *rng.pick(b"abcXYZ0123456789_-:.#")).collect();
            v.extend_from_slice(format!("_{tid}").as_bytes());
            v[0] = b'n'; // never purely numeric, never starts with '@' or '*'
            v
        }
    }
}

/// set mate fields of `a` from `b` (RNEXT, PNEXT, mate flag bits)
fn link(a: &mut Rec, b: &Rec) {
    a.rnext = b.rid;
    a.pnext = b.pos;
    if b.flag & 0x10 != 0 {
        a.flag |= 0x20;
    }
    if b.flag & 4 != 0 {
        a.flag |= 0x8;
    }
}

/// SAM §1.4.9 TLEN for every record, computed after the final order is known (ties: the earlier record
/// in the file is "leftmost")
pub fn assign_tlen(recs: &mut [Rec]) {
    let n = recs.len();
    for i in 0..n {
        if recs[i].flag & 1 == 0 {
            recs[i].tlen = 0;
            continue;
        }
        // the record this one's mate fields point to: same template, the other primary end (or, for a
        // primary whose mate is missing from the stream, nothing)
        let me = recs[i].clone();
        let mate = (0..n).find(|&j| {
            j != i && recs[j].tid == me.tid && recs[j].flag & 0x900 == 0 && (recs[j].flag & 0xc0) != (me.flag & 0xc0)
        });
        let Some(j) = mate else {
            continue; // mate not in the stream: keep the generated TLEN
        };
        let m = &recs[j];
        let both_mapped = me.flag & 4 == 0 && m.flag & 4 == 0;
        if !both_mapped || me.rid != m.rid || me.rid.is_none() {
            recs[i].tlen = 0;
            continue;
        }
        let left = me.pos.min(m.pos);
        let right = me.end().max(m.end());
        let tl = (right as i64 - left as i64 + 1).max(0);
        let i_left = me.pos < m.pos || (me.pos == m.pos && i < j);
        recs[i].tlen = if i_left { tl } else { -tl };
    }
}

pub fn gen_template(rng: &mut Rng, refs: &[(String, Vec<u8>)], cfg: &GenCfg, tid: usize, name: Vec<u8>) -> Vec<Rec> {
    let nrefs = refs.len();
    let kind = rng.below(20);
    let mut out: Vec<Rec> = vec![];
    match kind {
        0..=5 => {
            // single mapped read, unpaired
            out.push({ let rid = rng.below(nrefs as u64) as usize; mapped_read(rng, refs, cfg, rid, None) });
        }
        6 | 7 => out.push(unmapped_read(rng, cfg)),
        8..=13 => {
            // pair, both mapped; same reference mostly
            let ra = rng.below(nrefs as u64) as usize;
            let rb = if nrefs > 1 && rng.chance(1, 5) { (ra + 1 + rng.below(nrefs as u64 - 1) as usize) % nrefs } else { ra };
            let mut a = mapped_read(rng, refs, cfg, ra, None);
            let mut b = mapped_read(rng, refs, cfg, rb, if ra == rb { Some(a.pos) } else { None });
            a.flag |= 0x1 | 0x40;
            b.flag |= 0x1 | 0x80;
            if ra == rb && rng.chance(2, 3) {
                a.flag |= 0x2;
                b.flag |= 0x2;
            }
            let (a0, b0) = (a.clone(), b.clone());
            link(&mut a, &b0);
            link(&mut b, &a0);
            out.push(a);
            out.push(b);
            // supplementary / secondary alignments of the first read
            if rng.chance(1, 6) {
                let mut s = { let rid = rng.below(nrefs as u64) as usize; mapped_read(rng, refs, cfg, rid, None) };
                s.flag |= 0x1 | 0x40 | if rng.chance(1, 2) { 0x800 } else { 0x100 };
                if out[0].flag & 0x2 != 0 {
                    s.flag |= 0x2;
                }
                link(&mut s, &b0);
                if s.flag & 0x800 != 0 {
                    for r in out.iter_mut() {
                        r.has_supp = true;
                    }
                    s.has_supp = true;
                }
                out.push(s);
            }
        }
        14 | 15 => {
            // pair, one end unmapped and placed at its mate
            let ra = rng.below(nrefs as u64) as usize;
            let mut a = mapped_read(rng, refs, cfg, ra, None);
            let mut b = unmapped_read(rng, cfg);
            a.flag |= 0x1 | 0x40;
            b.flag |= 0x1 | 0x80;
            if rng.chance(3, 4) {
                b.rid = a.rid;
                b.pos = a.pos;
            }
            let (a0, b0) = (a.clone(), b.clone());
            link(&mut a, &b0);
            link(&mut b, &a0);
            if rng.chance(1, 2) {
                out.push(a);
                out.push(b);
            } else {
                out.push(b);
                out.push(a);
            }
        }
        16 => {
            // pair, both unmapped
            let mut a = unmapped_read(rng, cfg);
            let mut b = unmapped_read(rng, cfg);
            a.flag |= 0x1 | 0x40 | 0x8;
            b.flag |= 0x1 | 0x80 | 0x8;
            out.push(a);
            out.push(b);
        }
        17 => {
            // a paired read whose mate is not in the stream
            let ra = rng.below(nrefs as u64) as usize;
            let mut a = mapped_read(rng, refs, cfg, ra, None);
            a.flag |= 0x1 | if rng.chance(1, 2) { 0x40 } else { 0x80 };
            let rb = rng.below(nrefs as u64) as usize;
            a.rnext = Some(rb);
            a.pnext = 1 + rng.below(refs[rb].1.len() as u64) as usize;
            if rng.chance(1, 2) {
                a.flag |= 0x20;
            }
            a.tlen = if ra == rb { a.pnext as i64 - a.pos as i64 + if a.pnext >= a.pos { 30 } else { -30 } } else { 0 };
            out.push(a);
        }
        _ => {
            // single mapped read with a secondary alignment (unpaired)
            let a = { let rid = rng.below(nrefs as u64) as usize; mapped_read(rng, refs, cfg, rid, None) };
            let mut s = { let rid = rng.below(nrefs as u64) as usize; mapped_read(rng, refs, cfg, rid, None) };
            s.flag |= 0x100;
            out.push(a);
            out.push(s);
        }
    }
    let missing = rng.below(1000) < cfg.name_missing && out.len() == 1 && out[0].flag & 1 == 0;
    for r in out.iter_mut() {
        r.name = if missing { b"*".to_vec() } else { name.clone() };
        r.tid = tid;
    }
    out
}

const NX16_FLAGS: [u8; 14] = [0x00, 0x01, 0x04, 0x05, 0x40, 0x41, 0x80, 0x81, 0xc0, 0xc1, 0x08, 0x09, 0x20, 0x44];
const AAC_FLAGS: [u8; 10] = [0x00, 0x01, 0x40, 0x41, 0x80, 0x81, 0x04, 0x08, 0x09, 0x20];

pub fn gen_enc(rng: &mut Rng) -> Enc {
    match rng.below(12) {
        0 => Enc::Raw,
        1 | 2 => Enc::Gzip(*rng.pick(&[0u32, 1, 6, 9])),
        3 => Enc::Bzip2(*rng.pick(&[1u32, 6, 9])),
        4 => Enc::Lzma(*rng.pick(&[0u32, 3, 6])),
        5 => Enc::R4x8(0),
        6 => Enc::R4x8(1),
        7 | 8 => Enc::Nx16(*rng.pick(&NX16_FLAGS)),
        9 | 10 => Enc::Aac(*rng.pick(&AAC_FLAGS)),
        _ => Enc::Gzip(6),
    }
}

fn gen_enc_general(rng: &mut Rng) -> Enc {
    match rng.below(6) {
        0 => Enc::Raw,
        1 | 2 => Enc::Gzip(*rng.pick(&[0u32, 1, 6, 9])),
        3 => Enc::Bzip2(*rng.pick(&[1u32, 6, 9])),
        4 => Enc::Lzma(*rng.pick(&[0u32, 3, 6])),
        _ => Enc::Gzip(6),
    }
}

pub fn gen_plan(rng: &mut Rng) -> Option<EncPlan> {
    match rng.below(20) {
        0 | 1 => None,
        // general-purpose compressors only: one for everything …
        2..=5 => Some(EncPlan::uniform(gen_enc_general(rng))),
        // … or one per block
        6..=8 => {
            let mut p = EncPlan::uniform(Enc::Gzip(6));
            p.core = gen_enc_general(rng);
            p.dflt = gen_enc_general(rng);
            for i in 0..28 {
                p.series[i] = gen_enc_general(rng);
            }
            p.tags = (0..rng.below(4)).map(|_| gen_enc_general(rng)).collect();
            Some(p)
        }
        9..=14 => {
            // one CRAM codec for everything (the name tokenizer / fqzcomp on the series they are defined for)
            let e = match rng.below(10) {
                0 | 1 => Enc::Tok,
                2 | 3 => Enc::Fqz,
                4 => Enc::R4x8(rng.below(2) as u8),
                5 | 6 | 7 => Enc::Nx16(*rng.pick(&NX16_FLAGS)),
                _ => Enc::Aac(*rng.pick(&AAC_FLAGS)),
            };
            Some(EncPlan::uniform(e))
        }
        _ => {
            // an independent encoder per block, all codecs
            let mut p = EncPlan::uniform(Enc::Gzip(6));
            p.core = gen_enc(rng);
            p.dflt = gen_enc(rng);
            for i in 0..28 {
                p.series[i] = match SERIES[i] {
                    "RN" if rng.chance(1, 3) => Enc::Tok,
                    "QS" if rng.chance(1, 3) => Enc::Fqz,
                    _ => gen_enc(rng),
                };
            }
            p.tags = (0..rng.below(4)).map(|_| gen_enc(rng)).collect();
            Some(p)
        }
    }
}

pub fn gen_opts(rng: &mut Rng, nrecs: usize) -> Opts {
    let (rps, spc) = match rng.below(8) {
        0 => (0, 0),
        1 => (1, 1),
        2 => (1, 1 + rng.below(3) as usize),
        3 => (nrecs.max(1), 1),
        _ => (1 + rng.below(nrecs.max(1) as u64 + 2) as usize, 1 + rng.below(3) as usize),
    };
    Opts { preserve_names: !rng.chance(1, 4), deltas: rng.chance(1, 2), rps, spc, plan: gen_plan(rng), lazy: rng.chance(1, 4) }
}

pub fn header_text(rng: &mut Rng, refs: &[(String, Vec<u8>)], nrg: usize, sorted: bool) -> String {
    let mut h = String::new();
    h.push_str(&format!("@HD\tVN:1.6\tSO:{}\n", if sorted { "coordinate" } else { "unsorted" }));
    for (n, s) in refs {
        h.push_str(&format!("@SQ\tSN:{n}\tLN:{}", s.len()));
        if rng.chance(1, 3) {
            h.push_str(&format!("\tM5:{}", hexs(&ref_md5(s))));
        }
        if rng.chance(1, 5) {
            h.push_str("\tUR:file:///ref.fa");
        }
        h.push('\n');
    }
    for i in 0..nrg {
        h.push_str(&format!("@RG\tID:rg{i}\tSM:s{i}\tPL:ILLUMINA\n"));
    }
    if rng.chance(1, 3) {
        h.push_str("@PG\tID:nvh\tPN:nvh\tVN:0.1\n");
    }
    if rng.chance(1, 4) {
        h.push_str("@CO\tgenerated by the C07 oracle\n");
    }
    h
}

pub fn gen_case(sub: u64, thorough: bool) -> Case {
    let mut rng = Rng::new(sub ^ 0xC07C07);
    let nrefs = 1 + rng.below(3) as usize;
    let long = rng.chance(1, 25);
    let refs: Vec<(String, Vec<u8>)> = (0..nrefs)
        .map(|i| {
            let len = if long && i == 0 { 16_300 + rng.below(3000) as usize } else { *rng.pick(&[20usize, 37, 80, 150, 400]) + rng.below(30) as usize };
            (format!("sq{i}"), gen_ref(&mut rng, len))
        })
        .collect();
    let nrg = rng.below(3) as usize;
    let cfg = GenCfg {
        style: rng.below(8),
        err: *rng.pick(&[0u64, 2, 5, 15, 40]),
        qual_missing: *rng.pick(&[0u64, 0, 0, 60, 300]),
        seq_missing: *rng.pick(&[0u64, 0, 0, 0, 40]),
        name_missing: *rng.pick(&[0u64, 0, 0, 100]),
        nrg,
    };
    let ntpl = match rng.below(10) {
        0 => 1,
        1 => 2,
        _ => 1 + rng.below(if thorough { 40 } else { 14 }) as usize,
    };
    let name_style = rng.below(5);
    let mut recs: Vec<Rec> = vec![];
    for t in 0..ntpl {
        let name = gen_name(&mut rng, name_style, t);
        recs.extend(gen_template(&mut rng, &refs, &cfg, t, name));
    }
    // order of the stream: coordinate sorted / grouped by template / shuffled
    let order = rng.below(3);
    match order {
        0 => {
            recs.sort_by_key(|r| (r.rid.map(|x| x as i64).unwrap_or(i64::MAX), r.pos));
        }
        1 => {}
        _ => {
            for i in (1..recs.len()).rev() {
                let j = rng.below(i as u64 + 1) as usize;
                recs.swap(i, j);
            }
        }
    }
    assign_tlen(&mut recs);
    let opts = gen_opts(&mut rng, recs.len());
    let header_text = header_text(&mut rng, &refs, nrg, order == 0);
    Case { refs, header_text, recs, opts, label: format!("rt {sub}") }
}


// ------------------------------------------------------------------------------------- the corpus

/// a record from one SAM line (tabs written as single spaces for readability)
pub fn rec_of_line(line: &str, refs: &[(String, Vec<u8>)]) -> Rec {
    let f: Vec<&str> = line.split(' ').filter(|x| !x.is_empty()).collect();
    let rid = |n: &str, own: Option<usize>| -> Option<usize> {
        if n == "=" { own } else { refs.iter().position(|r| r.0 == n) }
    };
    let own = rid(f[2], None);
    let mut cigar = vec![];
    if f[5] != "*" {
        let mut n = 0usize;
        for c in f[5].bytes() {
            if c.is_ascii_digit() {
                n = n * 10 + (c - b'0') as usize;
            } else {
                cigar.push((c, n));
                n = 0;
            }
        }
    }
    Rec {
        name: f[0].as_bytes().to_vec(),
        flag: f[1].parse().unwrap(),
        rid: own,
        pos: f[3].parse().unwrap(),
        mapq: f[4].parse().unwrap(),
        cigar,
        rnext: rid(f[6], own),
        pnext: f[7].parse().unwrap(),
        tlen: f[8].parse().unwrap(),
        seq: if f[9] == "*" { vec![] } else { f[9].as_bytes().to_vec() },
        qual: if f[10] == "*" { vec![] } else { f[10].bytes().map(|b| b - 33).collect() },
        tags: f[11..].iter().map(|t| t.to_string()).collect(),
        tid: 0,
        has_supp: false,
    }
}

pub fn plain_opts() -> Opts {
    Opts { preserve_names: true, deltas: true, rps: 0, spc: 0, plan: None, lazy: false }
}

fn corpus_case(k: usize, refs: &[(&str, &str)], lines: &[&str], opts: Opts) -> Case {
    let refs: Vec<(String, Vec<u8>)> = refs.iter().map(|(n, s)| (n.to_string(), s.as_bytes().to_vec())).collect();
    let mut recs: Vec<Rec> = lines.iter().map(|l| rec_of_line(l, &refs)).collect();
    let names: Vec<Vec<u8>> = recs.iter().map(|r| r.name.clone()).collect();
    for i in 0..recs.len() {
        recs[i].tid = names.iter().position(|n| *n == recs[i].name).unwrap();
    }
    for i in 0..recs.len() {
        recs[i].has_supp = recs.iter().any(|r| r.tid == recs[i].tid && r.flag & 0x800 != 0 && r.name != b"*");
    }
    let mut h = String::from("@HD\tVN:1.6\tSO:unsorted\n");
    for (n, s) in &refs {
        h.push_str(&format!("@SQ\tSN:{n}\tLN:{}\n", s.len()));
    }
    h.push_str("@RG\tID:rg0\tSM:s0\n");
    Case { refs, header_text: h, recs, opts, label: format!("corpus {k}") }
}

/// hand-written boundary cases, replayed before anything random (DESIGN.md §1.9): every CIGAR / feature
/// shape, and the shapes of the defects found while building this check (F12, F24-F27 and the new ones)
pub fn corpus() -> Vec<Case> {
    let sq0 = "ACGTACGTTAGCCGATAGCTAGCTAGGATCCATGCATGCAAGGTTCCAANNACGTRYACGTacgtACGTTTGACCA";
    let sq1 = "GATTACAGATTACAGATTACAGGGCCCTTTAAACCCGGGTTTAAA";
    let refs = [("sq0", sq0), ("sq1", sq1)];
    let layout = |rps, spc| Opts { rps, spc, ..plain_opts() };
    let with_plan = |e: Enc| Opts { plan: Some(EncPlan::uniform(e)), ..plain_opts() };
    let mut v = vec![];
    // 0: the feature shapes: match, mismatch (substitution), N in read, IUPAC in read (ReadBase), insertion of
    // 1 and of 3, deletion, skip, soft/hard clips, pad, =/X, lower-case read, lower-case / N / IUPAC reference
    v.push(corpus_case(0, &refs, &[
        "m0 0 sq0 1 60 8M * 0 0 ACGTACGT IIIIIIII",
        "m1 0 sq0 1 60 8M * 0 0 ACCTACGA IIIIIIII NM:i:2",
        "m2 16 sq0 2 0 6M * 0 0 CGNACR ABCDEF",
        "m3 0 sq0 3 7 2M1I3M * 0 0 GTGACG IIIIII",
        "m4 0 sq0 3 7 2M3I3M * 0 0 GTGGGACG IIIIIIII",
        "m5 0 sq0 5 255 3M2D3M * 0 0 ACGAGC IIIIII",
        "m6 0 sq0 5 60 3M10N3M * 0 0 ACGGCT IIIIII",
        "m7 0 sq0 9 60 2S4M3S * 0 0 GGTAGCTTT IIIIIIIII",
        "m8 0 sq0 9 60 2H4M1P2M3H * 0 0 TAGCCG IIIIII",
        "m9 0 sq0 1 60 3=1X4= * 0 0 ACGAACGT IIIIIIII",
        "m10 0 sq0 1 60 1M1M1M1=1X1I1M1D1M * 0 0 ACGTTAAG !\"#$%&'(",
        "m11 0 sq0 1 60 4M * 0 0 acgt ~~~~",
        "m12 0 sq0 47 60 12M * 0 0 AANNACGTRYAC IIIIIIIIIIII",
        "m13 0 sq0 47 60 12M * 0 0 AAACACGTAGAC IIIIIIIIIIII",
        "m14 0 sq0 59 60 8M * 0 0 ACGTACGT IIIIIIII",
        "m15 0 sq0 59 60 8M * 0 0 AGGTaCtT IIIIIIII",
        "m16 0 sq0 70 60 6M * 0 0 GACCAA IIIIII",
        "m17 0 sq0 73 60 4M2S * 0 0 ACCATT IIIIII RG:Z:rg0 XA:Z:x",
        "u0 4 * 0 0 * * 0 0 ACGTN IIIII",
        "u1 4 * 0 0 * * 0 0 * *",
    ], plain_opts()));
    // 1: the same shapes, one record per slice, two slices per container
    let mut c = v[0].clone();
    c.opts = layout(1, 2);
    c.label = "corpus 1".into();
    // records on one reference only, so that multi-slice containers are accepted
    c.recs.retain(|r| r.rid == Some(0));
    v.push(c);
    // 2: F24 — bases without qualities, mapped (one-base match, non-ACGTN mismatch) and unmapped
    v.push(corpus_case(2, &refs, &["q0 0 sq0 1 60 8M * 0 0 ACGTACGT *", "q1 0 sq0 1 60 1M1I6M * 0 0 AGCGTACG *", "q2 0 sq0 2 60 6M * 0 0 CGRACG *", "q3 4 * 0 0 * * 0 0 ACGT *", "q4 0 sq0 1 60 4M * 0 0 ACGT IIII"], plain_opts()));
    // 3: F24 — a slice in which no record has qualities
    v.push(corpus_case(3, &refs, &["q0 0 sq0 1 60 8M * 0 0 ACGTACGT *"], plain_opts()));
    // 4: F25 — mapped, CIGAR, no bases (known finding: the writer panics)
    v.push(corpus_case(4, &refs, &["s0 0 sq0 1 60 8M * 0 0 * *"], plain_opts()));
    // 5: mapped without CIGAR and without bases; unmapped without bases alone in a slice
    v.push(corpus_case(5, &refs, &["s1 0 sq0 5 60 * * 0 0 * *", "s2 4 * 0 0 * * 0 0 * *"], layout(1, 1)));
    // 6: F26 — mates on different references in one slice
    v.push(corpus_case(6, &refs, &["p0 65 sq0 5 60 4M sq1 3 0 ACGT IIII", "p0 129 sq1 3 60 4M sq0 5 0 TTAC IIII"], plain_opts()));
    // 7: F27 — a supplementary record between the mates
    v.push(corpus_case(7, &refs, &["p1 97 sq0 1 60 4M = 11 14 ACGT IIII", "p1 2113 sq0 20 60 4M = 11 -13 TAGC IIII", "p1 145 sq0 11 60 4M = 1 -14 GCCG IIII"], plain_opts()));
    // 8: a pair whose rightmost end comes first in the file
    v.push(corpus_case(8, &refs, &["p2 147 sq0 11 60 4M = 1 -14 GCCG IIII", "p2 99 sq0 1 60 4M = 11 14 ACGT IIII"], plain_opts()));
    // 9: a pair with an unmapped end placed at its mate; both ends unmapped
    v.push(corpus_case(9, &refs, &["p3 73 sq0 5 60 4M = 5 0 ACGT IIII", "p3 133 sq0 5 0 * = 5 0 GGGGGG IIIIII", "p4 77 * 0 0 * * 0 0 ACG III", "p4 141 * 0 0 * * 0 0 TTT III"], plain_opts()));
    // 10: an unmapped read placed so that it overhangs the reference end; a read that consumes no reference
    v.push(corpus_case(10, &refs, &["p5 73 sq1 42 60 4M = 42 0 TAAA IIII", "p5 133 sq1 42 0 * = 42 0 GGGGGGGGGG IIIIIIIIII", "z0 0 sq1 1 60 5S * 0 0 ACGTA IIIII"], plain_opts()));
    // 11: records without a name
    v.push(corpus_case(11, &refs, &["* 0 sq0 1 60 4M * 0 0 ACGT IIII", "n1 0 sq0 2 60 4M * 0 0 CGTA IIII", "* 4 * 0 0 * * 0 0 AC II"], plain_opts()));
    // 12: mates across slices and containers, names not preserved
    let mut o = layout(2, 2);
    o.preserve_names = false;
    v.push(corpus_case(12, &refs, &[
        "a 99 sq0 1 60 4M = 21 24 ACGT IIII",
        "b 99 sq0 3 60 4M = 9 10 GTAC IIII",
        "b 147 sq0 9 60 4M = 3 -10 TAGC IIII",
        "c 0 sq0 10 60 4M * 0 0 AGCC IIII",
        "d 99 sq0 12 60 4M = 30 22 CCGA IIII",
        "a 147 sq0 21 60 4M = 1 -24 GCTA IIII",
        "d 147 sq0 30 60 4M = 12 -22 CATG IIII",
        "e 355 sq0 30 60 4M = 12 -22 CATG IIII",
        "f 0 sq0 40 60 4M * 0 0 AAGG IIII",
    ], o));
    // 13: F12 — fqzcomp on the quality series, the name tokenizer on names
    let mut c = v[0].clone();
    c.opts = with_plan(Enc::Fqz);
    c.label = "corpus 13".into();
    // (kept to records with scores so that the quality block is non-trivial in every run; the full shape list,
    // with its ReadBase features and its record without bases, is corpus 21)
    c.recs.retain(|r| !r.qual.is_empty() && ![&b"m2"[..], b"m12", b"m13"].contains(&&r.name[..]));
    v.push(c);
    let mut c = v[12].clone();
    c.opts = with_plan(Enc::Tok);
    c.label = "corpus 14".into();
    v.push(c);
    // 15: every general-purpose compressor and no compression, absolute positions
    for (k, e) in [Enc::Raw, Enc::Bzip2(9), Enc::Lzma(6), Enc::Gzip(0)].into_iter().enumerate() {
        let mut c = v[0].clone();
        c.opts = with_plan(e);
        c.opts.deltas = false;
        c.label = format!("corpus {}", 15 + k);
        v.push(c);
    }
    // 19: blocks of more than 16 KiB (3-byte ITF8 sizes in block headers, container length and landmarks):
    // 300 reads of 130 bases, stored raw, and gzip-compressed in slices of 100
    let mut rng = Rng::new(0xB16);
    let big: Vec<String> = (0..300)
        .map(|i| {
            let seq: String = (0..130).map(|_| *rng.pick(b"ACGT") as char).collect();
            let qual: String = (0..130).map(|_| (33 + rng.below(41) as u8) as char).collect();
            if i % 3 == 0 { format!("big{i} 0 sq1 {} 60 10M120S * 0 0 {seq} {qual}", 1 + i % 30) } else { format!("big{i} 4 * 0 0 * * 0 0 {seq} {qual}") }
        })
        .collect();
    let lines: Vec<&str> = big.iter().map(|s| s.as_str()).collect();
    v.push(corpus_case(19, &refs, &lines, with_plan(Enc::Raw)));
    let mut c = v[19].clone();
    c.opts = layout(100, 1);
    c.label = "corpus 20".into();
    v.push(c);
    // 21: fqzcomp selected for a quality block that is NOT one array per record: ReadBase features (m2, m13)
    // append their scores to the series
    let mut c = v[0].clone();
    c.opts = with_plan(Enc::Fqz);
    c.label = "corpus 21".into();
    c.recs.retain(|r| !r.seq.is_empty());
    v.push(c);
    // 22: fqzcomp selected and a record in the middle of the slice has no bases (read length 0)
    let mut c = v[0].clone();
    c.opts = with_plan(Enc::Fqz);
    c.label = "corpus 22".into();
    c.recs.retain(|r| [&b"m0"[..], b"u1", b"m1"].contains(&&r.name[..]));
    c.recs.swap(1, 2); // m0, u1, m1: the empty record is followed by one with scores
    v.push(c);
    v
}
