//! An independent CRAM container walker (CRAM 3.0 / 3.1 specification §6–§9), written from the
//! specification and sharing no code with noodles-cram: file definition, container headers,
//! block headers, compression header (preservation map + encoding maps), slice headers, EOF
//! container. It checks the format's own invariants and returns the parsed skeleton.
//!
//! Block *contents* are decompressed with flate2 (gzip) directly; bzip2 / xz / the CRAM-3.1 codecs
//! go through noodles' own decoders (cfg hook `noodles_cram::verif`) — for those methods the check
//! "declared raw size = actual decompressed size" is only as independent as that. `pyref/C07.py`
//! repeats the walk with CPython's zlib / bz2 / lzma / hashlib.
use crate::common::{crc32, guarded};
use noodles_cram as cram;
use std::io::Read as _;

/// § 9 "End of file container" (CRAM 3.x), copied from the specification text
pub const EOF_V3: [u8; 38] = [
    0x0f, 0x00, 0x00, 0x00, 0xff, 0xff, 0xff, 0xff, 0x0f, 0xe0, 0x45, 0x4f, 0x46, 0x00, 0x00, 0x00, 0x00, 0x01, 0x00, 0x05, 0xbd, 0xd9, 0x4f, 0x00, 0x01, 0x00, 0x06, 0x06, 0x01, 0x00,
    0x01, 0x00, 0x01, 0x00, 0xee, 0x63, 0x01, 0x4b,
];

// ------------------------------------------------------------------------------------------ MD5

/// the harness's own MD5 (RFC 1321), independent of the md-5 crate used by noodles
pub fn md5(data: &[u8]) -> [u8; 16] {
    const S: [u32; 64] = [
        7, 12, 17, 22, 7, 12, 17, 22, 7, 12, 17, 22, 7, 12, 17, 22, 5, 9, 14, 20, 5, 9, 14, 20, 5, 9, 14, 20, 5, 9, 14, 20, 4, 11, 16, 23, 4, 11, 16, 23, 4, 11, 16, 23, 4, 11, 16, 23, 6, 10, 15,
        21, 6, 10, 15, 21, 6, 10, 15, 21, 6, 10, 15, 21,
    ];
    let k: Vec<u32> = (0..64).map(|i| ((i as f64 + 1.0).sin().abs() * 4294967296.0) as u32).collect();
    let (mut a0, mut b0, mut c0, mut d0) = (0x67452301u32, 0xefcdab89u32, 0x98badcfeu32, 0x10325476u32);
    let mut msg = data.to_vec();
    msg.push(0x80);
    while msg.len() % 64 != 56 {
        msg.push(0);
    }
    msg.extend_from_slice(&((data.len() as u64).wrapping_mul(8)).to_le_bytes());
    for chunk in msg.chunks(64) {
        let m: Vec<u32> = (0..16).map(|i| u32::from_le_bytes([chunk[4 * i], chunk[4 * i + 1], chunk[4 * i + 2], chunk[4 * i + 3]])).collect();
        let (mut a, mut b, mut c, mut d) = (a0, b0, c0, d0);
        for i in 0..64 {
            let (mut f, g);
            if i < 16 {
                f = (b & c) | (!b & d);
                g = i;
            } else if i < 32 {
                f = (d & b) | (!d & c);
                g = (5 * i + 1) % 16;
            } else if i < 48 {
                f = b ^ c ^ d;
                g = (3 * i + 5) % 16;
            } else {
                f = c ^ (b | !d);
                g = (7 * i) % 16;
            }
            f = f.wrapping_add(a).wrapping_add(k[i]).wrapping_add(m[g]);
            a = d;
            d = c;
            c = b;
            b = b.wrapping_add(f.rotate_left(S[i]));
        }
        a0 = a0.wrapping_add(a);
        b0 = b0.wrapping_add(b);
        c0 = c0.wrapping_add(c);
        d0 = d0.wrapping_add(d);
    }
    let mut out = [0u8; 16];
    out[0..4].copy_from_slice(&a0.to_le_bytes());
    out[4..8].copy_from_slice(&b0.to_le_bytes());
    out[8..12].copy_from_slice(&c0.to_le_bytes());
    out[12..16].copy_from_slice(&d0.to_le_bytes());
    out
}

/// SAM §1.3.2 normalisation: drop bytes outside '!'..'~', upper-case
pub fn ref_md5(seq: &[u8]) -> [u8; 16] {
    let norm: Vec<u8> = seq.iter().filter(|b| (33..=126).contains(*b)).map(|b| b.to_ascii_uppercase()).collect();
    md5(&norm)
}

pub fn hexs(b: &[u8]) -> String {
    b.iter().map(|x| format!("{x:02x}")).collect()
}

// ------------------------------------------------------------------------------- integer codings

pub struct Cur<'a> {
    pub b: &'a [u8],
    pub p: usize,
}

impl<'a> Cur<'a> {
    pub fn new(b: &'a [u8]) -> Self {
        Cur { b, p: 0 }
    }
    pub fn left(&self) -> usize {
        self.b.len() - self.p
    }
    pub fn u8(&mut self) -> Result<u8, String> {
        let x = *self.b.get(self.p).ok_or("unexpected end of data")?;
        self.p += 1;
        Ok(x)
    }
    pub fn take(&mut self, n: usize) -> Result<&'a [u8], String> {
        if self.left() < n {
            return Err(format!("unexpected end of data (want {n}, have {})", self.left()));
        }
        let s = &self.b[self.p..self.p + n];
        self.p += n;
        Ok(s)
    }
    pub fn i32le(&mut self) -> Result<i32, String> {
        let s = self.take(4)?;
        Ok(i32::from_le_bytes([s[0], s[1], s[2], s[3]]))
    }
    pub fn u32le(&mut self) -> Result<u32, String> {
        let s = self.take(4)?;
        Ok(u32::from_le_bytes([s[0], s[1], s[2], s[3]]))
    }
    /// ITF8 (CRAM §2.3)
    pub fn itf8(&mut self) -> Result<i32, String> {
        let b0 = self.u8()? as u32;
        let v = if b0 & 0x80 == 0 {
            b0
        } else if b0 & 0x40 == 0 {
            ((b0 & 0x7f) << 8) | self.u8()? as u32
        } else if b0 & 0x20 == 0 {
            ((b0 & 0x3f) << 16) | (self.u8()? as u32) << 8 | self.u8()? as u32
        } else if b0 & 0x10 == 0 {
            ((b0 & 0x1f) << 24) | (self.u8()? as u32) << 16 | (self.u8()? as u32) << 8 | self.u8()? as u32
        } else {
            let b1 = self.u8()? as u32;
            let b2 = self.u8()? as u32;
            let b3 = self.u8()? as u32;
            let b4 = self.u8()? as u32;
            ((b0 & 0x0f) << 28) | (b1 << 20) | (b2 << 12) | (b3 << 4) | (b4 & 0x0f)
        };
        Ok(v as i32)
    }
    /// LTF8 (CRAM §2.3)
    pub fn ltf8(&mut self) -> Result<i64, String> {
        let b0 = self.u8()? as u64;
        let n = (b0 as u8).leading_ones() as usize; // number of extra bytes (0..=8)
        let mut v: u64 = if n >= 8 { 0 } else { b0 & (0xffu64 >> (n + 1)) };
        for _ in 0..n {
            v = (v << 8) | self.u8()? as u64;
        }
        Ok(v as i64)
    }
}

// ---------------------------------------------------------------------------------- the skeleton

#[derive(Clone, Debug)]
pub struct WBlock {
    pub method: u8,
    pub ctype: u8,
    pub cid: i32,
    pub csize: usize,
    pub rsize: usize,
    /// offset of the block from the start of the container data, and its total length
    pub off: usize,
    pub len: usize,
    pub data: Vec<u8>,
    /// decoded content when the method could be decoded
    pub raw: Option<Vec<u8>>,
}

#[derive(Clone, Debug, Default)]
pub struct WSlice {
    pub ref_id: i32,
    pub start: i32,
    pub span: i32,
    pub nrec: i32,
    pub counter: i64,
    pub nblocks: i32,
    pub ids: Vec<i32>,
    pub embedded: i32,
    pub md5: [u8; 16],
    pub off: usize,
    /// indices into the container's block list: core + external blocks of this slice
    pub blocks: Vec<usize>,
}

#[derive(Clone, Debug, Default)]
pub struct WCompHdr {
    pub rn: Option<bool>,
    pub ap: Option<bool>,
    pub rr: Option<bool>,
    /// substitution matrix: for reference base A,C,G,T,N the read base per code 0..3
    pub sm: Option<[[u8; 4]; 5]>,
    pub td: Vec<Vec<(u8, u8, u8)>>,
    /// data series key → (encoding id, parameter bytes)
    pub series: Vec<([u8; 2], i32, Vec<u8>)>,
    /// tag key (content id) → (encoding id, parameter bytes)
    pub tags: Vec<(i32, i32, Vec<u8>)>,
}

#[derive(Clone, Debug, Default)]
pub struct WContainer {
    pub length: i32,
    pub ref_id: i32,
    pub start: i32,
    pub span: i32,
    pub nrec: i32,
    pub counter: i64,
    pub bases: i64,
    pub nblocks: i32,
    pub landmarks: Vec<i32>,
    /// file offset of the container header, length of the header
    pub off: usize,
    pub hdr_len: usize,
    pub blocks: Vec<WBlock>,
    pub slices: Vec<WSlice>,
    pub ch: WCompHdr,
}

#[derive(Clone, Debug, Default)]
pub struct Walk {
    pub major: u8,
    pub minor: u8,
    pub header_text: Vec<u8>,
    pub containers: Vec<WContainer>,
    /// (class, text) of every violated invariant
    pub problems: Vec<(String, String)>,
    pub methods_seen: Vec<u8>,
}

/// what the walker is told about the written stream (computed by the harness from its own input)
#[derive(Clone, Debug, Default)]
pub struct Expect {
    /// per record in file order: (reference id or -1, 1-based start or 0, alignment end or 0, read length,
    /// counts towards an exact span check)
    pub recs: Vec<ExpRec>,
    pub refs: Vec<Vec<u8>>,
    pub preserve_names: bool,
    pub deltas: bool,
}

#[derive(Clone, Debug, Default)]
pub struct ExpRec {
    pub rid: i32,
    pub start: usize,
    pub end: usize,
    pub read_len: usize,
    /// false for records whose reference extent noodles computes in a way the specification does not
    /// pin down (unmapped-but-placed reads, zero-span reads): the slice extent must cover them but is
    /// not required to be tight
    pub exact: bool,
}

fn decode_gzip(src: &[u8]) -> Result<Vec<u8>, String> {
    let mut d = flate2::read::MultiGzDecoder::new(src);
    let mut out = vec![];
    d.read_to_end(&mut out).map_err(|e| format!("gzip: {e}"))?;
    Ok(out)
}

/// decode via a noodles decoder that fills a caller-sized buffer: succeeds with `n` and fails with `n+1`
/// exactly when the stream holds `n` bytes
fn decode_sized(f: impl Fn(&[u8], &mut [u8]) -> std::io::Result<()>, src: &[u8], n: usize) -> Result<Vec<u8>, String> {
    let mut dst = vec![0u8; n];
    match guarded(|| f(src, &mut dst)) {
        Ok(Ok(())) => {}
        Ok(Err(e)) => return Err(format!("does not yield the declared {n} bytes: {e}")),
        Err(p) => return Err(format!("decoder panic: {p}")),
    }
    let mut more = vec![0u8; n + 1];
    if let Ok(Ok(())) = guarded(|| f(src, &mut more)) {
        return Err(format!("stream holds more than the declared {n} bytes"));
    }
    Ok(dst)
}

pub fn decode_block(method: u8, src: &[u8], rsize: usize) -> Result<Vec<u8>, String> {
    let g = |r: Result<std::io::Result<Vec<u8>>, String>| match r {
        Ok(Ok(v)) => Ok(v),
        Ok(Err(e)) => Err(format!("decode error: {e}")),
        Err(p) => Err(format!("decoder panic: {p}")),
    };
    match method {
        0 => Ok(src.to_vec()),
        1 => decode_gzip(src),
        2 => decode_sized(cram::verif::bzip2_decode, src, rsize),
        3 => decode_sized(cram::verif::lzma_decode, src, rsize),
        4 => g(guarded(|| cram::verif::rans_4x8_decode(src))),
        5 => g(guarded(|| cram::verif::rans_nx16_decode(src, rsize))),
        6 => g(guarded(|| cram::verif::aac_decode(src, rsize))),
        7 => g(guarded(|| cram::verif::fqzcomp_decode(src))),
        8 => g(guarded(|| cram::verif::name_tokenizer_decode(src))),
        m => Err(format!("unknown compression method {m}")),
    }
}

fn parse_block(c: &mut Cur, base: usize, problems: &mut Vec<(String, String)>, at: &str) -> Result<WBlock, String> {
    let start = c.p;
    let method = c.u8()?;
    let ctype = c.u8()?;
    let cid = c.itf8()?;
    let csize = c.itf8()?;
    let rsize = c.itf8()?;
    if csize < 0 || rsize < 0 {
        return Err(format!("{at}: negative block size"));
    }
    let data = c.take(csize as usize)?.to_vec();
    let crc_have = crc32(&c.b[start..c.p]);
    let crc_want = c.u32le()?;
    if crc_have != crc_want {
        problems.push(("block-crc32".into(), format!("{at}: block CRC32 is {crc_want:08x}, computed {crc_have:08x}")));
    }
    let raw = if rsize == 0 && method != 0 {
        // § 8: blocks with a raw size of zero are empty irrespective of the method byte
        Some(vec![])
    } else {
        match decode_block(method, &data, rsize as usize) {
            Ok(v) => {
                if v.len() != rsize as usize {
                    problems.push((
                        if method == 7 { "raw-size-fqzcomp".into() } else { "raw-size".into() },
                        format!("{at}: block (method {method}, content id {cid}) declares raw size {rsize}, its data decompresses to {} bytes", v.len()),
                    ));
                }
                Some(v)
            }
            Err(e) => {
                problems.push((format!("block-undecodable-m{method}"), format!("{at}: block (method {method}, content id {cid}, raw size {rsize}): {e}")));
                None
            }
        }
    };
    if method == 0 && csize != rsize {
        problems.push(("raw-size".into(), format!("{at}: raw block with size {csize} != raw size {rsize}")));
    }
    Ok(WBlock { method, ctype, cid, csize: csize as usize, rsize: rsize as usize, off: start - base, len: c.p - start, data, raw })
}

fn parse_comp_hdr(b: &[u8]) -> Result<WCompHdr, String> {
    let mut c = Cur::new(b);
    let mut h = WCompHdr::default();
    // preservation map
    let size = c.itf8()? as usize;
    let end = c.p + size;
    let n = c.itf8()?;
    for _ in 0..n {
        let k = c.take(2)?;
        match k {
            b"RN" => h.rn = Some(c.u8()? != 0),
            b"AP" => h.ap = Some(c.u8()? != 0),
            b"RR" => h.rr = Some(c.u8()? != 0),
            b"SM" => {
                let s = c.take(5)?;
                // for each reference base, the four other bases in alphabetical order (ACGTN minus itself);
                // two bits per base, most significant first: the code assigned to that base
                let all = [b'A', b'C', b'G', b'T', b'N'];
                let mut m = [[0u8; 4]; 5];
                for r in 0..5 {
                    let others: Vec<u8> = all.iter().copied().filter(|x| *x != all[r]).collect();
                    let mut seen = [false; 4];
                    for (j, o) in others.iter().enumerate() {
                        let code = (s[r] >> (6 - 2 * j)) & 3;
                        m[r][code as usize] = *o;
                        seen[code as usize] = true;
                    }
                    if seen.iter().any(|x| !x) {
                        return Err(format!("substitution matrix row {r} is not a permutation: {:02x}", s[r]));
                    }
                }
                h.sm = Some(m);
            }
            b"TD" => {
                let len = c.itf8()? as usize;
                let d = c.take(len)?;
                for set in d.split(|x| *x == 0) {
                    if set.len() % 3 != 0 {
                        return Err("tag dictionary entry is not a multiple of 3 bytes".into());
                    }
                    h.td.push(set.chunks(3).map(|t| (t[0], t[1], t[2])).collect());
                }
                // the dictionary is NUL-terminated: the split leaves one trailing empty entry
                if d.last() == Some(&0) {
                    h.td.pop();
                } else if !d.is_empty() {
                    return Err("tag dictionary is not NUL-terminated".into());
                }
            }
            _ => return Err(format!("unknown preservation map key {k:?}")),
        }
    }
    if c.p != end {
        return Err(format!("preservation map: declared size {size}, entries end at {} (start+{})", c.p, c.p + size - end));
    }
    // data series encodings
    let size = c.itf8()? as usize;
    let end = c.p + size;
    let n = c.itf8()?;
    for _ in 0..n {
        let k = c.take(2)?;
        let id = c.itf8()?;
        let plen = c.itf8()? as usize;
        let p = c.take(plen)?.to_vec();
        h.series.push(([k[0], k[1]], id, p));
    }
    if c.p != end {
        return Err("data series encoding map: declared size does not match its entries".into());
    }
    // tag encodings
    let size = c.itf8()? as usize;
    let end = c.p + size;
    let n = c.itf8()?;
    for _ in 0..n {
        let k = c.itf8()?;
        let id = c.itf8()?;
        let plen = c.itf8()? as usize;
        let p = c.take(plen)?.to_vec();
        h.tags.push((k, id, p));
    }
    if c.p != end {
        return Err("tag encoding map: declared size does not match its entries".into());
    }
    if c.left() != 0 {
        return Err(format!("{} trailing bytes after the tag encoding map", c.left()));
    }
    Ok(h)
}

fn parse_slice_hdr(b: &[u8]) -> Result<WSlice, String> {
    let mut c = Cur::new(b);
    let mut s = WSlice::default();
    s.ref_id = c.itf8()?;
    s.start = c.itf8()?;
    s.span = c.itf8()?;
    s.nrec = c.itf8()?;
    s.counter = c.ltf8()?;
    s.nblocks = c.itf8()?;
    let n = c.itf8()?;
    for _ in 0..n {
        s.ids.push(c.itf8()?);
    }
    s.embedded = c.itf8()?;
    s.md5.copy_from_slice(c.take(16)?);
    // optional tags may follow
    Ok(s)
}

struct CHdr {
    length: i32,
    ref_id: i32,
    start: i32,
    span: i32,
    nrec: i32,
    counter: i64,
    bases: i64,
    nblocks: i32,
    landmarks: Vec<i32>,
    len: usize,
    crc_ok: bool,
}

fn parse_container_hdr(c: &mut Cur) -> Result<CHdr, String> {
    let start = c.p;
    let length = c.i32le()?;
    let ref_id = c.itf8()?;
    let st = c.itf8()?;
    let span = c.itf8()?;
    let nrec = c.itf8()?;
    let counter = c.ltf8()?;
    let bases = c.ltf8()?;
    let nblocks = c.itf8()?;
    let n = c.itf8()?;
    let mut landmarks = vec![];
    for _ in 0..n {
        landmarks.push(c.itf8()?);
    }
    let have = crc32(&c.b[start..c.p]);
    let want = c.u32le()?;
    Ok(CHdr { length, ref_id, start: st, span, nrec, counter, bases, nblocks, landmarks, len: c.p - start, crc_ok: have == want })
}

pub fn walk(bytes: &[u8], ex: &Expect) -> Walk {
    let mut w = Walk::default();
    if let Err(e) = walk_inner(bytes, ex, &mut w) {
        w.problems.push(("walker-parse".into(), e));
    }
    w
}

fn walk_inner(bytes: &[u8], ex: &Expect, w: &mut Walk) -> Result<(), String> {
    let mut c = Cur::new(bytes);
    // ---- file definition
    if c.take(4)? != b"CRAM" {
        return Err("file does not start with the CRAM magic".into());
    }
    w.major = c.u8()?;
    w.minor = c.u8()?;
    c.take(20)?; // file id
    if !(w.major == 3 && (w.minor == 0 || w.minor == 1)) {
        w.problems.push(("version".into(), format!("file definition declares version {}.{}", w.major, w.minor)));
    }
    // ---- header container
    {
        let off = c.p;
        let h = parse_container_hdr(&mut c)?;
        if !h.crc_ok {
            w.problems.push(("container-crc32".into(), "header container: container header CRC32 mismatch".into()));
        }
        if h.length < 0 {
            return Err("header container: negative length".into());
        }
        let body = c.take(h.length as usize)?;
        let mut bc = Cur::new(body);
        let mut text = vec![];
        let mut sum = 0usize;
        for i in 0..h.nblocks {
            let b = parse_block(&mut bc, 0, &mut w.problems, &format!("header container block {i}"))?;
            sum += b.len;
            if i == 0 {
                if b.ctype != 0 {
                    w.problems.push(("block-type".into(), format!("header container: first block has content type {}", b.ctype)));
                }
                if let Some(raw) = &b.raw {
                    if raw.len() < 4 {
                        w.problems.push(("file-header".into(), "header block shorter than its length prefix".into()));
                    } else {
                        let l = i32::from_le_bytes([raw[0], raw[1], raw[2], raw[3]]);
                        if l < 0 || 4 + l as usize > raw.len() {
                            w.problems.push(("file-header".into(), format!("header text length {l} exceeds the block ({} bytes)", raw.len())));
                        } else {
                            text = raw[4..4 + l as usize].to_vec();
                        }
                    }
                }
            }
            w.methods_seen.push(b.method);
        }
        if sum > h.length as usize || body[sum..].iter().any(|x| *x != 0) {
            w.problems.push(("container-length".into(), format!("header container at {off}: length {} but its {} block(s) occupy {sum} bytes", h.length, h.nblocks)));
        }
        if h.nrec != 0 || h.landmarks.iter().any(|l| *l as usize > h.length as usize) {
            w.problems.push(("file-header".into(), "header container: record count / landmarks".into()));
        }
        w.header_text = text;
    }
    // ---- data containers
    let mut counter: i64 = 0;
    let mut saw_eof = false;
    while c.left() > 0 {
        let off = c.p;
        let h = parse_container_hdr(&mut c)?;
        let at = format!("container {} at {off}", w.containers.len());
        if !h.crc_ok {
            w.problems.push(("container-crc32".into(), format!("{at}: container header CRC32 mismatch")));
        }
        if h.length < 0 {
            return Err(format!("{at}: negative length"));
        }
        // EOF container: recognised by its header fields (§ 9)
        if h.nrec == 0 && h.ref_id == -1 && h.start == 4_542_278 && h.length == 15 {
            let end = c.p + h.length as usize;
            if bytes.len() < end || bytes[off..end] != EOF_V3 {
                w.problems.push(("eof-container".into(), format!("{at}: EOF container differs from the specification's constant")));
            }
            c.p = end.min(bytes.len());
            saw_eof = true;
            if c.left() != 0 {
                w.problems.push(("eof-container".into(), format!("{} bytes after the EOF container", c.left())));
            }
            break;
        }
        let body = c.take(h.length as usize)?;
        let mut con = WContainer {
            length: h.length,
            ref_id: h.ref_id,
            start: h.start,
            span: h.span,
            nrec: h.nrec,
            counter: h.counter,
            bases: h.bases,
            nblocks: h.nblocks,
            landmarks: h.landmarks.clone(),
            off,
            hdr_len: h.len,
            ..Default::default()
        };
        let mut bc = Cur::new(body);
        for i in 0..h.nblocks {
            let b = parse_block(&mut bc, 0, &mut w.problems, &format!("{at} block {i}")).map_err(|e| format!("{at} block {i} of {}: {e}", h.nblocks))?;
            w.methods_seen.push(b.method);
            con.blocks.push(b);
        }
        // length = Σ block sizes
        let sum: usize = con.blocks.iter().map(|b| b.len).sum();
        if sum != h.length as usize {
            w.problems.push(("container-length".into(), format!("{at}: length {} but its {} blocks occupy {sum} bytes", h.length, h.nblocks)));
        }
        // structure: compression header, then (slice header, core, external*)*
        if con.blocks.first().map(|b| b.ctype) != Some(1) {
            w.problems.push(("block-type".into(), format!("{at}: first block is not a compression header")));
        } else if let Some(raw) = &con.blocks[0].raw {
            match parse_comp_hdr(raw) {
                Ok(ch) => con.ch = ch,
                Err(e) => w.problems.push(("compression-header".into(), format!("{at}: {e}"))),
            }
        }
        let mut i = 1;
        while i < con.blocks.len() {
            let b = &con.blocks[i];
            if b.ctype != 2 {
                w.problems.push(("block-type".into(), format!("{at}: block {i} has content type {} where a slice header is expected", b.ctype)));
                i += 1;
                continue;
            }
            let mut s = match b.raw.as_deref().map(parse_slice_hdr) {
                Some(Ok(s)) => s,
                Some(Err(e)) => {
                    w.problems.push(("slice-header".into(), format!("{at}: slice header in block {i}: {e}")));
                    i += 1;
                    continue;
                }
                None => {
                    i += 1;
                    continue;
                }
            };
            s.off = b.off;
            let mut j = i + 1;
            while j < con.blocks.len() && con.blocks[j].ctype != 2 {
                s.blocks.push(j);
                j += 1;
            }
            let sat = format!("{at} slice {}", con.slices.len());
            // block count and ids
            if s.nblocks as usize != s.blocks.len() {
                w.problems.push(("slice-block-count".into(), format!("{sat}: header says {} blocks, {} follow", s.nblocks, s.blocks.len())));
            }
            let cores: Vec<usize> = s.blocks.iter().copied().filter(|k| con.blocks[*k].ctype == 5).collect();
            if cores.len() != 1 || s.blocks.first() != cores.first() {
                w.problems.push(("block-type".into(), format!("{sat}: expected exactly one core data block right after the slice header")));
            }
            for k in &s.blocks {
                let bl = &con.blocks[*k];
                if bl.ctype != 5 && bl.ctype != 4 {
                    w.problems.push(("block-type".into(), format!("{sat}: block {k} has content type {}", bl.ctype)));
                }
                if bl.ctype == 4 && !s.ids.contains(&bl.cid) {
                    w.problems.push(("slice-content-ids".into(), format!("{sat}: external block {} is not listed in the slice header's content ids {:?}", bl.cid, s.ids)));
                }
            }
            let mut ext: Vec<i32> = s.blocks.iter().map(|k| &con.blocks[*k]).filter(|b| b.ctype == 4).map(|b| b.cid).collect();
            ext.sort();
            if ext.windows(2).any(|p| p[0] == p[1]) {
                w.problems.push(("slice-content-ids".into(), format!("{sat}: duplicate external block content id")));
            }
            for id in &s.ids {
                if *id != 0 && !ext.contains(id) {
                    w.problems.push(("slice-content-ids".into(), format!("{sat}: slice header lists content id {id} but no such block follows")));
                }
            }
            if s.embedded != -1 && !ext.contains(&s.embedded) {
                w.problems.push(("slice-header".into(), format!("{sat}: embedded reference block id {} names no block of the slice", s.embedded)));
            }
            con.slices.push(s);
            i = j;
        }
        // landmarks = slice offsets
        let offs: Vec<i32> = con.slices.iter().map(|s| s.off as i32).collect();
        if offs != con.landmarks {
            w.problems.push(("landmarks".into(), format!("{at}: landmarks {:?} but slice header blocks start at {:?}", con.landmarks, offs)));
        }
        // counters
        if con.counter != counter {
            w.problems.push(("record-counter".into(), format!("{at}: record counter {} but {} records precede it", con.counter, counter)));
        }
        let mut sc = con.counter;
        let mut nsum = 0i64;
        for (k, s) in con.slices.iter().enumerate() {
            if s.counter != sc {
                w.problems.push(("record-counter".into(), format!("{at} slice {k}: record counter {} but {} records precede it", s.counter, sc)));
            }
            if s.nrec <= 0 {
                w.problems.push(("record-count".into(), format!("{at} slice {k}: record count {}", s.nrec)));
            }
            sc += s.nrec as i64;
            nsum += s.nrec as i64;
        }
        if nsum != con.nrec as i64 {
            w.problems.push(("record-count".into(), format!("{at}: record count {} but its slices hold {nsum}", con.nrec)));
        }
        if con.nblocks as usize != con.blocks.len() {
            w.problems.push(("block-count".into(), format!("{at}: block count {}", con.nblocks)));
        }
        // base count and reference extents against the harness's own knowledge of the input
        let lo = counter as usize;
        let hi = (counter + con.nrec.max(0) as i64) as usize;
        if hi <= ex.recs.len() {
            let bases: usize = ex.recs[lo..hi].iter().map(|r| r.read_len).sum();
            if bases as i64 != con.bases {
                w.problems.push(("base-count".into(), format!("{at}: base count {} but its {} records have {bases} bases", con.bases, con.nrec)));
            }
            let mut p = lo;
            let mut slice_ctx = vec![];
            for (k, s) in con.slices.iter().enumerate() {
                let q = (p + s.nrec.max(0) as usize).min(ex.recs.len());
                let sat = format!("{at} slice {k}");
                check_extent(&ex.recs[p..q], s.ref_id, s.start, s.span, &sat, &mut w.problems);
                // reference MD5
                if s.ref_id >= 0 {
                    match ex.refs.get(s.ref_id as usize) {
                        Some(r) if s.start >= 1 && s.span >= 1 && (s.start as usize - 1 + s.span as usize) <= r.len() => {
                            let want = ref_md5(&r[s.start as usize - 1..s.start as usize - 1 + s.span as usize]);
                            if want != s.md5 {
                                w.problems.push(("reference-md5".into(), format!("{sat}: reference MD5 {} but MD5 of reference {} [{}, +{}) is {}", hexs(&s.md5), s.ref_id, s.start, s.span, hexs(&want))));
                            }
                        }
                        Some(r) => {
                            if s.md5 != [0u8; 16] {
                                w.problems.push(("reference-md5".into(), format!("{sat}: extent [{}, +{}) lies outside reference {} of length {}", s.start, s.span, s.ref_id, r.len())));
                            }
                        }
                        None => w.problems.push(("reference-id".into(), format!("{sat}: reference id {} does not exist", s.ref_id))),
                    }
                } else if s.md5 != [0u8; 16] {
                    w.problems.push(("reference-md5".into(), format!("{sat}: reference id {} with a non-zero MD5", s.ref_id)));
                }
                slice_ctx.push((s.ref_id, s.start, s.span));
                p = q;
            }
            // container extent = union of its slices' extents
            if !slice_ctx.is_empty() {
                let ids: Vec<i32> = slice_ctx.iter().map(|x| x.0).collect();
                let ok = if ids.iter().all(|i| *i == ids[0]) {
                    if ids[0] >= 0 {
                        let st = slice_ctx.iter().map(|x| x.1).min().unwrap();
                        let en = slice_ctx.iter().map(|x| x.1 + x.2).max().unwrap();
                        con.ref_id == ids[0] && con.start == st && con.span == en - st
                    } else {
                        con.ref_id == ids[0] && con.start == 0 && con.span == 0
                    }
                } else {
                    con.ref_id == -2
                };
                if !ok {
                    w.problems.push(("container-extent".into(), format!("{at}: reference ({}, {}, {}) is not the union of its slices' {:?}", con.ref_id, con.start, con.span, slice_ctx)));
                }
            }
        } else {
            w.problems.push(("record-count".into(), format!("{at}: records {lo}..{hi} but only {} were written", ex.recs.len())));
        }
        // preservation map vs writer options
        if con.ch.rn != Some(ex.preserve_names) {
            w.problems.push(("preservation-map".into(), format!("{at}: RN = {:?}, writer option preserve_read_names = {}", con.ch.rn, ex.preserve_names)));
        }
        if con.ch.ap != Some(ex.deltas) {
            w.problems.push(("preservation-map".into(), format!("{at}: AP = {:?}, writer option deltas = {}", con.ch.ap, ex.deltas)));
        }
        if con.ch.rr == Some(false) && con.slices.iter().any(|s| s.ref_id >= 0 && s.embedded == -1) {
            w.problems.push(("preservation-map".into(), format!("{at}: RR = false but a mapped slice embeds no reference")));
        }
        counter += con.nrec.max(0) as i64;
        w.containers.push(con);
    }
    if !saw_eof {
        w.problems.push(("eof-container".into(), "file does not end with the EOF container".into()));
    }
    if counter as usize != ex.recs.len() {
        w.problems.push(("record-count".into(), format!("containers hold {counter} records, {} were written", ex.recs.len())));
    }
    // codec ids vs declared version: methods 5..8 exist from CRAM 3.1 on
    if w.major == 3 && w.minor == 0 {
        if let Some(m) = w.methods_seen.iter().find(|m| **m >= 5) {
            w.problems.push(("version-codec".into(), format!("file declares CRAM 3.0 but contains a block with compression method {m} (CRAM 3.1)")));
        }
    }
    Ok(())
}

fn check_extent(recs: &[ExpRec], ref_id: i32, start: i32, span: i32, at: &str, problems: &mut Vec<(String, String)>) {
    if recs.is_empty() {
        return;
    }
    match ref_id {
        -2 => {}
        -1 => {
            if recs.iter().any(|r| r.rid >= 0) {
                problems.push(("slice-extent".into(), format!("{at}: reference id -1 (unmapped) but a record is placed on a reference")));
            }
            if start != 0 || span != 0 {
                problems.push(("slice-extent".into(), format!("{at}: reference id -1 with start {start} span {span}")));
            }
        }
        id => {
            if recs.iter().any(|r| r.rid != id) {
                problems.push(("slice-extent".into(), format!("{at}: single-reference slice on {id} holds a record of another reference")));
                return;
            }
            let st = recs.iter().map(|r| r.start).min().unwrap();
            let en = recs.iter().filter(|r| r.exact).map(|r| r.end).max();
            let (s, e) = (start as i64, start as i64 + span as i64 - 1);
            let covers = recs.iter().all(|r| (r.start as i64) >= s && (!r.exact || (r.end as i64) <= e));
            let loose = recs.iter().all(|r| r.exact) && (s != st as i64 || Some(e) != en.map(|x| x as i64));
            if !covers || loose {
                problems.push(("slice-extent".into(), format!("{at}: extent [{s}, {e}] on reference {id}; its records span [{st}, {:?}]", en)));
            }
        }
    }
}
