//! C14 — writers never hide a sink failure; short writes and `Interrupted` are tolerated.
//!
//! Every writer of the property's list is driven over `adversary::ScriptSink`:
//!   * failure at every call index k of the destination (several ErrorKinds, never Interrupted,
//!     which `write_all` retries): if the destination failed while an explicit writer call was
//!     running, some explicit call must have returned Err, with the destination's ErrorKind;
//!   * whenever every explicit call including the finishing call returned Ok, the bytes the
//!     destination holds at that moment decode (real reader) to exactly what was written;
//!   * short-write patterns and finite `Interrupted` schedules give byte-identical output;
//!   * dropping a BGZF writer without finishing emits the staged data and the EOF marker.
//! CORRESPONDENCE (BGZF single-threaded writer): the same sessions are replayed by the Lean model
//! `Noodles.Bgzf.SM` (result, position() and virtual_position() of every call — also of the failed
//! one —, final accepted bytes, number of destination calls, failed flag), plus `write_all` itself
//! on the scripted destination (`c14 feed`).
use super::c01::{self, Op};
use crate::adversary::{ScriptSink, SharedSink, SinkStep};
use crate::common::*;
use noodles_bam as bam;
use noodles_bcf as bcf;
use noodles_bed as bed;
use noodles_bgzf as bgzf;
use noodles_core::Position;
use noodles_cram as cram;
use noodles_csi as csi;
use noodles_fasta as fasta;
use noodles_fastq as fastq;
use noodles_gff as gff;
use noodles_sam as sam;
use noodles_tabix as tabix;
use noodles_vcf as vcf;
use std::io::{self, ErrorKind, Read, Write};
use std::num::NonZero;
use std::sync::Arc;

// ------------------------------------------------------------------ error kinds

/// injected kinds (never Interrupted). The code is what the model is told and what both sides print.
const KINDS: [(ErrorKind, u32); 8] = [
    (ErrorKind::Other, 0),
    (ErrorKind::BrokenPipe, 1),
    (ErrorKind::WriteZero, 2),
    (ErrorKind::PermissionDenied, 3),
    (ErrorKind::TimedOut, 4),
    (ErrorKind::InvalidInput, 5),
    (ErrorKind::InvalidData, 6),
    (ErrorKind::UnexpectedEof, 7),
];

fn kind_code(k: ErrorKind) -> u32 {
    KINDS.iter().find(|(x, _)| *x == k).map(|(_, c)| *c).unwrap_or(if k == ErrorKind::Interrupted { 98 } else { 99 })
}

fn err_str(e: &io::Error) -> String {
    format!("err:kind{}", kind_code(e.kind()))
}

// ------------------------------------------------------------------ sink configurations

#[derive(Clone, Debug)]
struct Cfg {
    script: Vec<SinkStep>,
    fallback: usize,
    fail_at: Option<(usize, ErrorKind)>,
    /// only call `fail_at` fails, the destination then recovers (oracle scenarios only; the
    /// modelled sessions use permanent failures)
    fail_once: bool,
    label: String,
}

impl Cfg {
    fn plain() -> Self {
        Cfg { script: vec![], fallback: usize::MAX, fail_at: None, fail_once: false, label: "plain".into() }
    }
    fn sink(&self) -> SharedSink {
        let mut sink = ScriptSink::new(self.script.clone(), self.fallback, self.fail_at);
        sink.fail_once = self.fail_once;
        SharedSink::new(sink)
    }
    fn fmt_script(&self) -> String {
        if self.script.is_empty() {
            return "-".into();
        }
        self.script
            .iter()
            .map(|s| match s {
                SinkStep::Accept(n) => format!("a{n}"),
                SinkStep::Interrupted => "i".into(),
            })
            .collect::<Vec<_>>()
            .join(",")
    }
}

/// short-write / interruption patterns; `total` = bytes of the healthy output, `calls` = its calls
fn pattern(rng: &mut Rng, kind: usize, total: usize, calls: usize) -> Cfg {
    match kind % 8 {
        0 => Cfg { script: vec![], fallback: 1, fail_at: None, fail_once: false, label: "one-byte".into() },
        1 => Cfg { script: vec![], fallback: 3, fail_at: None, fail_once: false, label: "three-byte".into() },
        2 => Cfg { script: vec![], fallback: 7, fail_at: None, fail_once: false, label: "seven-byte".into() },
        3 => Cfg { script: vec![], fallback: 4096, fail_at: None, fail_once: false, label: "4k".into() },
        4 => {
            // random partial acceptances with a finite number of interruptions
            let mut s = vec![];
            let mut budget = total.min(4000) + 16;
            let mut intr = 1 + rng.below(8);
            while budget > 0 {
                if intr > 0 && rng.chance(1, 4) {
                    s.push(SinkStep::Interrupted);
                    intr -= 1;
                } else {
                    let n = 1 + rng.below(30) as usize;
                    s.push(SinkStep::Accept(n));
                    budget = budget.saturating_sub(n);
                }
            }
            Cfg { script: s, fallback: usize::MAX, fail_at: None, fail_once: false, label: "random-short+interrupted".into() }
        }
        5 => {
            // an interruption before every one of the first calls
            let k = (calls + 2).min(1 + rng.below(40) as usize);
            let mut s = vec![];
            for _ in 0..k {
                s.push(SinkStep::Interrupted);
                s.push(SinkStep::Accept(1 + rng.below(5000) as usize));
            }
            Cfg { script: s, fallback: usize::MAX, fail_at: None, fail_once: false, label: "interrupted-before-calls".into() }
        }
        6 => {
            // bursts of interruptions
            let mut s = vec![];
            for _ in 0..1 + rng.below(6) {
                for _ in 0..1 + rng.below(4) {
                    s.push(SinkStep::Interrupted);
                }
                s.push(SinkStep::Accept(1 + rng.below(64) as usize));
            }
            Cfg { script: s, fallback: 1 + rng.below(100) as usize, fail_at: None, fail_once: false, label: "interrupt-bursts".into() }
        }
        _ => {
            // all but the last byte of what is offered, then the rest (Accept(n) is clamped to the buffer)
            let s = (0..(calls * 2 + 4).min(400)).map(|i| if i % 2 == 0 { SinkStep::Accept(usize::MAX / 2) } else { SinkStep::Accept(1) }).collect();
            Cfg { script: s, fallback: 2, fail_at: None, fail_once: false, label: "whole-then-one".into() }
        }
    }
}

// ------------------------------------------------------------------ scenarios

/// (outer kind, kinds of every io::Error in the source chain incl. the outer one, message)
type CallErr = (ErrorKind, Vec<ErrorKind>, String);
type CallRes = (String, Result<(), CallErr>);

/// kinds of all io::Errors reachable through `get_ref()` / `source()` (writers such as VCF's wrap
/// the destination's error in a structured error of kind InvalidInput and keep it as the source)
fn chain_kinds(e: &io::Error) -> Vec<ErrorKind> {
    let mut out = vec![e.kind()];
    let mut cur: Option<&(dyn std::error::Error + 'static)> = e.get_ref().map(|x| x as &(dyn std::error::Error + 'static));
    let mut depth = 0;
    while let Some(x) = cur {
        depth += 1;
        if depth > 16 {
            break;
        }
        if let Some(io) = x.downcast_ref::<io::Error>() {
            out.push(io.kind());
            cur = match io.get_ref() {
                Some(inner) => Some(inner as &(dyn std::error::Error + 'static)),
                None => None,
            };
        } else {
            cur = x.source();
        }
    }
    out
}

fn call_err(e: &io::Error) -> CallErr {
    (e.kind(), chain_kinds(e), e.to_string())
}

struct RunOut {
    calls: Vec<CallRes>,
    /// destination calls made when the last explicit writer call returned (before any Drop)
    calls_before_drop: usize,
    /// destination content at that moment
    bytes_before_drop: Vec<u8>,
}

impl RunOut {
    fn new(calls: Vec<CallRes>, sink: &SharedSink) -> Self {
        RunOut { calls, calls_before_drop: sink.calls(), bytes_before_drop: sink.accepted() }
    }
}

/// evaluate an io::Result as one explicit writer call; on Err the scenario returns (the snapshot
/// is taken before the locals — the writer — are dropped)
macro_rules! step {
    ($calls:ident, $sink:expr, $label:expr, $e:expr) => {
        match $e {
            Ok(v) => {
                $calls.push(($label.to_string(), Ok(())));
                v
            }
            Err(e) => {
                $calls.push(($label.to_string(), Err(call_err(&e))));
                return RunOut::new($calls, $sink);
            }
        }
    };
}

type RunFn = Arc<dyn Fn(&SharedSink) -> RunOut + Send + Sync>;
type DecodeFn = Arc<dyn Fn(&[u8]) -> Result<String, String> + Send + Sync>;

struct Scenario {
    name: String,
    /// the scenario ends with a finishing call (or the writer needs none): all Ok ⇒ complete file
    has_finish: bool,
    /// runs threads: use the watchdog
    threaded: bool,
    /// prefix of the oracle classes (distinct for the known trait-finish observation)
    class_prefix: &'static str,
    run: RunFn,
    decode: DecodeFn,
    /// canonical text of what was written (rendered from the inputs, not from any output)
    expected: String,
    /// the format's writer normalises on write (CSI: a bin's loffset becomes the minimum over its
    /// ancestors), so the reference is what the plain-destination file decodes to; that round
    /// trip is C17's subject
    expected_from_plain: bool,
}

fn digest(b: &[u8]) -> String {
    format!("{}:{:08x}", b.len(), crc32(b))
}

fn lvl(level: u8) -> bgzf::io::writer::CompressionLevel {
    bgzf::io::writer::CompressionLevel::new(level).unwrap()
}

fn bgzf_decode() -> DecodeFn {
    Arc::new(|b: &[u8]| {
        let mut r = bgzf::io::Reader::new(b);
        let mut out = vec![];
        r.read_to_end(&mut out).map_err(|e| e.to_string())?;
        Ok(digest(&out))
    })
}

/// chunks of a payload with optional flushes: (bytes, flush after?)
fn gen_chunks(rng: &mut Rng, big: bool) -> Vec<(Vec<u8>, bool)> {
    let n = 1 + rng.below(5) as usize;
    (0..n)
        .map(|_| {
            let len = if big && rng.chance(1, 3) { *rng.pick(&[65495usize, 65494, 65496, 70000, 131000]) } else { rng.below(600) as usize };
            (c01::gen_payload(rng, len), rng.chance(1, 3))
        })
        .collect()
}

#[derive(Clone, Copy, PartialEq, Debug)]
enum BEnd {
    Finish,
    TryFinish,
    TryFinishThenDrop,
    Drop,
}

fn sc_bgzf(rng: &mut Rng, end: BEnd, big: bool) -> Scenario {
    let chunks = Arc::new(gen_chunks(rng, big));
    let level = *rng.pick(&[0u8, 1, 6, 9]);
    let payload: Vec<u8> = chunks.iter().flat_map(|c| c.0.clone()).collect();
    let c2 = chunks.clone();
    let run: RunFn = Arc::new(move |sink: &SharedSink| {
        let mut calls = vec![];
        let mut w = bgzf::io::writer::Builder::default().set_compression_level(lvl(level)).build_from_writer(sink.clone());
        for (i, (b, fl)) in c2.iter().enumerate() {
            step!(calls, sink, format!("write_all#{i}"), w.write_all(b));
            if *fl {
                step!(calls, sink, format!("flush#{i}"), w.flush());
            }
        }
        match end {
            BEnd::Finish => {
                step!(calls, sink, "finish", w.finish().map(|_| ()));
                RunOut::new(calls, sink)
            }
            BEnd::TryFinish => {
                let r = w.try_finish();
                let out = match r {
                    Ok(()) => {
                        calls.push(("try_finish".into(), Ok(())));
                        RunOut::new(calls, sink)
                    }
                    Err(e) => {
                        calls.push(("try_finish".into(), Err(call_err(&e))));
                        RunOut::new(calls, sink)
                    }
                };
                let _ = w.into_inner();
                out
            }
            BEnd::TryFinishThenDrop => {
                step!(calls, sink, "try_finish", w.try_finish());
                let out = RunOut::new(calls, sink);
                drop(w);
                out
            }
            BEnd::Drop => {
                let out = RunOut::new(calls, sink);
                drop(w);
                out
            }
        }
    });
    Scenario {
        name: format!("bgzf-{end:?}{}", if big { "-big" } else { "" }).to_lowercase(),
        has_finish: end != BEnd::Drop,
        threaded: false,
        class_prefix: "",
        run,
        decode: bgzf_decode(),
        expected: digest(&payload),
        expected_from_plain: false,
    }
}

fn sc_bgzf_mt(rng: &mut Rng, finish: bool) -> Scenario {
    let big = rng.chance(1, 4);
    let chunks = Arc::new(gen_chunks(rng, big));
    let level = *rng.pick(&[0u8, 1, 6, 9]);
    let payload: Vec<u8> = chunks.iter().flat_map(|c| c.0.clone()).collect();
    let c2 = chunks.clone();
    let run: RunFn = Arc::new(move |sink: &SharedSink| {
        let mut calls = vec![];
        let mut w = bgzf::io::multithreaded_writer::Builder::default().set_compression_level(lvl(level)).build_from_writer(sink.clone());
        for (i, (b, fl)) in c2.iter().enumerate() {
            step!(calls, sink, format!("write_all#{i}"), w.write_all(b));
            if *fl {
                step!(calls, sink, format!("flush#{i}"), w.flush());
            }
        }
        if finish {
            step!(calls, sink, "finish", w.finish().map(|_| ()));
        }
        let out = RunOut::new(calls, sink);
        drop(w);
        out
    });
    Scenario {
        name: if finish { "bgzf-mt-finish".into() } else { "bgzf-mt-drop".into() },
        has_finish: finish,
        threaded: true,
        class_prefix: "",
        run,
        decode: bgzf_decode(),
        expected: digest(&payload),
        expected_from_plain: false,
    }
}

// ---- alignment formats

fn sam_header(nref: usize) -> sam::Header {
    use sam::header::record::value::{map::ReferenceSequence, Map};
    let mut b = sam::Header::builder().set_header(Default::default()).add_comment("c14");
    for i in 0..nref {
        b = b.add_reference_sequence(format!("sq{i}"), Map::<ReferenceSequence>::new(NonZero::new(64).unwrap()));
    }
    b.build()
}

const REF: &[u8] = b"ACGTTGCAAGGCTTAACCGGATATCGCGTACGTAGCTAGCTAGGATCCAATTGGCCTTAAGGCCA";

fn gen_alignments(rng: &mut Rng, nref: usize, n: usize, allow_unmapped: bool) -> Vec<sam::alignment::RecordBuf> {
    use sam::alignment::{
        record::{
            cigar::{op::Kind, Op as COp},
            Flags, MappingQuality,
        },
        record_buf::{Cigar, QualityScores, Sequence},
        RecordBuf,
    };
    let mut v = vec![];
    let mut start = 1usize;
    for i in 0..n {
        let len = 4 + rng.below(12) as usize;
        let mut b = RecordBuf::builder().set_name(format!("r{i}"));
        if allow_unmapped && rng.chance(1, 6) {
            b = b
                .set_flags(Flags::UNMAPPED)
                .set_sequence(Sequence::from(REF[..len].to_vec()))
                .set_quality_scores(QualityScores::from(vec![20u8; len]));
        } else {
            start = (start + rng.below(5) as usize).min(REF.len() - len);
            let rid = rng.below(nref as u64) as usize;
            b = b
                .set_flags(Flags::empty())
                .set_reference_sequence_id(rid)
                .set_alignment_start(Position::try_from(start).unwrap())
                .set_mapping_quality(MappingQuality::new(30).unwrap())
                .set_cigar(Cigar::from(vec![COp::new(Kind::Match, len)]))
                .set_sequence(Sequence::from(REF[start - 1..start - 1 + len].to_vec()))
                .set_quality_scores(QualityScores::from((0..len).map(|j| 20 + (j % 20) as u8).collect::<Vec<_>>()));
        }
        v.push(b.build());
    }
    // CRAM wants coordinate order within a reference for delta-coded starts; keep all formats sorted
    v.sort_by_key(|r| (r.reference_sequence_id().map(|x| x as i64).unwrap_or(i64::MAX), r.alignment_start().map(usize::from).unwrap_or(0)));
    v
}

fn fmt_alignment(r: &sam::alignment::RecordBuf) -> String {
    format!(
        "{:?}|{:?}|{:?}|{:?}|{:?}|{:?}|{:?}|{:?}",
        r.name(),
        r.flags(),
        r.reference_sequence_id(),
        r.alignment_start(),
        r.mapping_quality(),
        r.cigar(),
        r.sequence(),
        r.quality_scores()
    )
}

fn fmt_alignments(h: &sam::Header, rs: &[sam::alignment::RecordBuf]) -> String {
    let refs: Vec<String> = h.reference_sequences().iter().map(|(n, m)| format!("{}:{}", n, m.length())).collect();
    format!("refs={} comments={:?} n={} {}", refs.join(","), h.comments(), rs.len(), rs.iter().map(fmt_alignment).collect::<Vec<_>>().join(";"))
}

#[derive(Clone, Copy, PartialEq, Debug)]
enum AEnd {
    TryFinish,
    InnerFinish,
    TraitFinish,
}

fn sc_bam(rng: &mut Rng, end: AEnd) -> Scenario {
    use sam::alignment::io::Write as _;
    let nref = 1 + rng.below(3) as usize;
    let header = Arc::new(sam_header(nref));
    let nrec = 1 + rng.below(12) as usize;
    let recs = Arc::new(gen_alignments(rng, nref, nrec, true));
    let expected = fmt_alignments(&header, &recs);
    let (h2, r2) = (header.clone(), recs.clone());
    let run: RunFn = Arc::new(move |sink: &SharedSink| {
        let mut calls = vec![];
        let mut w = bam::io::Writer::new(sink.clone());
        step!(calls, sink, "write_header", w.write_header(&h2));
        for (i, r) in r2.iter().enumerate() {
            step!(calls, sink, format!("write_alignment_record#{i}"), w.write_alignment_record(&h2, r));
        }
        match end {
            AEnd::TryFinish => {
                step!(calls, sink, "try_finish", w.try_finish());
            }
            AEnd::InnerFinish => {
                step!(calls, sink, "into_inner().finish", w.into_inner().finish().map(|_| ()));
                return RunOut::new(calls, sink);
            }
            AEnd::TraitFinish => {
                step!(calls, sink, "alignment::io::Write::finish", sam::alignment::io::Write::finish(&mut w, &h2));
            }
        }
        let out = RunOut::new(calls, sink);
        drop(w);
        out
    });
    let decode: DecodeFn = Arc::new(|b: &[u8]| {
        let mut r = bam::io::Reader::new(b);
        let h = r.read_header().map_err(|e| e.to_string())?;
        let rs: Vec<_> = r.record_bufs(&h).collect::<io::Result<_>>().map_err(|e| e.to_string())?;
        Ok(fmt_alignments(&h, &rs))
    });
    Scenario {
        name: format!("bam-{end:?}").to_lowercase(),
        has_finish: true,
        threaded: false,
        class_prefix: if end == AEnd::TraitFinish { "trait-finish:" } else { "" },
        run,
        decode,
        expected,
        expected_from_plain: false,
    }
}

#[derive(Clone, Copy, PartialEq, Debug)]
enum SMode {
    Plain,
    PlainTraitFinish,
    BgzfTryFinish,
    BgzfTraitFinish,
}

fn sc_sam(rng: &mut Rng, mode: SMode) -> Scenario {
    use sam::alignment::io::Write as _;
    let nref = 1 + rng.below(3) as usize;
    let header = Arc::new(sam_header(nref));
    let nrec = 1 + rng.below(12) as usize;
    let recs = Arc::new(gen_alignments(rng, nref, nrec, true));
    let expected = fmt_alignments(&header, &recs);
    let (h2, r2) = (header.clone(), recs.clone());
    let bgzipped = matches!(mode, SMode::BgzfTryFinish | SMode::BgzfTraitFinish);
    let run: RunFn = if bgzipped {
        Arc::new(move |sink: &SharedSink| {
            let mut calls = vec![];
            let mut w = sam::io::Writer::new(bgzf::io::Writer::new(sink.clone()));
            step!(calls, sink, "write_header", w.write_header(&h2));
            for (i, r) in r2.iter().enumerate() {
                step!(calls, sink, format!("write_alignment_record#{i}"), w.write_alignment_record(&h2, r));
            }
            if mode == SMode::BgzfTraitFinish {
                step!(calls, sink, "alignment::io::Write::finish", sam::alignment::io::Write::finish(&mut w, &h2));
            } else {
                step!(calls, sink, "get_mut().try_finish", w.get_mut().try_finish());
            }
            let out = RunOut::new(calls, sink);
            drop(w);
            out
        })
    } else {
        Arc::new(move |sink: &SharedSink| {
            let mut calls = vec![];
            let mut w = sam::io::Writer::new(sink.clone());
            step!(calls, sink, "write_header", w.write_header(&h2));
            for (i, r) in r2.iter().enumerate() {
                step!(calls, sink, format!("write_alignment_record#{i}"), w.write_alignment_record(&h2, r));
            }
            if mode == SMode::PlainTraitFinish {
                step!(calls, sink, "alignment::io::Write::finish", sam::alignment::io::Write::finish(&mut w, &h2));
            }
            let out = RunOut::new(calls, sink);
            drop(w);
            out
        })
    };
    let decode: DecodeFn = Arc::new(move |b: &[u8]| {
        let text = if bgzipped {
            let mut r = bgzf::io::Reader::new(b);
            let mut out = vec![];
            r.read_to_end(&mut out).map_err(|e| e.to_string())?;
            out
        } else {
            b.to_vec()
        };
        let mut r = sam::io::Reader::new(&text[..]);
        let h = r.read_header().map_err(|e| e.to_string())?;
        let rs: Vec<_> = r.record_bufs(&h).collect::<io::Result<_>>().map_err(|e| e.to_string())?;
        Ok(fmt_alignments(&h, &rs))
    });
    Scenario {
        name: format!("sam-{mode:?}").to_lowercase(),
        has_finish: true,
        threaded: false,
        class_prefix: if mode == SMode::BgzfTraitFinish { "trait-finish:" } else { "" },
        run,
        decode,
        expected,
        expected_from_plain: false,
    }
}

fn cram_repo(nref: usize) -> fasta::Repository {
    use fasta::record::{Definition, Sequence};
    let recs: Vec<fasta::Record> = (0..nref).map(|i| fasta::Record::new(Definition::new(format!("sq{i}"), None), Sequence::from(REF.to_vec()))).collect();
    fasta::Repository::new(recs)
}

fn sc_cram(rng: &mut Rng) -> Scenario {
    use sam::alignment::io::Write as _;
    // one reference: slices of different references in one container are rejected by the writer when
    // the layout hook makes several slices ("invalid slice reference sequence context … got Many"; C07)
    let nref = 1usize;
    let _ = rng.below(2);
    let header = Arc::new(sam_header(nref));
    let nrec = 1 + rng.below(10) as usize;
    // mapped records only: a slice mixing placed and unplaced reads is rejected by the CRAM writer
    // ("invalid slice reference sequence context"), which is C07's subject, not this property's
    let recs = Arc::new(gen_alignments(rng, nref, nrec, false));
    let expected = fmt_alignments(&header, &recs);
    let (h2, r2) = (header.clone(), recs.clone());
    // several containers with a dozen records through the layout hook
    let layout = if rng.chance(1, 2) { Some((1 + rng.below(4) as usize, 1 + rng.below(2) as usize)) } else { None };
    let run: RunFn = Arc::new(move |sink: &SharedSink| {
        let mut calls = vec![];
        let b = cram::io::writer::Builder::default().set_reference_sequence_repository(cram_repo(nref));
        let mut w = match layout {
            Some((rps, spc)) => b.verif_build_from_writer_with_layout(sink.clone(), rps, spc),
            None => b.build_from_writer(sink.clone()),
        };
        step!(calls, sink, "write_header", w.write_header(&h2));
        for (i, r) in r2.iter().enumerate() {
            step!(calls, sink, format!("write_alignment_record#{i}"), w.write_alignment_record(&h2, r));
        }
        step!(calls, sink, "try_finish", w.try_finish(&h2));
        let out = RunOut::new(calls, sink);
        drop(w);
        out
    });
    let decode: DecodeFn = Arc::new(move |b: &[u8]| {
        let mut r = cram::io::reader::Builder::default().set_reference_sequence_repository(cram_repo(nref)).build_from_reader(b);
        let h = r.read_header().map_err(|e| e.to_string())?;
        let rs: Vec<_> = r.records(&h).collect::<io::Result<_>>().map_err(|e| e.to_string())?;
        Ok(fmt_alignments(&h, &rs))
    });
    Scenario { name: "cram".into(), has_finish: true, threaded: false, class_prefix: "", run, decode, expected, expected_from_plain: false }
}

// ---- variant formats

fn vcf_header(nref: usize) -> vcf::Header {
    use vcf::header::record::value::{map::Contig, Map};
    let mut b = vcf::Header::builder();
    for i in 0..nref {
        b = b.add_contig(format!("sq{i}"), Map::<Contig>::new());
    }
    b.build()
}

fn gen_variants(rng: &mut Rng, nref: usize, n: usize) -> Vec<vcf::variant::RecordBuf> {
    use vcf::variant::record_buf::AlternateBases;
    let mut v = vec![];
    let mut start = 1usize;
    for i in 0..n {
        start += 1 + rng.below(1000) as usize;
        let len = 1 + rng.below(6) as usize;
        v.push(
            vcf::variant::RecordBuf::builder()
                .set_reference_sequence_name(format!("sq{}", rng.below(nref as u64)))
                .set_variant_start(Position::try_from(start).unwrap())
                .set_ids([format!("v{i}")].into_iter().collect())
                .set_reference_bases(String::from_utf8(REF[..len].to_vec()).unwrap())
                .set_alternate_bases(AlternateBases::from(vec![rng.pick(&["A", "C", "GT", "TTA"]).to_string()]))
                .build(),
        );
    }
    v
}

fn fmt_variants(h: &vcf::Header, rs: &[vcf::variant::RecordBuf]) -> String {
    let contigs: Vec<String> = h.contigs().keys().map(|k| k.to_string()).collect();
    format!(
        "contigs={} n={} {}",
        contigs.join(","),
        rs.len(),
        rs.iter()
            .map(|r| format!("{}|{:?}|{:?}|{}|{:?}", r.reference_sequence_name(), r.variant_start(), r.ids(), r.reference_bases(), r.alternate_bases()))
            .collect::<Vec<_>>()
            .join(";")
    )
}

fn sc_vcf(rng: &mut Rng, bgzipped: bool) -> Scenario {
    use vcf::variant::io::Write as _;
    let nref = 1 + rng.below(3) as usize;
    let header = Arc::new(vcf_header(nref));
    let nrec = 1 + rng.below(12) as usize;
    let recs = Arc::new(gen_variants(rng, nref, nrec));
    let expected = fmt_variants(&header, &recs);
    let (h2, r2) = (header.clone(), recs.clone());
    let run: RunFn = if bgzipped {
        Arc::new(move |sink: &SharedSink| {
            let mut calls = vec![];
            let mut w = vcf::io::Writer::new(bgzf::io::Writer::new(sink.clone()));
            step!(calls, sink, "write_header", w.write_header(&h2));
            for (i, r) in r2.iter().enumerate() {
                step!(calls, sink, format!("write_variant_record#{i}"), w.write_variant_record(&h2, r));
            }
            step!(calls, sink, "get_mut().try_finish", w.get_mut().try_finish());
            let out = RunOut::new(calls, sink);
            drop(w);
            out
        })
    } else {
        Arc::new(move |sink: &SharedSink| {
            let mut calls = vec![];
            let mut w = vcf::io::Writer::new(sink.clone());
            step!(calls, sink, "write_header", w.write_header(&h2));
            for (i, r) in r2.iter().enumerate() {
                step!(calls, sink, format!("write_variant_record#{i}"), w.write_variant_record(&h2, r));
            }
            let out = RunOut::new(calls, sink);
            drop(w);
            out
        })
    };
    let decode: DecodeFn = Arc::new(move |b: &[u8]| {
        let text = if bgzipped {
            let mut r = bgzf::io::Reader::new(b);
            let mut out = vec![];
            r.read_to_end(&mut out).map_err(|e| e.to_string())?;
            out
        } else {
            b.to_vec()
        };
        let mut r = vcf::io::Reader::new(&text[..]);
        let h = r.read_header().map_err(|e| e.to_string())?;
        let rs: Vec<_> = r.record_bufs(&h).collect::<io::Result<_>>().map_err(|e| e.to_string())?;
        Ok(fmt_variants(&h, &rs))
    });
    Scenario { name: if bgzipped { "vcf-bgzf".into() } else { "vcf".into() }, has_finish: true, threaded: false, class_prefix: "", run, decode, expected, expected_from_plain: false }
}

fn sc_bcf(rng: &mut Rng) -> Scenario {
    use vcf::variant::io::Write as _;
    let nref = 1 + rng.below(3) as usize;
    let header = Arc::new(vcf_header(nref));
    let nrec = 1 + rng.below(12) as usize;
    let recs = Arc::new(gen_variants(rng, nref, nrec));
    let expected = fmt_variants(&header, &recs);
    let (h2, r2) = (header.clone(), recs.clone());
    let run: RunFn = Arc::new(move |sink: &SharedSink| {
        let mut calls = vec![];
        let mut w = bcf::io::Writer::new(sink.clone());
        step!(calls, sink, "write_header", w.write_header(&h2));
        for (i, r) in r2.iter().enumerate() {
            step!(calls, sink, format!("write_variant_record#{i}"), w.write_variant_record(&h2, r));
        }
        step!(calls, sink, "try_finish", w.try_finish());
        let out = RunOut::new(calls, sink);
        drop(w);
        out
    });
    let decode: DecodeFn = Arc::new(|b: &[u8]| {
        let mut r = bcf::io::Reader::new(b);
        let h = r.read_header().map_err(|e| e.to_string())?;
        let rs: Vec<_> = r.record_bufs(&h).collect::<io::Result<_>>().map_err(|e| e.to_string())?;
        Ok(fmt_variants(&h, &rs))
    });
    Scenario { name: "bcf".into(), has_finish: true, threaded: false, class_prefix: "", run, decode, expected, expected_from_plain: false }
}

// ---- sequence / feature text formats

fn sc_fasta(rng: &mut Rng) -> Scenario {
    use fasta::record::{Definition, Sequence};
    let n = 1 + rng.below(6) as usize;
    let recs: Arc<Vec<fasta::Record>> = Arc::new(
        (0..n)
            .map(|i| {
                let len = rng.below(300) as usize;
                let seq: Vec<u8> = (0..len).map(|_| *rng.pick(b"ACGTN")).collect();
                let desc = if rng.chance(1, 2) { Some(bstr::BString::from(format!("desc {i}"))) } else { None };
                fasta::Record::new(Definition::new(format!("sq{i}"), desc), Sequence::from(seq))
            })
            .collect(),
    );
    let fmt = |rs: &[fasta::Record]| rs.iter().map(|r| format!("{:?}|{:?}|{}", bstr::BStr::new(r.name()), r.description(), String::from_utf8_lossy(r.sequence().as_ref()))).collect::<Vec<_>>().join(";");
    let expected = fmt(&recs);
    let r2 = recs.clone();
    let run: RunFn = Arc::new(move |sink: &SharedSink| {
        let mut calls = vec![];
        let mut w = fasta::io::Writer::new(sink.clone());
        for (i, r) in r2.iter().enumerate() {
            step!(calls, sink, format!("write_record#{i}"), w.write_record(r));
        }
        let out = RunOut::new(calls, sink);
        drop(w);
        out
    });
    let decode: DecodeFn = Arc::new(move |b: &[u8]| {
        let mut r = fasta::io::Reader::new(b);
        let rs: Vec<fasta::Record> = r.records().collect::<io::Result<_>>().map_err(|e| e.to_string())?;
        Ok(fmt(&rs))
    });
    Scenario { name: "fasta".into(), has_finish: true, threaded: false, class_prefix: "", run, decode, expected, expected_from_plain: false }
}

fn sc_fastq(rng: &mut Rng) -> Scenario {
    let n = 1 + rng.below(8) as usize;
    let recs: Arc<Vec<fastq::Record>> = Arc::new(
        (0..n)
            .map(|i| {
                let len = 1 + rng.below(120) as usize;
                let seq: Vec<u8> = (0..len).map(|_| *rng.pick(b"ACGTN")).collect();
                let q: Vec<u8> = (0..len).map(|_| b'!' + rng.below(40) as u8).collect();
                fastq::Record::new(fastq::record::Definition::new(format!("r{i}"), if rng.chance(1, 2) { "d" } else { "" }), seq, q)
            })
            .collect(),
    );
    let fmt = |rs: &[fastq::Record]| rs.iter().map(|r| format!("{:?}", r)).collect::<Vec<_>>().join(";");
    let expected = fmt(&recs);
    let r2 = recs.clone();
    let run: RunFn = Arc::new(move |sink: &SharedSink| {
        let mut calls = vec![];
        let mut w = fastq::io::Writer::new(sink.clone());
        for (i, r) in r2.iter().enumerate() {
            step!(calls, sink, format!("write_record#{i}"), w.write_record(r));
        }
        let out = RunOut::new(calls, sink);
        drop(w);
        out
    });
    let decode: DecodeFn = Arc::new(move |b: &[u8]| {
        let mut r = fastq::io::Reader::new(b);
        let rs: Vec<fastq::Record> = r.records().collect::<io::Result<_>>().map_err(|e| e.to_string())?;
        Ok(fmt(&rs))
    });
    Scenario { name: "fastq".into(), has_finish: true, threaded: false, class_prefix: "", run, decode, expected, expected_from_plain: false }
}

fn sc_gff(rng: &mut Rng) -> Scenario {
    use gff::feature::record::Strand;
    use gff::feature::record_buf::{attributes::field::Value, Attributes};
    let n = 1 + rng.below(8) as usize;
    let recs: Arc<Vec<gff::feature::RecordBuf>> = Arc::new(
        (0..n)
            .map(|i| {
                let s = 1 + rng.below(10_000) as usize;
                let attrs: Attributes = [(bstr::BString::from("ID"), Value::from(format!("g{i}")))].into_iter().collect();
                gff::feature::RecordBuf::builder()
                    .set_reference_sequence_name(format!("sq{}", rng.below(3)))
                    .set_source("c14")
                    .set_type("gene")
                    .set_start(Position::try_from(s).unwrap())
                    .set_end(Position::try_from(s + rng.below(500) as usize).unwrap())
                    .set_strand(if rng.chance(1, 2) { Strand::Forward } else { Strand::Reverse })
                    .set_attributes(attrs)
                    .build()
            })
            .collect(),
    );
    let fmt = |rs: &[gff::feature::RecordBuf]| rs.iter().map(|r| format!("{:?}", r)).collect::<Vec<_>>().join(";");
    let expected = fmt(&recs);
    let r2 = recs.clone();
    let run: RunFn = Arc::new(move |sink: &SharedSink| {
        use gff::directive_buf::{key, Value as DValue};
        let mut calls = vec![];
        let mut w = gff::io::Writer::new(sink.clone());
        let version = gff::DirectiveBuf::new(key::GFF_VERSION, Some(DValue::GffVersion(Default::default())));
        step!(calls, sink, "write_directive", w.write_directive(&version));
        for (i, r) in r2.iter().enumerate() {
            step!(calls, sink, format!("write_record#{i}"), w.write_record(r));
        }
        let out = RunOut::new(calls, sink);
        drop(w);
        out
    });
    let decode: DecodeFn = Arc::new(move |b: &[u8]| {
        if !b.starts_with(b"##gff-version 3\n") {
            return Err("missing ##gff-version directive".into());
        }
        let mut r = gff::io::Reader::new(b);
        let rs: Vec<gff::feature::RecordBuf> = r.record_bufs().collect::<io::Result<_>>().map_err(|e| e.to_string())?;
        Ok(fmt(&rs))
    });
    Scenario { name: "gff".into(), has_finish: true, threaded: false, class_prefix: "", run, decode, expected, expected_from_plain: false }
}

fn sc_bed(rng: &mut Rng) -> Scenario {
    let n = 1 + rng.below(10) as usize;
    let rows: Arc<Vec<(String, usize, usize)>> = Arc::new(
        (0..n)
            .map(|_| {
                let s = 1 + rng.below(100_000) as usize;
                (format!("sq{}", rng.below(4)), s, s + rng.below(1000) as usize)
            })
            .collect(),
    );
    let expected = rows.iter().map(|(c, s, e)| format!("{c}:{s}-{e}")).collect::<Vec<_>>().join(";");
    let r2 = rows.clone();
    let run: RunFn = Arc::new(move |sink: &SharedSink| {
        let mut calls = vec![];
        let mut w = bed::io::Writer::<3, _>::new(sink.clone());
        for (i, (c, s, e)) in r2.iter().enumerate() {
            let rec = bed::feature::RecordBuf::<3>::builder()
                .set_reference_sequence_name(c.as_str())
                .set_feature_start(Position::try_from(*s).unwrap())
                .set_feature_end(Position::try_from(*e).unwrap())
                .build();
            step!(calls, sink, format!("write_feature_record#{i}"), w.write_feature_record(&rec));
        }
        let out = RunOut::new(calls, sink);
        drop(w);
        out
    });
    let decode: DecodeFn = Arc::new(move |b: &[u8]| {
        let mut r = bed::io::Reader::<3, _>::new(b);
        let mut rec = bed::Record::<3>::default();
        let mut out = vec![];
        loop {
            match r.read_record(&mut rec) {
                Ok(0) => break,
                Ok(_) => {
                    let s = rec.feature_start().map_err(|e| e.to_string())?;
                    let e = rec.feature_end().ok_or("no end")?.map_err(|e| e.to_string())?;
                    out.push(format!("{}:{}-{}", rec.reference_sequence_name(), usize::from(s), usize::from(e)));
                }
                Err(e) => return Err(e.to_string()),
            }
        }
        Ok(out.join(";"))
    });
    Scenario { name: "bed".into(), has_finish: true, threaded: false, class_prefix: "", run, decode, expected, expected_from_plain: false }
}

// ---- index writers

fn gen_binning_index<I>(rng: &mut Rng, header: bool) -> csi::binning_index::Index<I>
where
    I: csi::binning_index::index::reference_sequence::Index + Default,
{
    use super::c17::{ch, gen_sorted_records, pos};
    let nref = 1 + rng.below(3) as usize;
    let (recs, _) = gen_sorted_records(rng, 14, 5, nref);
    let mut ix = csi::binning_index::Indexer::<I>::new(14, 5);
    if header {
        let mut names = csi::binning_index::index::header::ReferenceSequenceNames::new();
        for i in 0..nref {
            names.insert(format!("sq{i}").into_bytes().into());
        }
        ix = ix.set_header(csi::binning_index::index::header::Builder::vcf().set_reference_sequence_names(names).build());
    }
    for r in recs.iter().take(40) {
        ix.add_record(Some((r.rid, pos(r.s), pos(r.e), r.mapped)), r.c).unwrap();
    }
    for _ in 0..rng.below(3) {
        ix.add_record(None, ch(0, 0)).unwrap();
    }
    ix.build(nref)
}

fn sc_bai(rng: &mut Rng) -> Scenario {
    let idx: Arc<bam::bai::Index> = Arc::new(gen_binning_index(rng, false));
    let expected = format!("{:?}", idx);
    let i2 = idx.clone();
    let run: RunFn = Arc::new(move |sink: &SharedSink| {
        let mut calls = vec![];
        let mut w = bam::bai::io::Writer::new(sink.clone());
        step!(calls, sink, "write_index", w.write_index(&i2));
        let out = RunOut::new(calls, sink);
        drop(w);
        out
    });
    let decode: DecodeFn = Arc::new(|b: &[u8]| bam::bai::io::Reader::new(b).read_index().map(|i| format!("{:?}", i)).map_err(|e| e.to_string()));
    Scenario { name: "bai".into(), has_finish: true, threaded: false, class_prefix: "", run, decode, expected, expected_from_plain: false }
}

fn sc_csi(rng: &mut Rng) -> Scenario {
    let with_header = rng.chance(1, 2);
    let idx: Arc<csi::Index> = Arc::new(gen_binning_index(rng, with_header));
    let expected = format!("{:?}", idx);
    let i2 = idx.clone();
    let run: RunFn = Arc::new(move |sink: &SharedSink| {
        let mut calls = vec![];
        let mut w = csi::io::Writer::new(sink.clone());
        step!(calls, sink, "write_index", w.write_index(&i2));
        step!(calls, sink, "into_inner().finish", w.into_inner().finish().map(|_| ()));
        RunOut::new(calls, sink)
    });
    let decode: DecodeFn = Arc::new(|b: &[u8]| csi::io::Reader::new(b).read_index().map(|i| format!("{:?}", i)).map_err(|e| e.to_string()));
    Scenario { name: "csi".into(), has_finish: true, threaded: false, class_prefix: "", run, decode, expected, expected_from_plain: true }
}

fn sc_tabix(rng: &mut Rng) -> Scenario {
    let idx: Arc<tabix::Index> = Arc::new(gen_binning_index(rng, true));
    let expected = format!("{:?}", idx);
    let i2 = idx.clone();
    let run: RunFn = Arc::new(move |sink: &SharedSink| {
        let mut calls = vec![];
        let mut w = tabix::io::Writer::new(sink.clone());
        step!(calls, sink, "write_index", w.write_index(&i2));
        step!(calls, sink, "try_finish", w.try_finish());
        let out = RunOut::new(calls, sink);
        drop(w);
        out
    });
    let decode: DecodeFn = Arc::new(|b: &[u8]| tabix::io::Reader::new(b).read_index().map(|i| format!("{:?}", i)).map_err(|e| e.to_string()));
    Scenario { name: "tabix".into(), has_finish: true, threaded: false, class_prefix: "", run, decode, expected, expected_from_plain: false }
}

fn sc_gzi(rng: &mut Rng) -> Scenario {
    let (mut c, mut u) = (0u64, 0u64);
    let v: Vec<(u64, u64)> = (0..rng.below(12))
        .map(|_| {
            c += 28 + rng.below(65000);
            u += rng.below(65537);
            (c, u)
        })
        .collect();
    let idx = Arc::new(bgzf::gzi::Index::from(v));
    let expected = format!("{:?}", idx);
    let i2 = idx.clone();
    let run: RunFn = Arc::new(move |sink: &SharedSink| {
        let mut calls = vec![];
        let mut w = bgzf::gzi::io::Writer::new(sink.clone());
        step!(calls, sink, "write_index", w.write_index(&i2));
        let out = RunOut::new(calls, sink);
        drop(w);
        out
    });
    let decode: DecodeFn = Arc::new(|b: &[u8]| bgzf::gzi::io::Reader::new(b).read_index().map(|i| format!("{:?}", i)).map_err(|e| e.to_string()));
    Scenario { name: "gzi".into(), has_finish: true, threaded: false, class_prefix: "", run, decode, expected, expected_from_plain: false }
}

fn sc_fai(rng: &mut Rng) -> Scenario {
    use fasta::fai;
    let recs: Vec<fai::Record> = (0..1 + rng.below(8))
        .map(|i| {
            let lb = 1 + rng.below(200);
            fai::Record::new(format!("sq{i}"), rng.below(1 << 40), rng.below(1 << 40), NonZero::new(lb).unwrap(), NonZero::new(lb + 1).unwrap())
        })
        .collect();
    let idx = Arc::new(fai::Index::from(recs));
    let expected = format!("{:?}", idx);
    let i2 = idx.clone();
    let run: RunFn = Arc::new(move |sink: &SharedSink| {
        let mut calls = vec![];
        let mut w = fai::io::Writer::new(sink.clone());
        step!(calls, sink, "write_index", w.write_index(&i2));
        let out = RunOut::new(calls, sink);
        drop(w);
        out
    });
    let decode: DecodeFn = Arc::new(|b: &[u8]| fai::io::Reader::new(b).read_index().map(|i| format!("{:?}", i)).map_err(|e| e.to_string()));
    Scenario { name: "fai".into(), has_finish: true, threaded: false, class_prefix: "", run, decode, expected, expected_from_plain: false }
}

fn sc_crai(rng: &mut Rng) -> Scenario {
    use cram::crai;
    let recs: Arc<Vec<crai::Record>> = Arc::new(
        (0..1 + rng.below(40))
            .map(|_| {
                let (rid, st, span) =
                    if rng.chance(1, 5) { (None, None, 0) } else { (Some(rng.below(100) as usize), Position::new(1 + rng.below(1 << 30) as usize), rng.below(1 << 20) as usize) };
                crai::Record::new(rid, st, span, rng.below(1 << 40), rng.below(1 << 20), rng.below(1 << 30))
            })
            .collect(),
    );
    let expected = format!("{:?}", recs);
    let r2 = recs.clone();
    let run: RunFn = Arc::new(move |sink: &SharedSink| {
        let mut calls = vec![];
        let mut w = crai::io::Writer::new(sink.clone());
        step!(calls, sink, "write_index", w.write_index(&r2));
        step!(calls, sink, "finish", w.finish().map(|_| ()));
        RunOut::new(calls, sink)
    });
    let decode: DecodeFn = Arc::new(|b: &[u8]| crai::io::Reader::new(b).read_index().map(|i| format!("{:?}", i)).map_err(|e| e.to_string()));
    Scenario { name: "crai".into(), has_finish: true, threaded: false, class_prefix: "", run, decode, expected, expected_from_plain: false }
}

const SCENARIOS: [&str; 31] = [
    "bgzf-finish", "bgzf-tryfinish", "bgzf-tryfinishthendrop", "bgzf-drop", "bgzf-finish-big", "bgzf-drop-big", "bgzf-mt-finish", "bgzf-mt-drop",
    "bam-tryfinish", "bam-innerfinish", "bam-traitfinish", "bcf", "cram", "sam-plain", "sam-plaintraitfinish", "sam-bgzftryfinish", "sam-bgzftraitfinish", "vcf", "vcf-bgzf", "fasta", "fastq", "gff", "bed",
    "bai", "csi", "tabix", "gzi", "fai", "crai", "bgzf-tryfinish-big", "bgzf-finish-big2",
];

fn make_scenario(name: &str, sub: u64) -> Option<Scenario> {
    let mut rng = Rng::new(sub ^ fnv(name.as_bytes()));
    let rng = &mut rng;
    Some(match name {
        "bgzf-finish" => sc_bgzf(rng, BEnd::Finish, false),
        "bgzf-tryfinish" => sc_bgzf(rng, BEnd::TryFinish, false),
        "bgzf-tryfinishthendrop" => sc_bgzf(rng, BEnd::TryFinishThenDrop, false),
        "bgzf-drop" => sc_bgzf(rng, BEnd::Drop, false),
        "bgzf-finish-big" | "bgzf-finish-big2" => sc_bgzf(rng, BEnd::Finish, true),
        "bgzf-tryfinish-big" => sc_bgzf(rng, BEnd::TryFinish, true),
        "bgzf-drop-big" => sc_bgzf(rng, BEnd::Drop, true),
        "bgzf-mt-finish" => sc_bgzf_mt(rng, true),
        "bgzf-mt-drop" => sc_bgzf_mt(rng, false),
        "bam-tryfinish" => sc_bam(rng, AEnd::TryFinish),
        "bam-innerfinish" => sc_bam(rng, AEnd::InnerFinish),
        "bam-traitfinish" => sc_bam(rng, AEnd::TraitFinish),
        "bcf" => sc_bcf(rng),
        "cram" => sc_cram(rng),
        "sam-plain" => sc_sam(rng, SMode::Plain),
        "sam-plaintraitfinish" => sc_sam(rng, SMode::PlainTraitFinish),
        "sam-bgzftryfinish" => sc_sam(rng, SMode::BgzfTryFinish),
        "sam-bgzftraitfinish" => sc_sam(rng, SMode::BgzfTraitFinish),
        "vcf" => sc_vcf(rng, false),
        "vcf-bgzf" => sc_vcf(rng, true),
        "fasta" => sc_fasta(rng),
        "fastq" => sc_fastq(rng),
        "gff" => sc_gff(rng),
        "bed" => sc_bed(rng),
        "bai" => sc_bai(rng),
        "csi" => sc_csi(rng),
        "tabix" => sc_tabix(rng),
        "gzi" => sc_gzi(rng),
        "fai" => sc_fai(rng),
        "crai" => sc_crai(rng),
        _ => return None,
    })
}

// ------------------------------------------------------------------ the oracle on one scenario

fn with_watchdog<T: Send + 'static>(secs: u64, f: impl FnOnce() -> T + Send + 'static) -> Result<T, String> {
    let (tx, rx) = std::sync::mpsc::channel();
    std::thread::spawn(move || {
        let r = guarded(f);
        let _ = tx.send(r);
    });
    // see c03::with_watchdog: the first two timeouts of a process wait much longer than `secs`
    static TIMEOUTS: std::sync::atomic::AtomicUsize = std::sync::atomic::AtomicUsize::new(0);
    let patient = TIMEOUTS.load(std::sync::atomic::Ordering::Relaxed) < 2;
    match rx.recv_timeout(std::time::Duration::from_secs(if patient { secs.max(120) } else { secs })) {
        Ok(r) => r,
        Err(_) => {
            TIMEOUTS.fetch_add(1, std::sync::atomic::Ordering::Relaxed);
            Err("timeout: the writer did not return within the watchdog period".into())
        }
    }
}

fn exec(sc: &Scenario, sink: &SharedSink) -> Result<RunOut, String> {
    if sc.threaded {
        let run = sc.run.clone();
        let s2 = sink.clone();
        with_watchdog(20, move || run(&s2))
    } else {
        guarded(|| (sc.run)(sink))
    }
}

struct Healthy {
    bytes: Vec<u8>,
    calls: usize,
    /// two plain runs gave the same bytes (CRAM's block order follows HashMap iteration order)
    deterministic: bool,
}

/// one run of a scenario over one destination configuration; `healthy` = the plain-destination run
fn eval_cfg(ctx: &mut Ctx, sc: &Scenario, cfg: &Cfg, healthy: Option<&Healthy>, case: &str) -> Option<(RunOut, SharedSink)> {
    let sink = cfg.sink();
    let class = |c: &str| format!("{}{}", sc.class_prefix, c);
    let what = format!("{} [{}{}]", sc.name, cfg.label, cfg.fail_at.map(|(k, kind)| format!(", {} call {k} with {kind:?}", if cfg.fail_once { "fails only at" } else { "fails from" })).unwrap_or_default());
    ctx.eval(Some(fnv(format!("{case}/{what}").as_bytes())));
    let out = match exec(sc, &sink) {
        Ok(o) => o,
        Err(p) => {
            let c = if p.starts_with("timeout") { "hang" } else { "panic" };
            ctx.fail(&class(c), format!("{what}: {p}"), case.into());
            return None;
        }
    };
    let failed = sink.failed();
    let accepted = sink.accepted();
    let first_err = out.calls.iter().find(|c| c.1.is_err()).cloned();
    let all_ok = first_err.is_none();
    let trace = || out.calls.iter().map(|(l, r)| format!("{l}={}", if r.is_ok() { "Ok".to_string() } else { format!("{:?}", r.as_ref().unwrap_err().0) })).collect::<Vec<_>>().join(" ");
    match cfg.fail_at {
        Some((k, kind)) => {
            // (1) a failure while an explicit call was running must be reported by an explicit call
            // (with a background writer thread the failure may precede the return of the last
            // write without that call noticing: then only a later call — finish — can report it)
            if failed && k < out.calls_before_drop && all_ok && (sc.has_finish || !sc.threaded) {
                ctx.fail(
                    &class("hidden-failure"),
                    format!("{what}: the destination failed at call {k} (of {} made before the writer was dropped) but every writer call returned Ok: {}", out.calls_before_drop, trace()),
                    case.into(),
                );
                return Some((out, sink));
            }
            if let Some((label, Err((got, chain, msg)))) = &first_err {
                if *got == ErrorKind::Interrupted {
                    ctx.fail(&class("interrupted-leaked"), format!("{what}: {label} returned Interrupted ({msg}) instead of retrying"), case.into());
                    return Some((out, sink));
                }
                if !failed {
                    ctx.fail(&class("spurious-error"), format!("{what}: {label} returned {got:?} ({msg}) although the destination never failed"), case.into());
                    return Some((out, sink));
                }
                if !chain.contains(&kind) {
                    ctx.fail(&class("error-replaced"), format!("{what}: {label} returned {got:?} ({msg}; kinds in its source chain {chain:?}); the destination's error {kind:?} is nowhere in it"), case.into());
                    return Some((out, sink));
                }
                ctx.bump(if *got == kind { "failure_surfaced" } else { "failure_surfaced_wrapped" });
            } else if failed {
                ctx.bump("failure_only_during_drop");
            } else {
                ctx.bump("failure_index_beyond_run");
            }
        }
        None => {
            if let Some((label, Err((got, _, msg)))) = &first_err {
                let c = if *got == ErrorKind::Interrupted {
                    "interrupted-leaked"
                } else if cfg.script.is_empty() && cfg.fallback == usize::MAX {
                    "setup:healthy-error" // the plain in-memory destination: the scenario itself does not write
                } else {
                    "short-write-error"
                };
                ctx.fail(&class(c), format!("{what}: {label} returned {got:?} ({msg}) on a destination that only writes short / returns Interrupted a finite number of times"), case.into());
                return Some((out, sink));
            }
        }
    }
    // (2) all Ok including the finishing call ⇒ what the destination holds at that moment is complete
    if all_ok && sc.has_finish {
        match guarded(|| (sc.decode)(&out.bytes_before_drop)) {
            Ok(Ok(got)) if got == sc.expected => {}
            Ok(Ok(got)) => {
                ctx.fail(&class("ok-but-incomplete"), format!("{what}: every call returned Ok ({}) but the destination decodes to {} instead of {}", trace(), clip(&got), clip(&sc.expected)), case.into());
                return Some((out, sink));
            }
            Ok(Err(e)) | Err(e) => {
                ctx.fail(&class("ok-but-incomplete"), format!("{what}: every call returned Ok ({}) but the destination does not decode: {e}", trace()), case.into());
                return Some((out, sink));
            }
        }
    }
    // (3)/(4) no failure at all ⇒ byte-identical to the plain destination (after Drop, too)
    if all_ok && !failed {
        if let Some(h) = healthy.filter(|h| h.deterministic) {
            if accepted != h.bytes {
                ctx.fail(&class("output-differs"), format!("{what}: output ({} bytes, crc {:08x}) differs from the plain destination's ({} bytes, crc {:08x})", accepted.len(), crc32(&accepted), h.bytes.len(), crc32(&h.bytes)), case.into());
                return Some((out, sink));
            }
        }
    }
    Some((out, sink))
}

fn clip(s: &str) -> String {
    if std::env::var("NVH_NOCLIP").is_ok() {
        return s.to_string();
    }
    if s.len() > 160 { format!("{}…", &s[..s.char_indices().take(160).last().map(|x| x.0).unwrap_or(0)]) } else { s.to_string() }
}

fn check_scenario(ctx: &mut Ctx, name: &str, sub: u64) {
    let Some(mut sc) = make_scenario(name, sub) else { return };
    let case = format!("scn {name} {sub}");
    let mut rng = Rng::new(sub.wrapping_mul(0x9E37_79B9).wrapping_add(17));
    if sc.expected_from_plain {
        let s = Cfg::plain().sink();
        if exec(&sc, &s).is_ok() {
            if let Ok(Ok(e)) = guarded(|| (sc.decode)(&s.accepted())) {
                sc.expected = e;
            }
        }
    }
    // healthy run (if the property already fails here the sweeps would only repeat it)
    let before = ctx.hist.iter().filter(|(k, _)| k.starts_with("oracle_fail:")).map(|(_, v)| *v).sum::<u64>();
    let Some((out0, sink0)) = eval_cfg(ctx, &sc, &Cfg::plain(), None, &case) else { return };
    if ctx.hist.iter().filter(|(k, _)| k.starts_with("oracle_fail:")).map(|(_, v)| *v).sum::<u64>() != before {
        return;
    }
    if out0.calls.iter().any(|c| c.1.is_err()) {
        ctx.fail(&format!("{}setup:healthy-error", sc.class_prefix), format!("{}: a call failed on a plain in-memory destination: {:?}", sc.name, out0.calls.iter().find(|c| c.1.is_err())), case.clone());
        return;
    }
    let again = Cfg::plain().sink();
    let deterministic = match exec(&sc, &again) {
        Ok(_) => again.accepted() == sink0.accepted() && again.calls() == sink0.calls(),
        Err(_) => false,
    };
    // CRAM is never compared byte for byte, even when two runs happen to agree
    let deterministic = deterministic && sc.name != "cram";
    if !deterministic {
        ctx.bump(&format!("nondeterministic_output_{}", sc.name));
    }
    let healthy = Healthy { bytes: sink0.accepted(), calls: sink0.calls(), deterministic };
    // the file after Drop decodes, too (this is the whole claim for the drop-only scenarios)
    match guarded(|| (sc.decode)(&healthy.bytes)) {
        Ok(Ok(got)) if got == sc.expected => {}
        other => {
            let c = if sc.has_finish { "setup:plain-roundtrip" } else { "drop-incomplete" };
            ctx.fail(&format!("{}{c}", sc.class_prefix), format!("{}: plain destination, writer dropped: decodes to {:?}, expected {}", sc.name, other.map(|r| r.map(|s| clip(&s))), clip(&sc.expected)), case.clone());
            return;
        }
    }
    if name.starts_with("bgzf") && !healthy.bytes.ends_with(&c01::EOF) {
        ctx.fail("no-eof-marker", format!("{}: the file does not end with the BGZF EOF marker", sc.name), case.clone());
    }
    let n = healthy.calls;
    ctx.bump(&format!("scenario_{}", sc.name));
    ctx.bump(&format!("healthy_calls_{}", match n { 0..=15 => "<=15", 16..=60 => "16-60", 61..=300 => "61-300", _ => ">300" }));
    // (1) failure at call k
    let kmax = if ctx.tier_thorough { 400 } else { 48 };
    let ks: Vec<usize> = if n <= kmax {
        (0..n).collect()
    } else {
        let mut v: Vec<usize> = (0..kmax / 3).collect();
        v.extend(n - kmax / 3..n);
        v.extend((0..kmax / 3).map(|_| rng.below(n as u64) as usize));
        v.sort();
        v.dedup();
        v
    };
    for &k in &ks {
        let kind = KINDS[(k + sub as usize) % KINDS.len()].0;
        let cfg = Cfg { fail_at: Some((k, kind)), label: "plain".into(), ..Cfg::plain() };
        eval_cfg(ctx, &sc, &cfg, Some(&healthy), &case);
        // … and the same call failing ONCE, the destination then recovering
        let once = Cfg { fail_at: Some((k, kind)), fail_once: true, label: "fail-once".into(), ..Cfg::plain() };
        eval_cfg(ctx, &sc, &once, Some(&healthy), &case);
        ctx.bump("fail_once_runs");
        ctx.bump(&format!("kind_{kind:?}"));
    }
    // every kind at a few indices
    for &k in &[0usize, n / 2, n.saturating_sub(1)] {
        if k < n {
            for (kind, _) in KINDS {
                let cfg = Cfg { fail_at: Some((k, kind)), label: "plain".into(), ..Cfg::plain() };
                eval_cfg(ctx, &sc, &cfg, Some(&healthy), &case);
            }
        }
    }
    // beyond the run: nothing may change
    for k in [n, n + 1] {
        let cfg = Cfg { fail_at: Some((k, ErrorKind::Other)), label: "plain".into(), ..Cfg::plain() };
        eval_cfg(ctx, &sc, &cfg, Some(&healthy), &case);
    }
    // (3) short writes / interruptions
    for p in 0..8 {
        let cfg = pattern(&mut rng, p, healthy.bytes.len(), n);
        if cfg.fallback < 64 && healthy.bytes.len() > 200_000 {
            continue; // one destination call per byte of a big file: covered by the small scenarios
        }
        ctx.bump(&format!("pattern_{}", cfg.label));
        let Some((_, s)) = eval_cfg(ctx, &sc, &cfg, Some(&healthy), &case) else { continue };
        // … combined with a failure somewhere in the (longer) run
        let n2 = s.calls();
        for _ in 0..if ctx.tier_thorough { 6 } else { 2 } {
            let k = rng.below(n2.max(1) as u64) as usize;
            let kind = KINDS[rng.below(KINDS.len() as u64) as usize].0;
            let cfg2 = Cfg { fail_at: Some((k, kind)), label: format!("{}+fail", cfg.label), ..cfg.clone() };
            eval_cfg(ctx, &sc, &cfg2, None, &case);
        }
    }
}

// ------------------------------------------------------------------ correspondence: BGZF sessions

fn fmt_ops(ops: &[Op]) -> String {
    if ops.is_empty() {
        return "-".into();
    }
    ops.iter()
        .map(|o| match o {
            Op::All(b) => format!("a{}", hex(b)),
            Op::One(b) => format!("w{}", hex(b)),
            Op::Flush => "f".into(),
        })
        .collect::<Vec<_>>()
        .join(",")
}

struct Sess {
    per: Vec<String>,
    end: String,
    accepted: Vec<u8>,
    calls: usize,
    failed: bool,
    all_ok: bool,
    calls_before_drop: usize,
    bytes_before_drop: Vec<u8>,
}

/// run an (already expanded) history on the real single-threaded writer over a scripted sink
fn run_session(level: u8, end: &str, ops: &[Op], cfg: &Cfg) -> Sess {
    let sink = cfg.sink();
    let mut per = vec![];
    let mut all_ok = true;
    let end_s;
    let snap;
    {
        let mut w = bgzf::io::writer::Builder::default().set_compression_level(lvl(level)).build_from_writer(sink.clone());
        for op in ops {
            let r = match op {
                Op::All(b) => w.write_all(b).map(|_| "ok".to_string()),
                Op::One(b) => w.write(b).map(|amt| format!("amt{amt}")),
                Op::Flush => w.flush().map(|_| "ok".to_string()),
            };
            let tail = format!("{}:{}", w.position(), u64::from(w.virtual_position()));
            match r {
                Ok(tag) => per.push(format!("{tag}:{tail}")),
                Err(e) => {
                    per.push(format!("{}:{tail}", err_str(&e)));
                    all_ok = false;
                    break;
                }
            }
        }
        if !all_ok {
            end_s = "aborted".to_string();
            snap = (sink.calls(), sink.accepted());
            drop(w);
        } else {
            match end {
                "fin" => {
                    let r = w.finish();
                    snap = (sink.calls(), sink.accepted());
                    end_s = match r {
                        Ok(_) => "ok".into(),
                        Err(e) => {
                            all_ok = false;
                            err_str(&e)
                        }
                    };
                }
                "try" => {
                    let r = w.try_finish();
                    snap = (sink.calls(), sink.accepted());
                    end_s = match r {
                        Ok(()) => format!("ok pos={}", w.position()),
                        Err(e) => {
                            all_ok = false;
                            format!("{} pos={}", err_str(&e), w.position())
                        }
                    };
                    let _ = w.into_inner();
                }
                _ => {
                    snap = (sink.calls(), sink.accepted());
                    drop(w);
                    end_s = "dropped".into();
                }
            }
        }
    }
    Sess { per, end: end_s, accepted: sink.accepted(), calls: sink.calls(), failed: sink.failed(), all_ok, calls_before_drop: snap.0, bytes_before_drop: snap.1 }
}

fn read_back(b: &[u8]) -> Result<Vec<u8>, String> {
    let mut r = bgzf::io::Reader::new(b);
    let mut out = vec![];
    match guarded(|| r.read_to_end(&mut out)) {
        Ok(Ok(_)) => Ok(out),
        Ok(Err(e)) => Err(e.to_string()),
        Err(p) => Err(format!("panic: {p}")),
    }
}

struct Hist {
    level: u8,
    ops: Vec<Op>,
    payload: Vec<u8>,
    table: String,
    plain: Vec<u8>,
}

/// a history, run once on a plain Vec to expand single `write` calls and to learn the library's
/// DEFLATE answers (the model's table)
fn gen_hist(sub: u64, big: bool) -> Hist {
    let mut rng = Rng::new(sub);
    let level = rng.below(10) as u8;
    let len = if big {
        *rng.pick(&[65494usize, 65495, 65496, 70000, 131000, 66000])
    } else {
        match rng.below(6) {
            0 => 0,
            1 => 1,
            _ => rng.below(1500) as usize,
        }
    };
    let payload = c01::gen_payload(&mut rng, len);
    let ops = if big {
        let mut ops = vec![];
        let mut rest = &payload[..];
        while !rest.is_empty() {
            let n = (1 + rng.below(140_000) as usize).min(rest.len());
            ops.push(if rng.chance(1, 4) { Op::One(rest[..n].to_vec()) } else { Op::All(rest[..n].to_vec()) });
            rest = &rest[n..];
            if rng.chance(1, 4) {
                ops.push(Op::Flush);
            }
        }
        ops
    } else {
        c01::gen_history(&mut rng, &payload)
    };
    let h = c01::run_real(level, true, &ops);
    let table = match c01::split_members(&h.sink) {
        Ok(ms) => {
            let v: Vec<String> = ms.iter().filter(|m| m.isize > 0).map(|m| format!("{}:{}:{}", m.crc, m.isize, hex(m.cdata))).collect();
            if v.is_empty() { "-".to_string() } else { v.join(",") }
        }
        Err(_) => "-".to_string(),
    };
    Hist { level, ops: h.ops_done, payload: h.written, table, plain: h.sink }
}

fn sess_case(ctx: &mut Ctx, h: &Hist, end: &str, cfg: &Cfg, case: &str, emit: bool) -> Sess {
    let s = run_session(h.level, end, &h.ops, cfg);
    if emit {
        let per = if s.per.is_empty() { "-".to_string() } else { s.per.join(",") };
        let (fa, kind) = match cfg.fail_at {
            Some((k, kind)) => (k.to_string(), kind_code(kind)),
            None => ("-".into(), 0),
        };
        ctx.corr(
            format!("c14 sess {} {end} {} {} {fa} {kind} {} {}", h.level, cfg.fmt_script(), cfg.fallback, fmt_ops(&h.ops), h.table),
            format!("{per} | end={} | sink={}:{} calls={} failed={}", s.end, s.accepted.len(), crc32(&s.accepted), s.calls, s.failed as u8),
        );
    }
    // the property on this session (independent of the model)
    ctx.eval(if h.payload.len() > 1 { Some(fnv(format!("{case}/{end}/{}/{:?}", cfg.label, cfg.fail_at).as_bytes())) } else { None });
    let what = format!("bgzf session end={end} [{}{}]", cfg.label, cfg.fail_at.map(|(k, kind)| format!(", fails from call {k} with {kind:?}")).unwrap_or_default());
    if let Some((k, _)) = cfg.fail_at {
        if s.failed && k < s.calls_before_drop && s.all_ok {
            ctx.fail("hidden-failure", format!("{what}: destination failed at call {k} but every call returned Ok: {:?} end={}", s.per, s.end), case.into());
        }
        if !s.failed && !s.all_ok {
            ctx.fail("spurious-error", format!("{what}: a call failed although the destination never did: {:?} end={}", s.per, s.end), case.into());
        }
    } else if !s.all_ok {
        ctx.fail("short-write-error", format!("{what}: a call failed on a destination that never fails hard: {:?} end={}", s.per, s.end), case.into());
    }
    if s.all_ok && end != "drop" {
        match read_back(&s.bytes_before_drop) {
            Ok(d) if d == h.payload => {}
            other => ctx.fail("ok-but-incomplete", format!("{what}: every call returned Ok but the destination reads back as {:?} (wrote {} bytes)", other.map(|d| d.len()), h.payload.len()), case.into()),
        }
    }
    if s.all_ok && !s.failed && s.accepted != h.plain {
        ctx.fail("output-differs", format!("{what}: output differs from the plain destination's ({} vs {} bytes)", s.accepted.len(), h.plain.len()), case.into());
    }
    s
}

fn bgzf_sessions(ctx: &mut Ctx, sub: u64, big: bool, emit: bool) {
    let h = gen_hist(sub, big);
    let case = format!("sess {sub} {}", big as u8);
    let mut rng = Rng::new(sub ^ 0xC14);
    ctx.bump(if big { "sessions_big" } else { "sessions_small" });
    for end in ["fin", "try", "drop"] {
        let s0 = sess_case(ctx, &h, end, &Cfg::plain(), &case, emit);
        let n = s0.calls;
        let ks: Vec<usize> = if big {
            let mut v = vec![0, 1, 9, 10, 11, 12, 13, 14, 15, n.saturating_sub(2), n.saturating_sub(1), n, n + 1];
            v.extend((0..4).map(|_| rng.below(n.max(1) as u64) as usize));
            v.sort();
            v.dedup();
            v
        } else if end == "fin" || ctx.tier_thorough {
            (0..=n + 1).collect()
        } else {
            // the histories are shared by the three endings: only the tail differs
            (n.saturating_sub(17)..=n + 1).collect()
        };
        for k in ks {
            let kind = KINDS[(k + sub as usize) % KINDS.len()].0;
            let cfg = Cfg { fail_at: Some((k, kind)), ..Cfg::plain() };
            sess_case(ctx, &h, end, &cfg, &case, emit);
        }
        // short writes, with and without a failure
        for p in 0..8 {
            let cfg = pattern(&mut rng, p, h.plain.len(), n);
            if big && cfg.fallback < 64 {
                continue; // quadratic in the model's list-based sink; small histories cover it
            }
            let s = sess_case(ctx, &h, end, &cfg, &case, emit);
            let k = rng.below(s.calls.max(1) as u64) as usize;
            let cfg2 = Cfg { fail_at: Some((k, KINDS[rng.below(8) as usize].0)), label: format!("{}+fail", cfg.label), ..cfg };
            sess_case(ctx, &h, end, &cfg2, &case, emit);
        }
    }
}

// ------------------------------------------------------------------ correspondence: write_all on the destination

fn feed_case(ctx: &mut Ctx, sub: u64) {
    let mut rng = Rng::new(sub);
    let chunks: Vec<Vec<u8>> = (0..rng.below(6)).map(|_| { let n = rng.below(40) as usize; rng.bytes(n) }).collect();
    let total: usize = chunks.iter().map(|c| c.len()).sum();
    let pk = rng.below(8) as usize;
    let mut cfg = pattern(&mut rng, pk, total, chunks.len());
    if rng.chance(1, 2) {
        cfg.fail_at = Some((rng.below(total as u64 + 3) as usize, KINDS[rng.below(8) as usize].0));
    }
    let sink = cfg.sink();
    let mut res = "ok".to_string();
    {
        let mut s = sink.clone();
        for c in &chunks {
            if let Err(e) = s.write_all(c) {
                res = err_str(&e);
                break;
            }
        }
    }
    let acc = sink.accepted();
    let left = sink.0.lock().unwrap().script.len();
    let (fa, kind) = match cfg.fail_at {
        Some((k, kind)) => (k.to_string(), kind_code(kind)),
        None => ("-".into(), 0),
    };
    let cs = if chunks.is_empty() { "-".to_string() } else { chunks.iter().map(|c| hex(c)).collect::<Vec<_>>().join(",") };
    ctx.corr(
        format!("c14 feed {} {} {fa} {kind} {cs}", cfg.fmt_script(), cfg.fallback),
        format!("{res} sink={}:{} calls={} failed={} left={left}", acc.len(), crc32(&acc), sink.calls(), sink.failed() as u8),
    );
    // std contract, stated directly
    ctx.eval(Some(fnv(format!("feed{sub}").as_bytes())));
    let all: Vec<u8> = chunks.concat();
    if res == "ok" && acc != all {
        ctx.fail("write-all-contract", format!("write_all returned Ok but the destination holds {} of {} bytes", acc.len(), all.len()), format!("feed {sub}"));
    }
    if res != "ok" && !all.starts_with(&acc) {
        ctx.fail("write-all-contract", "after a failed write_all the destination does not hold a prefix".into(), format!("feed {sub}"));
    }
    ctx.bump("feed_cases");
}

// ------------------------------------------------------------------ corpus + entry points

/// boundary sessions run first on every seed
fn corpus(ctx: &mut Ctx) {
    let mk = |level: u8, ops: Vec<Op>| {
        let h = c01::run_real(level, true, &ops);
        let table = match c01::split_members(&h.sink) {
            Ok(ms) => {
                let v: Vec<String> = ms.iter().filter(|m| m.isize > 0).map(|m| format!("{}:{}:{}", m.crc, m.isize, hex(m.cdata))).collect();
                if v.is_empty() { "-".to_string() } else { v.join(",") }
            }
            Err(_) => "-".to_string(),
        };
        Hist { level, ops: h.ops_done, payload: h.written, table, plain: h.sink }
    };
    let hs = vec![
        ("empty", mk(6, vec![])),
        ("empty-flush", mk(6, vec![Op::Flush])),
        ("one-byte", mk(6, vec![Op::All(vec![65])])),
        ("two-blocks", mk(1, vec![Op::All(b"noodles".to_vec()), Op::Flush, Op::All(b"bgzf".to_vec())])),
        ("single-write", mk(0, vec![Op::One(b"abc".to_vec()), Op::Flush, Op::Flush])),
    ];
    for (name, h) in &hs {
        let case = format!("corpus {name}");
        for end in ["fin", "try", "drop"] {
            let s0 = sess_case(ctx, h, end, &Cfg::plain(), &case, true);
            for k in 0..=s0.calls + 1 {
                for (kind, _) in [KINDS[0], KINDS[1], KINDS[2]] {
                    sess_case(ctx, h, end, &Cfg { fail_at: Some((k, kind)), ..Cfg::plain() }, &case, true);
                }
            }
            for (label, script, fallback) in [
                ("one-byte", vec![], 1usize),
                ("interrupted-first", vec![SinkStep::Interrupted, SinkStep::Interrupted, SinkStep::Accept(1), SinkStep::Interrupted], usize::MAX),
                ("accept-0-is-1", vec![SinkStep::Accept(0), SinkStep::Accept(2)], 5),
            ] {
                let cfg = Cfg { script, fallback, fail_at: None, fail_once: false, label: label.into() };
                let s = sess_case(ctx, h, end, &cfg, &case, true);
                for k in [0, 1, s.calls / 2, s.calls.saturating_sub(1), s.calls] {
                    sess_case(ctx, h, end, &Cfg { fail_at: Some((k, ErrorKind::BrokenPipe)), ..cfg.clone() }, &case, true);
                }
            }
        }
        ctx.bump("corpus_histories");
    }
}

pub fn run(ctx: &mut Ctx) {
    if let Some(case) = ctx.replay_only.clone() {
        replay(ctx, &case);
        return;
    }
    corpus(ctx);
    // BGZF sessions against the model
    for it in 0..ctx.n(14, 300) {
        let sub = ctx.seed.wrapping_mul(1_000_003).wrapping_add(it);
        bgzf_sessions(ctx, sub, false, true);
    }
    for it in 0..ctx.n(3, 40) {
        let sub = ctx.seed.wrapping_mul(2_000_003).wrapping_add(it);
        bgzf_sessions(ctx, sub, true, true);
    }
    for it in 0..ctx.n(400, 20_000) {
        let sub = ctx.seed.wrapping_mul(3_000_017).wrapping_add(it);
        feed_case(ctx, sub);
    }
    // every writer of the list, oracle only
    let rounds = ctx.n(3, 40);
    for name in SCENARIOS {
        for it in 0..rounds {
            let sub = ctx.seed.wrapping_mul(4_000_037).wrapping_add(it);
            check_scenario(ctx, name, sub);
        }
    }
    ctx.sample(|| "c14 sess 6 fin - 18446744073709551615 9 1 a41 <table>  (one byte, destination fails at its 10th call with BrokenPipe)".into());
    super::c14_more::run(ctx);
    super::c14_once::run(ctx);
}

/// F16 (observation, not part of the default run): once the multithreaded writer has returned the
/// destination's error, further calls must not panic. Replay-only: `nvh replay C14 f16 <k>`.
fn f16_case(ctx: &mut Ctx, k: usize) {
    let case = format!("f16 {k}");
    ctx.eval(Some(fnv(case.as_bytes())));
    let r = with_watchdog(20, move || {
        let sink = SharedSink::new(ScriptSink::new(vec![], usize::MAX, Some((k, ErrorKind::BrokenPipe))));
        let mut w = bgzf::io::MultithreadedWriter::new(sink.clone());
        let mut first = None;
        for i in 0..64 {
            if let Err(e) = w.write_all(&[b'x'; 100]).and_then(|_| w.flush()) {
                first = Some((i, e.kind()));
                break;
            }
        }
        let again = w.write_all(b"more").and_then(|_| w.flush()).map_err(|e| e.kind());
        let fin = w.finish().map(|_| ()).map_err(|e| e.kind());
        (first, again, fin)
    });
    match r {
        Ok((first, again, fin)) => {
            println!("f16: first error {first:?}; write+flush after it: {again:?}; finish after it: {fin:?}");
            if first.is_some() && (again.is_ok() || fin.is_ok()) {
                ctx.fail("f16:ok-after-error", format!("after the error {first:?} a later call returned Ok: write+flush {again:?}, finish {fin:?}"), case);
            }
        }
        Err(p) => ctx.fail("f16:panic-after-error", format!("calls after the multithreaded writer returned its error: {p}"), case),
    }
}

fn replay(ctx: &mut Ctx, case: &[String]) {
    if super::c14_more::replay(ctx, case) { return; }
    if super::c14_once::replay(ctx, case) { return; }
    match case.first().map(|s| s.as_str()) {
        Some("f16") => f16_case(ctx, case.get(1).and_then(|s| s.parse().ok()).unwrap_or(0)),
        Some("scn") => check_scenario(ctx, &case[1], case[2].parse().unwrap()),
        Some("sess") => bgzf_sessions(ctx, case[1].parse().unwrap(), case.get(2).map(|s| s == "1").unwrap_or(false), false),
        Some("feed") => feed_case(ctx, case[1].parse().unwrap()),
        Some("corpus") => corpus(ctx),
        _ => {}
    }
}
