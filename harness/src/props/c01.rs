//! C01 — BGZF write/read identity, well-formed output.
use crate::common::*;
use noodles_bgzf as bgzf;
use std::io::{Read, Write};

pub const MAX_BUF: usize = 65495;

#[derive(Clone, Debug)]
pub enum Op {
    All(Vec<u8>),
    One(Vec<u8>),
    Flush,
}

pub struct Member<'a> {
    pub whole: &'a [u8],
    pub cdata: &'a [u8],
    pub crc: u32,
    pub isize: u32,
}

/// The harness's own member splitter (independent of noodles' frame reader). Err = why malformed.
pub fn split_members(mut s: &[u8]) -> Result<Vec<Member<'_>>, String> {
    let mut out = vec![];
    while !s.is_empty() {
        if s.len() < 18 {
            return Err(format!("trailing {} bytes are not a member header", s.len()));
        }
        if s[0..4] != [0x1f, 0x8b, 0x08, 0x04] {
            return Err("bad ID1/ID2/CM/FLG".into());
        }
        if s[10..12] != [6, 0] || s[12..14] != *b"BC" || s[14..16] != [2, 0] {
            return Err("bad XLEN / BC subfield".into());
        }
        let bsize = u16::from_le_bytes([s[16], s[17]]) as usize;
        let total = bsize + 1;
        if total < 26 || total > s.len() {
            return Err(format!("BSIZE+1 = {total} does not fit (remaining {})", s.len()));
        }
        let m = &s[..total];
        let crc = u32::from_le_bytes(m[total - 8..total - 4].try_into().unwrap());
        let isize = u32::from_le_bytes(m[total - 4..].try_into().unwrap());
        out.push(Member { whole: m, cdata: &m[18..total - 8], crc, isize });
        s = &s[total..];
    }
    Ok(out)
}

pub const EOF: [u8; 28] = [
    0x1f, 0x8b, 0x08, 0x04, 0, 0, 0, 0, 0, 0xff, 0x06, 0, 0x42, 0x43, 0x02, 0, 0x1b, 0, 0x03, 0, 0, 0, 0, 0, 0, 0, 0, 0,
];

/// raw DEFLATE inflate into exactly `isize` bytes via flate2 (None unless the stream ends there)
pub fn raw_inflate(cdata: &[u8], isize: usize) -> Option<Vec<u8>> {
    let mut d = flate2::Decompress::new(false);
    let mut dst = vec![0u8; isize];
    match d.decompress(cdata, &mut dst, flate2::FlushDecompress::Finish) {
        Ok(flate2::Status::StreamEnd) if d.total_out() as usize == isize => Some(dst),
        _ => None,
    }
}

pub fn gen_payload(rng: &mut Rng, len: usize) -> Vec<u8> {
    match rng.below(4) {
        0 => rng.bytes(len), // incompressible
        1 => {
            let words: [&[u8]; 6] = [b"ACGT", b"chr1\t", b"noodles ", b"0/1:35:", b"\n", b"NNNNNNNN"];
            let mut v = Vec::with_capacity(len + 8);
            while v.len() < len {
                v.extend_from_slice(*rng.pick(&words));
            }
            v.truncate(len);
            v
        }
        2 => vec![rng.next() as u8; len],
        _ => {
            // mixed: runs of random and constant
            let mut v = Vec::with_capacity(len);
            while v.len() < len {
                let n = (1 + rng.below(5000) as usize).min(len - v.len());
                if rng.chance(1, 2) { v.extend(rng.bytes(n)) } else { v.extend(std::iter::repeat(b'x').take(n)) }
            }
            v
        }
    }
}

pub fn gen_len(rng: &mut Rng) -> usize {
    const EDGES: [usize; 8] = [65280, 65495, 65535, 65536, 2 * 65495, 65510, 32768, 3 * 65495];
    match rng.below(10) {
        0 => 0,
        1 => 1,
        2 | 3 | 4 => {
            let e = *rng.pick(&EDGES);
            (e as i64 + rng.below(5) as i64 - 2).max(0) as usize
        }
        5 | 6 => rng.below(3000) as usize,
        7 => 60000 + rng.below(12000) as usize,
        _ => rng.below(200_000) as usize,
    }
}

pub fn gen_history(rng: &mut Rng, payload: &[u8]) -> Vec<Op> {
    let mut ops = vec![];
    let mut rest = payload;
    let style = rng.below(6);
    loop {
        if rest.is_empty() {
            break;
        }
        let n = match style {
            0 => rest.len(),
            1 => 1 + rng.below(70_000) as usize,
            2 => 1 + rng.below(300) as usize,
            3 => *rng.pick(&[65495usize, 65494, 65496, 1, 32768]),
            4 => 1 + rng.below(20_000) as usize,
            _ => 1 + rng.below(140_000) as usize,
        }
        .min(rest.len());
        // tiny-chunk style on a large payload would be quadratic in the model; cap op count
        let n = if ops.len() > 400 { rest.len() } else { n };
        let (a, b) = rest.split_at(n);
        if rng.chance(1, 6) {
            // a single write() call: may accept less than offered
            ops.push(Op::One(a.to_vec()));
            // the caller will re-offer what was not accepted: handled at execution time
        } else {
            ops.push(Op::All(a.to_vec()));
        }
        rest = b;
        if rng.chance(1, 5) {
            ops.push(Op::Flush);
            if rng.chance(1, 4) {
                ops.push(Op::Flush);
            }
        }
        if rng.chance(1, 12) {
            ops.push(Op::All(vec![]));
        }
    }
    if payload.is_empty() && rng.chance(1, 2) {
        ops.push(Op::Flush);
    }
    ops
}

pub struct Hist {
    pub per_op: Vec<String>,
    pub end: String,
    pub sink: Vec<u8>,
    pub written: Vec<u8>,
    pub ops_done: Vec<Op>,
}

/// Run a history on the real writer. A short single write() is followed by re-offering the rest.
pub fn run_real(level: u8, finish: bool, ops: &[Op]) -> Hist {
    let mut sink: Vec<u8> = Vec::new();
    let mut per = vec![];
    let mut written = vec![];
    let mut ops_done = vec![];
    let mut end = String::new();
    {
        let lvl = bgzf::io::writer::CompressionLevel::new(level).unwrap();
        let mut w = bgzf::io::writer::Builder::default().set_compression_level(lvl).build_from_writer(&mut sink);
        let mut aborted = false;
        let mut queue: std::collections::VecDeque<Op> = ops.iter().cloned().collect();
        while let Some(op) = queue.pop_front() {
            let r = match &op {
                Op::All(b) => w.write_all(b).map(|_| {
                    written.extend_from_slice(b);
                    "ok".to_string()
                }),
                Op::One(b) => w.write(b).map(|amt| {
                    written.extend_from_slice(&b[..amt]);
                    if amt < b.len() {
                        queue.push_front(Op::All(b[amt..].to_vec()));
                    }
                    format!("amt{amt}")
                }),
                Op::Flush => w.flush().map(|_| "ok".to_string()),
            };
            ops_done.push(op);
            match r {
                Ok(tag) => per.push(format!("{tag}:{}:{}", w.position(), u64::from(w.virtual_position()))),
                Err(e) => {
                    per.push(errclass(&e).to_string());
                    aborted = true;
                    break;
                }
            }
        }
        if aborted {
            end = "aborted".into();
            let _ = w.try_finish();
        } else if finish {
            match w.try_finish() {
                Ok(()) => end = format!("ok pos={}", w.position()),
                Err(e) => end = errclass(&e).to_string(),
            }
            // try_finish was called explicitly; the writer's Drop runs it again on scope exit,
            // which would append a second EOF marker — take the writer apart instead
            let _ = w.into_inner();
        } else {
            drop(w);
            end = "ok pos=?".into();
        }
    }
    Hist { per_op: per, end, sink, written, ops_done }
}

fn fmt_ops(ops: &[Op]) -> String {
    if ops.is_empty() {
        return "-".into();
    }
    ops.iter()
        .map(|o| match o {
            Op::All(b) => format!("a{}", hex(b)),
            Op::One(b) => format!("w{}", hex(b)),
            Op::Flush => "f".into(),
        })
        .collect::<Vec<_>>()
        .join(",")
}

fn read_all_real(sink: &[u8]) -> Result<Vec<u8>, String> {
    let mut r = bgzf::io::Reader::new(sink);
    let mut out = vec![];
    match guarded(|| r.read_to_end(&mut out)) {
        Ok(Ok(_)) => Ok(out),
        Ok(Err(e)) => Err(errclass(&e).to_string()),
        Err(p) => Err(format!("panic:{p}")),
    }
}

/// the property, stated on the real code + the independent member parser
fn oracle_history(ctx: &mut Ctx, level: u8, finish: bool, ops: &[Op], h: &Hist, case: &str) {
    let payload: Vec<u8> = h.written.clone();
    let expected: Vec<u8> = ops
        .iter()
        .flat_map(|o| match o {
            Op::All(b) | Op::One(b) => b.clone(),
            Op::Flush => vec![],
        })
        .collect();
    ctx.eval(if payload.len() > 1 { Some(fnv(case.as_bytes())) } else { None });
    if h.end.starts_with("err") || h.end == "aborted" {
        ctx.fail("write-error", format!("writer returned an error on an in-memory sink: {:?} {}", h.per_op.last(), h.end), case.into());
        return;
    }
    if payload != expected {
        ctx.fail("write-lost", "bytes accepted by write differ from bytes offered".into(), case.into());
        return;
    }
    match read_all_real(&h.sink) {
        Ok(back) if back == payload => {}
        Ok(back) => {
            ctx.fail("roundtrip", format!("read back {} bytes (crc {:08x}), wrote {} bytes (crc {:08x}); level {level} finish={finish}", back.len(), crc32(&back), payload.len(), crc32(&payload)), case.into());
            return;
        }
        Err(e) => {
            ctx.fail("roundtrip", format!("reading the written file failed: {e}; level {level} finish={finish}"), case.into());
            return;
        }
    }
    // well-formedness with the independent parser
    let members = match split_members(&h.sink) {
        Ok(m) => m,
        Err(e) => {
            ctx.fail("malformed", format!("independent member parser rejects the file: {e}"), case.into());
            return;
        }
    };
    let mut cat = vec![];
    for (i, m) in members.iter().enumerate() {
        if m.whole.len() > 65536 || m.isize as usize > 65536 {
            ctx.fail("malformed", format!("member {i} exceeds 64 KiB (size {}, isize {})", m.whole.len(), m.isize), case.into());
            return;
        }
        match raw_inflate(m.cdata, m.isize as usize) {
            Some(d) => {
                if crc32(&d) != m.crc {
                    ctx.fail("malformed", format!("member {i}: CRC32 field {:08x} != crc32(data) {:08x}", m.crc, crc32(&d)), case.into());
                    return;
                }
                cat.extend_from_slice(&d);
            }
            None => {
                ctx.fail("malformed", format!("member {i}: CDATA does not inflate to ISIZE={} bytes", m.isize), case.into());
                return;
            }
        }
    }
    if cat != payload {
        ctx.fail("malformed", "concatenated members do not inflate to the payload".into(), case.into());
        return;
    }
    if members.last().map(|m| m.whole) != Some(&EOF[..]) {
        ctx.fail("no-eof-marker", format!("file does not end with the 28-byte EOF marker (finish={finish})"), case.into());
        return;
    }
    // exactly one EOF marker, no empty data members other than it
    let empties = members.iter().filter(|m| m.isize == 0).count();
    if empties != 1 {
        ctx.fail("malformed", format!("{empties} empty members (expected only the EOF marker)"), case.into());
    }
}

fn corr_history(ctx: &mut Ctx, level: u8, finish: bool, h: &Hist) {
    let table = match split_members(&h.sink) {
        Ok(ms) => {
            let v: Vec<String> = ms.iter().filter(|m| m.isize > 0).map(|m| format!("{}:{}:{}", m.crc, m.isize, hex(m.cdata))).collect();
            if v.is_empty() { "-".to_string() } else { v.join(",") }
        }
        Err(_) => "-".to_string(),
    };
    let per = if h.per_op.is_empty() { "-".to_string() } else { h.per_op.join(",") };
    let end = if h.end.starts_with("ok") {
        let pos = if finish { h.end.trim_start_matches("ok pos=").to_string() } else { format!("{}", h.sink.len()) };
        format!("end=ok sink={}:{} pos={}", h.sink.len(), crc32(&h.sink), pos)
    } else {
        format!("end={}", h.end)
    };
    ctx.corr(
        format!("c01 hist {level} {} {} {}", if finish { "fin" } else { "drop" }, fmt_ops(&h.ops_done), table),
        format!("{per} | {end}"),
    );
}

// ---------- hand-framed files for the reader suite ----------

pub fn stored_deflate(data: &[u8]) -> Vec<u8> {
    // one or more stored blocks
    let mut out = vec![];
    let mut chunks: Vec<&[u8]> = data.chunks(65535).collect();
    if chunks.is_empty() {
        chunks.push(&[]);
    }
    let n = chunks.len();
    for (i, c) in chunks.iter().enumerate() {
        out.push(if i + 1 == n { 1 } else { 0 });
        out.extend_from_slice(&(c.len() as u16).to_le_bytes());
        out.extend_from_slice(&(!(c.len() as u16)).to_le_bytes());
        out.extend_from_slice(c);
    }
    out
}

pub fn make_member(cdata: &[u8], crc: u32, isize: u32) -> Vec<u8> {
    let total = 18 + cdata.len() + 8;
    let mut m = vec![0x1f, 0x8b, 0x08, 0x04, 0, 0, 0, 0, 0, 0xff, 0x06, 0, 0x42, 0x43, 0x02, 0];
    m.extend_from_slice(&((total - 1) as u16).to_le_bytes());
    m.extend_from_slice(cdata);
    m.extend_from_slice(&crc.to_le_bytes());
    m.extend_from_slice(&isize.to_le_bytes());
    m
}

pub fn stored_member(data: &[u8]) -> Vec<u8> {
    make_member(&stored_deflate(data), crc32(data), data.len() as u32)
}

fn inf_table(file: &[u8]) -> String {
    // walk like a reader would, tolerate garbage
    let mut v = vec![];
    let mut s = file;
    while s.len() >= 18 {
        let total = u16::from_le_bytes([s[16], s[17]]) as usize + 1;
        if total < 26 || total > s.len() {
            break;
        }
        let m = &s[..total];
        let cdata = &m[18..total - 8];
        let isize = u32::from_le_bytes(m[total - 4..].try_into().unwrap()) as usize;
        if isize <= 65536 {
            let d = raw_inflate(cdata, isize);
            v.push(format!("{}:{}:{}:{}", crc32(cdata), cdata.len(), isize, d.map(|d| hex(&d)).unwrap_or("!".into())));
        }
        s = &s[total..];
    }
    if v.is_empty() { "-".into() } else { v.join(",") }
}

fn reader_suite(ctx: &mut Ctx) {
    let n = ctx.n(150, 3000);
    for _ in 0..n {
        let mut file = vec![];
        let mut expect: Result<Vec<u8>, ()> = Ok(vec![]);
        let nblk = ctx.rng.below(5);
        for _ in 0..nblk {
            let len = match ctx.rng.below(8) {
                0 => 0,
                1 => 65536,
                2 => 65535,
                3 => 65505,               // stored: member of exactly 65536 bytes (BSIZE = 0xffff)
                4 => 65504,
                _ => ctx.rng.below(300) as usize,
            };
            let d = gen_payload(&mut ctx.rng, len);
            if len == 65536 && ctx.rng.chance(1, 2) {
                // 65536 bytes of compressible data through real zlib would not fit a writer block; stored: 2 blocks
            }
            let mut m = stored_member(&d);
            if m.len() > 65536 {
                // cannot be framed (BSIZE is u16): use a compressible payload via flate2 instead
                let d2 = vec![b'A'; len];
                let mut c = flate2::Compress::new(flate2::Compression::new(6), false);
                let mut cd = Vec::with_capacity(70000);
                c.compress_vec(&d2, &mut cd, flate2::FlushCompress::Finish).unwrap();
                m = make_member(&cd, crc32(&d2), len as u32);
                if let Ok(e) = expect.as_mut() { e.extend_from_slice(&d2) }
            } else if let Ok(e) = expect.as_mut() {
                e.extend_from_slice(&d)
            }
            file.extend_from_slice(&m);
        }
        match ctx.rng.below(12) {
            0 => {}                                   // no EOF marker
            1 => { file.extend_from_slice(&EOF); file.extend_from_slice(&EOF); }
            2 => { file.extend_from_slice(&EOF); let k = 1 + ctx.rng.below(17) as usize; file.extend(ctx.rng.bytes(k)); } // < 18 trailing bytes: clean EOF per the code
            3 => { // corrupt a header byte of some member
                file.extend_from_slice(&EOF);
                let i = *ctx.rng.pick(&[0usize, 1, 2, 3, 10, 12, 13, 14, 4, 9]);
                file[i] ^= 0x40;
                if ![4usize, 9].contains(&i) { expect = Err(()); }
            }
            4 => { // CRC mismatch in the last data member, if any
                if !file.is_empty() { let k = file.len() - 8; file[k] ^= 1; expect = Err(()); }
                file.extend_from_slice(&EOF);
            }
            5 => { // truncated inside the last member
                file.extend_from_slice(&EOF);
                let cut = 1 + ctx.rng.below(27) as usize;
                file.truncate(file.len() - cut);
                if 28 - cut >= 18 { expect = Err(()); }
            }
            6 => { // BSIZE too small
                let mut m = EOF.to_vec(); m[16] = ctx.rng.below(25) as u8; m[17] = 0; file.extend_from_slice(&m); expect = Err(());
            }
            7 => { // ISIZE > 65536
                let mut m = EOF.to_vec(); m[24..28].copy_from_slice(&(65537u32 + ctx.rng.below(5) as u32).to_le_bytes()); file.extend_from_slice(&m); expect = Err(());
            }
            _ => file.extend_from_slice(&EOF),
        }
        let got = read_all_real(&file);
        let ans = match &got {
            Ok(d) => format!("ok:{}:{}", d.len(), crc32(d)),
            Err(e) => e.clone(),
        };
        ctx.corr(format!("c01 readall {} {}", hex(&file), inf_table(&file)), ans);
        ctx.eval(Some(fnv(&file)));
        match (&got, &expect) {
            (Ok(d), Ok(e)) if d == e => {}
            (Err(e), Err(())) if !e.starts_with("panic") => {}
            _ => ctx.fail("reader", format!("hand-framed file: got {:?}, expected {}", got.as_ref().map(|d| d.len()), match &expect { Ok(e) => format!("{} bytes", e.len()), Err(()) => "an error".into() }), format!("readfile {}", hex(&file))),
        }
        ctx.bump("reader_handframed");
    }
}

pub fn run(ctx: &mut Ctx) {
    if let Some(case) = ctx.replay_only.clone() {
        replay(ctx, &case);
        return;
    }
    let n = ctx.n(220, 5000);
    let mut dumped = 0;
    let pydir = format!("{}/pyref", ctx.dir);
    std::fs::create_dir_all(&pydir).ok();
    for f in std::fs::read_dir(&pydir).into_iter().flatten().flatten() {
        let _ = std::fs::remove_file(f.path());
    }
    for it in 0..n {
        let sub = ctx.seed.wrapping_mul(7_000_003).wrapping_add(it);
        let (level, finish, ops) = gen_case(sub);
        let h = run_real(level, finish, &ops);
        let case = format!("hist {sub}");
        oracle_history(ctx, level, finish, &ops, &h, &case);
        // the model replays what was executed; keep request lines below ~1.5 MB
        if h.written.len() <= 300_000 {
            corr_history(ctx, level, finish, &h);
        }
        ctx.bump(&format!("level_{level}"));
        ctx.bump(if finish { "end_finish" } else { "end_drop" });
        ctx.bump(&format!("payload_len_class_{}", match h.written.len() { 0 => "0", 1..=100 => "1-100", 101..=65494 => "101-65494", 65495..=65536 => "65495-65536", 65537..=131000 => "64k-128k", _ => ">128k" }));
        ctx.bump_by("blocks_written", split_members(&h.sink).map(|m| m.len() as u64).unwrap_or(0));
        if split_members(&h.sink).map(|m| m.iter().any(|x| x.whole.len() == 65536)).unwrap_or(false) {
            ctx.bump("member_of_exactly_64KiB");
        }
        if dumped < 16 && (it % (n / 16).max(1) == 0) {
            let _ = std::fs::write(format!("{pydir}/{dumped:02}.bgzf"), &h.sink);
            let _ = std::fs::write(format!("{pydir}/{dumped:02}.raw"), &h.written);
            dumped += 1;
        }
        if it == 0 {
            ctx.sample(|| format!("level {level} finish={finish} ops={}", fmt_ops(&ops).chars().take(120).collect::<String>()));
        }
    }
    // every staged length around the limits, incompressible, every level (level-0 fallback zone)
    // (zlib's output for incompressible input is input + ~20 bytes above level 1, so lengths just
    // below the staging limit give members of exactly 64 KiB and lengths at the limit take the
    // level-0 fallback)
    let lens: Vec<usize> = if ctx.tier_thorough { (65400..=65600).collect() } else { vec![65484, 65485, 65486, 65487, 65488, 65489, 65490, 65491, 65492, 65493, 65494, 65495, 65496, 65510, 65535, 65536, 65537] };
    for &len in &lens {
        for level in 0..=9u8 {
            if !ctx.tier_thorough && ![0u8, 1, 2, 6, 9].contains(&level) {
                continue;
            }
            let mut r = Rng::new(len as u64 * 31 + level as u64);
            let payload = r.bytes(len);
            let ops = vec![Op::All(payload)];
            let h = run_real(level, true, &ops);
            oracle_history(ctx, level, true, &ops, &h, &format!("incompressible {len} {level}"));
            corr_history(ctx, level, true, &h);
            if split_members(&h.sink).map(|m| m.iter().any(|x| x.whole.len() == 65536)).unwrap_or(false) {
                ctx.bump("member_of_exactly_64KiB");
            }
            ctx.bump("incompressible_edge");
        }
    }
    reader_suite(ctx);
    super::c01_stored::run(ctx);
}

fn gen_case(sub: u64) -> (u8, bool, Vec<Op>) {
    let mut rng = Rng::new(sub);
    let level = rng.below(10) as u8;
    let finish = rng.chance(1, 2);
    let len = gen_len(&mut rng);
    let payload = gen_payload(&mut rng, len);
    let ops = gen_history(&mut rng, &payload);
    (level, finish, ops)
}

fn replay(ctx: &mut Ctx, case: &[String]) {
    if super::c01_stored::replay(ctx, case) { return; }
    match case.first().map(|s| s.as_str()) {
        Some("hist") => {
            let sub: u64 = case[1].parse().unwrap();
            let (level, finish, ops) = gen_case(sub);
            let h = run_real(level, finish, &ops);
            oracle_history(ctx, level, finish, &ops, &h, &format!("hist {sub}"));
        }
        Some("incompressible") => {
            let len: usize = case[1].parse().unwrap();
            let level: u8 = case[2].parse().unwrap();
            let mut r = Rng::new(len as u64 * 31 + level as u64);
            let ops = vec![Op::All(r.bytes(len))];
            let h = run_real(level, true, &ops);
            oracle_history(ctx, level, true, &ops, &h, &format!("incompressible {len} {level}"));
        }
        Some("readfile") => {
            let file = unhex(&case[1]);
            let got = read_all_real(&file);
            if let Err(e) = &got {
                if e.starts_with("panic") {
                    ctx.fail("reader", format!("panic {e}"), case.join(" "));
                }
            }
            println!("readfile: {:?}", got.map(|d| d.len()));
        }
        _ => {}
    }
}
