use crate::common::Ctx;
pub mod c15;
pub mod c15_text;
pub mod c15_bin;
pub mod c15_codec;
pub mod c15_rec;
pub mod c07;
pub mod c07_enc;
pub mod c07_sam;
pub mod c08;
pub mod c08_tok;
pub mod c08_order1;
pub mod c08_aac;
pub mod c08_fqz;
pub mod c16;
pub mod c16_fmtmodel;
pub mod c16_more2;
pub mod c12;
pub mod c12_more;
pub mod c20;
pub mod c20_more;
pub mod c06;
pub mod c09;
pub mod c09_header;
pub mod c14;
pub mod c14_more;
pub mod c05;
pub mod c05_reenc;
pub mod c05_fast;
pub mod c13;
pub mod c13_more;
pub mod c13_seek;
pub mod c18;
pub mod c10;
pub mod c10_record;
pub mod c19;
pub mod c19_more;
pub mod c01;
pub mod c02;
pub mod c03;
pub mod c03_trunc;
pub mod c04;
pub mod c04_span;
pub mod c04_join;
pub mod c11;
pub mod c11_more;
pub mod c11_indexer;
pub mod c17;
pub mod c17_index;

pub fn dispatch(ctx: &mut Ctx) -> bool {
    match ctx.prop.as_str() {
        "C01" => c01::run(ctx),
        "C02" => c02::run(ctx),
        "C03" => c03::run(ctx),
        "C03child" => c03::run_child(ctx),
        "C04" => c04::run(ctx),
        "C11" => c11::run(ctx),
        "C17" => c17::run(ctx),
        "C19" => c19::run(ctx),
        "C10" => c10::run(ctx),
        "C18" => c18::run(ctx),
        "C13" => c13::run(ctx),
        "C05" => c05::run(ctx),
        "C14" => c14::run(ctx),
        "C09" => c09::run(ctx),
        "C06" => c06::run(ctx),
        "C20" => c20::run(ctx),
        "C12" => c12::run(ctx),
        "C16" => c16::run(ctx),
        "C08" => c08::run(ctx),
        "C07" => c07::run(ctx),
        "C15" => c15::run(ctx),
        "C15child" => c15::run_child(ctx),
        _ => return false,
    }
    true
}
