//! C09 — VCF records and headers round-trip through text; lazy and eager views agree.
//!
//! Correspondence (`c09 rec|line|hdr …`): the real writer / eager reader / lazy record are run on
//! generated values and the Lean model (Noodles/Vcf/*.lean) must give the identical canonical line.
//! Oracle: write → parse equality (floats by bit pattern, ordered maps), lazy accessors = eager
//! record, variant_end (eager) = variant_end (lazy) = the harness's own span rule.
use crate::common::*;
use noodles_core::Position;
use noodles_vcf::{
    self as vcf,
    header::{
        record::value::{
            map::{self, AlternativeAllele, Contig, Filter, Format, Info},
            Collection, Map,
        },
        FileFormat,
    },
    variant::{
        io::Write as _,
        record::samples::series::value::genotype::Phasing,
        record_buf::{
            info::field::{value::Array as IArray, Value as IValue},
            samples::sample::{
                value::{genotype::Allele, Array as SArray, Genotype},
                Value as SValue,
            },
            Samples,
        },
        Record as _, RecordBuf,
    },
};

type INum = map::info::Number;
type ITy = map::info::Type;
type FNum = map::format::Number;
type FTy = map::format::Type;

// ------------------------------------------------------------------------------------------
// wire encoding (shared with lean/Noodles/Vcf/DriverC09.lean)

pub(super) fn list(xs: Vec<String>) -> String {
    if xs.is_empty() { "~".into() } else { xs.join(",") }
}

pub(super) fn hx(s: &str) -> String {
    hex(s.as_bytes())
}

pub(super) fn enc_inum(n: INum) -> String {
    match n {
        INum::Count(k) => k.to_string(),
        INum::AlternateBases => "A".into(),
        INum::ReferenceAlternateBases => "R".into(),
        INum::Samples => "G".into(),
        INum::Unknown => "U".into(),
    }
}
pub(super) fn enc_fnum(n: FNum) -> String {
    match n {
        FNum::Count(k) => k.to_string(),
        FNum::AlternateBases => "A".into(),
        FNum::ReferenceAlternateBases => "R".into(),
        FNum::Samples => "G".into(),
        FNum::LocalAlternateBases => "LA".into(),
        FNum::LocalReferenceAlternateBases => "LR".into(),
        FNum::LocalSamples => "LG".into(),
        FNum::Ploidy => "P".into(),
        FNum::BaseModifications => "M".into(),
        FNum::Unknown => "U".into(),
    }
}
pub(super) fn enc_ity(t: ITy) -> &'static str {
    match t {
        ITy::Integer => "I",
        ITy::Float => "F",
        ITy::Flag => "G",
        ITy::Character => "C",
        ITy::String => "S",
    }
}
pub(super) fn enc_fty(t: FTy) -> &'static str {
    match t {
        FTy::Integer => "I",
        FTy::Float => "F",
        FTy::Character => "C",
        FTy::String => "S",
    }
}

/// the harness's own (small) copy of the reserved-key definitions that the generator uses
/// undeclared; every other generated key contains a lower-case letter and is never reserved.
fn info_defs(ver: (u32, u32)) -> Vec<(&'static str, INum, ITy)> {
    if ver.0 != 4 || !(3..=5).contains(&ver.1) {
        return vec![];
    }
    let svlen = if ver.1 == 3 { INum::Unknown } else { INum::AlternateBases };
    vec![
        ("END", INum::Count(1), ITy::Integer),
        ("SVLEN", svlen, ITy::Integer),
        ("DP", INum::Count(1), ITy::Integer),
        ("AF", INum::AlternateBases, ITy::Float),
        ("DB", INum::Count(0), ITy::Flag),
        ("AA", INum::Count(1), ITy::String),
        ("MQ", INum::Count(1), ITy::Float),
        ("AC", INum::AlternateBases, ITy::Integer),
        // reachable from MQ by the line mutator's inserted `0`
        ("MQ0", INum::Count(1), ITy::Integer),
    ]
}
fn format_defs(ver: (u32, u32)) -> Vec<(&'static str, FNum, FTy)> {
    if ver.0 != 4 || !(3..=5).contains(&ver.1) {
        return vec![];
    }
    let mut v = vec![
        ("GT", FNum::Count(1), FTy::String),
        ("DP", FNum::Count(1), FTy::Integer),
        ("AD", FNum::ReferenceAlternateBases, FTy::Integer),
        ("GQ", FNum::Count(1), FTy::Integer),
        ("GL", FNum::Samples, FTy::Float),
        ("FT", FNum::Count(1), FTy::String),
        ("PL", FNum::Samples, FTy::Integer),
        ("HQ", FNum::Count(2), FTy::Integer),
        ("PS", FNum::Count(1), FTy::Integer),
    ];
    if ver.1 == 5 {
        v.push(("LEN", FNum::Count(1), FTy::Integer));
    }
    v
}

fn ver_of(h: &vcf::Header) -> (u32, u32) {
    (h.file_format().major(), h.file_format().minor())
}

pub(super) fn enc_hctx(h: &vcf::Header) -> String {
    let ver = ver_of(h);
    let infos = list(h.infos().iter().map(|(k, m)| format!("{}:{}:{}", hx(k), enc_inum(m.number()), enc_ity(m.ty()))).collect());
    let formats = list(h.formats().iter().map(|(k, m)| format!("{}:{}:{}", hx(k), enc_fnum(m.number()), enc_fty(m.ty()))).collect());
    let idefs = list(info_defs(ver).into_iter().map(|(k, n, t)| format!("{}:{}:{}", hx(k), enc_inum(n), enc_ity(t))).collect());
    let fdefs = list(format_defs(ver).into_iter().map(|(k, n, t)| format!("{}:{}:{}", hx(k), enc_fnum(n), enc_fty(t))).collect());
    format!("{}.{}/{}/{}/{}/{}/{}", ver.0, ver.1, infos, formats, h.sample_names().len(), idefs, fdefs)
}

fn enc_char(c: char) -> String {
    let mut b = [0u8; 4];
    hex(c.encode_utf8(&mut b).as_bytes())
}

fn enc_arr<T>(tag: &str, xs: &[Option<T>], f: impl Fn(&T) -> String) -> String {
    format!("A{tag}{}", xs.iter().map(|x| x.as_ref().map(&f).unwrap_or_else(|| ".".into())).collect::<Vec<_>>().join(";"))
}

fn enc_ival(v: &Option<IValue>) -> String {
    match v {
        None => ".".into(),
        Some(IValue::Flag) => "G".into(),
        Some(IValue::Integer(n)) => format!("I{n}"),
        Some(IValue::Float(f)) => format!("F{}", f.to_bits()),
        Some(IValue::Character(c)) => format!("C{}", enc_char(*c)),
        Some(IValue::String(s)) => format!("S{}", hx(s)),
        Some(IValue::Array(IArray::Integer(xs))) => enc_arr("I", xs, |n| n.to_string()),
        Some(IValue::Array(IArray::Float(xs))) => enc_arr("F", xs, |f| f.to_bits().to_string()),
        Some(IValue::Array(IArray::Character(xs))) => enc_arr("C", xs, |c| enc_char(*c)),
        Some(IValue::Array(IArray::String(xs))) => enc_arr("S", xs, |s| hx(s)),
    }
}

fn enc_sval(v: &Option<SValue>) -> String {
    match v {
        None => ".".into(),
        Some(SValue::Integer(n)) => format!("I{n}"),
        Some(SValue::Float(f)) => format!("F{}", f.to_bits()),
        Some(SValue::Character(c)) => format!("C{}", enc_char(*c)),
        Some(SValue::String(s)) => format!("S{}", hx(s)),
        Some(SValue::Genotype(g)) => format!(
            "T{}",
            g.as_ref()
                .iter()
                .map(|a| format!(
                    "{}{}",
                    a.position().map(|p| p.to_string()).unwrap_or_else(|| ".".into()),
                    if a.phasing() == Phasing::Phased { "p" } else { "u" }
                ))
                .collect::<Vec<_>>()
                .join(";")
        ),
        Some(SValue::Array(SArray::Integer(xs))) => enc_arr("I", xs, |n| n.to_string()),
        Some(SValue::Array(SArray::Float(xs))) => enc_arr("F", xs, |f| f.to_bits().to_string()),
        Some(SValue::Array(SArray::Character(xs))) => enc_arr("C", xs, |c| enc_char(*c)),
        Some(SValue::Array(SArray::String(xs))) => enc_arr("S", xs, |s| hx(s)),
    }
}

/// the ten words of a record
fn enc_rec_words(r: &RecordBuf) -> Vec<String> {
    let samples = if r.samples().is_empty() {
        "!".to_string()
    } else {
        r.samples().values().map(|s| list(s.values().iter().map(enc_sval).collect())).collect::<Vec<_>>().join("/")
    };
    vec![
        hx(r.reference_sequence_name()),
        r.variant_start().map(|p| usize::from(p).to_string()).unwrap_or_else(|| "-".into()),
        list(r.ids().as_ref().iter().map(|s| hx(s)).collect()),
        hx(r.reference_bases()),
        list(r.alternate_bases().as_ref().iter().map(|s| hx(s)).collect()),
        r.quality_score().map(|q| q.to_bits().to_string()).unwrap_or_else(|| ".".into()),
        list(r.filters().as_ref().iter().map(|s| hx(s)).collect()),
        list(r.info().as_ref().iter().map(|(k, v)| format!("{}={}", hx(k), enc_ival(v))).collect()),
        list(r.samples().keys().as_ref().iter().map(|s| hx(s)).collect()),
        samples,
    ]
}

pub(super) fn enc_rec(r: &RecordBuf) -> String {
    enc_rec_words(r).join("|")
}

// ------------------------------------------------------------------------------------------
// float tables: the float formatter / parser are parameters of the model (FloatFmt); the harness
// passes the real library's answers for exactly the floats / tokens of the case.

pub(super) fn floats_of(r: &RecordBuf) -> Vec<f32> {
    let mut v = vec![];
    if let Some(q) = r.quality_score() {
        v.push(q);
    }
    for (_, x) in r.info().as_ref() {
        match x {
            Some(IValue::Float(f)) => v.push(*f),
            Some(IValue::Array(IArray::Float(xs))) => v.extend(xs.iter().flatten().copied()),
            _ => {}
        }
    }
    for s in r.samples().values() {
        for x in s.values() {
            match x {
                Some(SValue::Float(f)) => v.push(*f),
                Some(SValue::Array(SArray::Float(xs))) => v.extend(xs.iter().flatten().copied()),
                _ => {}
            }
        }
    }
    v
}

fn float_text(f: f32) -> String {
    format!("{f}")
}

/// the float law the theorems assume, checked on every float the harness formats
fn float_law_ok(f: f32) -> bool {
    let t = float_text(f);
    let canon = !f.is_nan() || f.to_bits() == 0x7fc0_0000;
    let plain = !t.is_empty() && t != "." && !t.bytes().any(|b| matches!(b, b'\t' | b'\n' | b'\r' | b';' | b'=' | b',' | b':' | b'%' | b'/' | b'|'));
    let back = t.parse::<f32>().map(|g| g.to_bits());
    plain && (!canon || back == Ok(f.to_bits()))
}

pub(super) fn fmt_table(fs: &[f32]) -> String {
    let mut seen = std::collections::BTreeSet::new();
    let mut out = vec![];
    for f in fs {
        if seen.insert(f.to_bits()) {
            out.push(format!("{}:{}", f.to_bits(), hx(&float_text(*f))));
        }
    }
    list(out)
}

/// every token of `text` (split on the VCF delimiters) that the real `str::parse::<f32>` accepts
pub(super) fn prs_table(text: &str) -> String {
    let mut seen = std::collections::BTreeSet::new();
    let mut out = vec![];
    for tok in text.split(|c| matches!(c, '\t' | ';' | '=' | ',' | ':')) {
        if tok.is_empty() || tok.len() > 4096 {
            continue;
        }
        if let Ok(f) = tok.parse::<f32>() {
            if seen.insert(tok.to_string()) {
                out.push(format!("{}:{}", hx(tok), f.to_bits()));
            }
        }
    }
    list(out)
}

// ------------------------------------------------------------------------------------------
// the real code, canonicalised

fn variant_of(dbg: &str) -> String {
    let end = dbg.find(|c: char| !(c.is_ascii_alphanumeric() || c == '_')).unwrap_or(dbg.len());
    dbg[..end].to_string()
}

fn io_err_variant(e: &std::io::Error) -> String {
    match e.get_ref() {
        Some(inner) => format!("err:{}", variant_of(&format!("{inner:?}"))),
        None => errclass(e).to_string(),
    }
}

/// real writer: the line without its trailing LF, or the error's top-level variant
pub(super) fn real_write(h: &vcf::Header, r: &RecordBuf) -> Result<String, String> {
    let mut w = vcf::io::Writer::new(Vec::new());
    match w.write_variant_record(h, r) {
        Ok(()) => {
            let out = w.into_inner();
            let s = String::from_utf8(out).map_err(|_| "err:non-utf8".to_string())?;
            match s.strip_suffix('\n') {
                Some(t) if !t.contains('\n') => Ok(t.to_string()),
                _ => Err("err:framing".into()),
            }
        }
        Err(e) => Err(io_err_variant(&e)),
    }
}

fn real_eager(h: &vcf::Header, line: &str) -> Result<RecordBuf, String> {
    let src = format!("{line}\n");
    let mut reader = vcf::io::Reader::new(src.as_bytes());
    let mut rec = RecordBuf::default();
    match reader.read_record_buf(h, &mut rec) {
        Ok(0) => Err("err:eof".into()),
        Ok(_) => Ok(rec),
        Err(e) => Err(io_err_variant(&e)),
    }
}

fn real_lazy(line: &str) -> Result<vcf::Record, String> {
    let src = format!("{line}\n");
    let mut reader = vcf::io::Reader::new(src.as_bytes());
    let mut rec = vcf::Record::default();
    match reader.read_record(&mut rec) {
        Ok(0) => Err("err".into()),
        Ok(_) => Ok(rec),
        Err(_) => Err("err".into()),
    }
}

fn fmt_end(r: std::io::Result<Position>) -> String {
    match r {
        Ok(p) => usize::from(p).to_string(),
        Err(_) => "err".into(),
    }
}

/// `e=… l=… end=…/…` for a text line on the real code
pub(super) fn real_line_answer(h: &vcf::Header, line: &str) -> (String, Result<RecordBuf, String>, Option<RecordBuf>) {
    let eager = real_eager(h, line);
    let e = match &eager {
        Ok(r) => enc_rec(r),
        Err(c) => c.clone(),
    };
    let eend = match &eager {
        Ok(r) => fmt_end(r.variant_end(h)),
        Err(_) => "-".into(),
    };
    let lazy = real_lazy(line);
    let (l, lend, lbuf) = match &lazy {
        Ok(rec) => {
            let conv = RecordBuf::try_from_variant_record(h, rec);
            let lend = fmt_end(rec.variant_end(h));
            match conv {
                Ok(b) => (enc_rec(&b), lend, Some(b)),
                Err(_) => ("err".to_string(), lend, None),
            }
        }
        Err(c) => (c.clone(), "-".to_string(), None),
    };
    (format!("e={e} l={l} end={eend}/{lend}"), eager, lbuf)
}

// ------------------------------------------------------------------------------------------
// generators

const VERSIONS: [(u32, u32); 6] = [(4, 1), (4, 2), (4, 3), (4, 4), (4, 5), (4, 2)];

fn gen_text(rng: &mut Rng, reserved_heavy: bool) -> String {
    // strings over an alphabet that stresses the escape set; never empty
    const PLAIN: &[&str] = &["a", "b", "Z", "0", "9", "_", "-", "+", "x", "y", "q", "e", "N", "1"];
    const RESERVED: &[&str] = &[";", "=", "%", ",", ":", "\t", "\n", "\r", " ", ".", "/", "|", "<", ">", "\"", "\\", "%2", "%3B", "%zz", "\u{7f}", "\u{1}", "é", "β", "\u{20ac}", "\u{1F9EC}", "\u{a0}", "\u{2028}"];
    match rng.below(12) {
        0 => return ".".into(),
        1 => return "%2E".into(),
        2 => return "%".into(),
        _ => {}
    }
    let nmax = if rng.chance(1, 8) { 20 } else { 5 };
    let n = 1 + rng.below(nmax);
    let mut s = String::new();
    for _ in 0..n {
        let pool = if rng.chance(1, if reserved_heavy { 2 } else { 5 }) { RESERVED } else { PLAIN };
        s.push_str(*rng.pick(pool));
    }
    s
}

fn gen_char(rng: &mut Rng) -> char {
    const CS: &[char] = &['a', 'Z', '0', ';', '=', '%', ',', '.', ':', '\t', '\n', '\r', ' ', '/', '|', '\u{7f}', '\u{1}', '\u{0}', 'é', 'β', '\u{20ac}', '\u{1F9EC}', '~', '!', '#', '*'];
    *rng.pick(CS)
}

fn gen_i32(rng: &mut Rng) -> i32 {
    match rng.below(10) {
        0 => 0,
        1 => -1,
        2 => i32::MAX,
        3 => i32::MIN + 8,
        4 => rng.next() as i32 % 1000,
        5 => -(rng.below(1_000_000) as i32),
        6 => rng.below(1 << 31) as i32,
        _ => rng.below(300) as i32,
    }
}

/// canonical floats only (every non-NaN bit pattern, and the one NaN that `"NaN".parse()` gives)
fn gen_f32(rng: &mut Rng) -> f32 {
    const FS: &[f32] = &[0.0, -0.0, 1.0, 0.5, 29.5, 1e-5, 1e10, 3.0e38, f32::MAX, f32::MIN_POSITIVE, 1e-45, f32::INFINITY, f32::NEG_INFINITY, 0.1, 100.0, -2.5, 16777216.0, 0.333_333_34];
    match rng.below(8) {
        0 => f32::from_bits(0x7fc0_0000),
        1 | 2 => loop {
            let f = f32::from_bits(rng.next() as u32);
            if !f.is_nan() {
                break f;
            }
        },
        3 => (rng.below(100_000) as f32) / 100.0,
        _ => *rng.pick(FS),
    }
}

fn some_or_missing<T>(rng: &mut Rng, x: T) -> Option<T> {
    if rng.chance(1, 5) { None } else { Some(x) }
}

/// array lengths: never empty, and a one-element array is never `[missing]` (both are outside the
/// text grammar: they read back as an error / a missing value)
fn gen_array<T>(rng: &mut Rng, mut f: impl FnMut(&mut Rng) -> T) -> Vec<Option<T>> {
    let n = 1 + rng.below(4) as usize;
    let mut v: Vec<Option<T>> = (0..n).map(|_| { let x = f(rng); some_or_missing(rng, x) }).collect();
    if n == 1 && v[0].is_none() {
        v[0] = Some(f(rng));
    }
    v
}

#[derive(Clone, Copy, PartialEq, Debug)]
enum Shape {
    Zero,
    One,
    Many,
}
fn shape_i(n: INum) -> Shape {
    match n {
        INum::Count(0) => Shape::Zero,
        INum::Count(1) => Shape::One,
        _ => Shape::Many,
    }
}
fn shape_f(n: FNum) -> Shape {
    match n {
        FNum::Count(0) => Shape::Zero,
        FNum::Count(1) => Shape::One,
        _ => Shape::Many,
    }
}

fn gen_ival(rng: &mut Rng, num: INum, ty: ITy) -> Option<IValue> {
    if rng.chance(1, 12) {
        return None;
    }
    let heavy = rng.chance(1, 2);
    Some(match (shape_i(num), ty) {
        (_, ITy::Flag) => IValue::Flag,
        (Shape::Zero, _) => return None,
        (Shape::One, ITy::Integer) => IValue::Integer(gen_i32(rng)),
        (Shape::One, ITy::Float) => IValue::Float(gen_f32(rng)),
        (Shape::One, ITy::Character) => IValue::Character(gen_char(rng)),
        (Shape::One, ITy::String) => IValue::String(gen_text(rng, heavy)),
        (Shape::Many, ITy::Integer) => IValue::Array(IArray::Integer(gen_array(rng, gen_i32))),
        (Shape::Many, ITy::Float) => IValue::Array(IArray::Float(gen_array(rng, gen_f32))),
        (Shape::Many, ITy::Character) => IValue::Array(IArray::Character(gen_array(rng, gen_char))),
        (Shape::Many, ITy::String) => IValue::Array(IArray::String(gen_array(rng, |r| gen_text(r, heavy)))),
    })
}

fn gen_sval(rng: &mut Rng, num: FNum, ty: FTy) -> Option<SValue> {
    if rng.chance(1, 8) {
        return None;
    }
    let heavy = rng.chance(1, 2);
    Some(match (shape_f(num), ty) {
        (Shape::Zero, _) => return None,
        (Shape::One, FTy::Integer) => SValue::Integer(gen_i32(rng)),
        (Shape::One, FTy::Float) => SValue::Float(gen_f32(rng)),
        (Shape::One, FTy::Character) => SValue::Character(gen_char(rng)),
        (Shape::One, FTy::String) => SValue::String(gen_text(rng, heavy)),
        (Shape::Many, FTy::Integer) => SValue::Array(SArray::Integer(gen_array(rng, gen_i32))),
        (Shape::Many, FTy::Float) => SValue::Array(SArray::Float(gen_array(rng, gen_f32))),
        (Shape::Many, FTy::Character) => SValue::Array(SArray::Character(gen_array(rng, gen_char))),
        (Shape::Many, FTy::String) => SValue::Array(SArray::String(gen_array(rng, |r| gen_text(r, heavy)))),
    })
}

/// the first allele's phasing that the text of a pre-4.4 genotype implies
fn implied_first(alleles: &[Allele]) -> Phasing {
    if alleles.iter().skip(1).any(|a| a.phasing() == Phasing::Unphased) { Phasing::Unphased } else { Phasing::Phased }
}

fn gen_genotype(rng: &mut Rng, ver: (u32, u32)) -> Genotype {
    let ploidy = match rng.below(8) {
        0 => 1,
        1 => 3,
        2 => 4,
        3 => 1 + rng.below(6) as usize,
        _ => 2,
    };
    let style = rng.below(4);
    let mut alleles: Vec<Allele> = (0..ploidy)
        .map(|_| {
            let pos = if rng.chance(1, 6) { None } else { Some(match rng.below(10) { 0 => 10 + rng.below(200) as usize, 1 => usize::MAX, _ => rng.below(4) as usize }) };
            let ph = match style {
                0 => Phasing::Phased,
                1 => Phasing::Unphased,
                _ => if rng.chance(1, 2) { Phasing::Phased } else { Phasing::Unphased },
            };
            Allele::new(pos, ph)
        })
        .collect();
    if ver < (4, 4) {
        // the text has no place for the first allele's phasing: use the one the reader infers
        let p = implied_first(&alleles);
        *alleles[0].phasing_mut() = p;
        // a haploid missing call is written `.` which is the missing *value*
        if alleles.len() == 1 && alleles[0].position().is_none() {
            *alleles[0].position_mut() = Some(0);
        }
    }
    alleles.into_iter().collect()
}

struct InfoDecl {
    key: String,
    num: INum,
    ty: ITy,
    declared: bool,
}
struct FormatDecl {
    key: String,
    num: FNum,
    ty: FTy,
    declared: bool,
}

pub(super) struct Hc {
    pub(super) header: vcf::Header,
    ver: (u32, u32),
    infos: Vec<InfoDecl>,   // keys usable in records with the typing the reader will apply
    formats: Vec<FormatDecl>,
}

pub(super) fn gen_hctx(rng: &mut Rng) -> Hc {
    let ver = *rng.pick(&VERSIONS);
    let mut b = vcf::Header::builder().set_file_format(FileFormat::new(ver.0, ver.1));
    let mut infos = vec![];
    let inums = [INum::Count(0), INum::Count(1), INum::Count(2), INum::Count(3), INum::AlternateBases, INum::ReferenceAlternateBases, INum::Samples, INum::Unknown];
    let itys = [ITy::Integer, ITy::Float, ITy::Flag, ITy::Character, ITy::String];
    let n = rng.below(9);
    for _ in 0..n {
        let ty = *rng.pick(&itys);
        let num = if ty == ITy::Flag { INum::Count(0) } else { *rng.pick(&inums[1..]) };
        let key = format!("i{}{}", enc_ity(ty), enc_inum(num));
        if infos.iter().any(|d: &InfoDecl| d.key == key) {
            continue;
        }
        b = b.add_info(key.clone(), Map::<Info>::new(num, ty, "d"));
        infos.push(InfoDecl { key, num, ty, declared: true });
    }
    // reserved keys: declared with the reserved definition, or left to the version's definition
    for (k, n, t) in [("END", INum::Count(1), ITy::Integer), ("SVLEN", if ver <= (4, 3) { INum::Unknown } else { INum::AlternateBases }, ITy::Integer), ("DP", INum::Count(1), ITy::Integer), ("AF", INum::AlternateBases, ITy::Float), ("DB", INum::Count(0), ITy::Flag), ("AA", INum::Count(1), ITy::String), ("MQ", INum::Count(1), ITy::Float), ("AC", INum::AlternateBases, ITy::Integer)] {
        match rng.below(4) {
            0 | 1 => {
                b = b.add_info(k, Map::<Info>::new(n, t, "r"));
                infos.push(InfoDecl { key: k.into(), num: n, ty: t, declared: true });
            }
            2 if ver >= (4, 3) => infos.push(InfoDecl { key: k.into(), num: n, ty: t, declared: false }),
            _ => {}
        }
    }
    let mut formats = vec![];
    let fnums = [FNum::Count(1), FNum::Count(2), FNum::Count(4), FNum::AlternateBases, FNum::ReferenceAlternateBases, FNum::Samples, FNum::LocalAlternateBases, FNum::LocalReferenceAlternateBases, FNum::LocalSamples, FNum::Ploidy, FNum::BaseModifications, FNum::Unknown];
    let ftys = [FTy::Integer, FTy::Float, FTy::Character, FTy::String];
    let n = rng.below(8);
    for _ in 0..n {
        let ty = *rng.pick(&ftys);
        let num = *rng.pick(&fnums);
        let key = format!("f{}{}", enc_fty(ty), enc_fnum(num));
        if formats.iter().any(|d: &FormatDecl| d.key == key) {
            continue;
        }
        b = b.add_format(key.clone(), Map::<Format>::new(num, ty, "d"));
        formats.push(FormatDecl { key, num, ty, declared: true });
    }
    let mut reserved = vec![("DP", FNum::Count(1), FTy::Integer), ("AD", FNum::ReferenceAlternateBases, FTy::Integer), ("GQ", FNum::Count(1), FTy::Integer), ("GL", FNum::Samples, FTy::Float), ("FT", FNum::Count(1), FTy::String), ("PL", FNum::Samples, FTy::Integer), ("HQ", FNum::Count(2), FTy::Integer), ("PS", FNum::Count(1), FTy::Integer)];
    if ver == (4, 5) {
        reserved.push(("LEN", FNum::Count(1), FTy::Integer));
    }
    for (k, n, t) in reserved {
        match rng.below(4) {
            0 | 1 => {
                b = b.add_format(k, Map::<Format>::new(n, t, "r"));
                formats.push(FormatDecl { key: k.into(), num: n, ty: t, declared: true });
            }
            2 if ver >= (4, 3) => formats.push(FormatDecl { key: k.into(), num: n, ty: t, declared: false }),
            _ => {}
        }
    }
    if rng.chance(2, 3) {
        b = b.add_format("GT", Map::<Format>::new(FNum::Count(1), FTy::String, "Genotype"));
    }
    let ns = match rng.below(5) {
        0 | 1 => 0,
        2 => 1,
        3 => 2,
        _ => 3,
    };
    for i in 0..ns {
        b = b.add_sample_name(format!("s{i}"));
    }
    Hc { header: b.build(), ver, infos, formats }
}

pub(super) fn gen_record(rng: &mut Rng, hc: &Hc) -> RecordBuf {
    let ver = hc.ver;
    let mut r = RecordBuf::default();
    *r.reference_sequence_name_mut() = rng.pick(&["sq0", "chr1", "1", "X", "<sym>", "HLA-A*01:01", "a=b", "chrUn_KI270302v1", "sq%201", "<a.b>"]).to_string();
    *r.variant_start_mut() = match rng.below(12) {
        0 => None,
        1 => Position::new(1),
        2 => Position::new(usize::MAX - rng.below(3) as usize),
        3 => Position::new(1 << 29),
        _ => Position::new(1 + rng.below(1_000_000) as usize),
    };
    const IDS: &[&str] = &["rs123", "id:1", "a,b", "x=y", "é1", "nsv7", "PASS", "0", "a.b", ".x", "%3B"];
    let nids = if rng.chance(1, 2) { 0 } else { 1 + rng.below(3) };
    for _ in 0..nids {
        r.ids_mut().as_mut().insert(rng.pick(IDS).to_string());
    }
    let rl_max = if rng.chance(1, 6) { 40 } else { 4 };
    let rl = 1 + rng.below(rl_max) as usize;
    *r.reference_bases_mut() = (0..rl).map(|_| *rng.pick(&['A', 'C', 'G', 'T', 'N', 'a', 'c', 'g', 't', 'n'])).collect();
    const ALTS: &[&str] = &["A", "AC", "<DEL>", "<INS:ME>", "]13:123456]T", "C[2:321682[", "*", ".A", "G.", "<*>", "<DUP:TANDEM>", "t", "<CN0>", "N"];
    let nalts = match rng.below(4) { 0 => 0, 1 | 2 => 1, _ => 2 + rng.below(2) };
    let alts: Vec<String> = (0..nalts).map(|_| rng.pick(ALTS).to_string()).collect();
    *r.alternate_bases_mut() = alts.into();
    *r.quality_score_mut() = if rng.chance(1, 3) { None } else { Some(gen_f32(rng)) };
    const FILTERS: &[&str] = &["q10", "s50", "LowQual", "f:1", "a=b", "x,y", "é", "0", "pass", "PASS2"];
    match rng.below(5) {
        0 | 1 => {}
        2 => {
            r.filters_mut().as_mut().insert("PASS".into());
        }
        _ => {
            for _ in 0..1 + rng.below(3) {
                r.filters_mut().as_mut().insert(rng.pick(FILTERS).to_string());
            }
        }
    }
    // INFO: declared / reserved keys with values of the declared shape, undeclared keys as String / Flag
    for d in &hc.infos {
        if rng.chance(1, 2) {
            continue;
        }
        if d.key == "END" || d.key == "SVLEN" {
            continue; // span keys are added below with valid spans
        }
        let v = gen_ival(rng, d.num, d.ty);
        r.info_mut().insert(d.key.clone(), v);
    }
    for _ in 0..rng.below(3) {
        let key = rng.pick(&["u_a", "x1", "_p", "u.b", "zz9"]).to_string();
        let v = match rng.below(4) {
            0 => None,
            1 => Some(IValue::Flag),
            _ => Some(IValue::String(gen_text(rng, true))),
        };
        r.info_mut().insert(key, v);
    }
    let start = r.variant_start().map(usize::from).unwrap_or(1);
    if let Some(d) = hc.infos.iter().find(|d| d.key == "END") {
        if rng.chance(1, 2) {
            // END >= POS (an END before POS is outside the quantifier: variant_span underflows)
            let v = match rng.below(8) {
                0 => None,
                1 if start <= i32::MAX as usize => Some(IValue::Integer(start as i32)),
                2 if start <= i32::MAX as usize => Some(IValue::Integer(i32::MAX)),
                _ if start <= (1 << 30) => Some(IValue::Integer((start + rng.below(5000) as usize) as i32)),
                _ => None,
            };
            let _ = d;
            r.info_mut().insert("END".into(), v);
        }
    }
    if let Some(d) = hc.infos.iter().find(|d| d.key == "SVLEN") {
        if rng.chance(1, 2) {
            let v = if shape_i(d.num) == Shape::One {
                Some(IValue::Integer(rng.below(100_000) as i32))
            } else {
                Some(IValue::Array(IArray::Integer(gen_array(rng, |r| match r.below(6) { 0 => 0, 1 => i32::MAX, _ => r.below(100_000) as i32 }))))
            };
            r.info_mut().insert("SVLEN".into(), v);
        }
    }
    // samples
    let ns = hc.header.sample_names().len();
    if ns > 0 {
        let mut keys: Vec<(String, Option<(FNum, FTy)>)> = vec![];
        if rng.chance(3, 4) {
            keys.push(("GT".into(), None));
        }
        for d in &hc.formats {
            if rng.chance(1, 3) && shape_f(d.num) != Shape::Zero {
                keys.push((d.key.clone(), Some((d.num, d.ty))));
            }
        }
        if rng.chance(1, 6) {
            keys.push(("u_f".into(), Some((FNum::Count(1), FTy::String)))); // undeclared → (1, String)
        }
        if keys.is_empty() {
            keys.push(("GT".into(), None));
        }
        let mut values = vec![];
        for _ in 0..ns {
            let len = match rng.below(6) {
                0 => 0,
                1 => rng.below(keys.len() as u64 + 1) as usize,
                _ => keys.len(),
            };
            let mut vals: Vec<Option<SValue>> = vec![];
            for (k, d) in keys.iter().take(len) {
                let v = match d {
                    None => {
                        let _ = k;
                        if rng.chance(1, 8) { None } else { Some(SValue::Genotype(gen_genotype(rng, ver))) }
                    }
                    Some((n, t)) => {
                        if k == "LEN" {
                            if rng.chance(1, 4) { None } else { Some(SValue::Integer(rng.below(100_000) as i32)) }
                        } else {
                            gen_sval(rng, *n, *t)
                        }
                    }
                };
                vals.push(v);
            }
            values.push(vals);
        }
        *r.samples_mut() = Samples::new(keys.into_iter().map(|(k, _)| k).collect(), values);
    }
    r
}

/// the text's own normal form (DESIGN §4 C09): a sample written as a lone `.` reads back as a sample
/// with no values. (Pre-4.4 first-allele phasing is already generated in normal form.)
fn norm(r: &RecordBuf) -> RecordBuf {
    let mut n = r.clone();
    let keys = n.samples().keys().clone();
    let values: Vec<Vec<Option<SValue>>> = n
        .samples()
        .values()
        .map(|s| {
            let v = s.values().to_vec();
            if v.len() == 1 && v[0].is_none() { vec![] } else { v }
        })
        .collect();
    *n.samples_mut() = Samples::new(keys, values);
    n
}

/// one edit that takes the record outside the property's quantifier (used for the correspondence
/// only: the model must still agree with the code on what is written / rejected / read back)
fn spoil(rng: &mut Rng, r: &mut RecordBuf) -> &'static str {
    match rng.below(24) {
        0 => { *r.reference_sequence_name_mut() = rng.pick(&["", "*x", "=a", "a,b", "a b", "<x", "a\tb", "é"]).to_string(); "chrom" }
        1 => { r.ids_mut().as_mut().insert(rng.pick(&["", ".", "a b", "a;b", "a\tb", "\u{a0}", "x\u{2028}"]).to_string()); "id" }
        2 => { *r.reference_bases_mut() = rng.pick(&["", "R", "AXG", "ryk", "a-", "W", "é"]).to_string(); "ref" }
        3 => { let mut a: Vec<String> = r.alternate_bases().as_ref().to_vec(); a.push(rng.pick(&["", ".", "A,C", "A C", "\u{3000}"]).to_string()); if rng.chance(1, 2) { a.reverse(); } *r.alternate_bases_mut() = a.into(); "alt" }
        4 => { *r.quality_score_mut() = Some(f32::from_bits(0x7fc0_0001 | (rng.next() as u32 & 0x8000_0000))); "qual-nan" }
        5 => { r.filters_mut().as_mut().insert(rng.pick(&["", ".", "a;b", "a b", "PASS"]).to_string()); "filter" }
        6 => { r.info_mut().insert(rng.pick(&["", "1x", "a-b", "a=b", "a;b", "1000G", "."]).to_string(), Some(IValue::Flag)); "info-key" }
        7 => { r.info_mut().insert("u_i".into(), Some(IValue::Integer(gen_i32(rng)))); "info-untyped-int" }
        8 => { r.info_mut().insert("u_e".into(), Some(IValue::Array(IArray::Integer(vec![])))); "info-empty-array" }
        9 => { r.info_mut().insert("u_m".into(), Some(IValue::Array(IArray::String(vec![None])))); "info-array-missing" }
        10 => { r.info_mut().insert("u_s".into(), Some(IValue::String(String::new()))); "info-empty-string" }
        11 => { r.info_mut().insert("u_n".into(), Some(IValue::Integer(i32::MIN + rng.below(9) as i32))); "info-int-min" }
        12 => { r.info_mut().insert("u_c".into(), Some(IValue::Character(gen_char(rng)))); "info-untyped-char" }
        13 => { r.info_mut().insert("u_f".into(), Some(IValue::Float(gen_f32(rng)))); "info-untyped-float" }
        14 | 15 | 16 | 17 | 18 => {
            // samples
            let keys: Vec<String> = r.samples().keys().as_ref().iter().cloned().collect();
            let mut values: Vec<Vec<Option<SValue>>> = r.samples().values().map(|s| s.values().to_vec()).collect();
            let mut keys = keys;
            let what = match rng.below(9) {
                0 => { values.push(vec![]); "sample-extra" }
                1 => { values.pop(); "sample-fewer" }
                2 => { if let Some(v) = values.first_mut() { *v = vec![None]; } "sample-lone-missing" }
                3 => { keys.insert(keys.len().min(1), "GT".into()); keys.dedup(); keys.push("GT".into()); "keys-gt-position" }
                4 => { keys.push(rng.pick(&["", "1k", "a:b", "a b"]).to_string()); "keys-invalid" }
                5 => { if let Some(v) = values.first_mut() { v.resize(keys.len(), None); v.push(Some(SValue::String("x".into()))); } "sample-more-values-than-keys" }
                6 => { if let Some(v) = values.first_mut() { *v = vec![Some(SValue::String(String::new()))]; } "sample-empty-string" }
                7 => { if let Some(v) = values.first_mut() { *v = vec![Some(SValue::Genotype(Genotype::default()))]; } "sample-empty-genotype" }
                _ => { if let Some(v) = values.first_mut() { *v = vec![Some(SValue::Genotype([Allele::new(None, Phasing::Unphased)].into_iter().collect()))]; } "sample-haploid-missing-gt" }
            };
            *r.samples_mut() = Samples::new(keys.into_iter().collect(), values);
            what
        }
        19 => {
            // first-allele phasing that the pre-4.4 text cannot carry
            let keys = r.samples().keys().clone();
            let mut values: Vec<Vec<Option<SValue>>> = r.samples().values().map(|s| s.values().to_vec()).collect();
            for v in values.iter_mut() {
                for x in v.iter_mut() {
                    if let Some(SValue::Genotype(g)) = x {
                        if let Some(a) = g.as_mut().first_mut() {
                            let p = if a.phasing() == Phasing::Phased { Phasing::Unphased } else { Phasing::Phased };
                            *a.phasing_mut() = p;
                        }
                    }
                }
            }
            *r.samples_mut() = Samples::new(keys, values);
            "gt-first-phasing"
        }
        20 => { r.info_mut().insert("u_ca".into(), Some(IValue::Array(IArray::Character(gen_array(rng, gen_char))))); "info-untyped-char-array" }
        21 => { r.info_mut().insert("u_sa".into(), Some(IValue::Array(IArray::String(vec![Some(String::new()), None])))); "info-untyped-string-array" }
        22 => { *r.samples_mut() = Samples::new(["GT".to_string()].into_iter().collect(), vec![]); "keys-without-samples" }
        _ => { let vals: Vec<Vec<Option<SValue>>> = r.samples().values().map(|s| s.values().to_vec()).collect(); *r.samples_mut() = Samples::new(Default::default(), vals); "samples-without-keys" }
    }
}

/// text-level edits of a written line (correspondence of the eager and lazy readers on lines the
/// writer would not produce)
pub(super) fn mutate_line(rng: &mut Rng, line: &str) -> String {
    let mut b: Vec<u8> = line.as_bytes().to_vec();
    let ins: &[&[u8]] = &[b"\t", b";", b"=", b",", b":", b".", b"/", b"|", b"%", b"%3B", b"0", b"-", b"+", b"x", b" ", b"\r", b"PASS", b"GT"];
    for _ in 0..1 + rng.below(2) {
        if b.is_empty() {
            break;
        }
        let i = rng.below(b.len() as u64) as usize;
        match rng.below(6) {
            0 => {
                if b[i] < 0x80 && (i + 1 >= b.len() || b[i + 1] < 0x80 || b[i + 1] >= 0xc0) {
                    b.remove(i);
                }
            }
            1 | 2 => {
                // only at a character boundary
                if b[i] < 0x80 || b[i] >= 0xc0 {
                    let t = rng.pick(ins);
                    for (k, x) in t.iter().enumerate() {
                        b.insert(i + k, *x);
                    }
                }
            }
            3 => {
                // cut at a tab
                if let Some(p) = b.iter().rposition(|&x| x == b'\t') {
                    if rng.chance(1, 2) { b.truncate(p); } else { b.truncate(p + 1); }
                }
            }
            4 => {
                // replace one whole tab field by '.' or ''
                let mut fields: Vec<Vec<u8>> = b.split(|&x| x == b'\t').map(|f| f.to_vec()).collect();
                let k = rng.below(fields.len() as u64) as usize;
                fields[k] = if rng.chance(2, 3) { b".".to_vec() } else { vec![] };
                b = fields.join(&b'\t');
            }
            _ => {
                // duplicate one tab field
                let mut fields: Vec<Vec<u8>> = b.split(|&x| x == b'\t').map(|f| f.to_vec()).collect();
                let k = rng.below(fields.len() as u64) as usize;
                let f = fields[k].clone();
                if rng.chance(1, 2) { fields.insert(k, f); } else { let mut g = fields[k].clone(); g.push(if k == 7 { b';' } else { b',' }); g.extend_from_slice(&f); fields[k] = g; }
                b = fields.join(&b'\t');
            }
        }
    }
    String::from_utf8(b).unwrap_or_else(|_| line.to_string())
}

// ------------------------------------------------------------------------------------------
// oracle on the real code

/// the harness's own span rule (properties.jsonl C09): INFO END before 4.5; from 4.5 the maximum of
/// |REF|, INFO SVLEN and FORMAT LEN. `None` = no end (overflow / invalid END).
fn own_end(ver: (u32, u32), r: &RecordBuf) -> Option<usize> {
    let start = r.variant_start().map(usize::from).unwrap_or(1);
    let mut len = r.reference_bases().len();
    if ver < (4, 5) {
        if let Some(Some(v)) = r.info().get("END") {
            return match v {
                IValue::Integer(n) if *n >= 1 => Some(*n as usize),
                _ => None,
            };
        }
    } else {
        if let Some(Some(v)) = r.info().get("SVLEN") {
            match v {
                IValue::Array(IArray::Integer(xs)) => {
                    for x in xs.iter().flatten() {
                        if *x < 0 {
                            return None;
                        }
                        len = len.max(*x as usize);
                    }
                }
                _ => return None,
            }
        }
        if let Some(i) = r.samples().keys().as_ref().get_index_of("LEN") {
            for s in r.samples().values() {
                match s.values().get(i) {
                    Some(Some(SValue::Integer(n))) => {
                        if *n < 0 {
                            return None;
                        }
                        len = len.max(*n as usize)
                    }
                    Some(Some(_)) => return None,
                    _ => {}
                }
            }
        }
    }
    if len == 0 {
        return None;
    }
    start.checked_add(len - 1)
}

fn is_encoded_char(c: char) -> bool {
    c.is_ascii_control() || matches!(c, ';' | '=' | '%' | ',' | '.' | ':')
}

fn has_encoded_char(r: &RecordBuf) -> bool {
    for (_, v) in r.info().as_ref() {
        match v {
            Some(IValue::Character(c)) if is_encoded_char(*c) => return true,
            Some(IValue::Array(IArray::Character(xs))) if xs.iter().flatten().any(|c| is_encoded_char(*c)) => return true,
            _ => {}
        }
    }
    for s in r.samples().values() {
        for v in s.values() {
            match v {
                Some(SValue::Character(c)) if is_encoded_char(*c) => return true,
                Some(SValue::Array(SArray::Character(xs))) if xs.iter().flatten().any(|c| is_encoded_char(*c)) => return true,
                _ => {}
            }
        }
    }
    false
}

fn has_empty_sample(r: &RecordBuf) -> bool {
    r.samples().values().any(|s| s.values().is_empty())
}

/// stable class suffix for the two defects that the generator reaches on purpose: only when the
/// reader rejected the line with the matching error and the line shows the symptom
fn defect_tag(r: &RecordBuf, text: &str, err: &str) -> &'static str {
    let cols: Vec<&str> = text.split('\t').collect();
    let empty_sample_column = cols.len() > 9 && cols[9..].iter().any(|c| c.is_empty());
    if has_empty_sample(r) && empty_sample_column && err == "err:InvalidSamples" {
        ":F18-empty-sample-column"
    } else if has_encoded_char(r) && (err == "err:InvalidInfo" || err == "err:InvalidSamples") {
        ":character-not-percent-decoded"
    } else {
        ""
    }
}

/// lazy accessors that do not go through the RecordBuf conversion: Info::get, Samples::select,
/// Sample::get — compared with the eager record's fields
fn accessor_mismatch(h: &vcf::Header, lazy: &vcf::Record, eager: &RecordBuf) -> Option<String> {
    use vcf::variant::record::{AlternateBases as _, Filters as _, Ids as _, Info as _};
    if lazy.reference_sequence_name() != eager.reference_sequence_name() {
        return Some("reference_sequence_name".into());
    }
    match (lazy.variant_start().transpose(), eager.variant_start()) {
        (Ok(a), b) if a == b => {}
        _ => return Some("variant_start".into()),
    }
    if lazy.ids().iter().map(String::from).collect::<Vec<_>>() != eager.ids().as_ref().iter().cloned().collect::<Vec<_>>() {
        return Some("ids".into());
    }
    if lazy.ids().len() != eager.ids().as_ref().len() {
        return Some("ids.len".into());
    }
    if lazy.reference_bases() != eager.reference_bases() {
        return Some("reference_bases".into());
    }
    let la: Vec<String> = match lazy.alternate_bases().iter().map(|r| r.map(String::from)).collect::<std::io::Result<_>>() {
        Ok(v) => v,
        Err(_) => return Some("alternate_bases".into()),
    };
    if la != eager.alternate_bases().as_ref().to_vec() || lazy.alternate_bases().len() != la.len() {
        return Some("alternate_bases".into());
    }
    match (lazy.quality_score().transpose(), eager.quality_score()) {
        (Ok(a), b) if a.map(f32::to_bits) == b.map(f32::to_bits) => {}
        _ => return Some("quality_score".into()),
    }
    let lf: Vec<String> = match lazy.filters().iter(h).map(|r| r.map(String::from)).collect::<std::io::Result<_>>() {
        Ok(v) => v,
        Err(_) => return Some("filters".into()),
    };
    if lf != eager.filters().as_ref().iter().cloned().collect::<Vec<_>>() {
        return Some("filters".into());
    }
    if vcf::variant::record::Filters::is_pass(&lazy.filters(), h).ok() != Some(eager.filters().is_pass()) {
        return Some("filters.is_pass".into());
    }
    // Info::get for every key, and a key that is absent
    let linfo = lazy.info();
    if linfo.len() != eager.info().as_ref().len() {
        return Some("info.len".into());
    }
    for (k, v) in eager.info().as_ref() {
        let got = match linfo.get(h, k) {
            Some(Ok(x)) => match x.map(IValue::try_from).transpose() {
                Ok(x) => x,
                Err(_) => return Some(format!("info.get({k}) value")),
            },
            _ => return Some(format!("info.get({k})")),
        };
        if enc_ival(&got) != enc_ival(v) {
            return Some(format!("info.get({k}) = {} expected {}", enc_ival(&got), enc_ival(v)));
        }
    }
    if linfo.get(h, "absent_key").is_some() {
        return Some("info.get(absent)".into());
    }
    // Samples::select(column) series and Sample::get
    let ls = lazy.samples();
    let es = eager.samples();
    if vcf::variant::record::Samples::len(&ls) != es.values().count() && !es.keys().as_ref().is_empty() {
        return Some("samples.len".into());
    }
    for (ki, key) in es.keys().as_ref().iter().enumerate() {
        let series = match vcf::variant::record::Samples::select(&ls, h, key) {
            Some(Ok(s)) => s,
            _ => return Some(format!("samples.select({key})")),
        };
        let col: Vec<String> = match series
            .iter(h)
            .map(|r| r.and_then(|v| v.map(SValue::try_from).transpose()).map(|v| enc_sval(&v)))
            .collect::<std::io::Result<_>>()
        {
            Ok(c) => c,
            Err(_) => return Some(format!("samples.select({key}).iter")),
        };
        let want: Vec<String> = es.values().map(|s| enc_sval(&s.values().get(ki).cloned().flatten())).collect();
        if col != want {
            return Some(format!("samples.select({key}) = {col:?} expected {want:?}"));
        }
        for (si, s) in ls.iter().enumerate() {
            let got = match vcf::variant::record::samples::Sample::get(&s, h, key) {
                None => None,
                Some(Ok(v)) => match v.map(SValue::try_from).transpose() {
                    Ok(v) => v,
                    Err(_) => return Some(format!("sample[{si}].get({key}) value")),
                },
                Some(Err(_)) => return Some(format!("sample[{si}].get({key})")),
            };
            if enc_sval(&got) != want[si] {
                return Some(format!("sample[{si}].get({key}) = {} expected {}", enc_sval(&got), want[si]));
            }
        }
    }
    None
}

/// the property, stated on the real code, for one record inside the quantifier
fn oracle_record(ctx: &mut Ctx, hc: &Hc, r: &RecordBuf, case: &str) {
    let h = &hc.header;
    let res = guarded(|| -> Result<(), (String, String)> {
        for f in floats_of(r) {
            if !float_law_ok(f) {
                return Err(("float-law".into(), format!("f32 bits {:#x} is formatted as {:?} which does not parse back / is not delimiter-free", f.to_bits(), float_text(f))));
            }
        }
        let text = real_write(h, r).map_err(|e| ("record-roundtrip".to_string(), format!("writer rejected a valid record ({e}): {}", enc_rec(r))))?;
        let want = enc_rec(&norm(r));
        // the two defects the generator reaches on purpose get a stable, narrow class: the reader
        // REJECTS the writer's own line, and the line shows the symptom
        let eager = real_eager(h, &text).map_err(|e| (format!("record-roundtrip{}", defect_tag(r, &text, &e)), format!("noodles' reader rejects noodles' own line {text:?} ({e})")))?;
        let got = enc_rec(&eager);
        if got != want {
            return Err(("record-roundtrip".into(), format!("line {text:?} reads back as {got}, written from {want}")));
        }
        let lazy = real_lazy(&text).map_err(|_| ("lazy-eager".to_string(), format!("lazy reader rejects {text:?}")))?;
        let conv = RecordBuf::try_from_variant_record(h, &lazy).map_err(|e| ("lazy-eager".to_string(), format!("lazy record of {text:?} does not convert: {e}")))?;
        if enc_rec(&conv) != got {
            return Err(("lazy-eager".into(), format!("lazy view of {text:?} is {}, eager record is {got}", enc_rec(&conv))));
        }
        if let Some(what) = accessor_mismatch(h, &lazy, &eager) {
            return Err(("lazy-eager".into(), format!("lazy accessor differs from the eager record on {text:?}: {what}")));
        }
        let e_end = eager.variant_end(h).ok().map(usize::from);
        let l_end = lazy.variant_end(h).ok().map(usize::from);
        let own = own_end(hc.ver, r);
        if e_end != l_end || e_end != own {
            return Err(("span".into(), format!("variant_end of {text:?} (fileformat {}.{}): eager {e_end:?}, lazy {l_end:?}, span rule {own:?}", hc.ver.0, hc.ver.1)));
        }
        // span = end - start + 1 on both views
        let e_span = eager.variant_span(h).ok();
        let l_span = lazy.variant_span(h).ok();
        if e_span != l_span {
            return Err(("span".into(), format!("variant_span of {text:?}: eager {e_span:?}, lazy {l_span:?}")));
        }
        Ok(())
    });
    match res {
        Ok(Ok(())) => {}
        Ok(Err((class, text))) => ctx.fail(&class, text, case.into()),
        Err(p) => ctx.fail("panic", format!("panic on a valid record: {p}"), case.into()),
    }
}

// ------------------------------------------------------------------------------------------
// record cases

fn rec_request(hc: &Hc, r: &RecordBuf, text: Option<&str>) -> String {
    let fs = floats_of(r);
    let prs = text.map(prs_table).unwrap_or_else(|| "~".into());
    format!("c09 rec {} {}/{} {}", enc_hctx(&hc.header), fmt_table(&fs), prs, enc_rec_words(r).join(" "))
}

/// correspondence answer for a record value on the real code; None when the real code panics
fn rec_corr(ctx: &mut Ctx, hc: &Hc, r: &RecordBuf) {
    let h = &hc.header;
    let out = guarded(|| match real_write(h, r) {
        Ok(text) => {
            let (ans, _, _) = real_line_answer(h, &text);
            (rec_request(hc, r, Some(&text)), format!("w={} {ans}", hx(&text)))
        }
        Err(e) => (rec_request(hc, r, None), format!("w={e}")),
    });
    match out {
        Ok((req, ans)) => ctx.corr(req, ans),
        Err(_) => ctx.bump("corr_skipped_real_code_panicked"),
    }
}

fn line_corr(ctx: &mut Ctx, hc: &Hc, line: &str) {
    let h = &hc.header;
    let out = guarded(|| {
        let (ans, _, _) = real_line_answer(h, line);
        (format!("c09 line {} ~/{} {}", enc_hctx(h), prs_table(line), hx(line)), ans)
    });
    match out {
        Ok((req, ans)) => ctx.corr(req, ans),
        Err(_) => ctx.bump("corr_skipped_real_code_panicked"),
    }
}

fn record_case(ctx: &mut Ctx, sub: u64, emit_corr: bool) {
    let mut rng = Rng::new(sub);
    let hc = gen_hctx(&mut rng);
    let case = format!("rec {sub}");
    let nrec = 1 + rng.below(4);
    let mut stream: Vec<RecordBuf> = vec![];
    for k in 0..nrec {
        let mut r = gen_record(&mut rng, &hc);
        // every so often a record repeats the previous one with some samples turned into the
        // missing sample `.` (no values) — the shape on which a reused buffer shows stale state
        if k > 0 && rng.chance(1, 3) {
            if let Some(prev) = stream.last() {
                let mut q = prev.clone();
                let keys = q.samples().keys().clone();
                let vals: Vec<Vec<Option<SValue>>> = q
                    .samples()
                    .values()
                    .map(|s| if rng.chance(1, 2) { vec![] } else { s.values().to_vec() })
                    .collect();
                *q.samples_mut() = vcf::variant::record_buf::Samples::new(keys, vals);
                r = q;
            }
        }
        stream.push(r.clone());
        oracle_record(ctx, &hc, &r, &case);
        let key = fnv(enc_rec(&r).as_bytes());
        let nontrivial = !r.info().as_ref().is_empty() || !r.samples().is_empty();
        ctx.eval(if nontrivial { Some(key) } else { None });
        if !emit_corr {
            continue;
        }
        ctx.bump(&format!("fileformat_{}.{}", hc.ver.0, hc.ver.1));
        ctx.bump(&format!("samples_{}", r.samples().values().count()));
        ctx.bump(&format!("info_fields_{}", r.info().as_ref().len().min(6)));
        if has_encoded_char(&r) { ctx.bump("record_with_percent_encoded_character"); }
        if has_empty_sample(&r) { ctx.bump("record_with_sample_without_values"); }
        for (_, v) in r.info().as_ref() {
            ctx.bump(match v {
                None => "info_missing",
                Some(IValue::Flag) => "info_flag",
                Some(IValue::Integer(_)) => "info_integer",
                Some(IValue::Float(_)) => "info_float",
                Some(IValue::Character(_)) => "info_character",
                Some(IValue::String(_)) => "info_string",
                Some(IValue::Array(IArray::Integer(_))) => "info_array_integer",
                Some(IValue::Array(IArray::Float(_))) => "info_array_float",
                Some(IValue::Array(IArray::Character(_))) => "info_array_character",
                Some(IValue::Array(IArray::String(_))) => "info_array_string",
            });
        }
        for s in r.samples().values() {
            for v in s.values() {
                ctx.bump(match v {
                    None => "sample_missing",
                    Some(SValue::Genotype(g)) => match g.as_ref().len() { 1 => "sample_gt_haploid", 2 => "sample_gt_diploid", _ => "sample_gt_polyploid" },
                    Some(SValue::Array(_)) => "sample_array",
                    Some(_) => "sample_scalar",
                });
            }
        }
        rec_corr(ctx, &hc, &r);
        // outside the quantifier: correspondence only
        if k == 0 {
            let mut s = r.clone();
            let what = spoil(&mut rng, &mut s);
            ctx.bump(&format!("spoiled:{what}"));
            rec_corr(ctx, &hc, &s);
            if let Ok(Ok(text)) = guarded(|| real_write(&hc.header, &r)) {
                let m = mutate_line(&mut rng, &text);
                ctx.bump("mutated_line");
                line_corr(ctx, &hc, &m);
            }
        }
    }
    oracle_stream(ctx, &hc, &stream, &case);
}

/// Several records through ONE reader into ONE reused buffer (eager and lazy): each must equal
/// what a fresh reader and a fresh buffer give for the same line — no state may leak from the
/// previous record.
fn oracle_stream(ctx: &mut Ctx, hc: &Hc, recs: &[RecordBuf], case: &str) {
    let lines: Vec<String> = recs.iter().filter_map(|r| guarded(|| real_write(&hc.header, r)).ok().and_then(|x| x.ok())).collect();
    if lines.len() < 2 {
        return;
    }
    let src: String = lines.iter().map(|l| format!("{l}\n")).collect();
    let res = guarded(|| {
        let mut out = vec![];
        let mut reader = vcf::io::Reader::new(src.as_bytes());
        let mut rec = RecordBuf::default();
        let mut lazy_reader = vcf::io::Reader::new(src.as_bytes());
        let mut lrec = vcf::Record::default();
        for _ in 0..lines.len() {
            let e = match reader.read_record_buf(&hc.header, &mut rec) {
                Ok(0) => Err("err:eof".to_string()),
                Ok(_) => Ok(rec.clone()),
                Err(e) => Err(io_err_variant(&e)),
            };
            let l = match lazy_reader.read_record(&mut lrec) {
                Ok(0) => Err("err".to_string()),
                Ok(_) => RecordBuf::try_from_variant_record(&hc.header, &lrec).map_err(|_| "err".to_string()),
                Err(_) => Err("err".to_string()),
            };
            out.push((e, l));
        }
        out
    });
    ctx.eval(Some(fnv(src.as_bytes())));
    ctx.bump("stream_reused_buffer");
    let Ok(out) = res else {
        ctx.fail("panic", "reading several records into a reused buffer panicked".into(), case.into());
        return;
    };
    for (i, (line, (e, l))) in lines.iter().zip(out).enumerate() {
        let fresh = real_eager(&hc.header, line);
        // (Debug rendering: NaN floats must compare equal to themselves)
        if format!("{e:?}") != format!("{fresh:?}") {
            ctx.fail("reused-buffer", format!("record {i} of a {}-record stream read into a reused RecordBuf differs from the same line read into a fresh one (line: {line:?}); reused: {:?} fresh: {:?}", lines.len(), e.as_ref().map(|r| format!("{:?} {:?}", r.ids(), r.samples())), fresh.as_ref().map(|r| format!("{:?} {:?}", r.ids(), r.samples()))), case.into());
            return;
        }
        let fresh_lazy = real_lazy(line).and_then(|r| RecordBuf::try_from_variant_record(&hc.header, &r).map_err(|_| "err".to_string()));
        if format!("{l:?}") != format!("{fresh_lazy:?}") {
            ctx.fail("reused-buffer", format!("record {i} of a {}-record stream read into a reused lazy Record differs from a fresh one (line: {line:?})", lines.len()), case.into());
            return;
        }
    }
}

// ------------------------------------------------------------------------------------------
// headers

fn others<K: AsRef<str>>(m: &indexmap::IndexMap<K, String>) -> String {
    list(m.iter().map(|(k, v)| format!("{}={}", hx(k.as_ref()), hx(v))).collect())
}

fn opt_n(x: Option<usize>) -> String {
    x.map(|n| n.to_string()).unwrap_or_else(|| "-".into())
}
fn opt_s(x: Option<&str>) -> String {
    x.map(hx).unwrap_or_else(|| ".".into())
}

/// ordered canonical dump of a header value (the same printer exists in DriverC09.lean)
pub(super) fn dump_header(h: &vcf::Header) -> String {
    let mut out = vec![format!("ver={}.{}", h.file_format().major(), h.file_format().minor())];
    for (id, m) in h.infos() {
        out.push(format!("I:{}:{}:{}:{}:{}:{}", hx(id), enc_inum(m.number()), enc_ity(m.ty()), hx(m.description()), opt_n(m.idx()), others(m.other_fields())));
    }
    for (id, m) in h.filters() {
        out.push(format!("F:{}:{}:{}:{}", hx(id), hx(m.description()), opt_n(m.idx()), others(m.other_fields())));
    }
    for (id, m) in h.formats() {
        out.push(format!("M:{}:{}:{}:{}:{}:{}", hx(id), enc_fnum(m.number()), enc_fty(m.ty()), hx(m.description()), opt_n(m.idx()), others(m.other_fields())));
    }
    for (id, m) in h.alternative_alleles() {
        out.push(format!("A:{}:{}:{}", hx(id), hx(m.description()), others(m.other_fields())));
    }
    for (id, m) in h.contigs() {
        out.push(format!("C:{}:{}:{}:{}:{}:{}", hx(id), opt_n(m.length()), opt_s(m.md5()), opt_s(m.url()), opt_n(m.idx()), others(m.other_fields())));
    }
    for (k, c) in h.other_records() {
        match c {
            Collection::Unstructured(vs) => out.push(format!("O:{}:U:{}", hx(k.as_ref()), list(vs.iter().map(|v| hx(v)).collect()))),
            Collection::Structured(ms) => out.push(format!(
                "O:{}:S:{}",
                hx(k.as_ref()),
                if ms.is_empty() { "!".to_string() } else { ms.iter().map(|(id, m)| format!("{};{};{}", hx(id), hx(&map_other_id_tag(m)), others(m.other_fields()))).collect::<Vec<_>>().join("/") }
            )),
        }
    }
    out.push(format!("S:{}", list(h.sample_names().iter().map(|s| hx(s)).collect())));
    out.join("|")
}

/// `Map<Other>::id_tag` is crate-private; it is observable through the writer only. Recover it by
/// writing a one-record header.
pub(super) fn map_other_id_tag(m: &Map<map::Other>) -> String {
    let mut h = vcf::Header::default();
    let key: vcf::header::record::key::Other = "zzTagProbe".parse().unwrap();
    if h.insert(key, vcf::header::record::Value::Map("i".into(), m.clone())).is_err() {
        return "?".into();
    }
    let mut w = vcf::io::Writer::new(Vec::new());
    if w.write_header(&h).is_err() {
        return "?".into();
    }
    let s = String::from_utf8_lossy(w.get_ref()).to_string();
    match s.find("##zzTagProbe=<") {
        Some(p) => {
            let rest = &s[p + 14..];
            rest.split('=').next().unwrap_or("?").to_string()
        }
        None => "?".into(),
    }
}

pub(super) fn real_write_header(h: &vcf::Header) -> Result<String, String> {
    let mut w = vcf::io::Writer::new(Vec::new());
    match w.write_header(h) {
        Ok(()) => String::from_utf8(w.into_inner()).map_err(|_| "err:non-utf8".into()),
        Err(e) => Err(errclass(&e).to_string()),
    }
}

pub(super) fn real_read_header(text: &str) -> Result<vcf::Header, String> {
    let mut reader = vcf::io::Reader::new(text.as_bytes());
    reader.read_header().map_err(|e| io_err_variant(&e))
}

fn gen_desc(rng: &mut Rng) -> String {
    const PARTS: &[&str] = &["a", "b c", "\"", "\\", ",", ">", "<", "=", ";", "é", "Total Depth", "\\\"", "x\\", "#", "%3B", "\t", "[1,2]", "ID=", "\"q\"", "\u{1F9EC}"];
    let n = rng.below(5);
    (0..n).map(|_| *rng.pick(PARTS)).collect()
}

const OTHER_TAGS: &[&str] = &["Source", "Version", "x", "a.b", "é", "Values", "Number2", "assembly", "species", "taxonomy"];
macro_rules! add_others {
    ($rng:expr, $m:expr) => {
        for _ in 0..$rng.below(3) {
            let t = *$rng.pick(OTHER_TAGS);
            if let Ok(tag) = t.parse() {
                let v = gen_desc($rng);
                $m.other_fields_mut().insert(tag, v);
            }
        }
    };
}

fn gen_header(rng: &mut Rng) -> vcf::Header {
    let ver = *rng.pick(&VERSIONS);
    let mut h = vcf::Header::builder().set_file_format(FileFormat::new(ver.0, ver.1)).build();
    let idx = |rng: &mut Rng| if rng.chance(1, 5) { Some(rng.below(40) as usize) } else { None };
    const IDS: &[&str] = &["NS", "x1", "_a", "a.b", "Zz_9", "1000G", "k", "LongerName"];
    for _ in 0..rng.below(4) {
        let id = *rng.pick(IDS);
        let (num, ty) = if id == "NS" { (INum::Count(1), ITy::Integer) } else if id == "1000G" { (INum::Count(0), ITy::Flag) } else {
            let ty = *rng.pick(&[ITy::Integer, ITy::Float, ITy::Flag, ITy::Character, ITy::String]);
            let num = if ty == ITy::Flag { INum::Count(0) } else { *rng.pick(&[INum::Count(1), INum::Count(2), INum::Count(17), INum::AlternateBases, INum::ReferenceAlternateBases, INum::Samples, INum::Unknown]) };
            (num, ty)
        };
        let mut m = Map::<Info>::new(num, ty, gen_desc(rng));
        *m.idx_mut() = idx(rng);
        add_others!(rng, m);
        h.infos_mut().insert(id.to_string(), m);
    }
    for _ in 0..rng.below(3) {
        let id = *rng.pick(&["PASS", "q10", "s50", "a:b", "x=y", "é"]);
        let mut m = if id == "PASS" && rng.chance(1, 2) { Map::<Filter>::pass() } else { Map::<Filter>::new(gen_desc(rng)) };
        *m.idx_mut() = idx(rng);
        add_others!(rng, m);
        h.filters_mut().insert(id.to_string(), m);
    }
    for _ in 0..rng.below(4) {
        let id = *rng.pick(&["GT", "x1", "_a", "a.b", "DPx", "kk"]);
        let (num, ty) = if id == "GT" { (FNum::Count(1), FTy::String) } else {
            (*rng.pick(&[FNum::Count(1), FNum::Count(3), FNum::AlternateBases, FNum::ReferenceAlternateBases, FNum::Samples, FNum::LocalAlternateBases, FNum::LocalReferenceAlternateBases, FNum::LocalSamples, FNum::Ploidy, FNum::BaseModifications, FNum::Unknown]), *rng.pick(&[FTy::Integer, FTy::Float, FTy::Character, FTy::String]))
        };
        let mut m = Map::<Format>::new(num, ty, gen_desc(rng));
        *m.idx_mut() = idx(rng);
        add_others!(rng, m);
        h.formats_mut().insert(id.to_string(), m);
    }
    for _ in 0..rng.below(3) {
        let id = *rng.pick(&["DEL", "INS:ME", "DUP:TANDEM", "*", "CN0", "R"]);
        let mut m = Map::<AlternativeAllele>::new(gen_desc(rng));
        add_others!(rng, m);
        h.alternative_alleles_mut().insert(id.to_string(), m);
    }
    for _ in 0..rng.below(4) {
        let id = *rng.pick(&["sq0", "chr1", "1", "HLA-A*01:01", "a=b", "chrUn_KI270302v1", "é"]);
        let mut m = Map::<Contig>::new();
        if rng.chance(1, 2) { *m.length_mut() = Some(*rng.pick(&[0usize, 1, 8, 248_956_422, usize::MAX])); }
        if rng.chance(1, 3) { *m.md5_mut() = Some("d7eba311421bbc9d3ada44709dd61534".into()); }
        if rng.chance(1, 3) { *m.url_mut() = Some(rng.pick(&["https://example.com/reference.fa", "file:///a?b=c", "x"]).to_string()); }
        *m.idx_mut() = idx(rng);
        add_others!(rng, m);
        h.contigs_mut().insert(id.to_string(), m);
    }
    for _ in 0..rng.below(4) {
        let key = *rng.pick(&["fileDate", "source", "reference", "phasing", "SAMPLE", "PEDIGREE", "META", "assembly2", "x.y"]);
        let k: vcf::header::record::key::Other = key.parse().unwrap();
        let structured = matches!(key, "SAMPLE" | "PEDIGREE" | "META" | "assembly2");
        let n = 1 + rng.below(2);
        for i in 0..n {
            let v = if structured {
                let mut b = Map::<map::Other>::builder();
                if key == "META" {
                    b = b.insert("Type".parse().unwrap(), "String").insert("Number".parse().unwrap(), ".");
                    b = b.insert("Values".parse().unwrap(), if ver >= (4, 3) { "[a, b]" } else { "[a]" });
                } else {
                    for t in ["Father", "Mother", "Assay", "Description"].iter().take(rng.below(4) as usize) {
                        b = b.insert(t.parse().unwrap(), gen_desc(rng));
                    }
                }
                vcf::header::record::Value::Map(format!("{}{i}", rng.pick(&["id", "S", "é", "a:b"])), b.build().unwrap())
            } else {
                let s = loop {
                    let s = match rng.below(4) { 0 => "20200709".to_string(), 1 => "<x>".to_string(), _ => gen_desc(rng) };
                    let bad = s.is_empty() || s.contains('\t') && false || (s.starts_with('<') && (ver >= (4, 3) || s.contains("ID=")));
                    if !bad { break s; }
                };
                vcf::header::record::Value::String(s)
            };
            let _ = h.insert(k.clone(), v);
        }
    }
    for i in 0..rng.below(4) {
        h.sample_names_mut().insert(format!("{}{i}", rng.pick(&["s", "NA0000", "a b", "é", "x:y"])));
    }
    h
}

const HEADER_CORPUS: &[&str] = &[
    "##fileformat=VCFv4.3\n#CHROM\tPOS\tID\tREF\tALT\tQUAL\tFILTER\tINFO\n",
    "##fileformat=VCFv4.3\n##INFO=<ID=DP,Number=1,Type=Integer,Description=\"x\",IDX=3>\n##FILTER=<ID=PASS,Description=\"All filters passed\",IDX=0>\n##FORMAT=<ID=GT,Number=1,Type=String,Description=\"Genotype\",IDX=7>\n##contig=<ID=sq0,length=8,IDX=0>\n#CHROM\tPOS\tID\tREF\tALT\tQUAL\tFILTER\tINFO\tFORMAT\ts0\n",
    "##fileformat=VCFv4.2\n##PEDIGREE=<Child=c0,Father=f0,Mother=m0>\n##PEDIGREE=<Derived=d0,Original=o0>\n#CHROM\tPOS\tID\tREF\tALT\tQUAL\tFILTER\tINFO\n",
    "##fileformat=VCFv4.3\n##PEDIGREE=<ID=c0,Father=f0,Mother=m0>\n##META=<ID=Assay,Type=String,Number=.,Values=[WholeGenome, Exome]>\n##SAMPLE=<ID=s0,Assay=WholeGenome,Description=\"a \\\"q\\\" \\\\ b\">\n#CHROM\tPOS\tID\tREF\tALT\tQUAL\tFILTER\tINFO\tFORMAT\ts0\ts1\n",
    "##fileformat=VCFv4.1\n##fileDate=20200709\n##source=<noodles>\n##reference=file:///a,b\n##INFO=<ID=x,Number=A,Type=Float,Description=\"a, b > c = d\",Source=\"s\",Version=\"1\">\n#CHROM\tPOS\tID\tREF\tALT\tQUAL\tFILTER\tINFO\n",
    "##fileformat=VCFv4.4\n##ALT=<ID=DEL,Description=\"Deletion\">\n##contig=<ID=sq0,length=8,md5=d7eba311421bbc9d3ada44709dd61534,URL=https://example.com/reference.fa,species=\"Homo sapiens\">\n#CHROM\tPOS\tID\tREF\tALT\tQUAL\tFILTER\tINFO\n",
    "##fileformat=VCFv4.3\r\n##INFO=<ID=END,Number=1,Type=Integer,Description=\"e\">\r\n#CHROM\tPOS\tID\tREF\tALT\tQUAL\tFILTER\tINFO\r\n",
    // rejected: reserved definition mismatch, duplicate id, missing field, bad escape, no column line
    "##fileformat=VCFv4.3\n##INFO=<ID=END,Number=1,Type=String,Description=\"e\">\n#CHROM\tPOS\tID\tREF\tALT\tQUAL\tFILTER\tINFO\n",
    "##fileformat=VCFv4.3\n##INFO=<ID=a,Number=1,Type=String,Description=\"e\">\n##INFO=<ID=a,Number=1,Type=String,Description=\"e\">\n#CHROM\tPOS\tID\tREF\tALT\tQUAL\tFILTER\tINFO\n",
    "##fileformat=VCFv4.3\n##INFO=<ID=a,Number=1,Type=String>\n#CHROM\tPOS\tID\tREF\tALT\tQUAL\tFILTER\tINFO\n",
    "##fileformat=VCFv4.3\n##FILTER=<ID=a,Description=\"x\\n\">\n#CHROM\tPOS\tID\tREF\tALT\tQUAL\tFILTER\tINFO\n",
    "##fileformat=VCFv4.3\n##fileDate=1\n",
    "##fileDate=1\n##fileformat=VCFv4.3\n#CHROM\tPOS\tID\tREF\tALT\tQUAL\tFILTER\tINFO\n",
    "##fileformat=VCFv4.3\n#CHROM\tPOS\tID\tREF\tALT\tQUAL\tFILTER\tINFO\tFORMAT\ts0\ts0\n",
    "##fileformat=VCFv4.3\n##fileDate=1\n##fileDate=<ID=a>\n#CHROM\tPOS\tID\tREF\tALT\tQUAL\tFILTER\tINFO\n",
    "##fileformat=VCFv4.3\n##INFO=<ID=a,Number=1,Type=String,Description=\"e\",>\n#CHROM\tPOS\tID\tREF\tALT\tQUAL\tFILTER\tINFO\n",
    "##fileformat=VCFv4.3\n##INFO=<ID=a,Number=1,Type=String,Description=\"e\">x\n#CHROM\tPOS\tID\tREF\tALT\tQUAL\tFILTER\tINFO\n",
    "##fileformat=VCFv4.3\n#CHROM\tPOS\tID\tREF\tALT\tQUAL\tFILTER\tINFO\ts0\n",
];

fn header_request(text: &str) -> String {
    // definitions are version-specific: pass the tables of every version the text could name
    let mut defs = vec![];
    for v in [(4, 3), (4, 4), (4, 5)] {
        let i = list(info_defs(v).into_iter().map(|(k, n, t)| format!("{}:{}:{}", hx(k), enc_inum(n), enc_ity(t))).collect());
        let f = list(format_defs(v).into_iter().map(|(k, n, t)| format!("{}:{}:{}", hx(k), enc_fnum(n), enc_fty(t))).collect());
        defs.push(format!("{}.{}/{}/{}", v.0, v.1, i, f));
    }
    format!("c09 hdr {} {}", defs.join("+"), hx(text))
}

/// correspondence: parse the text, dump the value, write it again
fn header_corr(ctx: &mut Ctx, text: &str) {
    let out = guarded(|| match real_read_header(text) {
        Ok(h) => {
            let w = match real_write_header(&h) {
                Ok(t) => hx(&t),
                Err(e) => e,
            };
            format!("p={} w={}", dump_header(&h), w)
        }
        Err(e) => format!("p={e}"),
    });
    match out {
        Ok(ans) => ctx.corr(header_request(text), ans),
        Err(_) => ctx.bump("corr_skipped_real_code_panicked"),
    }
}

fn header_has_local_number(h: &vcf::Header) -> bool {
    h.formats().values().any(|m| matches!(m.number(), FNum::LocalAlternateBases | FNum::LocalReferenceAlternateBases | FNum::LocalSamples | FNum::Ploidy | FNum::BaseModifications))
}

/// stable class suffix for the header defects the generator reaches on purpose
fn header_defect_tag(h: &vcf::Header) -> &'static str {
    if header_has_local_number(h) {
        ":format-number-LA-LR-LG-P-M-not-parsed"
    } else if header_has_idx(h) {
        ":idx-not-written"
    } else {
        ""
    }
}

fn header_has_idx(h: &vcf::Header) -> bool {
    h.infos().values().any(|m| m.idx().is_some()) || h.filters().values().any(|m| m.idx().is_some()) || h.formats().values().any(|m| m.idx().is_some()) || h.contigs().values().any(|m| m.idx().is_some())
}

fn oracle_header(ctx: &mut Ctx, h: &vcf::Header, case: &str) -> Option<String> {
    let res = guarded(|| -> Result<String, (String, String)> {
        let tag = header_defect_tag(h);
        let text = real_write_header(h).map_err(|e| (format!("header-roundtrip{tag}"), format!("writer rejected a valid header: {e}")))?;
        let back = real_read_header(&text).map_err(|e| (format!("header-roundtrip{tag}"), format!("noodles' header parser rejects noodles' own header ({e}): {text:?}")))?;
        let (a, b) = (dump_header(h), dump_header(&back));
        if a != b {
            return Err((format!("header-roundtrip{tag}"), format!("header reads back as {b}, written from {a}; text {text:?}")));
        }
        if back != *h {
            return Err((format!("header-roundtrip{tag}"), format!("Header == is false after the round trip of {text:?}")));
        }
        Ok(text)
    });
    match res {
        Ok(Ok(t)) => Some(t),
        Ok(Err((class, text))) => {
            ctx.fail(&class, text, case.into());
            guarded(|| real_write_header(h).ok()).ok().flatten()
        }
        Err(p) => {
            ctx.fail("panic", format!("panic on a valid header: {p}"), case.into());
            None
        }
    }
}

fn header_case(ctx: &mut Ctx, sub: u64) {
    let mut rng = Rng::new(sub);
    let h = gen_header(&mut rng);
    let case = format!("hdr {sub}");
    let text = oracle_header(ctx, &h, &case);
    let n = h.infos().len() + h.filters().len() + h.formats().len() + h.alternative_alleles().len() + h.contigs().len() + h.other_records().len();
    ctx.eval(if n >= 2 { Some(fnv(dump_header(&h).as_bytes())) } else { None });
    ctx.bump(&format!("header_lines_{}", n.min(12)));
    if header_has_idx(&h) { ctx.bump("header_with_idx"); }
    if let Some(t) = text {
        header_corr(ctx, &t);
        if rng.chance(1, 3) {
            let m = mutate_header(&mut rng, &t);
            ctx.bump("mutated_header");
            header_corr(ctx, &m);
        }
    }
}

fn mutate_header(rng: &mut Rng, text: &str) -> String {
    let mut lines: Vec<String> = text.lines().map(String::from).collect();
    if lines.is_empty() {
        return text.into();
    }
    let k = rng.below(lines.len() as u64) as usize;
    match rng.below(5) {
        0 => { let l = lines[k].clone(); lines.insert(k, l); }
        1 => { lines.remove(k); }
        2 => { if lines.len() >= 2 { lines.swap(0, k); } }
        _ => {
            let mut b = lines[k].clone().into_bytes();
            if !b.is_empty() {
                let i = rng.below(b.len() as u64) as usize;
                if b[i] < 0x80 && (i + 1 >= b.len() || b[i + 1] < 0x80 || b[i + 1] >= 0xc0) {
                    if rng.chance(1, 2) { b.remove(i); } else { b.insert(i, *rng.pick(&[b',', b'"', b'\\', b'>', b'<', b'=', b'#', b'\t'])); }
                }
            }
            lines[k] = String::from_utf8(b).unwrap_or_default();
        }
    }
    let mut s = lines.join("\n");
    s.push('\n');
    s
}

fn header_text_case(ctx: &mut Ctx, text: &str, case: &str) {
    // text-born values (PEDIGREE id tags, IDX, META): parse → write → parse must be the identity
    let res = guarded(|| -> Result<(), (String, String)> {
        let Ok(h) = real_read_header(text) else { return Ok(()) };
        let tag = header_defect_tag(&h);
        let t2 = real_write_header(&h).map_err(|e| (format!("header-roundtrip{tag}"), format!("writer rejected a parsed header: {e}")))?;
        let back = real_read_header(&t2).map_err(|e| (format!("header-roundtrip{tag}"), format!("parser rejects the writer's output ({e}): {t2:?}")))?;
        let (a, b) = (dump_header(&h), dump_header(&back));
        if a != b {
            return Err((format!("header-roundtrip{tag}"), format!("header {text:?} is rewritten as {t2:?} which reads back as {b} instead of {a}")));
        }
        Ok(())
    });
    ctx.eval(Some(fnv(text.as_bytes())));
    match res {
        Ok(Ok(())) => {}
        Ok(Err((class, t))) => ctx.fail(&class, t, case.into()),
        Err(p) => ctx.fail("panic", format!("panic: {p}"), case.into()),
    }
    header_corr(ctx, text);
}

// ------------------------------------------------------------------------------------------
// hand-written boundary cases (run first, on every run)

const H43: &str = "##fileformat=VCFv4.3\n##INFO=<ID=C,Number=1,Type=Character,Description=\"c\">\n##INFO=<ID=CA,Number=.,Type=Character,Description=\"c\">\n##INFO=<ID=S,Number=1,Type=String,Description=\"s\">\n##INFO=<ID=SA,Number=.,Type=String,Description=\"s\">\n##INFO=<ID=I,Number=1,Type=Integer,Description=\"i\">\n##INFO=<ID=IA,Number=R,Type=Integer,Description=\"i\">\n##INFO=<ID=F,Number=1,Type=Float,Description=\"f\">\n##INFO=<ID=FA,Number=A,Type=Float,Description=\"f\">\n##INFO=<ID=FL,Number=0,Type=Flag,Description=\"f\">\n##FORMAT=<ID=GT,Number=1,Type=String,Description=\"g\">\n##FORMAT=<ID=FC,Number=1,Type=Character,Description=\"g\">\n##FORMAT=<ID=DP,Number=1,Type=Integer,Description=\"g\">\n##FORMAT=<ID=AD,Number=R,Type=Integer,Description=\"g\">\n##FORMAT=<ID=FS,Number=1,Type=String,Description=\"g\">\n#CHROM\tPOS\tID\tREF\tALT\tQUAL\tFILTER\tINFO\tFORMAT\ts0\ts1\n";
const H43_NOSAMPLES: &str = "##fileformat=VCFv4.3\n##INFO=<ID=S,Number=1,Type=String,Description=\"s\">\n##INFO=<ID=SVLEN,Number=.,Type=Integer,Description=\"s\">\n#CHROM\tPOS\tID\tREF\tALT\tQUAL\tFILTER\tINFO\n";
const H45: &str = "##fileformat=VCFv4.5\n##INFO=<ID=SVLEN,Number=A,Type=Integer,Description=\"s\">\n##FORMAT=<ID=GT,Number=1,Type=String,Description=\"g\">\n##FORMAT=<ID=LEN,Number=1,Type=Integer,Description=\"g\">\n#CHROM\tPOS\tID\tREF\tALT\tQUAL\tFILTER\tINFO\tFORMAT\ts0\ts1\n";
const H42: &str = "##fileformat=VCFv4.2\n##INFO=<ID=END,Number=1,Type=Integer,Description=\"e\">\n##FORMAT=<ID=GT,Number=1,Type=String,Description=\"g\">\n#CHROM\tPOS\tID\tREF\tALT\tQUAL\tFILTER\tINFO\tFORMAT\ts0\n";

/// (header, line, inside the property's quantifier when it parses)
const LINE_CORPUS: &[(&str, &str, bool)] = &[
    // F18: a sample that is a lone `.` is a sample without values
    (H43, "sq0\t1\t.\tA\t.\t.\t.\t.\tGT\t.\t0/1", true),
    (H43, "sq0\t1\t.\tA\t.\t.\t.\t.\tGT:DP\t.\t.", true),
    // percent-encoded reserved characters in Character values (INFO and FORMAT, scalar and array)
    (H43, "sq0\t1\t.\tA\t.\t.\t.\tC=%3B\tGT\t0/1\t.", true),
    (H43, "sq0\t1\t.\tA\t.\t.\t.\tCA=a,%2C,.\tGT:FC\t0/1:%3A\t0|1:x", true),
    (H43, "sq0\t1\t.\tA\t.\t.\t.\tC=%\tGT\t0/1\t0", false),
    // strings: the lone-dot rule, every reserved character, invalid escapes are copied
    (H43, "sq0\t1\t.\tA\t.\t.\t.\tS=%2E;SA=%2E,.,a%3Bb%3D%25%2C%0D%0A%09,%zz\tGT:FS\t0/1:%3A%2E\t1:%2E", true),
    (H43, "sq0\t1\t.\tA\t.\t.\t.\tS=%FF\tGT\t0/1\t0", false),
    // numbers
    (H43, "sq0\t1\t.\tA\tC,G\t0\tPASS\tI=-2147483640;IA=1,.,2147483647;F=1e-05;FA=NaN,-inf;FL\tGT:DP:AD\t0/1:7:1,.,3\t1|2:.:.", true),
    (H43, "sq0\t1\t.\tA\tC\t1e3\tq10;s50\tI=+5;F=.5;FL=.\tGT\t./.\t.|1", true),
    (H43, "sq0\t1\t.\tA\tC\t.\t.\tI=2147483648\tGT\t0\t0", false),
    (H43, "sq0\t0\trs1;rs2\tacgtn\t<DEL>,]13:123456]T,*\t29.5\tPASS\tFL;u_x;u_y=.;u_z=a b\tGT\t0/1/2\t0", true),
    // genotypes
    (H43, "sq0\t1\t.\tA\tC\t.\t.\t.\tGT\t0\t|1", true),
    (H43, "sq0\t1\t.\tA\tC\t.\t.\t.\tGT\t/0\t0/1|2", true),
    (H43, "sq0\t1\t.\tA\tC\t.\t.\t.\tGT\t0//1\t0", false),
    (H43, "sq0\t1\t.\tA\tC\t.\t.\t.\tGT\t0/\t0", false),
    (H43, "sq0\t1\t.\tA\tC\t.\t.\t.\tGT\t-1/0\t0", false),
    (H43, "sq0\t1\t.\tA\tC\t.\t.\t.\tGT\t+1/0\t0", true),
    (H45, "sq0\t1\t.\tA\t<DEL>\t.\t.\tSVLEN=100\tGT:LEN\t/0/1:5\t|1:.", true),
    (H45, "sq0\t10\t.\tACGT\t<*>,<DEL>\t.\t.\tSVLEN=.,2\tGT:LEN\t0|1:300\t0/1:7", true),
    (H45, "sq0\t10\t.\tACGT\t<DEL>\t.\t.\tSVLEN=-5\tGT\t0\t0", true),
    (H42, "sq0\t5\t.\tACGT\t<DEL>\t.\t.\tEND=100\tGT\t0/1", true),
    (H42, "sq0\t5\t.\tACGT\t<DEL>\t.\t.\tEND=.\tGT\t0/1", true),
    (H42, "sq0\t5\t.\tACGT\t<DEL>\t.\t.\tEND=0\tGT\t0/1", true),
    // no samples; extra / missing columns
    (H43_NOSAMPLES, "sq0\t1\t.\tA\t.\t.\t.\t.", true),
    (H43_NOSAMPLES, "sq0\t1\t.\tA\t.\t.\t.\tS=a\tGT\t0/1", false),
    (H43_NOSAMPLES, "sq0\t1\t.\tA\t.\t.\t.\t.\t", false),
    (H43, "sq0\t1\t.\tA\t.\t.\t.\t.", false),
    (H43, "sq0\t1\t.\tA\t.\t.\t.\t.\tGT\t0/1", false),
    (H43, "sq0\t1\t.\tA\t.\t.\t.\t.\tGT\t0/1\t0\t1", false),
    (H43, "sq0\t1\t.\tA\t.\t.\t.\t.\t.\t.\t.", false),
    (H43, "sq0\t1\t.\tA\t.\t.\t.\t.\tGT\t0/1:5\t0", false),
    (H43, "sq0\t1\t.\tA\t.\t.\t.\t.\tGT:GT\t0/1\t0", false),
    (H43, "sq0\t1\t.\tA\t.\t.\t.\t.\tDP:GT\t1:0/1\t.", false),
    // malformed fixed fields
    (H43, "", false),
    (H43, "sq0", false),
    (H43, "sq0\t\t.\tA\t.\t.\t.\t.\tGT\t0\t0", false),
    (H43, "sq0\t00\t.\tA\t.\t.\t.\t.\tGT\t0\t0", false),
    (H43, "sq0\t1\t\tA\t.\t.\t.\t.\tGT\t0\t0", false),
    (H43, "sq0\t1\ta;a\tA\t.\t.\t.\t.\tGT\t0\t0", false),
    (H43, "sq0\t1\ta;\tA\t.\t.\t.\t.\tGT\t0\t0", false),
    (H43, "sq0\t1\t.\t\t.\t.\t.\t.\tGT\t0\t0", false),
    (H43, "sq0\t1\t.\tA\t\t.\t.\t.\tGT\t0\t0", false),
    (H43, "sq0\t1\t.\tA\tC,\t.\t.\t.\tGT\t0\t0", false),
    (H43, "sq0\t1\t.\tA\t.\t\t.\t.\tGT\t0\t0", false),
    (H43, "sq0\t1\t.\tA\t.\tx\t.\t.\tGT\t0\t0", false),
    (H43, "sq0\t1\t.\tA\t.\t.\t\t.\tGT\t0\t0", false),
    (H43, "sq0\t1\t.\tA\t.\t.\tq;q\t.\tGT\t0\t0", false),
    (H43, "sq0\t1\t.\tA\t.\t.\t.\t\tGT\t0\t0", false),
    (H43, "sq0\t1\t.\tA\t.\t.\t.\tI=1;I=2\tGT\t0\t0", false),
    (H43, "sq0\t1\t.\tA\t.\t.\t.\tI=1;\tGT\t0\t0", false),
    (H43, "sq0\t1\t.\tA\t.\t.\t.\tI\tGT\t0\t0", false),
    (H43, "sq0\t1\t.\tA\t.\t.\t.\tI=\tGT\t0\t0", false),
    (H43, "sq0\t1\t.\tA\t.\t.\t.\tS=\tGT\t0\t0", false),
    (H43, "sq0\t1\t.\tA\t.\t.\t.\tFL=1\tGT\t0\t0", false),
    (H43, "sq0\t1\t.\tA\t.\t.\t.\t=1\tGT\t0\t0", false),
    (H43, "sq0\t1\t.\tA\t.\t.\t.\tS=a=b\tGT\t0\t0", false),
    (H43, "sq0\t18446744073709551615\t.\tAC\t.\t.\t.\t.\tGT\t0\t0", true),
    (H43, "sq0\t18446744073709551616\t.\tA\t.\t.\t.\t.\tGT\t0\t0", false),
    (H43, "sq0\t1\t.\tA\t.\t.\t.\t.\tGT\t0\t0\r", false),
];

pub(super) fn hc_of_text(text: &str) -> Option<Hc> {
    let header = real_read_header(text).ok()?;
    let ver = ver_of(&header);
    Some(Hc { header, ver, infos: vec![], formats: vec![] })
}

fn corpus(ctx: &mut Ctx, only: Option<usize>) {
    for (i, (ht, line, valid)) in LINE_CORPUS.iter().enumerate() {
        if only.is_some_and(|k| k != i) {
            continue;
        }
        let Some(hc) = hc_of_text(ht) else {
            ctx.fail("corpus", format!("corpus header {i} does not parse"), format!("corpus {i}"));
            continue;
        };
        line_corr(ctx, &hc, line);
        ctx.bump("corpus_line");
        // a line that parses yields a record in the parser's image; when it is inside the quantifier
        // the property applies to it
        if let Ok(Ok(r)) = guarded(|| real_eager(&hc.header, line)) {
            rec_corr(ctx, &hc, &r);
            if *valid {
                // first-allele phasing / lone-dot normal forms are applied by `norm` and the generator
                // convention: compare against the re-parse of the re-written line
                let mut n = r.clone();
                if hc.ver < (4, 4) {
                    let keys = n.samples().keys().clone();
                    let mut values: Vec<Vec<Option<SValue>>> = n.samples().values().map(|s| s.values().to_vec()).collect();
                    for v in values.iter_mut() {
                        for x in v.iter_mut() {
                            if let Some(SValue::Genotype(g)) = x {
                                let p = implied_first(g.as_ref());
                                if let Some(a) = g.as_mut().first_mut() {
                                    *a.phasing_mut() = p;
                                }
                            }
                        }
                    }
                    *n.samples_mut() = Samples::new(keys, values);
                }
                oracle_record(ctx, &hc, &n, &format!("corpus {i}"));
                ctx.eval(Some(fnv(line.as_bytes())));
            }
        }
    }
    if only.is_none() {
        for (i, t) in HEADER_CORPUS.iter().enumerate() {
            header_text_case(ctx, t, &format!("hcorpus {i}"));
            ctx.bump("corpus_header");
        }
    }
}

pub fn run(ctx: &mut Ctx) {
    if let Some(case) = ctx.replay_only.clone() {
        if super::c09_header::replay(ctx, &case) { return; }
        if super::c09_lazyany::replay(ctx, &case) { return; }
        let sub: u64 = case.get(1).and_then(|s| s.parse().ok()).unwrap_or(0);
        match case.first().map(|s| s.as_str()) {
            Some("rec") => record_case(ctx, sub, true),
            Some("hdr") => header_case(ctx, sub),
            Some("corpus") => corpus(ctx, Some(sub as usize)),
            Some("hcorpus") => {
                if let Some(t) = HEADER_CORPUS.get(sub as usize) {
                    header_text_case(ctx, t, &format!("hcorpus {sub}"));
                }
            }
            _ => {}
        }
        return;
    }
    corpus(ctx, None);
    let n = ctx.n(900, 60_000);
    for it in 0..n {
        record_case(ctx, ctx.seed.wrapping_mul(1_000_003).wrapping_add(it), true);
    }
    let n = ctx.n(250, 20_000);
    for it in 0..n {
        header_case(ctx, ctx.seed.wrapping_mul(1_000_211).wrapping_add(it));
    }
    super::c09_header::run(ctx);
    super::c09_lazyany::run(ctx);
    ctx.sample(|| "c09 line <header ctx> <float tables> <hex of: sq0 1 . A . . . C=%3B GT 0/1 .> => e=… l=… end=1/1".into());
}
