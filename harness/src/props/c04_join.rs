//! C04, joined — the whole-file indexer + query end to end, and the chunk reader over BGZF blocks.
//!
//! Correspondence requests (Lean side: `Noodles/Span/DriverC04Join.lean`):
//!   c04 join chunks <kind> <ms> <d> <nref> <file> <end> <q> <qs> <qe>
//!       real `Indexer::add_record` over a WHOLE synthetic file (several references, unplaced records,
//!       sometimes out of reference order), `build(nref)`, `BinningIndex::query(q, interval)`
//!   c04 join q aln <kind> <ms> <d> <nref> <file> <end> <q> <qs> <qe>
//!       real BAM file, `bam::fs::index` (BAI) / CSI indexer, `Reader::query(...).records()`:
//!       the model gets POS + CIGAR of every record of the file and answers with global record ids
//!   c04 join q var bin <major> <minor> 14 5 <nref> <file> <end> <q> <qs> <qe>
//!       real BCF file (4.3 with END, 4.5 with SVLEN), `bcf::fs::index`, `Reader::query(...).records()`
//!   c04 join q feat <kind> <ms> <d> <nref> <file> <end> <q> <qs> <qe>
//!       bgzipped GFF-like text, Indexer with a tabix header, `csi::io::IndexedReader::query`
//!       (`csi::io::Query` + `IndexedRecords` + `FilterByRegion`)
//!   c04 join chunk <layout> <hdr> <lens> <preops> <j> <k>
//!       real `csi::io::Query` over a real BGZF stream (blocks of chosen sizes, empty members in
//!       between) holding length-prefixed records: observed virtual positions + records delivered
//!   c04 join bgzf <kind> <ms> <d> <nref> <layout> <hdr> <file> <q> <qs> <qe>
//!       the BAM query again, the model running on the file's BGZF block layout (its record offsets
//!       are the model's own `scanTells`)
//! Oracle: query = scan (`join-query`), a chunk [o_j, o_k) serves exactly records j..k-1
//! (`chunk-reader`), whole-file indexer + chunks serve every overlapping record (`join-synthetic`).
use crate::common::*;
use noodles_bam as bam;
use noodles_bcf as bcf;
use noodles_bgzf as bgzf;
use noodles_core::{region::Interval, Position, Region};
use noodles_csi::{
    self as csi,
    binning_index::{
        index::reference_sequence::{bin::Chunk, index::BinnedIndex, index::LinearIndex},
        BinningIndex, Indexer,
    },
};
use noodles_sam::{
    self as sam,
    alignment::{
        record::cigar::{op::Kind, Op},
        RecordBuf,
    },
};
use noodles_vcf as vcf;
use std::io::{self, Read as _, Write as _};

use super::c04::{gen_records, GRec, Gen};

fn maxpos(ms: u8, d: u8) -> usize {
    (1usize << (ms as usize + 3 * d as usize)) - 1
}
fn arg_opt(v: Option<usize>) -> String {
    v.map(|n| n.to_string()).unwrap_or_else(|| "-".into())
}
fn fmt_ids<T: ToString>(v: &[T]) -> String {
    if v.is_empty() { "-".into() } else { v.iter().map(|x| x.to_string()).collect::<Vec<_>>().join(",") }
}
fn fmt_chunks(cs: &[Chunk]) -> String {
    if cs.is_empty() {
        return "-".into();
    }
    cs.iter().map(|c| format!("{}:{}", u64::from(c.start()), u64::from(c.end()))).collect::<Vec<_>>().join(",")
}
fn interval_of(q: (Option<usize>, Option<usize>)) -> Interval {
    let p = |n: usize| Position::try_from(n).unwrap();
    match q {
        (Some(s), Some(e)) => Interval::from(p(s)..=p(e)),
        (Some(s), None) => Interval::from(p(s)..),
        (None, Some(e)) => Interval::from(..=p(e)),
        (None, None) => Interval::from(..),
    }
}
fn overlaps(s: usize, e: usize, q: (Option<usize>, Option<usize>)) -> bool {
    q.1.map(|qe| s <= qe).unwrap_or(true) && q.0.map(|qs| qs <= e).unwrap_or(true)
}
fn kind_index(k: Kind) -> usize {
    match k {
        Kind::Match => 0,
        Kind::Insertion => 1,
        Kind::Deletion => 2,
        Kind::Skip => 3,
        Kind::SoftClip => 4,
        Kind::HardClip => 5,
        Kind::Pad => 6,
        Kind::SequenceMatch => 7,
        Kind::SequenceMismatch => 8,
    }
}

// ------------------------------------------------------------------ join chunks (synthetic, whole file)

struct SynRec {
    ctx: Option<(usize, usize, usize)>,
    off: u64,
}

fn syn_word(recs: &[SynRec]) -> String {
    if recs.is_empty() {
        return "-".into();
    }
    recs.iter()
        .map(|r| match r.ctx {
            Some((rid, s, e)) => format!("{rid}:{}:{s}:{e}", r.off),
            None => format!("u:{}:0:0", r.off),
        })
        .collect::<Vec<_>>()
        .join(",")
}

fn syn_index<I>(ms: u8, d: u8, nref: usize, recs: &[SynRec], end_off: u64) -> io::Result<csi::binning_index::Index<I>>
where
    I: csi::binning_index::index::reference_sequence::Index + Default,
{
    let mut ix = Indexer::<I>::new(ms, d);
    for (i, r) in recs.iter().enumerate() {
        let next = recs.get(i + 1).map(|n| n.off).unwrap_or(end_off);
        let chunk = Chunk::new(bgzf::VirtualPosition::from(r.off), bgzf::VirtualPosition::from(next));
        let c = r.ctx.map(|(rid, s, e)| (rid, Position::try_from(s).unwrap(), Position::try_from(e).unwrap(), true));
        ix.add_record(c, chunk)?;
    }
    Ok(ix.build(nref))
}

fn syn_queries(ctx: &mut Ctx, rng: &mut Rng, ms: u8, d: u8, nref: usize, recs: &[SynRec], end_off: u64, sorted: bool, case: &str) {
    let limit = maxpos(ms, d);
    let fw = syn_word(recs);
    let max_rid = recs.iter().filter_map(|r| r.ctx.map(|c| c.0)).max().unwrap_or(0);
    let kinds: &[&str] = if ms == 14 { &["lin", "bin"] } else { &["bin"] };
    for &kind in kinds {
        let lin = if kind == "lin" { Some(guarded(|| syn_index::<LinearIndex>(ms, d, nref, recs, end_off))) } else { None };
        let bin = if kind == "bin" { Some(guarded(|| syn_index::<BinnedIndex>(ms, d, nref, recs, end_off))) } else { None };
        let built_err: Option<String> = match (&lin, &bin) {
            (Some(Ok(Err(e))), _) | (_, Some(Ok(Err(e)))) => Some(errclass(e).into()),
            (Some(Err(_)), _) | (_, Some(Err(_))) => Some("panic".into()),
            _ => None,
        };
        ctx.bump(&format!("join_chunks_index_{}", if built_err.is_some() { "refused" } else { "built" }));
        let nq = if built_err.is_some() { 1 } else { 6 };
        for _ in 0..nq {
            let q = match rng.below(8) {
                0 => max_rid.max(nref) + rng.below(2) as usize, // out of range (or just inside)
                _ => rng.below((max_rid.max(nref.max(1) - 1) + 1) as u64) as usize,
            };
            let on_q: Vec<(usize, usize)> = recs.iter().filter_map(|r| r.ctx.filter(|c| c.0 == q).map(|c| (c.1, c.2))).collect();
            let iv = match rng.below(10) {
                0 => (None, None),
                1 => (Some(1 + rng.below(limit as u64) as usize), None),
                2 => (None, Some(1 + rng.below(limit as u64) as usize)),
                3 => (Some(limit + 1 + rng.below(5) as usize), None), // beyond the geometry
                _ => {
                    let a = if !on_q.is_empty() && rng.chance(2, 3) {
                        let r = *rng.pick(&on_q);
                        *rng.pick(&[r.0, r.1, (r.0 + r.1) / 2, (r.1 + 1).min(limit)])
                    } else {
                        1 + rng.below(limit as u64) as usize
                    };
                    let b = (a + *rng.pick(&[0usize, 1, 100, 20_000, 1 << 20]) % limit.max(1)).min(limit);
                    (Some(a), Some(b))
                }
            };
            let req = format!("c04 join chunks {kind} {ms} {d} {nref} {fw} {end_off} {q} {} {}", arg_opt(iv.0), arg_opt(iv.1));
            let got: Result<io::Result<Vec<Chunk>>, String> = match (&lin, &bin) {
                (Some(Ok(Ok(ix))), _) => guarded(|| ix.query(q, interval_of(iv))),
                (_, Some(Ok(Ok(ix)))) => guarded(|| ix.query(q, interval_of(iv))),
                _ => Err("unbuilt".into()),
            };
            let ans = match (&built_err, &got) {
                (Some(e), _) => e.clone(),
                (None, Ok(Ok(cs))) => format!("chunks={}", fmt_chunks(cs)),
                (None, Ok(Err(e))) => errclass(e).into(),
                (None, Err(_)) => "panic".into(),
            };
            ctx.bump(&format!("join_chunks_{}", if ans.starts_with("chunks=-") { "empty" } else if ans.starts_with("chunks") { "nonempty" } else { ans.as_str() }));
            ctx.corr(req, ans);
            // oracle: in a file in reference order the chunks reach every overlapping record of q,
            // and serving + filtering by (reference, span) gives the scan
            if let (true, Ok(Ok(cs))) = (sorted, &got) {
                let served: Vec<usize> = (0..recs.len()).filter(|&i| cs.iter().any(|c| u64::from(c.start()) <= recs[i].off && recs[i].off < u64::from(c.end()))).collect();
                let keep = |i: &usize| recs[*i].ctx.map(|c| c.0 == q && overlaps(c.1, c.2, iv)).unwrap_or(false);
                let gotr: Vec<usize> = served.into_iter().filter(keep).collect();
                let expect: Vec<usize> = (0..recs.len()).filter(keep).collect();
                ctx.eval(if on_q.len() >= 2 { Some(fnv(format!("{case} {kind} {q} {iv:?}").as_bytes())) } else { None });
                if gotr != expect {
                    ctx.fail("join-synthetic", format!("whole-file indexer + query ({kind}, {ms},{d}) sq{q}:{iv:?}: chunks {} serve {gotr:?}, a scan keeps {expect:?}", fmt_chunks(cs)), case.into());
                    return;
                }
            }
        }
    }
}

fn syn_case(ctx: &mut Ctx, sub: u64) {
    let mut rng = Rng::new(sub ^ 0x101);
    let case = format!("join-chunks {sub}");
    let (ms, d) = *rng.pick(&[(14u8, 5u8), (14, 5), (14, 6), (12, 5), (16, 4), (10, 6), (4, 2), (3, 3)]);
    let limit = maxpos(ms, d);
    let nref = rng.below(5) as usize;
    let groups = 1 + rng.below(4) as usize;
    let mut rid = rng.below(2) as usize;
    let mut recs: Vec<SynRec> = vec![];
    let mut off = 100 + rng.below(70_000);
    let mut sorted = true;
    let mut seen_unplaced = false;
    let mut push = |recs: &mut Vec<SynRec>, ctx: Option<(usize, usize, usize)>, rng: &mut Rng| {
        recs.push(SynRec { ctx, off });
        off = if rng.chance(1, 6) { ((off >> 16) + 1 + rng.below(2)) << 16 } else { off + 1 + rng.below(400) };
    };
    for _ in 0..groups {
        let n = rng.below(9) as usize;
        for _ in 0..n {
            let s = 1 + rng.below(limit as u64) as usize;
            let s = if limit > 100_000 && rng.chance(1, 2) { 1 + rng.below(200_000) as usize } else { s };
            let span = *rng.pick(&[1usize, 1, 10, 150, 20_000, 150_000]);
            let e = (s + rng.below(span as u64) as usize).min(limit);
            if seen_unplaced {
                sorted = false;
            }
            push(&mut recs, Some((rid, s, e)), &mut rng);
        }
        if rng.chance(1, 6) {
            push(&mut recs, None, &mut rng); // a record without context in the middle: only counted
            seen_unplaced = true;
        }
        // next reference: usually forward (sometimes skipping ids), rarely backward (refused)
        if rng.chance(1, 8) && rid > 0 {
            if n > 0 {
                // going back is only an error if a record follows; decided below
            }
            rid -= 1;
            // whether a later record really comes is not known here: recompute sortedness at the end
        } else {
            rid += 1 + rng.below(2) as usize;
        }
    }
    for _ in 0..rng.below(3) {
        push(&mut recs, None, &mut rng);
    }
    let end_off = off;
    // reference order as the indexer needs it: ids of the placed records do not decrease
    let ids: Vec<usize> = recs.iter().filter_map(|r| r.ctx.map(|c| c.0)).collect();
    let rid_sorted = ids.windows(2).all(|w| w[0] <= w[1]);
    // the model's hypothesis also wants the unplaced records last
    let first_un = recs.iter().position(|r| r.ctx.is_none()).unwrap_or(recs.len());
    let un_last = recs[first_un..].iter().all(|r| r.ctx.is_none());
    let _ = sorted;
    ctx.bump(&format!("join_chunks_file_{}", if !rid_sorted { "rid-unsorted" } else if !un_last { "unplaced-inside" } else { "sorted" }));
    syn_queries(ctx, &mut rng, ms, d, nref, &recs, end_off, rid_sorted, &case);
}

fn syn_corpus(ctx: &mut Ctx) {
    let case = "join-chunks-corpus";
    let mut rng = Rng::new(7);
    let r = |rid: usize, s: usize, e: usize, off: u64| SynRec { ctx: Some((rid, s, e)), off };
    let u = |off: u64| SynRec { ctx: None, off };
    // empty file; header with more references than the file; first record on reference 3;
    // a skipped reference; decreasing reference id (refused); unplaced only; F4 layout on reference 1
    let files: Vec<(usize, Vec<SynRec>)> = vec![
        (0, vec![]),
        (3, vec![]),
        (4, vec![r(3, 5, 9, 100)]),
        (2, vec![r(0, 5, 9, 100), r(2, 7, 8, 200), r(2, 100_000, 100_001, 300)]),
        (2, vec![r(1, 5, 9, 100), r(0, 7, 8, 200)]),
        (1, vec![u(100), u(200)]),
        (2, vec![r(0, 3, 4, 50), r(1, 1, 100_000, 100), r(1, 50_000, 50_010, 200), u(300)]),
        (1, vec![r(0, 1, 1, 65536), r(0, 1, 1, 131072), r(0, 16384, 16385, 131073)]),
    ];
    for (nref, recs) in files {
        let end_off = recs.last().map(|r| r.off + 100).unwrap_or(0);
        let ids: Vec<usize> = recs.iter().filter_map(|r| r.ctx.map(|c| c.0)).collect();
        let sorted = ids.windows(2).all(|w| w[0] <= w[1]);
        syn_queries(ctx, &mut rng, 14, 5, nref, &recs, end_off, sorted, case);
    }
}

// ------------------------------------------------------------------ join chunk (BGZF chunk reader)

const BGZF_EOF: [u8; 28] = [
    0x1f, 0x8b, 0x08, 0x04, 0x00, 0x00, 0x00, 0x00, 0x00, 0xff, 0x06, 0x00, 0x42, 0x43, 0x02, 0x00, 0x1b, 0x00, 0x03, 0x00, 0x00, 0x00, 0x00, 0x00, 0x00, 0x00, 0x00, 0x00,
];

/// one BGZF member holding `data` (≤ 65280 bytes), without the EOF marker
fn bgzf_member(data: &[u8]) -> Vec<u8> {
    if data.is_empty() {
        return BGZF_EOF.to_vec();
    }
    let mut w = bgzf::io::Writer::new(Vec::new());
    w.write_all(data).unwrap();
    let mut v = w.finish().unwrap();
    v.truncate(v.len() - BGZF_EOF.len());
    v
}

/// (compressed size, data length) of every member of a BGZF byte string
fn bgzf_layout(file: &[u8]) -> Option<Vec<(usize, usize)>> {
    let mut out = vec![];
    let mut p = 0;
    while p < file.len() {
        if p + 18 > file.len() || file[p..p + 4] != [0x1f, 0x8b, 0x08, 0x04] || file[p + 12..p + 14] != [0x42, 0x43] {
            return None;
        }
        let csize = u16::from_le_bytes([file[p + 16], file[p + 17]]) as usize + 1;
        if p + csize > file.len() {
            return None;
        }
        let isize_ = u32::from_le_bytes(file[p + csize - 4..p + csize].try_into().unwrap()) as usize;
        out.push((csize, isize_));
        p += csize;
    }
    Some(out)
}

fn layout_word(l: &[(usize, usize)]) -> String {
    if l.is_empty() { "-".into() } else { l.iter().map(|(c, n)| format!("{c}:{n}")).collect::<Vec<_>>().join(",") }
}

fn vp(v: bgzf::VirtualPosition) -> String {
    format!("{}/{}", v.compressed(), v.uncompressed())
}

struct ChunkCase {
    hdr: usize,
    payloads: Vec<usize>, // payload lengths; encoded length = 4 + payload
    blocks: Vec<usize>,   // data length of every member, in order (0 = empty member)
    pre: Vec<String>,     // `x<n>` read_exact from where the reader is, `s<m>` seek to boundary m
    j: usize,
    k: usize,
}

fn chunk_case(ctx: &mut Ctx, c: &ChunkCase, case: &str) {
    // the uncompressed stream: header bytes, then records `u32 len | u32 index | filler`
    let mut flat = vec![0xEEu8; c.hdr];
    let mut bnd = vec![c.hdr];
    for (m, &pl) in c.payloads.iter().enumerate() {
        flat.extend_from_slice(&(pl as u32).to_le_bytes());
        let mut body = vec![0xA0u8 + (m % 16) as u8; pl];
        if pl >= 4 {
            body[..4].copy_from_slice(&(m as u32).to_le_bytes());
        }
        flat.extend_from_slice(&body);
        bnd.push(flat.len());
    }
    let total: usize = c.blocks.iter().sum();
    if total != flat.len() {
        return;
    }
    let mut file = vec![];
    let mut p = 0;
    for &b in &c.blocks {
        file.extend_from_slice(&bgzf_member(&flat[p..p + b]));
        p += b;
    }
    let Some(layout) = bgzf_layout(&file) else {
        ctx.fail("chunk-reader", "harness: could not parse the BGZF members it wrote".into(), case.into());
        return;
    };
    if layout.iter().map(|x| x.1).collect::<Vec<_>>() != c.blocks {
        // the writer split a member: the layout word is the real one anyway
        ctx.bump("join_chunk_layout_differs");
    }
    let lens: Vec<usize> = c.payloads.iter().map(|p| p + 4).collect();
    let n = lens.len();
    let run = guarded(|| -> io::Result<(Vec<bgzf::VirtualPosition>, Vec<String>, Vec<(usize, usize)>, bgzf::VirtualPosition)> {
        // the indexing pass
        let mut rd = bgzf::io::Reader::new(io::Cursor::new(file.clone()));
        let mut buf = vec![0u8; c.hdr];
        rd.read_exact(&mut buf)?;
        let mut tells = vec![rd.virtual_position()];
        for &pl in &c.payloads {
            let mut l = [0u8; 4];
            rd.read_exact(&mut l)?;
            let mut body = vec![0u8; u32::from_le_bytes(l) as usize];
            debug_assert_eq!(body.len(), pl);
            rd.read_exact(&mut body)?;
            tells.push(rd.virtual_position());
        }
        // the query, on a reader in some other state
        let mut rd = bgzf::io::Reader::new(io::Cursor::new(file.clone()));
        let mut pre_words = vec![];
        for w in &c.pre {
            if let Some(nb) = w.strip_prefix('x') {
                let nb: usize = nb.parse().unwrap();
                let mut b = vec![0u8; nb];
                let _ = rd.read_exact(&mut b);
                pre_words.push(format!("x{nb}"));
            } else if let Some(m) = w.strip_prefix('s') {
                let m: usize = m.parse().unwrap();
                let t = tells[m.min(n)];
                rd.seek(t)?;
                pre_words.push(format!("s{}", vp(t)));
            }
        }
        let chunk = Chunk::new(tells[c.j], tells[c.k]);
        let mut got = vec![];
        {
            let mut q = csi::io::Query::new(&mut rd, vec![chunk]);
            loop {
                let mut l = [0u8; 4];
                match q.read_exact(&mut l) {
                    Ok(()) => {}
                    Err(e) if e.kind() == io::ErrorKind::UnexpectedEof => break,
                    Err(e) => return Err(e),
                }
                let mut body = vec![0u8; u32::from_le_bytes(l) as usize];
                q.read_exact(&mut body)?;
                // name the record by the flat offset of its first byte: found through its index field
                let m = if body.len() >= 4 { u32::from_le_bytes(body[..4].try_into().unwrap()) as usize } else { usize::MAX };
                got.push((m, body.len() + 4));
            }
        }
        Ok((tells, pre_words, got, rd.virtual_position()))
    });
    ctx.eval(Some(fnv(case.as_bytes())));
    ctx.bump("join_chunk_cases");
    let (tells, pre_words, got, at) = match run {
        Ok(Ok(x)) => x,
        Ok(Err(e)) => {
            ctx.fail("chunk-reader", format!("reading records {}..{} through csi::io::Query failed: {e}", c.j, c.k), case.into());
            return;
        }
        Err(p) => {
            ctx.fail("chunk-reader", format!("panic: {p}"), case.into());
            return;
        }
    };
    // records with a payload < 4 bytes carry no index: recover it from the order (they are consecutive)
    let mut ids: Vec<usize> = vec![];
    for (i, (m, _)) in got.iter().enumerate() {
        ids.push(if *m != usize::MAX { *m } else if i == 0 { c.j } else { ids[i - 1] + 1 });
    }
    let expect: Vec<usize> = (c.j..c.k.max(c.j)).collect();
    if ids != expect {
        ctx.fail("chunk-reader", format!("chunk [{}, {}) = records {}..{} delivered records {ids:?}", vp(tells[c.j]), vp(tells[c.k]), c.j, c.k), case.into());
    }
    let recs_word = if got.is_empty() { "-".to_string() } else { ids.iter().zip(&got).map(|(m, g)| format!("{}+{}", bnd[(*m).min(n)], g.1)).collect::<Vec<_>>().join(",") };
    let spans_block = (c.j..c.k.min(n)).any(|m| {
        // does record m cross a member boundary?
        let mut acc = 0;
        layout.iter().any(|b| {
            acc += b.1;
            bnd[m] < acc && acc < bnd[m + 1]
        })
    });
    let ends_at_block_end = {
        let mut acc = 0;
        layout.iter().any(|b| {
            acc += b.1;
            b.1 > 0 && acc == bnd[c.k.min(n)]
        })
    };
    ctx.bump(&format!("join_chunk_{}", if c.j >= c.k { "empty" } else if spans_block { "record-spans-members" } else { "inside-members" }));
    if ends_at_block_end {
        ctx.bump("join_chunk_end_at_member_end");
    }
    if layout.iter().any(|b| b.1 == 0) {
        ctx.bump("join_chunk_layout_with_empty_member");
    }
    ctx.corr(
        format!("c04 join chunk {} {} {} {} {} {}", layout_word(&layout), c.hdr, fmt_ids(&lens), if pre_words.is_empty() { "-".into() } else { pre_words.join(",") }, c.j, c.k),
        format!("tells={} recs={recs_word} at={}", tells.iter().map(|t| vp(*t)).collect::<Vec<_>>().join(","), vp(at)),
    );
}

fn chunk_random(ctx: &mut Ctx, sub: u64) {
    let mut rng = Rng::new(sub ^ 0xc4);
    let case = format!("join-chunk {sub}");
    let hdr = 1 + rng.below(40) as usize;
    let n = 1 + rng.below(12) as usize;
    let big = rng.chance(1, 10);
    let payloads: Vec<usize> = (0..n).map(|_| if big && rng.chance(1, 3) { 20_000 + rng.below(60_000) as usize } else { rng.below(60) as usize }).collect();
    let mut bnd = vec![hdr];
    for p in &payloads {
        bnd.push(bnd.last().unwrap() + p + 4);
    }
    let total = *bnd.last().unwrap();
    // members: cut points, some of them exactly at record boundaries, plus empty members
    let mut cuts: Vec<usize> = vec![];
    for _ in 0..rng.below(6) {
        cuts.push(if rng.chance(1, 2) { *rng.pick(&bnd) } else { rng.below(total as u64 + 1) as usize });
    }
    cuts.push(total);
    cuts.sort();
    let mut blocks = vec![];
    let mut p = 0;
    for c in cuts {
        let mut len = c - p;
        while len > 65280 {
            blocks.push(65280);
            len -= 65280;
        }
        blocks.push(len); // may be 0: an empty member
        p = c;
    }
    if rng.chance(1, 2) {
        blocks.push(0); // EOF marker
    }
    let j = rng.below(n as u64 + 1) as usize;
    let k = if rng.chance(1, 10) { rng.below(n as u64 + 1) as usize } else { (j + 1 + rng.below(4) as usize).min(n) };
    let mut pre = vec![];
    for _ in 0..rng.below(3) {
        pre.push(if rng.chance(1, 2) { format!("x{}", rng.below(total as u64 + 10)) } else { format!("s{}", rng.below(n as u64 + 1)) });
    }
    chunk_case(ctx, &ChunkCase { hdr, payloads, blocks, pre, j, k }, &case);
}

fn chunk_corpus(ctx: &mut Ctx) {
    let case = "join-chunk-corpus";
    let mk = |hdr: usize, payloads: &[usize], blocks: &[usize], pre: &[&str], j: usize, k: usize| ChunkCase { hdr, payloads: payloads.to_vec(), blocks: blocks.to_vec(), pre: pre.iter().map(|s| s.to_string()).collect(), j, k };
    // hdr 1, records of 6, 5, 7, 4 bytes: boundaries 1, 7, 12, 19, 23
    let cases = vec![
        mk(1, &[2, 1, 3, 0], &[23], &[], 0, 4),                   // one member, whole file
        mk(1, &[2, 1, 3, 0], &[23, 0], &[], 1, 3),                // with EOF marker
        mk(1, &[2, 1, 3, 0], &[12, 0, 11, 0], &["x100", "s1"], 1, 3), // record 1 ends at a member end, empty member follows, chunk starts after a seek
        mk(1, &[2, 1, 3, 0], &[12, 0, 11, 0], &[], 2, 4),         // chunk STARTS at a member end followed by an empty member
        mk(1, &[2, 1, 3, 0], &[9, 0, 0, 14], &[], 0, 2),          // record 1 spans members across two empty ones
        mk(1, &[2, 1, 3, 0], &[1, 22], &["x5"], 0, 1),            // first record starts at a member start
        mk(1, &[2, 1, 3, 0], &[19, 4, 0], &[], 3, 4),             // last record alone in its member; chunk ends at end of data
        mk(1, &[2, 1, 3, 0], &[23, 0], &[], 2, 2),                // empty chunk
        mk(1, &[2, 1, 3, 0], &[23, 0], &[], 3, 1),                // reversed chunk
        mk(0, &[2, 1], &[0, 11, 0], &["s2"], 0, 2),               // no header, leading empty member, reader at end of data
        mk(5, &[70_000, 3, 65_272], &[65280, 4729, 7, 65276, 0], &[], 0, 3), // records larger than a member; full-size members
        mk(5, &[70_000, 3, 65_272], &[65280, 4729, 7, 65276, 0], &["x9"], 1, 2),
    ];
    for c in &cases {
        chunk_case(ctx, c, case);
    }
}

// ------------------------------------------------------------------ join q aln / join bgzf (real BAM files)

fn sam_header(g: &Gen) -> sam::Header {
    use sam::header::record::value::{
        map::{self, header::tag::SORT_ORDER, ReferenceSequence},
        Map,
    };
    let hd = Map::<map::Header>::builder().insert(SORT_ORDER, "coordinate").build().unwrap();
    let refs = (0..g.nref)
        .map(|i| (bstr::BString::from(format!("sq{i}")), Map::<ReferenceSequence>::new(std::num::NonZero::new(g.ref_len).unwrap())))
        .collect();
    sam::Header::builder().set_header(hd).set_reference_sequences(refs).build()
}

fn to_record_buf(r: &GRec) -> RecordBuf {
    use sam::alignment::record::{Flags, MappingQuality};
    use sam::alignment::record_buf::{Cigar, QualityScores, Sequence};
    let mut b = RecordBuf::builder().set_name(format!("r{}", r.serial));
    let mut flags = Flags::empty();
    if r.unmapped_flag {
        flags |= Flags::UNMAPPED;
    }
    b = b.set_flags(flags);
    if let Some(rid) = r.rid {
        b = b.set_reference_sequence_id(rid).set_alignment_start(Position::try_from(r.start).unwrap());
        b = b.set_mapping_quality(MappingQuality::new(30).unwrap());
    }
    if !r.cigar.is_empty() {
        let ops: Vec<Op> = r.cigar.iter().map(|(k, n)| Op::new(*k, *n)).collect();
        let n: usize = r.cigar.iter().filter(|(k, _)| k.consumes_read()).map(|(_, n)| n).sum();
        b = b.set_cigar(Cigar::from(ops)).set_sequence(Sequence::from(vec![b'A'; n])).set_quality_scores(QualityScores::from(vec![30u8; n]));
    } else {
        b = b.set_sequence(Sequence::from(b"ACGT".to_vec())).set_quality_scores(QualityScores::from(vec![20u8; 4]));
    }
    b.build()
}

fn serial_of(name: &[u8]) -> usize {
    std::str::from_utf8(&name[1..]).unwrap().parse().unwrap()
}

struct Seen {
    rid: Option<usize>,
    start: Option<usize>,
    cigar_word: String,
    off: u64,
}

fn bam_case(ctx: &mut Ctx, sub: u64) {
    use sam::alignment::io::Write as _;
    use sam::alignment::Record as _;
    let mut rng = Rng::new(sub ^ 0x701);
    let case = format!("join-bam {sub}");
    let (ms, d) = if rng.chance(1, 2) { (14u8, 5u8) } else { *rng.pick(&[(14u8, 6u8), (12, 5), (16, 4), (10, 6)]) };
    let limit = maxpos(14, 5).min(maxpos(ms, d));
    let g = gen_records(&mut rng, limit, true);
    if g.recs.len() > 90 {
        ctx.bump("join_bam_skipped_large");
        return;
    }
    let header = sam_header(&g);
    let path = format!("{}/files/join-{sub}.bam", ctx.dir);
    let wr = guarded(|| -> io::Result<()> {
        let mut w = bam::io::Writer::new(std::fs::File::create(&path)?);
        w.write_header(&header)?;
        for (i, r) in g.recs.iter().enumerate() {
            w.write_alignment_record(&header, &to_record_buf(r))?;
            if i % 7 == 3 {
                // more, smaller BGZF members: records then start at member starts and end at member ends
                w.get_mut().flush()?;
            }
        }
        w.try_finish()
    });
    if let Ok(Err(e)) | Err(e) = wr.map(|r| r.map_err(|e| e.to_string())) {
        ctx.fail("bam-write", format!("writing the BAM failed: {e}"), case.clone());
        return;
    }
    let mut seen: Vec<Seen> = vec![];
    let end_off;
    let mut csi_ix = Indexer::<BinnedIndex>::new(ms, d);
    {
        let mut reader = bam::io::Reader::new(std::fs::File::open(&path).unwrap());
        reader.read_header().unwrap();
        let mut rec = bam::Record::default();
        loop {
            let start = reader.get_ref().virtual_position();
            match reader.read_record(&mut rec) {
                Ok(0) => {
                    end_off = u64::from(start);
                    break;
                }
                Ok(_) => {
                    let end = reader.get_ref().virtual_position();
                    let rid = rec.reference_sequence_id().transpose().unwrap();
                    let st = rec.alignment_start().transpose().unwrap();
                    let en = rec.alignment_end().transpose().unwrap();
                    let ops: Vec<String> = rec.cigar().iter().map(|r| r.map(|op| format!("{}.{}", kind_index(op.kind()), op.len())).unwrap_or_else(|_| "e".into())).collect();
                    seen.push(Seen { rid, start: st.map(usize::from), cigar_word: if ops.is_empty() { "*".into() } else { ops.join(";") }, off: u64::from(start) });
                    let c = match (rid, st, en) {
                        (Some(id), Some(s), Some(e)) => Some((id, s, e, !rec.flags().is_unmapped())),
                        _ => None,
                    };
                    if let Err(e) = csi_ix.add_record(c, Chunk::new(start, end)) {
                        ctx.fail("bam-index", format!("csi indexer rejected record {}: {e}", seen.len() - 1), case.clone());
                        return;
                    }
                }
                Err(e) => {
                    ctx.fail("bam-read", format!("reading back the BAM failed: {e}"), case.clone());
                    return;
                }
            }
        }
    }
    if seen.len() != g.recs.len() {
        ctx.fail("bam-read", format!("{} records written, {} read", g.recs.len(), seen.len()), case.clone());
        return;
    }
    let csi_index: csi::Index = csi_ix.build(g.nref);
    let bai = match guarded(|| bam::fs::index(&path)) {
        Ok(Ok(i)) => i,
        other => {
            ctx.fail("bam-index", format!("bam::fs::index failed: {:?}", other.map(|r| r.map(|_| ()).map_err(|e| e.to_string()))), case.clone());
            return;
        }
    };
    // the whole file for the model: rid, offset (or encoded length), POS, CIGAR
    let word = |second: &dyn Fn(usize) -> u64| -> String {
        if seen.is_empty() {
            return "-".into();
        }
        seen.iter()
            .enumerate()
            .map(|(i, s)| match (s.rid, s.start) {
                (Some(r), Some(a)) => format!("{r}:{}:{a}:{}", second(i), s.cigar_word),
                _ => format!("u:{}:0:*", second(i)),
            })
            .collect::<Vec<_>>()
            .join(",")
    };
    let fw_off = word(&|i| seen[i].off);
    // the BGZF side: member layout, flat offset of every record boundary
    let bytes = std::fs::read(&path).unwrap();
    let layout = bgzf_layout(&bytes);
    let bgzf_words = layout.as_ref().and_then(|l| {
        let mut coff = vec![0usize];
        let mut uoff = vec![0usize];
        for b in l {
            coff.push(coff.last().unwrap() + b.0);
            uoff.push(uoff.last().unwrap() + b.1);
        }
        let flat = |v: u64| -> Option<usize> {
            let (c, u) = ((v >> 16) as usize, (v & 0xffff) as usize);
            coff.iter().position(|x| *x == c).map(|k| uoff[k] + u)
        };
        let mut b: Vec<usize> = vec![];
        for s in &seen {
            b.push(flat(s.off)?);
        }
        b.push(flat(end_off)?);
        let hdr = b[0];
        let lens: Vec<u64> = b.windows(2).map(|w| (w[1] - w[0]) as u64).collect();
        Some((layout_word(l), hdr, lens))
    });
    let offs_word = {
        let mut v: Vec<u64> = seen.iter().map(|s| s.off).collect();
        v.push(end_off);
        fmt_ids(&v)
    };
    let mut shared = bam::io::Reader::new(std::fs::File::open(&path).unwrap());
    let hdr = shared.read_header().unwrap();
    let mut bgzf_budget = 12;
    for rid in 0..g.nref {
        let on_ref: Vec<&GRec> = g.recs.iter().filter(|r| r.rid == Some(rid)).collect();
        let mut regions: Vec<(Option<usize>, Option<usize>)> = vec![(None, None), (Some(limit), None), (None, Some(1))];
        for _ in 0..5 {
            if on_ref.is_empty() {
                regions.push((Some(1 + rng.below(limit as u64) as usize), None));
                break;
            }
            let r = *rng.pick(&on_ref);
            regions.push(match rng.below(8) {
                0 => (Some(r.start), Some(r.start)),
                1 => (Some(r.end), Some(r.end)),
                2 => (Some(r.end), None),
                3 => (Some((r.end + 1).min(limit)), None),
                4 => (None, Some(r.start)),
                5 => (Some(maxpos(ms, d) + 1), None),
                6 => (Some(r.start.saturating_sub(20_000).max(1)), Some((r.start + 20_000).min(limit))),
                _ => (Some((r.start + r.end) / 2), Some((r.start + r.end) / 2)),
            });
        }
        for q in regions {
            for (kind, kms, kd) in [("lin", 14u8, 5u8), ("bin", ms, d)] {
                let region = Region::new(format!("sq{rid}"), interval_of(q));
                let got = guarded(|| -> io::Result<Vec<usize>> {
                    let mut out = vec![];
                    let query = if kind == "lin" { shared.query(&hdr, &bai, &region)? } else { shared.query(&hdr, &csi_index, &region)? };
                    for r in query.records() {
                        out.push(serial_of(r?.name().unwrap()));
                    }
                    Ok(out)
                });
                let beyond = q.0.map(|s| s > maxpos(kms, kd)).unwrap_or(false) || q.1.map(|e| e > maxpos(kms, kd)).unwrap_or(false);
                ctx.eval(if on_ref.len() >= 2 { Some(fnv(format!("{case} {kind} {rid} {q:?}").as_bytes())) } else { None });
                let ans = match &got {
                    Ok(Ok(v)) => format!("recs={}", fmt_ids(v)),
                    Ok(Err(e)) => errclass(e).into(),
                    Err(_) => "panic".into(),
                };
                ctx.bump(&format!("join_q_{kind}_{}", if ans.starts_with("recs=-") { "empty" } else if ans.starts_with("recs") { "hits" } else { ans.as_str() }));
                ctx.corr(format!("c04 join q aln {kind} {kms} {kd} {} {fw_off} {end_off} {rid} {} {}", g.nref, arg_opt(q.0), arg_opt(q.1)), ans.clone());
                if let (Some((lw, h, lens)), true) = (&bgzf_words, bgzf_budget > 0) {
                    bgzf_budget -= 1;
                    let fw_len = word(&|i| lens[i]);
                    ctx.bump("join_bgzf");
                    ctx.corr(format!("c04 join bgzf {kind} {kms} {kd} {} {lw} {h} {fw_len} {rid} {} {}", g.nref, arg_opt(q.0), arg_opt(q.1)), format!("offs={offs_word} {ans}"));
                }
                if beyond {
                    continue;
                }
                let expect: Vec<usize> = on_ref.iter().filter(|r| overlaps(r.start, r.end, q)).map(|r| r.serial).collect();
                match &got {
                    Ok(Ok(v)) if *v == expect => {}
                    Ok(Ok(v)) => {
                        ctx.fail("join-query", format!("{kind} query sq{rid}:{:?}-{:?} returned records {v:?}, a scan with spans from POS + CIGAR keeps {expect:?}", q.0, q.1), case.clone());
                        let _ = std::fs::remove_file(&path);
                        return;
                    }
                    _ => {
                        ctx.fail("join-query", format!("{kind} query sq{rid}:{:?}-{:?} failed: {ans}", q.0, q.1), case.clone());
                        let _ = std::fs::remove_file(&path);
                        return;
                    }
                }
            }
        }
    }
    let _ = std::fs::remove_file(&path);
    ctx.bump("join_files_bam");
    ctx.bump_by("join_records_bam", g.recs.len() as u64);
    if let Some(l) = &layout {
        ctx.bump_by("join_bam_members", l.len() as u64);
    }
}


// ------------------------------------------------------------------ join q var (real BCF files)

fn vcf_header(g: &Gen, v45: bool) -> vcf::Header {
    use vcf::header::record::value::{map::Contig, Map};
    let ff = if v45 { vcf::header::FileFormat::new(4, 5) } else { vcf::header::FileFormat::new(4, 3) };
    let mut b = vcf::Header::builder().set_file_format(ff);
    for i in 0..g.nref {
        b = b.add_contig(format!("sq{i}"), Map::<Contig>::new());
    }
    b = b.add_info(vcf::variant::record::info::field::key::END_POSITION, Map::from((ff, vcf::variant::record::info::field::key::END_POSITION)));
    b = b.add_info(vcf::variant::record::info::field::key::SV_LENGTHS, Map::from((ff, vcf::variant::record::info::field::key::SV_LENGTHS)));
    b.build()
}

/// the record and what `variant_end` will look at: (|REF|, END word, SVLEN word)
fn to_variant(r: &GRec, v45: bool) -> (vcf::variant::RecordBuf, usize, String, String) {
    use vcf::variant::record_buf::{info::field::Value, AlternateBases, Info};
    let span = r.end - r.start + 1;
    let mut b = vcf::variant::RecordBuf::builder()
        .set_reference_sequence_name(format!("sq{}", r.rid.unwrap()))
        .set_variant_start(Position::try_from(r.start).unwrap())
        .set_ids([format!("r{}", r.serial)].into_iter().collect());
    let (ref_len, end_w, sv_w);
    if span <= 40 {
        b = b.set_reference_bases("ACGTTGCA".repeat(6)[..span].to_string()).set_alternate_bases(AlternateBases::from(vec!["A".to_string()]));
        (ref_len, end_w, sv_w) = (span, "a".to_string(), "a".to_string());
    } else {
        b = b.set_reference_bases("N").set_alternate_bases(AlternateBases::from(vec!["<DEL>".to_string()]));
        let info: Info = if v45 {
            [(vcf::variant::record::info::field::key::SV_LENGTHS.to_string(), Some(Value::from(vec![Some(span as i32)])))].into_iter().collect()
        } else {
            [(vcf::variant::record::info::field::key::END_POSITION.to_string(), Some(Value::from(r.end as i32)))].into_iter().collect()
        };
        b = b.set_info(info);
        (ref_len, end_w, sv_w) = if v45 { (1, "a".to_string(), format!("I{span}")) } else { (1, format!("i{}", r.end), "a".to_string()) };
    }
    (b.build(), ref_len, end_w, sv_w)
}

fn bcf_case(ctx: &mut Ctx, sub: u64) {
    use vcf::variant::io::Write as _;
    use vcf::variant::Record as _;
    let mut rng = Rng::new(sub ^ 0xbcf);
    let case = format!("join-bcf {sub}");
    let limit = maxpos(14, 5);
    let g = gen_records(&mut rng, limit, false);
    if g.recs.len() > 90 {
        ctx.bump("join_bcf_skipped_large");
        return;
    }
    let v45 = rng.chance(1, 2);
    let (major, minor) = if v45 { (4, 5) } else { (4, 3) };
    let header = vcf_header(&g, v45);
    let written: Vec<_> = g.recs.iter().map(|r| to_variant(r, v45)).collect();
    let path = format!("{}/files/join-{sub}.bcf", ctx.dir);
    let wr = guarded(|| -> io::Result<()> {
        let mut w = bcf::io::Writer::new(std::fs::File::create(&path)?);
        w.write_header(&header)?;
        for r in &written {
            w.write_variant_record(&header, &r.0)?;
        }
        w.try_finish()
    });
    if let Ok(Err(e)) | Err(e) = wr.map(|r| r.map_err(|e| e.to_string())) {
        ctx.fail("bcf-write", format!("writing failed: {e}"), case.clone());
        return;
    }
    let mut offs: Vec<u64> = vec![];
    let end_off;
    {
        let mut reader = bcf::io::Reader::new(std::fs::File::open(&path).unwrap());
        let hdr = reader.read_header().unwrap();
        let mut rec = bcf::Record::default();
        loop {
            let start = reader.get_ref().virtual_position();
            match reader.read_record(&mut rec) {
                Ok(0) => {
                    end_off = u64::from(start);
                    break;
                }
                Ok(_) => {
                    let i = offs.len();
                    offs.push(u64::from(start));
                    let st = rec.variant_start().transpose().ok().flatten().map(usize::from);
                    let en = rec.variant_end(&hdr).ok().map(usize::from);
                    if i >= g.recs.len() || st != Some(g.recs[i].start) || en != Some(g.recs[i].end) {
                        ctx.fail("span-variant", format!("BCF record {i}: reader reports {st:?}-{en:?}, written otherwise"), case.clone());
                        return;
                    }
                }
                Err(e) => {
                    ctx.fail("bcf-read", format!("reading back failed: {e}"), case.clone());
                    return;
                }
            }
        }
    }
    if offs.len() != g.recs.len() {
        ctx.fail("bcf-read", format!("{} records written, {} read", g.recs.len(), offs.len()), case.clone());
        return;
    }
    let index = match guarded(|| bcf::fs::index(&path)) {
        Ok(Ok(i)) => i,
        other => {
            ctx.fail("bcf-index", format!("bcf::fs::index failed: {:?}", other.map(|r| r.map(|_| ()).map_err(|e| e.to_string()))), case.clone());
            return;
        }
    };
    let fw = if g.recs.is_empty() {
        "-".to_string()
    } else {
        g.recs.iter().zip(&written).enumerate().map(|(i, (r, w))| format!("{}:{}:{}:{}:{}:{}:a", r.rid.unwrap(), offs[i], r.start, w.1, w.2, w.3)).collect::<Vec<_>>().join(",")
    };
    let mut shared = bcf::io::Reader::new(std::fs::File::open(&path).unwrap());
    let hdr = shared.read_header().unwrap();
    for rid in 0..g.nref {
        let on_ref: Vec<&GRec> = g.recs.iter().filter(|r| r.rid == Some(rid)).collect();
        let mut regions: Vec<(Option<usize>, Option<usize>)> = vec![(None, None), (Some(limit), None), (None, Some(1)), (Some(limit + 1), None)];
        for _ in 0..5 {
            if on_ref.is_empty() {
                break;
            }
            let r = *rng.pick(&on_ref);
            regions.push(match rng.below(6) {
                0 => (Some(r.start), Some(r.start)),
                1 => (Some(r.end), Some(r.end)),
                2 => (Some(r.end), None),
                3 => (Some((r.end + 1).min(limit)), None),
                4 => (None, Some(r.start)),
                _ => (Some((r.start + r.end) / 2), Some((r.start + r.end) / 2)),
            });
        }
        for q in regions {
            let region = Region::new(format!("sq{rid}"), interval_of(q));
            let got = guarded(|| -> io::Result<Vec<usize>> {
                let mut out = vec![];
                for r in shared.query(&hdr, &index, &region)?.records() {
                    let r = r?;
                    let ids = r.ids();
                    let ids = std::str::from_utf8(AsRef::<[u8]>::as_ref(&ids.as_ref())).unwrap().to_string();
                    out.push(ids[1..].parse().unwrap());
                }
                Ok(out)
            });
            let beyond = q.0.map(|s| s > limit).unwrap_or(false) || q.1.map(|e| e > limit).unwrap_or(false);
            ctx.eval(if on_ref.len() >= 2 { Some(fnv(format!("{case} {rid} {q:?}").as_bytes())) } else { None });
            let ans = match &got {
                Ok(Ok(v)) => format!("recs={}", fmt_ids(v)),
                Ok(Err(e)) => errclass(e).into(),
                Err(_) => "panic".into(),
            };
            ctx.bump(&format!("join_q_var_{}", if ans.starts_with("recs=-") { "empty" } else if ans.starts_with("recs") { "hits" } else { ans.as_str() }));
            ctx.corr(format!("c04 join q var bin {major} {minor} 14 5 {} {fw} {end_off} {rid} {} {}", g.nref, arg_opt(q.0), arg_opt(q.1)), ans.clone());
            if beyond {
                continue;
            }
            let expect: Vec<usize> = on_ref.iter().filter(|r| overlaps(r.start, r.end, q)).map(|r| r.serial).collect();
            match &got {
                Ok(Ok(v)) if *v == expect => {}
                _ => {
                    ctx.fail("join-query", format!("BCF query sq{rid}:{:?}-{:?} answered {ans}, a scan with spans from REF/END/SVLEN keeps {expect:?}", q.0, q.1), case.clone());
                    let _ = std::fs::remove_file(&path);
                    return;
                }
            }
        }
    }
    let _ = std::fs::remove_file(&path);
    ctx.bump(&format!("join_files_bcf_{major}_{minor}"));
    ctx.bump_by("join_records_bcf", g.recs.len() as u64);
}


// ------------------------------------------------------------------ join q feat (bgzipped GFF-like text + tabix/CSI header)

fn feat_case(ctx: &mut Ctx, sub: u64) {
    use csi::binning_index::index::header::{Builder as HeaderBuilder, ReferenceSequenceNames};
    use std::io::BufRead as _;
    let mut rng = Rng::new(sub ^ 0xfea7);
    let case = format!("join-feat {sub}");
    let (ms, d) = if rng.chance(1, 2) { (14u8, 5u8) } else { *rng.pick(&[(14u8, 6u8), (12, 5), (16, 4)]) };
    let limit = maxpos(14, 5).min(maxpos(ms, d));
    let g = gen_records(&mut rng, limit, false);
    if g.recs.len() > 90 {
        ctx.bump("join_feat_skipped_large");
        return;
    }
    let path = format!("{}/files/join-{sub}.gff.gz", ctx.dir);
    let wr = guarded(|| -> io::Result<()> {
        let mut w = bgzf::io::Writer::new(std::fs::File::create(&path)?);
        for (i, r) in g.recs.iter().enumerate() {
            writeln!(w, "sq{}\t.\tf\t{}\t{}\tr{}", r.rid.unwrap(), r.start, r.end, r.serial)?;
            if i % 5 == 2 {
                w.flush()?;
            }
        }
        w.try_finish()
    });
    if let Ok(Err(e)) | Err(e) = wr.map(|r| r.map_err(|e| e.to_string())) {
        ctx.fail("feat-write", format!("writing failed: {e}"), case.clone());
        return;
    }
    let mut names = ReferenceSequenceNames::new();
    for i in 0..g.nref {
        names.insert(bstr::BString::from(format!("sq{i}")));
    }
    let header = HeaderBuilder::gff().set_reference_sequence_names(names).build();
    let mut lin = Indexer::<LinearIndex>::new(14, 5).set_header(header.clone());
    let mut bin = Indexer::<BinnedIndex>::new(ms, d).set_header(header);
    let mut offs: Vec<u64> = vec![];
    let end_off;
    {
        let mut rd = bgzf::io::Reader::new(std::fs::File::open(&path).unwrap());
        let mut line = String::new();
        loop {
            let start = rd.virtual_position();
            line.clear();
            match rd.read_line(&mut line) {
                Ok(0) => {
                    end_off = u64::from(start);
                    break;
                }
                Ok(_) => {
                    let end = rd.virtual_position();
                    let i = offs.len();
                    offs.push(u64::from(start));
                    let r = &g.recs[i.min(g.recs.len() - 1)];
                    let c = Some((r.rid.unwrap(), Position::try_from(r.start).unwrap(), Position::try_from(r.end).unwrap(), true));
                    if lin.add_record(c, Chunk::new(start, end)).is_err() || bin.add_record(c, Chunk::new(start, end)).is_err() {
                        ctx.fail("feat-index", format!("the indexer rejected line {i}"), case.clone());
                        return;
                    }
                }
                Err(e) => {
                    ctx.fail("feat-read", format!("reading back failed: {e}"), case.clone());
                    return;
                }
            }
        }
    }
    if offs.len() != g.recs.len() {
        ctx.fail("feat-read", format!("{} lines written, {} read", g.recs.len(), offs.len()), case.clone());
        return;
    }
    let fw = if g.recs.is_empty() { "-".to_string() } else { g.recs.iter().enumerate().map(|(i, r)| format!("{}:{}:{}:{}", r.rid.unwrap(), offs[i], r.start, r.end)).collect::<Vec<_>>().join(",") };
    let mut rd_lin = csi::io::IndexedReader::new(std::fs::File::open(&path).unwrap(), lin.build(g.nref));
    let mut rd_bin = csi::io::IndexedReader::new(std::fs::File::open(&path).unwrap(), bin.build(g.nref));
    for rid in 0..g.nref {
        let on_ref: Vec<&GRec> = g.recs.iter().filter(|r| r.rid == Some(rid)).collect();
        let mut regions: Vec<(Option<usize>, Option<usize>)> = vec![(None, None), (Some(limit), None), (None, Some(1)), (Some(maxpos(ms, d) + 1), None)];
        for _ in 0..5 {
            if on_ref.is_empty() {
                break;
            }
            let r = *rng.pick(&on_ref);
            regions.push(match rng.below(6) {
                0 => (Some(r.start), Some(r.start)),
                1 => (Some(r.end), Some(r.end)),
                2 => (Some(r.end), None),
                3 => (Some((r.end + 1).min(limit)), None),
                4 => (None, Some(r.start)),
                _ => (Some((r.start + r.end) / 2), Some((r.start + r.end) / 2)),
            });
        }
        for q in regions {
            for (kind, kms, kd) in [("lin", 14u8, 5u8), ("bin", ms, d)] {
                let region = Region::new(format!("sq{rid}"), interval_of(q));
                let got = guarded(|| -> io::Result<Vec<usize>> {
                    let mut out = vec![];
                    let mut collect = |it: &mut dyn Iterator<Item = io::Result<csi::io::indexed_records::Record>>| -> io::Result<()> {
                        for r in it {
                            let r = r?;
                            let line: &str = r.as_ref();
                            out.push(line.rsplit('\t').next().unwrap()[1..].parse().unwrap());
                        }
                        Ok(())
                    };
                    if kind == "lin" { collect(&mut rd_lin.query(&region)?)? } else { collect(&mut rd_bin.query(&region)?)? }
                    Ok(out)
                });
                let beyond = q.0.map(|s| s > maxpos(kms, kd)).unwrap_or(false) || q.1.map(|e| e > maxpos(kms, kd)).unwrap_or(false);
                ctx.eval(if on_ref.len() >= 2 { Some(fnv(format!("{case} {kind} {rid} {q:?}").as_bytes())) } else { None });
                let ans = match &got {
                    Ok(Ok(v)) => format!("recs={}", fmt_ids(v)),
                    Ok(Err(e)) => errclass(e).into(),
                    Err(_) => "panic".into(),
                };
                ctx.bump(&format!("join_q_feat_{kind}_{}", if ans.starts_with("recs=-") { "empty" } else if ans.starts_with("recs") { "hits" } else { ans.as_str() }));
                ctx.corr(format!("c04 join q feat {kind} {kms} {kd} {} {fw} {end_off} {rid} {} {}", g.nref, arg_opt(q.0), arg_opt(q.1)), ans.clone());
                if beyond {
                    continue;
                }
                let expect: Vec<usize> = on_ref.iter().filter(|r| overlaps(r.start, r.end, q)).map(|r| r.serial).collect();
                match &got {
                    Ok(Ok(v)) if *v == expect => {}
                    _ => {
                        ctx.fail("join-query", format!("feature query ({kind}) sq{rid}:{:?}-{:?} answered {ans}, a scan keeps {expect:?}", q.0, q.1), case.clone());
                        let _ = std::fs::remove_file(&path);
                        return;
                    }
                }
            }
        }
    }
    let _ = std::fs::remove_file(&path);
    ctx.bump("join_files_feat");
    ctx.bump_by("join_records_feat", g.recs.len() as u64);
}

// ------------------------------------------------------------------ entry points

pub fn run(ctx: &mut Ctx) {
    std::fs::create_dir_all(format!("{}/files", ctx.dir)).ok();
    syn_corpus(ctx);
    chunk_corpus(ctx);
    let seed = ctx.seed;
    for it in 0..ctx.n(150, 8_000) {
        syn_case(ctx, seed.wrapping_mul(1_000_187).wrapping_add(it));
    }
    for it in 0..ctx.n(250, 10_000) {
        chunk_random(ctx, seed.wrapping_mul(1_000_193).wrapping_add(it));
    }
    for it in 0..ctx.n(12, 300) {
        bam_case(ctx, seed.wrapping_mul(1_000_199).wrapping_add(it));
    }
    for it in 0..ctx.n(8, 200) {
        bcf_case(ctx, seed.wrapping_mul(1_000_211).wrapping_add(it));
    }
    for it in 0..ctx.n(8, 200) {
        feat_case(ctx, seed.wrapping_mul(1_000_213).wrapping_add(it));
    }
}

/// replay one oracle case; `true` if the case words belong to this module
pub fn replay(ctx: &mut Ctx, case: &[String]) -> bool {
    let Some(suite) = case.first().map(|s| s.as_str()) else { return false };
    std::fs::create_dir_all(format!("{}/files", ctx.dir)).ok();
    let sub: u64 = case.get(1).and_then(|s| s.parse().ok()).unwrap_or(0);
    match suite {
        "join-chunks-corpus" => syn_corpus(ctx),
        "join-chunk-corpus" => chunk_corpus(ctx),
        "join-chunks" => syn_case(ctx, sub),
        "join-chunk" => chunk_random(ctx, sub),
        "join-bam" => bam_case(ctx, sub),
        "join-bcf" => bcf_case(ctx, sub),
        "join-feat" => feat_case(ctx, sub),
        _ => return false,
    }
    true
}
