//! C02 — virtual positions name bytes: tell / seek / gzi vs a flat-array reference.
use super::c01::{gen_payload, make_member, raw_inflate, split_members, stored_member, EOF};
use crate::common::*;
use noodles_bgzf as bgzf;
use std::io::{BufRead, Cursor, Read, Seek, SeekFrom, Write};

#[derive(Clone, Debug)]
pub struct Blk {
    pub csize: usize,
    pub data: Vec<u8>,
}

#[derive(Clone, Debug)]
pub enum Op {
    Read(usize),
    ReadExact(usize),
    FillBuf,
    Consume(usize),
    Seek(u64, u16),
    SeekU(u64),
    Tell,
}

fn compressed_member(data: &[u8], level: u32) -> Vec<u8> {
    let mut c = flate2::Compress::new(flate2::Compression::new(level), false);
    let mut cd = Vec::with_capacity(data.len() + 1024);
    c.compress_vec(data, &mut cd, flate2::FlushCompress::Finish).unwrap();
    make_member(&cd, crc32(data), data.len() as u32)
}

/// a file + its layout
pub fn gen_file(rng: &mut Rng) -> (Vec<u8>, Vec<Blk>) {
    let mut file = vec![];
    let mut layout = vec![];
    if rng.chance(1, 3) {
        // written by the real writer with random flushes
        let mut w = bgzf::io::Writer::new(Vec::new());
        let nchunks = rng.below(6);
        for _ in 0..nchunks {
            let len = *rng.pick(&[0usize, 1, 7, 100, 300, 70_000]);
            let len = if len > 0 { 1 + rng.below(len as u64) as usize } else { 0 };
            let d = gen_payload(rng, len);
            w.write_all(&d).unwrap();
            if rng.chance(1, 2) {
                w.flush().unwrap();
            }
        }
        file = w.finish().unwrap();
        for m in split_members(&file).unwrap() {
            layout.push(Blk { csize: m.whole.len(), data: raw_inflate(m.cdata, m.isize as usize).unwrap() });
        }
        return (file, layout);
    }
    let n = rng.below(7);
    for _ in 0..n {
        let len = match rng.below(12) {
            0 | 1 | 2 => 0, // empty member mid-file
            3 => 65536,
            4 => 65535,
            _ => 1 + rng.below(40) as usize,
        };
        let d = if len >= 65535 { vec![b'a' + rng.below(4) as u8; len] } else { gen_payload(rng, len) };
        let m = if len >= 65535 { compressed_member(&d, 6) } else if rng.chance(1, 2) { stored_member(&d) } else { compressed_member(&d, 1 + rng.below(9) as u32) };
        layout.push(Blk { csize: m.len(), data: d });
        file.extend_from_slice(&m);
    }
    match rng.below(5) {
        0 => {} // no EOF marker
        1 => {
            for _ in 0..2 {
                file.extend_from_slice(&EOF);
                layout.push(Blk { csize: 28, data: vec![] });
            }
        }
        _ => {
            file.extend_from_slice(&EOF);
            layout.push(Blk { csize: 28, data: vec![] });
        }
    }
    (file, layout)
}

pub struct Tab {
    pub coff: Vec<usize>,
    pub uoff: Vec<usize>,
    pub flat: Vec<u8>,
}

pub fn table(layout: &[Blk]) -> Tab {
    let mut coff = vec![0];
    let mut uoff = vec![0];
    let mut flat = vec![];
    for b in layout {
        coff.push(coff.last().unwrap() + b.csize);
        uoff.push(uoff.last().unwrap() + b.data.len());
        flat.extend_from_slice(&b.data);
    }
    Tab { coff, uoff, flat }
}

/// harness's own resolve: virtual position → flat offset
pub fn resolve(layout: &[Blk], t: &Tab, c: u64, u: u16) -> Option<usize> {
    let k = t.coff.iter().position(|&x| x as u64 == c)?;
    let len = layout.get(k).map(|b| b.data.len()).unwrap_or(0);
    if (u as usize) <= len { Some(t.uoff[k] + u as usize) } else { None }
}

pub fn gzi_of(t: &Tab, nblocks: usize) -> Vec<(u64, u64)> {
    (1..nblocks).map(|k| (t.coff[k] as u64, t.uoff[k] as u64)).collect()
}

fn gen_ops(rng: &mut Rng, layout: &[Blk], t: &Tab) -> Vec<Op> {
    let n = 1 + rng.below(24);
    let mut ops = vec![];
    let total = t.flat.len();
    for _ in 0..n {
        let k = rng.below(layout.len() as u64 + 1) as usize;
        let blen = layout.get(k).map(|b| b.data.len()).unwrap_or(0);
        match rng.below(16) {
            0 | 1 | 2 => {
                let n = *rng.pick(&[0usize, 1, 3, 7, 40, 65535, 65536, 70000, blen, blen + 1, blen.saturating_sub(1)]);
                ops.push(Op::Read(n));
            }
            3 | 4 | 5 => {
                let n = *rng.pick(&[0usize, 1, 2, 5, 9, 41, blen, blen + 1, 65536, 65537, 131072, total + 1]);
                ops.push(Op::ReadExact(n));
            }
            6 | 7 => {
                ops.push(Op::FillBuf);
                let c = *rng.pick(&[0usize, 1, 2, blen, blen / 2, blen + 5, 100_000]);
                ops.push(Op::Consume(c));
            }
            8 | 9 | 10 => {
                // seek to a byte boundary: any member, any offset 0..=len
                let u = match rng.below(4) {
                    0 => 0,
                    1 => blen,
                    _ => rng.below(blen as u64 + 1) as usize,
                };
                ops.push(Op::Seek(t.coff[k] as u64, u as u16));
            }
            11 => {
                // offset beyond the member: must be an error, never a panic (formerly F3)
                if blen < 65535 {
                    ops.push(Op::Seek(t.coff[k] as u64, (blen + 1 + rng.below(3) as usize).min(65535) as u16));
                }
            }
            12 | 13 => {
                let pos = match rng.below(4) {
                    0 => t.uoff[k.min(layout.len())],
                    1 => total,
                    _ => rng.below(total as u64 + 1) as usize,
                };
                ops.push(Op::SeekU(pos as u64));
            }
            _ => ops.push(Op::Tell),
        }
    }
    ops
}

fn fmt_bytes(b: &[u8]) -> String {
    if b.len() <= 32 { hex(b) } else { format!("{}:{}", b.len(), crc32(b)) }
}

fn fmt_layout(layout: &[Blk]) -> String {
    if layout.is_empty() {
        return "-".into();
    }
    layout.iter().map(|b| format!("{}:{}", b.csize, hex(&b.data))).collect::<Vec<_>>().join(",")
}

fn fmt_ops(ops: &[Op]) -> String {
    if ops.is_empty() {
        return "-".into();
    }
    ops.iter()
        .map(|o| match o {
            Op::Read(n) => format!("r{n}"),
            Op::ReadExact(n) => format!("x{n}"),
            Op::FillBuf => "b".into(),
            Op::Consume(n) => format!("c{n}"),
            Op::Seek(c, u) => format!("s{c}/{u}"),
            Op::SeekU(p) => format!("u{p}"),
            Op::Tell => "t".into(),
        })
        .collect::<Vec<_>>()
        .join(",")
}

/// run on the real reader; per-op canonical answers + flat-array oracle
fn run_case(ctx: &mut Ctx, file: &[u8], layout: &[Blk], ops: &[Op], case: &str, emit_corr: bool) {
    let t = table(layout);
    let gzi = bgzf::gzi::Index::from(gzi_of(&t, layout.len()));
    let mut r = bgzf::io::Reader::new(Cursor::new(file.to_vec()));
    let mut answers = vec![];
    let mut o: Option<usize> = Some(0); // expected flat cursor (None = unknown after an error we do not pin)
    let mut last_fill: usize = 0;
    let mut prev_v: u64 = 0;
    let total = t.flat.len();
    let mut failed = false;
    for (i, op) in ops.iter().enumerate() {
        let mut sequential = true;
        let res: Result<String, String> = guarded(|| match op {
            Op::Read(n) => {
                let mut buf = vec![0u8; *n];
                match r.read(&mut buf) {
                    Ok(k) => {
                        buf.truncate(k);
                        if let Some(oo) = o {
                            let ok = oo + k <= total && t.flat[oo..oo + k] == buf[..] && (k > 0 || *n == 0 || oo == total);
                            if !ok {
                                return Err(format!("read({n}) at flat offset {oo} returned {k} bytes that are not the stream's next bytes (or 0 before the end)"));
                            }
                            o = Some(oo + k);
                        }
                        Ok(fmt_bytes(&buf))
                    }
                    Err(e) => Ok(errclass(&e).to_string()),
                }
            }
            Op::ReadExact(n) => {
                let mut buf = vec![0u8; *n];
                match r.read_exact(&mut buf) {
                    Ok(()) => {
                        if let Some(oo) = o {
                            if !(oo + n <= total && t.flat[oo..oo + n] == buf[..]) {
                                return Err(format!("read_exact({n}) at flat offset {oo} returned wrong bytes or succeeded past the end"));
                            }
                            o = Some(oo + n);
                        }
                        Ok(fmt_bytes(&buf))
                    }
                    Err(e) => {
                        if let Some(oo) = o {
                            if oo + n <= total {
                                return Err(format!("read_exact({n}) at flat offset {oo} of {total} failed: {e}"));
                            }
                            o = Some(total);
                        }
                        Ok(errclass(&e).to_string())
                    }
                }
            }
            Op::FillBuf => match r.fill_buf() {
                Ok(b) => {
                    let b = b.to_vec();
                    if let Some(oo) = o {
                        let ok = oo + b.len() <= total && t.flat[oo..oo + b.len()] == b[..] && (b.is_empty() == (oo == total));
                        if !ok {
                            return Err(format!("fill_buf at flat offset {oo} returned {} bytes that are not the stream's next bytes (or empty before the end)", b.len()));
                        }
                    }
                    last_fill = b.len();
                    Ok(fmt_bytes(&b))
                }
                Err(e) => Ok(errclass(&e).to_string()),
            },
            Op::Consume(n) => {
                r.consume(*n);
                if let Some(oo) = o {
                    o = Some(oo + (*n).min(last_fill));
                }
                last_fill = 0;
                Ok("ok".into())
            }
            Op::Seek(c, u) => {
                sequential = false;
                let v = bgzf::VirtualPosition::try_from((*c, *u)).unwrap();
                let want = resolve(layout, &t, *c, *u);
                match r.seek(v) {
                    Ok(_) => {
                        // a position that is not a byte boundary (offset > 0 into an empty member) is
                        // outside the property's quantifier: nothing is expected of it but no panic
                        o = want;
                        Ok("ok".into())
                    }
                    Err(e) => {
                        if want.is_some() {
                            return Err(format!("seek to byte boundary ({c},{u}) failed: {e}"));
                        }
                        // failed seek moved the reader to the start of that member
                        o = resolve(layout, &t, *c, 0);
                        Ok(errclass(&e).to_string())
                    }
                }
            }
            Op::SeekU(p) => {
                sequential = false;
                match r.seek_by_uncompressed_position(&gzi, *p) {
                    Ok(_) => {
                        if (*p as usize) <= total {
                            o = Some(*p as usize);
                        } else {
                            o = None;
                        }
                        Ok("ok".into())
                    }
                    Err(e) => {
                        if (*p as usize) < total {
                            return Err(format!("seek_by_uncompressed_position({p}) of {total} failed: {e}"));
                        }
                        o = None;
                        Ok(errclass(&e).to_string())
                    }
                }
            }
            Op::Tell => {
                let (c, u) = r.virtual_position().into();
                Ok(format!("v{c}/{u}"))
            }
        })
        .unwrap_or_else(|p| Err(format!("panic: {p}")));
        match res {
            Ok(a) => {
                let v = guarded(|| r.virtual_position());
                let v = match v {
                    Ok(v) => v,
                    Err(p) => {
                        ctx.fail("reader-flat", format!("virtual_position() panicked after op {i} {op:?}: {p}"), case.into());
                        failed = true;
                        break;
                    }
                };
                let (c, u): (u64, u16) = v.into();
                answers.push(format!("{a}@{c}/{u}#{}", r.position()));
                if let Some(oo) = o {
                    let named = resolve(layout, &t, c, u);
                    if named != Some(oo) {
                        ctx.fail("reader-flat", format!("after op {i} {op:?} the reader reports ({c},{u}) which names flat offset {named:?}, reference cursor is {oo}"), case.into());
                        failed = true;
                        break;
                    }
                } else if let Some(named) = resolve(layout, &t, c, u) {
                    o = Some(named); // re-synchronise after an unpinned outcome
                }
                if sequential && u64::from(v) < prev_v {
                    ctx.fail("reader-flat", format!("virtual position decreased during sequential reading at op {i} {op:?}: {prev_v} -> {}", u64::from(v)), case.into());
                    failed = true;
                    break;
                }
                prev_v = u64::from(v);
            }
            Err(text) => {
                ctx.fail("reader-flat", format!("op {i}: {text}"), case.into());
                failed = true;
                break;
            }
        }
    }
    ctx.eval(if layout.len() >= 2 && ops.len() >= 2 { Some(fnv(case.as_bytes())) } else { None });
    if emit_corr && !failed {
        ctx.corr(format!("c02 ops {} {}", fmt_layout(layout), fmt_ops(ops)), if answers.is_empty() { "-".into() } else { answers.join(" ") });
    }
}

fn writer_tell(ctx: &mut Ctx, sub: u64) {
    let mut rng = Rng::new(sub);
    let case = format!("writer-tell {sub}");
    let mut w = bgzf::io::Writer::new(Vec::new());
    let mut samples: Vec<(bgzf::VirtualPosition, usize)> = vec![];
    let mut payload = vec![];
    let nops = 1 + rng.below(12);
    for _ in 0..nops {
        samples.push((w.virtual_position(), payload.len()));
        let len = *rng.pick(&[1usize, 5, 300, 65495, 65494, 65496, 40_000, 131_000]);
        let len = 1 + rng.below(len as u64) as usize;
        let d = gen_payload(&mut rng, len);
        w.write_all(&d).unwrap();
        payload.extend_from_slice(&d);
        if rng.chance(1, 3) {
            samples.push((w.virtual_position(), payload.len()));
            w.flush().unwrap();
        }
    }
    samples.push((w.virtual_position(), payload.len()));
    let file = w.finish().unwrap();
    let mut r = bgzf::io::Reader::new(Cursor::new(file));
    for (v, n) in samples {
        ctx.eval(Some(fnv(format!("{case} {n}").as_bytes())));
        let got = guarded(|| -> std::io::Result<Vec<u8>> {
            r.seek(v)?;
            let mut out = vec![];
            r.read_to_end(&mut out)?;
            Ok(out)
        });
        match got {
            Ok(Ok(out)) if out == payload[n..] => {}
            Ok(Ok(out)) => {
                ctx.fail("writer-tell", format!("writer position {:?} sampled before byte {n}: seeking there and reading gives {} bytes, expected the {} bytes from byte {n} on", <(u64, u16)>::from(v), out.len(), payload.len() - n), case.clone());
                return;
            }
            Ok(Err(e)) => {
                ctx.fail("writer-tell", format!("seek to writer position {:?} failed: {e}", <(u64, u16)>::from(v)), case.clone());
                return;
            }
            Err(p) => {
                ctx.fail("writer-tell", format!("panic: {p}"), case.clone());
                return;
            }
        }
    }
}

fn indexed_reader(ctx: &mut Ctx, sub: u64) {
    let mut rng = Rng::new(sub);
    let case = format!("indexed {sub}");
    let (file, layout) = gen_file(&mut rng);
    let t = table(&layout);
    let gzi = bgzf::gzi::Index::from(gzi_of(&t, layout.len()));
    let mut r = bgzf::io::IndexedReader::new(Cursor::new(file), gzi);
    let total = t.flat.len();
    for _ in 0..8 {
        if total == 0 {
            break;
        }
        let pos = rng.below(total as u64) as usize;
        let k = (1 + rng.below(70_000) as usize).min(total - pos);
        ctx.eval(Some(fnv(format!("{case} {pos} {k}").as_bytes())));
        let got = guarded(|| -> std::io::Result<Vec<u8>> {
            r.seek(SeekFrom::Start(pos as u64))?;
            let mut buf = vec![0u8; k];
            r.read_exact(&mut buf)?;
            Ok(buf)
        });
        match got {
            Ok(Ok(b)) if b == t.flat[pos..pos + k] => {}
            other => {
                ctx.fail("indexed-reader", format!("IndexedReader seek({pos}) + read_exact({k}) gave {:?}", other.map(|r| r.map(|b| b.len()).map_err(|e| e.to_string()))), case.clone());
                return;
            }
        }
    }
}

/// The multithreaded reader on the same layouts (empty members mid-file included): reading to the end
/// delivers the flat bytes, and a seek to the virtual position of any flat offset followed by a read
/// returns the bytes from that offset on.
fn mt_reader(ctx: &mut Ctx, sub: u64) {
    use bgzf::io::Seek as _;
    let mut rng = Rng::new(sub);
    let case = format!("mt {sub}");
    let (file, layout) = gen_file(&mut rng);
    let t = table(&layout);
    let total = t.flat.len();
    if total > 400_000 {
        return;
    }
    ctx.eval(Some(fnv(case.as_bytes())));
    let flat = t.flat.clone();
    // (compressed offset, in-block offset) of the first byte of every non-empty member, and of a few inner bytes
    let mut targets: Vec<(u64, u16, usize)> = vec![];
    let mut c = 0u64;
    let mut o = 0usize;
    for b in &layout {
        if !b.data.is_empty() {
            targets.push((c, 0, o));
            let u = rng.below(b.data.len() as u64) as usize;
            targets.push((c, u as u16, o + u));
        } else {
            // the canonical position of the byte after an empty member is also (this member, 0)
            targets.push((c, 0, o));
        }
        c += b.csize as u64;
        o += b.data.len();
    }
    let got = guarded(|| -> std::io::Result<Result<(), String>> {
        let mut r = bgzf::io::MultithreadedReader::new(Cursor::new(file.clone()));
        let mut all = vec![];
        r.read_to_end(&mut all)?;
        if all != flat {
            return Ok(Err(format!("read_to_end delivered {} bytes, the members hold {}", all.len(), flat.len())));
        }
        for &(c, u, o) in &targets {
            r.seek_to_virtual_position(bgzf::VirtualPosition::try_from((c, u)).unwrap())?;
            let want = &flat[o..flat.len().min(o + 300)];
            let mut buf = vec![0u8; want.len()];
            r.read_exact(&mut buf)?;
            if buf != want {
                return Ok(Err(format!("after a seek to ({c},{u}) = flat offset {o} the reader delivers other bytes than the file holds there")));
            }
        }
        r.finish().map(|_| ())?;
        Ok(Ok(()))
    });
    match got {
        Ok(Ok(Ok(()))) => ctx.bump("mt_reader_ok"),
        Ok(Ok(Err(text))) => ctx.fail("mt-reader-flat", format!("{text}; layout {}", fmt_layout(&layout)), case),
        Ok(Err(e)) => ctx.fail("mt-reader-flat", format!("the multithreaded reader failed on a well-formed file: {e}; layout {}", fmt_layout(&layout)), case),
        Err(p) => ctx.fail("mt-reader-flat", format!("the multithreaded reader panicked: {p}; layout {}", fmt_layout(&layout)), case),
    }
}

fn case_of(sub: u64) -> (Vec<u8>, Vec<Blk>, Vec<Op>) {
    let mut rng = Rng::new(sub);
    let (file, layout) = gen_file(&mut rng);
    let t = table(&layout);
    let ops = gen_ops(&mut rng, &layout, &t);
    (file, layout, ops)
}

pub fn run(ctx: &mut Ctx) {
    if let Some(case) = ctx.replay_only.clone() {
        let sub: u64 = case.get(1).and_then(|s| s.parse().ok()).unwrap_or(0);
        if super::c02_indexed::replay(ctx, &case) { return; }
        match case.first().map(|s| s.as_str()) {
            Some("ops") => {
                let (file, layout, ops) = case_of(sub);
                run_case(ctx, &file, &layout, &ops, &format!("ops {sub}"), false);
            }
            Some("writer-tell") => writer_tell(ctx, sub),
            Some("indexed") => indexed_reader(ctx, sub),
            Some("mt") => mt_reader(ctx, sub),
            _ => {}
        }
        return;
    }
    // corpus: the shapes of the three historical defects, always first
    corpus(ctx);
    let n = ctx.n(1500, 60_000);
    for it in 0..n {
        let sub = ctx.seed.wrapping_mul(9_000_011).wrapping_add(it);
        let (file, layout, ops) = case_of(sub);
        let big = layout.iter().map(|b| b.data.len()).sum::<usize>() > 100_000;
        run_case(ctx, &file, &layout, &ops, &format!("ops {sub}"), !big || it % 8 == 0);
        ctx.bump(&format!("layout_blocks_{}", layout.len().min(8)));
        if layout.iter().take(layout.len().saturating_sub(1)).any(|b| b.data.is_empty()) {
            ctx.bump("layout_with_empty_member_mid_file");
        }
        if layout.last().map(|b| !b.data.is_empty()).unwrap_or(false) {
            ctx.bump("layout_without_eof_marker");
        }
        if layout.iter().any(|b| b.data.len() == 65536) {
            ctx.bump("layout_with_full_64KiB_block");
        }
        for op in &ops {
            ctx.bump(match op {
                Op::Read(n) if *n >= 65536 => "op_read_direct_path",
                Op::Read(_) => "op_read",
                Op::ReadExact(_) => "op_read_exact",
                Op::FillBuf => "op_fill_buf",
                Op::Consume(_) => "op_consume",
                Op::Seek(..) => "op_seek",
                Op::SeekU(_) => "op_seek_uncompressed",
                Op::Tell => "op_tell",
            });
        }
    }
    let n = ctx.n(60, 2000);
    for it in 0..n {
        writer_tell(ctx, ctx.seed.wrapping_mul(77).wrapping_add(it));
        indexed_reader(ctx, ctx.seed.wrapping_mul(79).wrapping_add(it));
        mt_reader(ctx, ctx.seed.wrapping_mul(83).wrapping_add(it));
    }
    super::c02_indexed::run(ctx);
    ctx.sample(|| "c02 ops 35:6e6f6f646c6573,28:-,31:62677a66,28:- r3,t,s0/5,x4,b,c2,u8,r65536".into());
}

fn corpus(ctx: &mut Ctx) {
    let a = stored_member(b"noodles");
    let e = EOF.to_vec();
    let b = stored_member(b"bgzf");
    // F1: read >= 64 KiB at the end of a file without EOF marker
    let l1 = vec![Blk { csize: a.len(), data: b"noodles".to_vec() }];
    run_case(ctx, &a, &l1, &[Op::Read(65536), Op::Read(65536), Op::Read(65536), Op::Tell], "corpus F1", true);
    // F2: seek to the end-of-file position while a non-empty block is buffered
    run_case(ctx, &a, &l1, &[Op::Read(3), Op::Seek(a.len() as u64, 0), Op::Read(10), Op::Tell], "corpus F2", true);
    // F3: in-block offset beyond the block, then read_exact
    run_case(ctx, &a, &l1, &[Op::Seek(0, 9), Op::ReadExact(1)], "corpus F3", true);
    // empty member mid-file, positions at every boundary
    let mut f = a.clone();
    f.extend_from_slice(&e);
    f.extend_from_slice(&b);
    f.extend_from_slice(&e);
    let l2 = vec![
        Blk { csize: a.len(), data: b"noodles".to_vec() },
        Blk { csize: 28, data: vec![] },
        Blk { csize: b.len(), data: b"bgzf".to_vec() },
        Blk { csize: 28, data: vec![] },
    ];
    let c1 = a.len() as u64;
    let c2 = c1 + 28;
    let c3 = c2 + b.len() as u64;
    run_case(ctx, &f, &l2, &[Op::ReadExact(7), Op::Tell, Op::FillBuf, Op::Consume(4), Op::Tell, Op::Seek(c1, 0), Op::Tell, Op::ReadExact(4), Op::Seek(0, 7), Op::Read(2), Op::Seek(c2, 4), Op::Read(1), Op::Seek(c3, 0), Op::Read(1), Op::SeekU(7), Op::Read(65536), Op::Tell, Op::SeekU(11), Op::Tell], "corpus empty-mid", true);
}
